#!/usr/bin/env python3-vt
import json, jsonschema, glob, sys
m = json.load(open('/verif/MANIFEST.json'))
jsonschema.validate(m, json.load(open('/root/.vp/MANIFEST.schema.json')))
es = json.load(open('/root/.vp/EVIDENCE.schema.json'))
for f in sorted(glob.glob('/verif/evidence/*.json')):
    jsonschema.validate(json.load(open(f)), es)
ids = [json.loads(l)['id'] for l in open('/verif/properties.jsonl')]
claimed = {c['property_id'] for c in m['checks']}
na = {c['property_id'] for c in m.get('not_applicable', [])}
assert claimed | na == set(ids) and not (claimed & na), (claimed, na)
print('manifest + %d evidence files valid; claimed: %s' % (len(glob.glob('/verif/evidence/*.json')), sorted(claimed)))
