#!/usr/bin/env python3
"""Regenerate /verif/MANIFEST.json from manifest.d/_base.json + manifest.d/C*.json.
Properties without a manifest.d file are listed under not_applicable (manifest.d/not_applicable.json
may give a specific reason per id)."""
import json, glob, os
V = os.path.dirname(os.path.dirname(os.path.abspath(__file__)))
m = json.load(open(V + "/manifest.d/_base.json"))
checks = [json.load(open(f)) for f in sorted(glob.glob(V + "/manifest.d/C*.json"))]
m["checks"] = checks
claimed = [c["property_id"] for c in checks]
for e in m["engines"]:
    e["serves_properties"] = claimed
ids = [json.loads(l)["id"] for l in open(V + "/properties.jsonl")]
reasons = {}
p = V + "/manifest.d/not_applicable.json"
if os.path.exists(p):
    reasons = json.load(open(p))
m["not_applicable"] = [{"property_id": i, "reason": reasons.get(i, "not yet built in this session (planned, see DESIGN.md section 8)")}
                       for i in ids if i not in claimed]
json.dump(m, open(V + "/MANIFEST.json", "w"), indent=1)
print("MANIFEST.json: %d checks, %d not_applicable" % (len(checks), len(m["not_applicable"])))
