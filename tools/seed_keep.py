#!/usr/bin/env python3
"""seed_keep.py PROP N ID "what it breaks" "needs" "detected-by"  -- store a confirmed seeded defect under /verif/seeded/ID/"""
import sys, os, shutil, json
prop, n, sid, breaks, needs, detected = sys.argv[1:7]
src = "/tmp/seed-%s/%s" % (prop, n)
dst = "/verif/seeded/%s" % sid
os.makedirs(dst, exist_ok=True)
rebased = "/tmp/seedpatch-%s-%s.diff" % (prop, n)
shutil.copy(rebased if os.path.exists(rebased) and os.path.getsize(rebased) > 0 else src + "/patch.diff", dst + "/patch.diff")
shutil.copy(src + "/demo_test.go", dst + "/demo_test.go")
if os.path.exists(src + "/README.md"):
    shutil.copy(src + "/README.md", dst + "/README.md")
log = open("/tmp/seedconfirm-%s-%s.log" % (prop, n)).read()
assert log.strip().endswith("CONFIRMED") and "NOT-CONFIRMED" not in log, "not confirmed"
meta = dict(property=prop, id=sid, breaks=breaks, needs_to_manifest=needs,
            origin="independent sub-agent given only the property text and a scratch worktree",
            confirmed=dict(how="tools/seed_confirm.sh in a scratch worktree of /repo: patch applies and builds; demo_test.go fails with the patch and passes without; tests of the touched packages pass with the patch (ignoring the baseline's always-failing TestNetDialCancelContext/TestNetDialTimeout, its flaky TestRelayStalledConnection, and TestRelayRaceCompletionAndTimeout / TestCancelWithoutSendCancelOnContextCanceled / TestRetryNetConnect, which fail intermittently on the pristine tree too when the sandbox is loaded)",
                           log_tail=log.strip().split("\n")[-3:]),
            detection=detected)
json.dump(meta, open(dst + "/meta.json", "w"), indent=1)
print("kept", dst)
