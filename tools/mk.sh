#!/bin/bash
# usage: mk.sh [targets...]  -- regenerate Makefile and build (default: all)
cd /verif/coq
coq_makefile -f _CoqProject $(find theories -name '*.v' | grep -v Dbg_tmp | sort) -o Makefile >/dev/null 2>&1
timeout 3000 make -j16 "$@" 2>&1 | grep -v "^COQ\|Closed under the global\|^make" | head -${MKLINES:-40}
