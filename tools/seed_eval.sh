#!/bin/bash
# usage: seed_eval.sh <PROP> <patch> [tier] -- run the property's check against a seeded defect applied to /repo
P=$1; PATCH=$2; TIER=${3:-quick}
cd /verif
git -C /repo diff --quiet || { echo "/repo not clean"; exit 2; }
git -C /repo apply $PATCH 2>/dev/null || (cd /repo && patch -p1 -F3 --no-backup-if-mismatch < $PATCH >/dev/null && find . -name "*.orig" -delete) || { echo "patch does not apply to /repo"; git -C /repo checkout -- .; find /repo -name "*.rej" -o -name "*.orig" | xargs -r rm -f; exit 2; }
./check $P --tier $TIER 2>&1 | grep -v "^\[check\] go2v" | tail -12
git -C /repo checkout -- .; find /repo -name "*.rej" -o -name "*.orig" | xargs -r rm -f
git -C /repo status --short | head -3
# restore evidence from a clean run later
