#!/usr/bin/env python3
"""Resolve the routine merge conflicts of a builder branch: go2v/targets.go (keep both sides)
and known_findings.json (union of findings by key)."""
import json, re, subprocess, sys
def git_show(stage, path):
    return subprocess.check_output(["git", "show", ":%d:%s" % (stage, path)]).decode()
conf = subprocess.check_output(["git", "diff", "--name-only", "--diff-filter=U"]).decode().split()
for path in conf:
    if path == "known_findings.json":
        a = json.loads(git_show(2, path)); b = json.loads(git_show(3, path))
        keys = {(f["property"], f["key"]) for f in a["findings"]}
        for f in b["findings"]:
            if (f["property"], f["key"]) not in keys:
                a["findings"].append(f)
        json.dump(a, open(path, "w"), indent=1)
    elif path.endswith("targets.go") or path.endswith(".gitignore"):
        s = open(path).read()
        s = re.sub(r"<<<<<<< [^\n]*\n(.*?)=======\n(.*?)>>>>>>> [^\n]*\n", lambda m: m.group(1) + m.group(2), s, flags=re.S)
        if path.endswith("targets.go"):
            m = re.search(r"var targetFile = map\[string\]string\{\n(.*?)\n\}\n", s, flags=re.S)
            if m:
                seen, out = set(), []
                for l in m.group(1).split("\n"):
                    k = re.match(r'\s*"([^"]+)":', l)
                    if k:
                        if k.group(1) in seen:
                            continue
                        seen.add(k.group(1))
                    out.append(l)
                s = s[:m.start(1)] + "\n".join(out) + s[m.end(1):]
        open(path, "w").write(s)
    else:
        print("UNRESOLVED:", path); continue
    subprocess.check_call(["git", "add", path])
    print("resolved", path)
