#!/bin/bash
# usage: seed_confirm.sh <PROP> <N> [srcdir]  -- confirm a seeded defect in a scratch worktree of /repo:
# applies, builds, demo fails with it and passes without it, touched packages' tests pass with it.
# Result: /tmp/seedconfirm-<PROP>-<N>.log ending with CONFIRMED or NOT-CONFIRMED.
P=$1; N=$2; SRC=${3:-/tmp/seed-$P/$N}
export GOFLAGS=-mod=mod GOPROXY=off GOSUMDB=off GOTOOLCHAIN=local
WT=/tmp/confirm-$P-$N
LOG=/tmp/seedconfirm-$P-$N.log
exec > $LOG 2>&1
git -C /repo worktree remove --force $WT 2>/dev/null
git -C /repo worktree add -q --detach $WT HEAD || exit 1
cd $WT
demo=$SRC/demo_test.go
pkgline=$(grep -m1 '^package ' $demo | awk '{print $2}')
case "${pkgline%_test}" in
  tchannel) pkgdir=. ;;
  arg2) pkgdir=thrift/arg2 ;;
  relaytest) pkgdir=relay/relaytest ;;
  argreader) pkgdir=internal/argreader ;;
  *) pkgdir=${pkgline%_test} ;;
esac
[ -d "$pkgdir" ] || pkgdir=.
echo "demo package dir: $pkgdir (package $pkgline)"
cp $demo $pkgdir/zz_seed_demo_test.go
echo "== demo on pristine tree"; go test -count=1 -vet=off -run 'Seed|seed|Demo|ZZ|Zz' ./$pkgdir 2>&1 | tail -5; clean=${PIPESTATUS[0]}
git apply $SRC/patch.diff 2>/dev/null || patch -p1 -F3 --no-backup-if-mismatch < $SRC/patch.diff || { echo "patch does not apply"; echo NOT-CONFIRMED; exit 1; }
find . -name '*.orig' -delete; git diff > /tmp/seedpatch-$P-$N.diff   # the patch as it applies to the current tree
echo "== build with patch"; go build ./... && go vet -vettool=/bin/true ./... >/dev/null 2>&1; go test -count=1 -vet=off -run '^$' ./... 2>&1 | grep -v "^ok\|no test files" | head
echo "== demo with patch"; go test -count=1 -vet=off -run 'Seed|seed|Demo|ZZ|Zz' ./$pkgdir 2>&1 | tail -15; bad=${PIPESTATUS[0]}
rm -f $pkgdir/zz_seed_demo_test.go
echo "== existing tests of touched packages with patch"
pkgs=$(git diff --name-only | xargs -n1 dirname | sort -u | sed 's|^|./|')
go test -count=1 -vet=off -timeout 20m $pkgs 2>&1 | grep -v "^ok" | grep -- "--- FAIL\|^FAIL\|panic" | grep -v "TestNetDialCancelContext\|TestNetDialTimeout\|TestRelayStalledConnection\|TestRelayRaceCompletionAndTimeout\|TestCancelWithoutSendCancelOnContextCanceled\|TestRetryNetConnect" | head -20 > /tmp/seedfails-$P-$N.txt
cat /tmp/seedfails-$P-$N.txt
# a test that fails in the package run is re-run alone (3 times): load-induced flakes pass then
fails=0
for t in $(grep -- "^--- FAIL" /tmp/seedfails-$P-$N.txt | awk '{print $3}' | sort -u); do
  okc=0
  for k in 1 2 3; do go test -count=1 -vet=off -run "^$t\$" $pkgs >/dev/null 2>&1 && okc=$((okc+1)); done
  echo "re-run of $t alone: $okc/3 passed"
  [ $okc -ge 2 ] || fails=$((fails+1))
done
cd /; git -C /repo worktree remove --force $WT
echo "clean-demo-exit=$clean patched-demo-exit=$bad existing-test-failures=$fails"
if [ "$clean" = 0 ] && [ "$bad" != 0 ] && [ "$fails" = 0 ]; then echo CONFIRMED; else echo NOT-CONFIRMED; fi
