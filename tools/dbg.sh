#!/bin/bash
# usage: dbg.sh theories/Proofs/X.v LINE  -- show the goals after LINE lines of the file
f=$1; n=$2
cd /verif/coq
tmp=theories/$(dirname ${f#theories/})/Dbg_tmp.v
head -n $n $f > $tmp
echo "Show." >> $tmp
timeout 120 coqc -Q theories Verif -w -notation-overridden $tmp 2>&1 | grep -v "^File\|There are pending proofs\|Error: There are pending" | head -${3:-60}
rm -f $tmp theories/$(dirname ${f#theories/})/Dbg_tmp.{vo,vok,vos,glob} theories/$(dirname ${f#theories/})/.Dbg_tmp.aux
