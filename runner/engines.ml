(* engine name -> extracted entry point *)
let table : (string * (Model.z list -> Model.z list)) list = [
  ("retry", Model.run_retry);
  ("canretry", Model.run_canretry);
  ("msg_enc", Model.run_msg_enc);
  ("msg_dec", Model.run_msg_dec);
  ("frame_in", Model.run_frame_in);
  ("frame_dec", Model.run_frame_dec);
  ("thrift_w", Model.run_thrift_w);
  ("thrift_r", Model.run_thrift_r);
  ("kviter", Model.run_kviter);
  ("http_w", Model.run_http_w);
  ("http_r", Model.run_http_r);
  ("uvarint_w", Model.run_uvarint_w);
  ("uvarint_r", Model.run_uvarint_r);
]
