(* engine name -> extracted entry point *)
let table : (string * (Model.z list -> Model.z list)) list = [
  ("retry", Model.run_retry);
  ("canretry", Model.run_canretry);
]
