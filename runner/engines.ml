(* engine name -> extracted entry point *)
let table : (string * (Model.z list -> Model.z list)) list = [
  ("retry", Model.run_retry);
  ("canretry", Model.run_canretry);
  ("msg_enc", Model.run_msg_enc);
  ("msg_dec", Model.run_msg_dec);
  ("frame_in", Model.run_frame_in);
  ("frame_dec", Model.run_frame_dec);
]
