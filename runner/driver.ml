(* Generic line driver around the extracted model.
   input  line:  <engine> <case-id> <int> <int> ...
   output line:  <engine> <case-id> <int> <int> ...
   Numbers are converted between decimal text and the extracted Z datatype. *)
open Model

let rec pos_of_int (n : int) : positive =
  if n = 1 then XH
  else if n land 1 = 0 then XO (pos_of_int (n lsr 1))
  else XI (pos_of_int (n lsr 1))

let z_of_int (n : int) : z =
  if n = 0 then Z0 else if n > 0 then Zpos (pos_of_int n) else Zneg (pos_of_int (-n))

let ten18 = z_of_int 1000000000000000000

(* decimal string -> Z, any size *)
let z_of_string (s : string) : z =
  let neg = String.length s > 0 && s.[0] = '-' in
  let s = if neg then String.sub s 1 (String.length s - 1) else s in
  let len = String.length s in
  let r =
    if len <= 18 then z_of_int (int_of_string s)
    else begin
      let acc = ref Z0 in
      let i = ref 0 in
      let first = len mod 18 in
      if first > 0 then begin acc := z_of_int (int_of_string (String.sub s 0 first)); i := first end;
      while !i < len do
        acc := Z.add (Z.mul !acc ten18) (z_of_int (int_of_string (String.sub s !i 18)));
        i := !i + 18
      done; !acc
    end in
  if neg then Z.opp r else r

let rec int_of_pos (p : positive) : int =
  match p with XH -> 1 | XO q -> 2 * int_of_pos q | XI q -> 2 * int_of_pos q + 1

let rec pos_bits (p : positive) : int = match p with XH -> 1 | XO q | XI q -> 1 + pos_bits q

let rec string_of_posz (z : z) : string =
  match z with
  | Z0 -> "0"
  | Zneg _ -> assert false
  | Zpos p ->
    if pos_bits p <= 61 then string_of_int (int_of_pos p)
    else begin
      let q = Z.div z ten18 and r = Z.modulo z ten18 in
      let rs = string_of_posz r in
      string_of_posz q ^ String.make (18 - String.length rs) '0' ^ rs
    end

let string_of_z (z : z) : string =
  match z with
  | Zneg p -> "-" ^ string_of_posz (Zpos p)
  | _ -> string_of_posz z

let engines : (string * (z list -> z list)) list = Engines.table

let () =
  let tbl = Hashtbl.create 16 in
  List.iter (fun (n, f) -> Hashtbl.replace tbl n f) engines;
  let out = Buffer.create 65536 in
  (try
    while true do
      let line = input_line stdin in
      if line <> "" then begin
        match String.split_on_char ' ' line with
        | eng :: id :: rest ->
          let args = List.filter_map (fun s -> if s = "" then None else Some (z_of_string s)) rest in
          (match Hashtbl.find_opt tbl eng with
           | None -> Buffer.add_string out (eng ^ " " ^ id ^ " NOENGINE\n")
           | Some f ->
             let res = (try List.map string_of_z (f args) with Stack_overflow -> ["STACKOVERFLOW"]) in
             Buffer.add_string out (eng ^ " " ^ id ^ (if res = [] then "" else " " ^ String.concat " " res) ^ "\n"));
          if Buffer.length out > 60000 then begin print_string (Buffer.contents out); Buffer.clear out end
        | _ -> ()
      end
    done
  with End_of_file -> ());
  print_string (Buffer.contents out)
