(* Extraction of the executable models for the correspondence runner.
   ExtrOcamlBasic only; numbers stay positive/N/Z datatypes; no Extract Constant. *)
From Coq Require Import ZArith List Extraction ExtrOcamlBasic.
From Verif Require Import Model.Retry Model.MsgRun Model.Codecs.
Extraction Language OCaml.
Extraction "model.ml" Z.add Z.mul Z.div Z.modulo Z.opp
  run_retry run_canretry run_msg_enc run_msg_dec run_frame_in run_frame_dec
  run_thrift_w run_thrift_r run_kviter run_http_w run_http_r run_uvarint_w run_uvarint_r.
