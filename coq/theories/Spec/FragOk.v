(* Well-formedness of fragment sequences and the API grammar of writer scripts
   (statement-level definitions shared by the C01/C02 theorems). *)
From Coq Require Import ZArith List Bool.
From Verif Require Import Base.Wrap Base.Bytes Model.Crc Model.Frag Spec.FragSpec.
Import ListNotations.
Local Open Scope Z_scope.

Definition chunks_of (fs : list frag) : list (list (list Z)) := map f_chunks fs.

(* bytes a fragment's chunks occupy: a 2-byte length in front of each *)
Definition chunks_size (cs : list (list Z)) : Z := fold_right (fun c a => 2 + zlen c + a) 0 cs.

(* every fragment has at least one chunk, fits the capacity it was allocated with, and
   carries the more-fragments flag exactly when it is not the last one *)
Fixpoint frames_ok_from (capf : bool -> Z) (first : bool) (fs : list frag) : Prop :=
  match fs with
  | [] => True
  | f :: r => f_chunks f <> [] /\ chunks_size (f_chunks f) <= capf first /\
              (f_more f = true <-> r <> []) /\ frames_ok_from capf false r
  end.
Definition frames_ok (capf : bool -> Z) (fs : list frag) : Prop := fs <> [] /\ frames_ok_from capf true fs.

(* the checksum field of each fragment is the running checksum over all chunk data so
   far, and the type byte is the checksum's type code *)
Fixpoint ck_chain (c : ckst) (fs : list frag) : Prop :=
  match fs with
  | [] => True
  | f :: r => let c' := fold_left ck_add (f_chunks f) c in
              f_ck f = ck_sum c' /\ f_ctype f = ck_typecode c /\ ck_chain c' r
  end.

(* one argument as the application writes it: writes and explicit flushes *)
Inductive witem := IWrite (b : list Z) | IFlush.
Definition item_op (i : witem) : wop := match i with IWrite b => WWrite b | IFlush => WFlush end.
Definition arg_ops (last : bool) (items : list witem) : list wop := WBegin last :: map item_op items ++ [WClose].
Definition arg_bytes (items : list witem) : list Z := flat_map (fun i => match i with IWrite b => b | IFlush => [] end) items.
Definition script3 (a1 a2 a3 : list witem) : list wop := arg_ops false a1 ++ arg_ops false a2 ++ arg_ops true a3.
