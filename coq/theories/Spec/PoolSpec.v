(* Pooled objects (sync.Pool): what "no state survives from one user of a pooled object to the
   next" means, independently of any particular pool.

   Part 1: the row types of the table Gen/GenPoolReset.pool_reset_table that go2v extracts from
   the library source (go2v/poolreset.go): per sync.Pool its element type, the fields of the
   pooled struct with the functions that read them before writing them, every Get site with the
   reset statements that run between Get and the first use, every Put site with the reset
   statements that run right before Put.

   Part 2: the semantic statement.  An object is an assignment of values to fields.  A user gets
   an object out of the pool in the state its previous user left it in (ANY state), the Get path
   overwrites the fields of its reset list with values computed from the new user's own
   arguments, then the user runs.  [clean] says: what the user computes does not depend on the
   state the object was left in. *)
From Coq Require Import ZArith List Bool.
Import ListNotations.
Local Open Scope Z_scope.

(* ---------------------------------------------------------------- part 1: table rows *)
Definition str := list Z.   (* a Go identifier / source text as character codes *)

(* one field of a pooled struct ("transport.Reader" = field Reader of the struct behind the
   pointer field transport; "*" = the whole object when the element is not a library struct) *)
Record pr_field := mkPrField {
  pf_path : str;
  pf_type : str;              (* Go type *)
  pf_kind : str;              (* plain | array | slice | sub (library struct, expanded) | ext (foreign struct: opaque state) | iface *)
  pf_live : list str;         (* functions in which the field is read on some path before it is written: live on entry *)
  pf_writers : list str;      (* functions that assign it, constructors (writes through a fresh composite literal) excluded *)
  pf_alias : bool             (* sliced / indexed / address taken / pointer-method called: may be written through an alias *)
}.
(* one reset statement [v.path = e] / [*v = e] / [v.path.Reset()]; class of e:
   param (a parameter of the enclosing function) | zero (nil, 0, "", false, T{}) | fresh (a new value not
   mentioning v) | method:Reset | self (mentions v) | other *)
Record pr_reset := mkPrReset { rs_path : str; rs_class : str; rs_text : str }.
(* a Get site: enclosing function, variable bound to the pooled object, the reset statements that
   follow the Get unconditionally, the statements after them that mention the object, and whether
   the function hands the object to its caller *)
Record pr_get := mkPrGet { pg_fn : str; pg_var : str; pg_resets : list pr_reset; pg_uses : list str; pg_returns : bool }.
(* a Put site: enclosing function, argument, guard (defer / enclosing conditions), the reset
   statements directly in front of it *)
Record pr_put := mkPrPut { pp_fn : str; pp_arg : str; pp_guard : str; pp_resets : list pr_reset }.
Record pr_pool := mkPrPool {
  pl_key : str;               (* package.variable | package.Type.field | ...[] for an array of pools *)
  pl_elem : str;              (* Go type of the pooled objects *)
  pl_new : str;               (* zero (New returns &T{} / new(T)) | ctor (New builds something else) | none *)
  pl_fields : list pr_field;
  pl_gets : list pr_get;
  pl_puts : list pr_put
}.

(* ---------------------------------------------------------------- part 2: semantics *)
Section Clean.
  Variable F : Type.                      (* field names *)
  Variable V : Type.                      (* field values *)
  Variable A B : Type.                    (* a user's arguments / what it computes *)
  Definition obj := F -> V.

  Definition agree (L : F -> Prop) (o o' : obj) : Prop := forall f, L f -> o f = o' f.

  (* a run of a user (any sequence of method calls) "reads only L before writing": two objects
     that agree on L give the same result and still agree on L afterwards *)
  Definition respects (L : F -> Prop) (use : obj -> A -> obj * B) : Prop :=
    forall o o' a, agree L o o' -> snd (use o a) = snd (use o' a) /\ agree L (fst (use o a)) (fst (use o' a)).

  (* the Get path: the fields of G are overwritten with values computed from the user's own
     arguments (reset o a f = Some v), every other field keeps what the previous user left *)
  Variable reset : A -> F -> option V.
  Definition get_reset (o : obj) (a : A) : obj := fun f => match reset a f with Some v => v | None => o f end.

  (* the discipline: every field that is live on entry of a user is reset on the Get path *)
  Definition disciplined (L : F -> Prop) : Prop := forall a f, L f -> reset a f <> None.

  (* the pool as seen by its users: a sequence of users, each given SOME object (the one a
     previous user put back, or a new one -- the scheduler's and the garbage collector's choice),
     resets it on its Get path, runs, puts it back.  [outs] are the results, in order. *)
  Fixpoint run_users (use : obj -> A -> obj * B) (choice : list obj -> obj) (pool : list obj) (args : list A) : list B :=
    match args with
    | [] => []
    | a :: rest =>
        let o := choice pool in
        let '(o', b) := use (get_reset o a) a in
        b :: run_users use choice (o' :: pool) rest
    end.
End Clean.
Arguments agree {F V}. Arguments respects {F V A B}. Arguments get_reset {F V A}.
Arguments disciplined {F V A}. Arguments run_users {F V A B}.
