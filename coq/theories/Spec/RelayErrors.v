(* The error codes a relay uses for the errors it ORIGINATES (as opposed to forwards),
   written from the relay's documentation: doc comments of errors.go (meaning of each
   code), relay.go / relay_api.go comments and the statistic names the relay documents for
   each failure ("relay-timeout", "relay-client-conn-inactive", "relay-bad-relay-host",
   "relay-connection-failed", "relay-remote-inactive", "relay-dest-conn-slow", ...).
   Literal numbers only; nothing here refers to the model of the code.

     timeout of a relayed call                     -> 0x01 timeout ("the peer timed out")
     relay's connection to the caller not active   -> 0x04 declined ("declines the call",
                                                      the request was not dispatched)
     selected remote connection not active         -> 0x04 declined (same situation on the
                                                      other side: not dispatched; the call
                                                      site wraps the error as declined)
     relay host gave no destination                -> 0x04 declined ("bad relay host implementation")
     relay host's Start failed with a system error -> that error's own code
     relay host's Start failed with another error  -> 0x04 declined
     relay host's Start: rate-limit drop           -> no error frame at all (documented: "we
                                                      *don't* send an error frame back")
     connecting to the destination failed          -> 0x07 network error; when the failure is
                                                      itself a system error (dial timed out ->
                                                      timeout) that error's own code
     frame could not be handed to the destination  -> 0x05 unexpected, message starting with
       (slow destination, arg2 rewrite failed)        the "relay-..." reason
     response could not be handed to a slow caller -> no error frame ("no point sending")
     fragmented call to a relay-local handler      -> 0x06 bad request                    *)
From Coq Require Import ZArith List Bool.
Import ListNotations.
Local Open Scope Z_scope.

Inductive relay_site :=
| RSTimeout
| RSSourceInactive
| RSRemoteInactive
| RSBadHost
| RSStartSystem (code : Z)      (* Start returned a system error with this code *)
| RSStartOther                  (* Start returned a non-system error *)
| RSStartRateLimit
| RSConnectSystem (code : Z)    (* connecting failed with a system error (e.g. dial timeout) *)
| RSConnectOther                (* connecting failed with a plain network error *)
| RSDestSlow
| RSArg2ModifyFailed
| RSSourceSlow
| RSLocalFragmented.

(* None = the relay sends no error frame for this failure *)
Definition spec_relay_code (s : relay_site) : option Z :=
  match s with
  | RSTimeout => Some 1
  | RSSourceInactive => Some 4
  | RSRemoteInactive => Some 4
  | RSBadHost => Some 4
  | RSStartSystem c => Some c
  | RSStartOther => Some 4
  | RSStartRateLimit => None
  | RSConnectSystem c => Some c
  | RSConnectOther => Some 7
  | RSDestSlow => Some 5
  | RSArg2ModifyFailed => Some 5
  | RSSourceSlow => None
  | RSLocalFragmented => Some 6
  end.

(* reason text that must open the message of a "frame not sent" error *)
Definition spec_relay_reason (s : relay_site) : list Z :=
  match s with
  | RSDestSlow => (* "relay-dest-conn-slow" *)
      [114;101;108;97;121;45;100;101;115;116;45;99;111;110;110;45;115;108;111;119]
  | RSArg2ModifyFailed => (* "relay-arg2-modify-failed" *)
      [114;101;108;97;121;45;97;114;103;50;45;109;111;100;105;102;121;45;102;97;105;108;101;100]
  | _ => []
  end.
