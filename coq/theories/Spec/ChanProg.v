(* Vocabulary of Gen/GenMexProg.v: the control skeleton of a Go function whose only actions are
   tests of the exchange's state, channel operations (select with / without default) and
   returns -- messageExchange.forwardPeerFrame and messageExchange.recvPeerFrame of mex.go.
   go2v/chanprog.go regenerates one [cprog] per function from the source on every run; the
   words below are the translation's hint tables (Go source text -> constructor), printed next
   to each generated definition.  The meaning of a program is given in Model/MexProg.v. *)
From Coq Require Import List.
Import ListNotations.

(* communication clauses of a select *)
Inductive cguard :=
| GSend      (* case mex.recvCh <- frame *)
| GRecv      (* case frame := <-mex.recvCh *)
| GCtxDone   (* case <-mex.ctx.Done() *)
| GErrCh.    (* case <-mex.errCh.c *)

(* conditions of an if *)
Inductive ctest :=
| TCtxErr    (* err := mex.ctx.Err(); err != nil *)
| TDropped   (* mex.frameDropped.Load() *)
| TBadFrame. (* err := mex.checkFrame(frame); err != nil *)

(* returned values *)
Inductive cres :=
| RNil         (* nil *)
| RCtxErr      (* GetContextError(mex.ctx.Err()) *)
| RLatched     (* mex.errCh.err *)
| RFrame       (* frame, nil *)
| RUnexpected. (* nil, err  with err from checkFrame *)

Inductive cprog :=
| PRet (r : cres)
| PIf (t : ctest) (th el : cprog)
| PSel (arms : list (cguard * cprog)) (dflt : option cprog)  (* no default = the goroutine parks *)
| PSetDropped (k : cprog)                                   (* mex.frameDropped.Store(true) *)
| PCtxHook (k : cprog).                                     (* mex.onCtxErr(err) *)

Definition cguard_eqb (a b : cguard) : bool :=
  match a, b with
  | GSend, GSend | GRecv, GRecv | GCtxDone, GCtxDone | GErrCh, GErrCh => true
  | _, _ => false
  end.
