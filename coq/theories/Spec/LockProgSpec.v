(* Vocabulary and short specification of the LOCK DISCIPLINE of property C05 (b):
   "a caller never blocks on a lock that no deadline bounds".

   A sync.Mutex acquisition has no exit of its own (no ctx case, no timer): the waiter leaves
   it only when the holder releases.  It is bounded iff
     (1) BALANCE       every function that takes a lock releases it on every path to every
                       exit (explicitly or by defer) and never releases a lock it does not hold;
     (2) NO BLOCKING   no blocking statement is executed while a plain mutex is held;
     (3) ORDER         a mutex taken while others are held is strictly smaller, in a fixed
                       numbering, than every lock held at that moment (no cycle, no re-entry).
   The subject is a LOCK PROGRAM: the control-flow skeleton of a Go function reduced to its
   lock operations, blocking statements, calls (with the callee's summary) and exits.
   Gen/GenLockProgs.v (regenerated from the Go source by go2v/lockprogs.go) is a list of
   such programs; this file gives them a semantics (every execution of the skeleton, with the
   trace of lock events and the locks held at each event) and states (1)-(3) over ALL
   executions.  Independent of the code. *)
From Coq Require Import ZArith List Bool.
Import ListNotations.
Local Open Scope Z_scope.

Inductive lstmt :=
  | SLock (m : Z) (rd : bool)        (* X.Lock() / X.RLock() *)
  | SUnlock (m : Z) (rd : bool)      (* X.Unlock() / X.RUnlock() *)
  | SDefer (m : Z) (rd : bool)       (* defer X.Unlock() / defer X.RUnlock() *)
  | SBlock                           (* a blocking statement: select without default, channel op, net I/O, Wait, Sleep *)
  | SCall (blk : bool) (acq : list Z)(* a call whose callee may block / takes (and releases) these mutexes *)
  | SRet | SPanic | SBreak | SCont
  | SAlt (a b : lblock)              (* one of two branches *)
  | SLoop (b : lblock)               (* zero or more iterations *)
  | SCatch (b : lblock)              (* switch / select: a break inside ends it *)
with lblock := BNil | BCons (s : lstmt) (r : lblock).

Notation "'B[' x ; .. ; y ']'" := (BCons x .. (BCons y BNil) ..) (at level 0, x at level 200, y at level 200).

Record lfunc := mkLfunc { lf_name : list Z; lf_body : lblock }.
(* lm_sem: a semaphore whose acquisition is a select with a ctx.Done() case (peer.go) *)
Record lmutex := mkLmutex { lm_id : Z; lm_name : list Z; lm_sem : bool }.
(* a lock acquisition met on the call path *)
Record lsite := mkLsite { ls_fn : list Z; ls_mutex : Z; ls_rd : bool }.

(* ---------------- semantics ---------------- *)
Definition hitem := (Z * bool)%type.                 (* mutex, read mode *)
Record hst := mkH { h_held : list hitem; h_dfr : list hitem }.
Definition hinit : hst := mkH [] [].
Inductive ctl := CFall | CRet | CBrk | CCont | CPanic.

Inductive lev :=
  | EvAcq (m : Z)      (* takes m *)
  | EvRel (m : Z)      (* releases m *)
  | EvBadRel (m : Z)   (* releases m without holding it (a run-time panic in Go) *)
  | EvIn (m : Z)       (* a callee takes and releases m *)
  | EvBlock.           (* blocks (here or in a callee) *)
(* each event with the locks held when it happens *)
Definition ltrace := list (list hitem * lev).

Definition hitem_eqb (a b : hitem) : bool := (fst a =? fst b) && Bool.eqb (snd a) (snd b).

Fixpoint remove1 (x : hitem) (l : list hitem) : option (list hitem) :=
  match l with
  | [] => None
  | y :: r => if hitem_eqb x y then Some r
              else match remove1 x r with Some r' => Some (y :: r') | None => None end
  end.

Definition catch_brk (c : ctl) : ctl := match c with CBrk => CFall | _ => c end.

Inductive xs : lstmt -> hst -> ctl -> hst -> ltrace -> Prop :=
  | XLock : forall m rd s, xs (SLock m rd) s CFall (mkH ((m, rd) :: h_held s) (h_dfr s)) [(h_held s, EvAcq m)]
  | XUnlock : forall m rd s h', remove1 (m, rd) (h_held s) = Some h' ->
      xs (SUnlock m rd) s CFall (mkH h' (h_dfr s)) [(h_held s, EvRel m)]
  | XUnlockBad : forall m rd s, remove1 (m, rd) (h_held s) = None ->
      xs (SUnlock m rd) s CPanic s [(h_held s, EvBadRel m)]
  | XDefer : forall m rd s, xs (SDefer m rd) s CFall (mkH (h_held s) ((m, rd) :: h_dfr s)) []
  | XBlock : forall s, xs SBlock s CFall s [(h_held s, EvBlock)]
  | XCall : forall blk acq s, xs (SCall blk acq) s CFall s
      ((if blk : bool then [(h_held s, EvBlock)] else []) ++ map (fun m => (h_held s, EvIn m)) acq)
  | XRet : forall s, xs SRet s CRet s []
  | XPanic : forall s, xs SPanic s CPanic s []
  | XBreak : forall s, xs SBreak s CBrk s []
  | XCont : forall s, xs SCont s CCont s []
  | XAltL : forall a b s c s' tr, xb a s c s' tr -> xs (SAlt a b) s c s' tr
  | XAltR : forall a b s c s' tr, xb b s c s' tr -> xs (SAlt a b) s c s' tr
  | XLoop0 : forall b s, xs (SLoop b) s CFall s []
  | XLoopBrk : forall b s s' tr, xb b s CBrk s' tr -> xs (SLoop b) s CFall s' tr
  | XLoopExit : forall b s c s' tr, xb b s c s' tr -> c = CRet \/ c = CPanic -> xs (SLoop b) s c s' tr
  | XLoopIter : forall b s c1 s1 tr1 c2 s2 tr2, xb b s c1 s1 tr1 -> c1 = CFall \/ c1 = CCont ->
      xs (SLoop b) s1 c2 s2 tr2 -> xs (SLoop b) s c2 s2 (tr1 ++ tr2)
  | XCatch : forall b s c s' tr, xb b s c s' tr -> xs (SCatch b) s (catch_brk c) s' tr
with xb : lblock -> hst -> ctl -> hst -> ltrace -> Prop :=
  | XNil : forall s, xb BNil s CFall s []
  | XStop : forall st r s c s' tr, xs st s c s' tr -> c <> CFall -> xb (BCons st r) s c s' tr
  | XGo : forall st r s s1 tr1 c s2 tr2, xs st s CFall s1 tr1 -> xb r s1 c s2 tr2 ->
      xb (BCons st r) s c s2 (tr1 ++ tr2).

(* at the exit the deferred unlocks run, last deferred first; None: one of them finds its lock not held *)
Fixpoint run_defers (dfr held : list hitem) : option (list hitem) :=
  match dfr with
  | [] => Some held
  | d :: r => match remove1 d held with None => None | Some h => run_defers r h end
  end.

(* ---------------- the specification ---------------- *)
(* (1) BALANCE: an execution that ends in a return (or at the end of the body) holds nothing
   after the deferred unlocks; a path that ends in panic(...) is exempt (the process dies) *)
Definition exit_clean (c : ctl) (s : hst) : Prop :=
  c = CPanic \/ ((c = CFall \/ c = CRet) /\ run_defers (h_dfr s) (h_held s) = Some []).

(* (2)+(3): what may happen while locks are held.  [sem m]: m is a context-aware semaphore
   (its holder may block: the waiters leave through their own ctx) *)
Definition ev_ok (sem : Z -> bool) (e : list hitem * lev) : Prop :=
  match snd e with
  | EvAcq m | EvIn m => forall h, In h (fst e) -> m < fst h
  | EvBlock => forall h, In h (fst e) -> sem (fst h) = true
  | EvRel _ => True
  | EvBadRel _ => False
  end.

Definition lock_disciplined (sem : Z -> bool) (f : lfunc) : Prop :=
  forall c s tr, xb (lf_body f) hinit c s tr -> exit_clean c s /\ Forall (ev_ok sem) tr.

(* the semaphores of a mutex table *)
Definition sem_of (ms : list lmutex) (m : Z) : bool :=
  existsb (fun x => (lm_id x =? m) && lm_sem x) ms.
Definition plain_mutex (ms : list lmutex) (m : Z) : Prop :=
  exists x, In x ms /\ lm_id x = m /\ lm_sem x = false.
