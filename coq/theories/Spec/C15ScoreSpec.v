(* Vocabulary of Gen/GenC15Score.v (property C15, "the score a list stores for a peer is the score
   of the peer's live state").  go2v/c15score.go regenerates from the Go source on every run

   1. the STATEMENT STRUCTURE of the channel-level functions that change what a score
      calculator reads of a Peer (its connection lists, the exchange sets of its connections)
      and must then re-score that very peer: Channel.connectionCloseStateChange,
      addConnectionToPeer, connectionActive, the host:port-mismatch block of Connect,
      exchangeUpdated, Channel.updatePeer and subChannelMap.updatePeer -- as [cstmt] terms.
      A Peer variable is identified with the KEY it was looked up with in the root peer list
      (resolved through go/types, so renaming a variable does not change the term):
        1 = c.remotePeerInfo.HostPort (the host:port the remote ANNOUNCED)
        2 = c.outboundHP              (the host:port that was DIALLED; "" for inbound connections)
        3 = the function's hostPort parameter
        4 = the function's Peer parameter (Channel.updatePeer / subChannelMap.updatePeer)
   2. the LOCK-REGION TABLE of the PeerList functions that read, compute or store a score
      (Add, onPeerChange, SetStrategy, updatePeer, Remove): per function, in source order, the
      score-relevant events with the mode in which the list's own mutex is held at that point;
   3. a CENSUS of every function of the package that contains such an event.

   The meaning of the terms (how they become atomic steps of the interleaving model) is in
   Model/C15Score.v; Proofs/C15ScoreP.v proves the generated terms equal to the model's steps. *)
From Coq Require Import ZArith List String.
Import ListNotations.
Local Open Scope Z_scope.

(* ---- 1. statement structure ---- *)
(* calls (code, key):
     1 ch.RootPeers().Get(key)               (binds a Peer variable to the key)
     2 ch.RootPeers().GetOrAdd(key)          (the same; creates the peer)
     3 X.addConnection(c, direction)          under the peer's lock (Peer.addConnection)
     4 X.connectionCloseStateChange(c)        drops the connection from the peer
     5 ch.updatePeer(X)
     6 ch.addConnectionToPeer(key, c, direction)
     7 ch.peers.onPeerChange(X)               the channel's own list
     8 ch.subChannels.updatePeer(X)
     9 subCh.Peers().onPeerChange(X)          the list of one sub-channel
    10 ch.addConnection(c, direction)         admission to the channel's connection table
   conditions (code, key):
     1 the lookup of key found a peer (the `ok` of call 1)
     2 c.outboundHP != "" && c.outboundHP != c.remotePeerInfo.HostPort
     3 hostPort != conn.remotePeerInfo.HostPort         (Channel.Connect)
     4 c.remotePeerInfo.HostPort == ""
     5 the connection was NOT admitted (`!added`)
     6 conn != nil                                       (Channel.Connect)
     7 subCh.Isolated()
     8 X.addConnection returned an error (the body only logs) *)
Inductive cstmt :=
| CCall (f k : Z)
| CIf (cond k : Z) (body els : list cstmt)
| CLoop (body : list cstmt)      (* range over the sub-channel map *)
| CRet.

(* ---- 2. lock-region table ---- *)
(* a row = (mode, event): mode 0 = the list's mutex is not held, 1 = read-locked, 2 = write-locked;
   events:
    20 a call of ScoreCalculator.GetScore
    21 read of l.peersByHostPort (lookup)         22 store into l.peersByHostPort
    23 delete from l.peersByHostPort               24 call of l.updatePeer(ps, score)
    25 l.peerHeap.addPeer                          26 l.peerHeap.removePeer
    27 read of l.scoreCalculator                   28 store into l.scoreCalculator
    29 l.parent.Add (root list)                    30 call of l.exists
    31 call of l.getPeerScore                      32 store into a peerScore's score field
    33 l.peerHeap.updatePeer                       35 range over l.peersByHostPort
    36 Peer.addSC                                  37 Peer.delSC
    38 use of a local variable that holds the result of an earlier GetScore call
     7 return (with the mode at that point) *)
Definition regrow := (Z * Z)%type.

(* ---- 3. census ---- *)
(* (function, event): events 20, 24, 32, 33 of the table above, and
    40 call of Channel.updatePeer          41 call of PeerList.onPeerChange
    42 call of Peer.addConnection          43 call of Peer.connectionCloseStateChange
    44 call of Peer.removeConnection       45 store into / append to Peer.inboundConnections or
                                              Peer.outboundConnections
    46 call of subChannelMap.updatePeer    47 an OnExchangeUpdated / OnCloseStateChange / OnActive
                                              callback of the channel is installed
    48 call of Peer.connectionsFor (hands out a pointer to one of the two lists) *)
Definition censusrow := (string * Z)%type.
