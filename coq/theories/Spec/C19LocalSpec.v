(* Specification vocabulary for property C19, "has no pending calls", written from the property
   text: the calls of a connection that are IN FLIGHT after a history, read off the history alone.
   It mentions no structure of the Go code -- in particular it does not know whether the channel
   relays: a call the channel handles itself (w = 0: a plain inbound call, or on a relaying channel
   a call to a service of RelayLocalHandlers) and a call the channel originated (w = 1: also when
   the channel is a relay) are pending calls of the connection like any other. *)
From Coq Require Import ZArith List Bool.
From Verif Require Import Spec.IdleHealthSpec.
Import ListNotations.
Local Open Scope Z_scope.

(* number of calls of kind w in flight on connection id: +1 at [EPend id w 1], -1 at
   [EPend id w (-1)] (a finish without a call in flight is not an event a channel can produce: it
   is ignored); 0 when the connection is created; None when it was never created.  [cur] is the
   value so far. *)
Fixpoint calls_in_flight (id w : Z) (cur : option Z) (h : list ev) : option Z :=
  match h with
  | [] => cur
  | ENewConn i _ :: r =>
      calls_in_flight id w (match cur with None => if i =? id then Some 0 else None | Some _ => cur end) r
  | EPend i w' d :: r =>
      calls_in_flight id w
        (match cur with
         | Some n => if (i =? id) && (w' =? w)
                     then Some (if d >? 0 then n + 1 else if n <=? 0 then n else n - 1) else cur
         | None => None
         end) r
  | _ :: r => calls_in_flight id w cur r
  end.

(* a call the channel handles itself / a call the channel originated is in flight on id *)
Definition nonrelayed_call_in_flight (id : Z) (h : list ev) : Prop :=
  exists w n, (w = 0 \/ w = 1) /\ calls_in_flight id w None h = Some n /\ 0 < n.
