(* Specification side of property C20, written from the property statement and the
   protocol document with literal numbers only.  It shares no definition with the models
   of the Go code (the wire layout of an error frame is Spec/Protocol.v's [s_error] /
   [s_frame]).

   System error codes of the protocol document:
     0x00 invalid   0x01 timeout   0x02 cancelled   0x03 busy   0x04 declined
     0x05 unexpected error   0x06 bad request   0x07 network error   0xff protocol error *)
From Coq Require Import ZArith List Bool.
Import ListNotations.
Local Open Scope Z_scope.

(* Locally detected failure conditions and the fixed code each must map to. *)
Inductive local_cond :=
| LDeadline        (* the call's deadline passed *)
| LCancelled       (* the caller cancelled its context *)
| LConnLost        (* the connection carrying the in-flight call was lost *)
| LClosingPeer.    (* the call reached a peer that is closing *)

Definition spec_local_code (c : local_cond) : Z :=
  match c with
  | LDeadline => 1      (* timeout *)
  | LCancelled => 2     (* cancelled *)
  | LConnLost => 7      (* network error *)
  | LClosingPeer => 4   (* declined *)
  end.

(* Response code byte of a call response: 0x00 OK, 0x01 application error. *)
Definition spec_app_error (response_code : Z) : bool := response_code =? 1.
