(* Specification vocabulary for the history-level statements of property C19 (second part):
   what a history says about the health-check pings of one connection, and what "ping
   traffic" is.  Written from the property text; it mentions no structure of the Go code.
   (Events, outcomes, last_call_activity, health_closes_at: Spec/IdleHealthSpec.v.) *)
From Coq Require Import ZArith List Bool.
From Verif Require Import Spec.IdleHealthSpec.
Import ListNotations.
Local Open Scope Z_scope.

(* The health-check pings of connection id as the history shows them: the connection exists
   from its first ENewConn; a ping is in flight from an EPingStart id true (while none is in
   flight) to the next EPingEnd id o, whose outcome o is then the next ping outcome of the
   connection.  Ping events before the connection exists, a second start while a ping is in
   flight and an end without a ping in flight are not pings of the connection.  A ping that
   could not even be sent (EPingStart id false) has no outcome: it is a connection error. *)
Record plog := { pl_created : bool; pl_inflight : bool; pl_outs : list outcome }.

Definition plog_init : plog := {| pl_created := false; pl_inflight := false; pl_outs := [] |}.

Definition plog_step (id : Z) (p : plog) (e : ev) : plog :=
  match e with
  | ENewConn i _ =>
      if (i =? id) && negb (pl_created p)
      then {| pl_created := true; pl_inflight := false; pl_outs := [] |} else p
  | EPingStart i sent =>
      if (i =? id) && pl_created p && negb (pl_inflight p) && sent
      then {| pl_created := true; pl_inflight := true; pl_outs := pl_outs p |} else p
  | EPingEnd i o =>
      if (i =? id) && pl_created p && pl_inflight p
      then {| pl_created := true; pl_inflight := false; pl_outs := pl_outs p ++ [o] |} else p
  | _ => p
  end.

Definition ping_log (id : Z) (h : list ev) : plog := fold_left (plog_step id) h plog_init.
Definition ping_outcomes (id : Z) (h : list ev) : list outcome := pl_outs (ping_log id h).
Definition ping_inflight (id : Z) (h : list ev) : bool := pl_inflight (ping_log id h).

(* "a ping outcome o arriving now completes the F-th consecutive failure since the last success,
   no stop outcome occurred, and the health check has not closed the connection before":
   health_closes_at over the outcomes so far followed by o, at the index of o. *)
Definition health_closes_now (F : nat) (outs : list outcome) (o : outcome) : Prop :=
  health_closes_at F (outs ++ [o]) (length outs).

(* Ping / health traffic: the health-check events themselves and ping request (0xd0) / ping
   response (0xd1) frames in either direction. *)
Definition is_ping_frame (mt : Z) : bool := (mt =? 208) || (mt =? 209).
Definition is_ping_traffic (e : ev) : bool :=
  match e with
  | EPingStart _ _ | EPingEnd _ _ => true
  | ERead _ mt | EWrite _ mt => is_ping_frame mt
  | _ => false
  end.

(* the ping traffic of connection id' *)
Definition is_ping_traffic_of (id' : Z) (e : ev) : bool :=
  match e with
  | EPingStart i _ | EPingEnd i _ => i =? id'
  | ERead i mt | EWrite i mt => (i =? id') && is_ping_frame mt
  | _ => false
  end.

(* the history without any ping traffic / without the ping traffic of connection id' *)
Definition erase_pings (h : list ev) : list ev := filter (fun e => negb (is_ping_traffic e)) h.
Definition erase_pings_of (id' : Z) (h : list ev) : list ev := filter (fun e => negb (is_ping_traffic_of id' e)) h.
