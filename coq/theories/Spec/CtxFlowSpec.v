(* Property C14 -- what the site tables of Gen/GenCtxFlow.v (go2v/ctxflow.go) have to look
   like.  Code-independent vocabulary first, then the rows the hand models were written against.

   (A) ctxflow_sites: which context the retrying clients hand down.
       A row is (package, function, context parameter, callee, argument, guard, origin); origin
       0 = the function's own context parameter, 1 = derived from it (context.WithTimeout(p, ..),
       Wrap(p), ..), 2 = a context of an ENCLOSING function captured by a function literal that
       has a context parameter of its own, 3 = anything else.
       Discipline: every hand-over below RunWithRetry has origin 0 or 1.
   (B) stop_sites / notify_sites / watch_sites: the statements of the connection-failure path
       that Model/ConnFail.v mirrors.

   Strings are byte lists (the generated tables hold byte lists). *)
From Coq Require Import ZArith List Bool String Ascii.
Import ListNotations.
Local Open Scope Z_scope.

Definition cx_s2z (s : string) : list Z := map (fun a => Z.of_nat (nat_of_ascii a)) (list_ascii_of_string s).

Fixpoint lz_eqb (a b : list Z) : bool :=
  match a, b with
  | [], [] => true
  | x :: a', y :: b' => (x =? y) && lz_eqb a' b'
  | _, _ => false
  end.

Lemma lz_eqb_eq a : forall b, lz_eqb a b = true <-> a = b.
Proof.
  induction a as [|x a IH]; intros [|y b]; cbn [lz_eqb]; split; intros H; try reflexivity; try discriminate.
  - apply andb_prop in H. destruct H as [H1 H2]. apply Z.eqb_eq in H1. apply IH in H2. subst. reflexivity.
  - inversion H; subst. rewrite Z.eqb_refl. cbn. apply IH. reflexivity.
Qed.

(* a ends with suffix b *)
Definition lz_suffix (suf l : list Z) : bool :=
  lz_eqb suf (skipn (List.length l - List.length suf) l) && (List.length suf <=? List.length l)%nat.

(* ---------------------------------------------------------------- (A) context hand-over *)
Definition ctx_row := (list Z * list Z * list Z * list Z * list Z * list Z * Z)%type.
Definition cr_pkg (r : ctx_row) : list Z := let '(p, _, _, _, _, _, _) := r in p.
Definition cr_fn (r : ctx_row) : list Z := let '(_, f, _, _, _, _, _) := r in f.
Definition cr_param (r : ctx_row) : list Z := let '(_, _, p, _, _, _, _) := r in p.
Definition cr_callee (r : ctx_row) : list Z := let '(_, _, _, c, _, _, _) := r in c.
Definition cr_arg (r : ctx_row) : list Z := let '(_, _, _, _, a, _, _) := r in a.
Definition cr_guard (r : ctx_row) : list Z := let '(_, _, _, _, _, g, _) := r in g.
Definition cr_origin (r : ctx_row) : Z := let '(_, _, _, _, _, _, o) := r in o.

Definition pkg_root : list Z := cx_s2z ".".
Definition pkg_thrift : list Z := cx_s2z "thrift".
Definition pkg_json : list Z := cx_s2z "json".

(* the rows of a package *)
Definition rows_of (pkg : list Z) (rows : list ctx_row) : list ctx_row :=
  filter (fun r => lz_eqb (cr_pkg r) pkg) rows.

(* the rows of one function of a package *)
Definition rows_of_fn (pkg fn : list Z) (rows : list ctx_row) : list ctx_row :=
  filter (fun r => lz_eqb (cr_fn r) fn) (rows_of pkg rows).

(* the hand-over keeps the attempt's context *)
Definition row_forwards (r : ctx_row) : bool := (cr_origin r =? 0) || (cr_origin r =? 1).

(* the packages (other than the core) that have rows: the retrying clients *)
Fixpoint dedup (l : list (list Z)) : list (list Z) :=
  match l with
  | [] => []
  | x :: r => if existsb (lz_eqb x) r then dedup r else x :: dedup r
  end.
Definition client_pkgs (rows : list ctx_row) : list (list Z) :=
  dedup (map cr_pkg (filter (fun r => negb (lz_eqb (cr_pkg r) pkg_root)) rows)).

(* a package reaches the call primitive: some row hands a context to a ...BeginCall *)
Definition reaches_begin (pkg : list Z) (rows : list ctx_row) : bool :=
  existsb (fun r => lz_suffix (cx_s2z "BeginCall") (cr_callee r)) (rows_of pkg rows).

(* the attempt functions handed to RunWithRetry: (package, function) *)
Definition attempt_fn_covered (rows : list ctx_row) (pf : list Z * list Z) : bool :=
  existsb (fun r => lz_eqb (cr_pkg r) (fst pf) && lz_eqb (cr_fn r) (snd pf)) rows.

(* Channel.RunWithRetry (retry.go), the rows the model of the attempt context was written
   against: the attempt function gets the caller's context when TimeoutPerAttempt is 0 and
   context.WithTimeout(runCtx, opts.TimeoutPerAttempt) otherwise. *)
Definition core_ctx_rows : list ctx_row :=
  let fn := cx_s2z "Channel.RunWithRetry" in
  let p := cx_s2z "runCtx" in
  [ (pkg_root, fn, p, cx_s2z "getRetryOptions", cx_s2z "runCtx", [], 0);
    (pkg_root, fn, p, cx_s2z "f", cx_s2z "runCtx", cx_s2z "for && opts.TimeoutPerAttempt == 0", 0);
    (pkg_root, fn, p, cx_s2z "context.WithTimeout", cx_s2z "runCtx", cx_s2z "for && !(opts.TimeoutPerAttempt == 0)", 0);
    (pkg_root, fn, p, cx_s2z "f", cx_s2z "attemptCtx := context.WithTimeout(runCtx, opts.TimeoutPerAttempt)",
       cx_s2z "for && !(opts.TimeoutPerAttempt == 0)", 1) ].

Definition fn_run_with_retry : list Z := cx_s2z "Channel.RunWithRetry".

(* the path of an outbound call inside the core package, down to the message exchange that
   carries the context of the call: (function, callee) *)
Definition core_call_path : list (list Z * list Z) :=
  [ (cx_s2z "Channel.BeginCall", cx_s2z "p.BeginCall");
    (cx_s2z "SubChannel.BeginCall", cx_s2z "peer.BeginCall");
    (cx_s2z "Peer.BeginCall", cx_s2z "conn.beginCall");
    (cx_s2z "Connection.beginCall", cx_s2z "c.outbound.newExchange") ].
Definition path_step_present (rows : list ctx_row) (k : list Z * list Z) : bool :=
  existsb (fun r => lz_eqb (cr_fn r) (fst k) && lz_eqb (cr_callee r) (snd k) && ((cr_origin r =? 0) || (cr_origin r =? 1)))
          (rows_of pkg_root rows).

(* the retrying clients known to the model (new ones fall under the discipline automatically) *)
Definition known_attempt_fns : list (list Z * list Z) :=
  [ (cx_s2z "json", cx_s2z "Client.Call/func1"); (cx_s2z "thrift", cx_s2z "client.Call/func1") ].

(* ---------------------------------------------------------------- (B) failure path *)
Definition cas_guard : list Z := cx_s2z "c.stoppedExchanges.CAS(false, true)".
Definition fn_connection_error : list Z := cx_s2z "Connection.connectionError".
Definition fn_protocol_error : list Z := cx_s2z "Connection.protocolError".
Definition rx_inbound : list Z := cx_s2z "c.inbound".
Definition rx_outbound : list Z := cx_s2z "c.outbound".

(* messageExchangeSet.stopExchanges (mex.go): shutdown is latched under the lock, a second call
   returns early, every exchange copied under the lock is notified once (errChNotified CAS) *)
Definition model_notify_sites : list (list Z * list Z * list Z) :=
  let fn := cx_s2z "messageExchangeSet.stopExchanges" in
  [ (fn, cx_s2z "mexset.log.Enabled(LogLevelDebug)", []);
    (fn, cx_s2z "mexset.log.Debugf(""stopping %v exchanges due to error: %v"", mexset.count(), err)", cx_s2z "mexset.log.Enabled(LogLevelDebug)");
    (fn, cx_s2z "mexset.count()", cx_s2z "mexset.log.Enabled(LogLevelDebug)");
    (fn, cx_s2z "mexset.Lock()", []);
    (fn, cx_s2z "shutdown, exchanges := mexset.copyExchanges()", []);
    (fn, cx_s2z "mexset.copyExchanges()", []);
    (fn, cx_s2z "mexset.shutdown = true", []);
    (fn, cx_s2z "mexset.Unlock()", []);
    (fn, cx_s2z "mexset.log.Debugf(""mexset has already been shutdown"")", cx_s2z "shutdown");
    (fn, cx_s2z "return", cx_s2z "shutdown");
    (fn, cx_s2z "mex.errChNotified.CAS(false, true)", cx_s2z "!(shutdown) && range");
    (fn, cx_s2z "mex.errCh.Notify(err)", cx_s2z "!(shutdown) && range && mex.errChNotified.CAS(false, true)") ].

(* the goroutine dispatchInbound starts for every dispatched call (inbound.go): an expired /
   cancelled context expires the exchange; a notified exchange error cancels the handler's
   context (response.cancel) and expires the exchange *)
Definition model_watch_sites : list (list Z * list Z * list Z) :=
  let fn := cx_s2z "Connection.dispatchInbound" in
  let g := cx_s2z "!(err != nil) && go && func && select" in
  [ (fn, cx_s2z "call.mex.ctx.Done()", g);
    (fn, cx_s2z "call.mex.ctx.Err()", g ++ cx_s2z " && case <-call.mex.ctx.Done()");
    (fn, cx_s2z "call.mex.inboundExpired()", g ++ cx_s2z " && case <-call.mex.ctx.Done() && call.mex.ctx.Err() != nil");
    (fn, cx_s2z "c.log.Enabled(LogLevelDebug)", g ++ cx_s2z " && case <-call.mex.errCh.c");
    (fn, cx_s2z "call.log.Debugf(""Wait for timeout/cancellation interrupted by error: %v"", call.mex.errCh.err)",
       g ++ cx_s2z " && case <-call.mex.errCh.c && c.log.Enabled(LogLevelDebug)");
    (fn, cx_s2z "call.response.cancel()", g ++ cx_s2z " && case <-call.mex.errCh.c");
    (fn, cx_s2z "call.mex.inboundExpired()", g ++ cx_s2z " && case <-call.mex.errCh.c") ].
