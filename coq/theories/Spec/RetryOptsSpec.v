(* C17, the options path and the error classes, written from the documentation only
   (retry.go doc comments of RetryOptions / RetryOn, context_builder.go doc comments,
   the property statement); nothing here looks at the code.

   Options.  A ContextBuilder receives a sequence of setter calls
     SetRetryOptions(nil | &RetryOptions{MaxAttempts, RetryOn, TimeoutPerAttempt})
     SetTimeoutPerAttempt(d)
   in any order, any number of times.  What RunWithRetry uses is, per field, the LAST value
   given to that field: SetRetryOptions gives all three (nil: all three unset = 0),
   SetTimeoutPerAttempt gives TimeoutPerAttempt only.  "MaxAttempts ... If this is 0, the
   default number of attempts (5) is used"; the zero RetryOn is RetryDefault; a zero
   TimeoutPerAttempt means "the original timeout is used".  A context without TChannel
   parameters behaves as a builder on which no setter was called. *)
From Coq Require Import ZArith List Bool.
From Verif Require Import Base.Wrap Base.GoErr Spec.RetryTable.
Import ListNotations.
Local Open Scope Z_scope.

Definition opts3 := (Z * Z * Z)%type.      (* MaxAttempts, RetryOn, TimeoutPerAttempt (ns) *)
Inductive cb_op :=
| OpSetRetryOptions (o : option opts3)
| OpSetTimeoutPerAttempt (d : Z).

(* which value, if any, a setter call gives to each field *)
Definition gives_max (op : cb_op) : option Z :=
  match op with
  | OpSetRetryOptions (Some (m, _, _)) => Some m
  | OpSetRetryOptions None => Some 0
  | OpSetTimeoutPerAttempt _ => None
  end.
Definition gives_on (op : cb_op) : option Z :=
  match op with
  | OpSetRetryOptions (Some (_, r, _)) => Some r
  | OpSetRetryOptions None => Some 0
  | OpSetTimeoutPerAttempt _ => None
  end.
Definition gives_tpa (op : cb_op) : option Z :=
  match op with
  | OpSetRetryOptions (Some (_, _, t)) => Some t
  | OpSetRetryOptions None => Some 0
  | OpSetTimeoutPerAttempt d => Some d
  end.

(* the last value given to a field by a call sequence; 0 = never given / unset *)
Definition last_given (g : cb_op -> option Z) (ops : list cb_op) : Z :=
  fold_left (fun acc op => match g op with Some v => v | None => acc end) ops 0.

Definition spec_max_attempts (ops : list cb_op) : Z :=
  let m := last_given gives_max ops in if m =? 0 then 5 else m.
Definition spec_retry_on (ops : list cb_op) : Z := last_given gives_on ops.
Definition spec_timeout_per_attempt (ops : list cb_op) : Z := last_given gives_tpa ops.

(* has_params = the context was built by a ContextBuilder (it carries TChannel parameters) *)
Definition spec_effective (has_params : bool) (ops : list cb_op) : opts3 :=
  let ops := if has_params then ops else [] in
  (spec_max_attempts ops, spec_retry_on ops, spec_timeout_per_attempt ops).

(* Error classes.  "a SystemError's own code wins; only a bare net.Error counts as network":
   the code that the retry policy looks at is
     nil                                  -> 0x00 (invalid; never asked in practice)
     SystemError{code, wrapped anything}  -> code
     a net.Error value                    -> 0x07 network
     any other error, whatever it wraps   -> 0x05 unexpected                         *)
Definition spec_err_code (e : gerr) : Z :=
  match e with
  | GNil => 0
  | GSys code _ => code
  | GNet _ => 7
  | GPlain _ => 5
  end.

Definition classify_shape (e : gerr) : err_class := class_of_code (spec_err_code e).

(* NewWrappedSystemError(code, wrapped): documented "a SystemError wrapping an existing
   error"; an error that already is a SystemError is returned unchanged *)
Definition spec_new_wrapped (code : Z) (wrapped : gerr) : gerr :=
  match wrapped with GSys _ _ => wrapped | _ => GSys code wrapped end.
