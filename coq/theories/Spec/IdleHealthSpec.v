(* Specification vocabulary for property C19 (idle sweeps and health checks), written from
   the property text and the protocol document; it mentions no structure of the Go code.

   A *history* is a list of events over several connections of one channel, driven by a stub
   clock: the clock advances only by [EAdvance]; frames are read and written; calls (local or
   relayed) start and finish; the idle sweep ticks; a health check pings and the ping ends
   with an outcome.  Message types are the literal type bytes of the protocol document. *)
From Coq Require Import ZArith List Bool.
Import ListNotations.
Local Open Scope Z_scope.

(* outcome of one health-check ping, as the health check sees it *)
Inductive outcome :=
| POk      (* a ping response arrived *)
| PFail    (* any failure: timeout, error frame, unexpected frame *)
| PStop.   (* the ping was cancelled / health checks were stopped: no verdict on the connection *)

Inductive ev :=
| EAdvance (dt : Z)                 (* the stub clock moves by dt nanoseconds *)
| ENewConn (id : Z) (relay : bool)  (* a connection becomes active (relay: the channel relays) *)
| ERead (id mt : Z)                 (* a frame of type mt was received on connection id *)
| EWrite (id mt : Z)                (* a frame of type mt was sent on connection id *)
| EPend (id w d : Z)                (* a call starts (d=1) / finishes (d=-1): w=0 inbound call,
                                       w=1 outbound call, w=2 relayed call *)
| EClose (id : Z)                   (* the application closes the connection *)
| ETick                             (* the idle sweep runs *)
| EPingStart (id : Z) (sent : bool) (* health-check tick: a ping is attempted; sent=false when the
                                       ping frame could not even be queued (connection error) *)
| EPingEnd (id : Z) (o : outcome).  (* the ping in flight ends with outcome o *)

(* "call frame" of the property statement: call req 0x03, call res 0x04, call req continue
   0x13, call res continue 0x14 and error 0xff.  Init 0x01/0x02, cancel 0xc0, claim 0xc1,
   ping req 0xd0, ping res 0xd1 and anything else are not. *)
Definition is_call_frame (mt : Z) : bool :=
  (mt =? 3) || (mt =? 4) || (mt =? 19) || (mt =? 20) || (mt =? 255).

(* stub clock after a history that started at t0 *)
Fixpoint clock (t0 : Z) (h : list ev) : Z :=
  match h with
  | [] => t0
  | EAdvance dt :: r => clock (t0 + dt) r
  | _ :: r => clock t0 r
  end.

(* the stub clock never runs backwards and every clock value of the history is a
   representable nanosecond timestamp (years 1678..2262) *)
Definition ts_ok (t : Z) : Prop := - 2 ^ 63 <= t < 2 ^ 63.
Fixpoint clock_ok (t0 : Z) (h : list ev) : Prop :=
  ts_ok t0 /\
  match h with
  | [] => True
  | EAdvance dt :: r => 0 <= dt /\ clock_ok (t0 + dt) r
  | _ :: r => clock_ok t0 r
  end.

(* time of the last sent or received call frame of connection id; its creation time when
   there was none; None when the connection was never created.  [cur] is the value so far. *)
Fixpoint last_call_activity (id : Z) (t : Z) (cur : option Z) (h : list ev) : option Z :=
  match h with
  | [] => cur
  | EAdvance dt :: r => last_call_activity id (t + dt) cur r
  | ENewConn i _ :: r =>
      last_call_activity id t (match cur with None => if i =? id then Some t else None | Some _ => cur end) r
  | ERead i mt :: r | EWrite i mt :: r =>
      last_call_activity id t
        (match cur with Some _ => if (i =? id) && is_call_frame mt then Some t else cur | None => None end) r
  | _ :: r => last_call_activity id t cur r
  end.

(* ---- health checks ---- *)

(* The health check closes the connection at outcome index i (0-based) exactly when the
   outcomes i-F+1 .. i are F consecutive failures, no earlier window of F failures exists,
   and no stop outcome occurred up to i. *)
Definition window_fails (F : nat) (outs : list outcome) (i : nat) : Prop :=
  (F <= i + 1)%nat /\ forall j, (i + 1 - F <= j <= i)%nat -> nth j outs POk = PFail.

Definition health_closes_at (F : nat) (outs : list outcome) (i : nat) : Prop :=
  (i < length outs)%nat /\ window_fails F outs i /\
  (forall j, (j < i)%nat -> ~ window_fails F outs j) /\
  (forall j, (j <= i)%nat -> nth j outs POk <> PStop).

(* the last n elements of a list *)
Definition lastn {A} (n : nat) (l : list A) : list A := skipn (length l - n) l.
