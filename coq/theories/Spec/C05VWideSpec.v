(* Vocabulary of the WIDE wait-site table of property C05 (b) (go2v/c05vwide.go, emitted at the
   end of Gen/GenLockProgs.v): the blocking statements in the closure of the call API when
   calls through function values stored inside the package (the func-typed struct fields
   onCancel / onRemoved / onAdded of an exchange set, OnActive / OnCloseStateChange /
   OnExchangeUpdated of a connection's events) are followed, and the one kind of wait in there
   that has no exit of its own: the JOIN of a goroutine of the package.  Independent of the code. *)
From Coq Require Import ZArith List Bool.
From Verif Require Import Spec.WaitSpec.
Import ListNotations.
Local Open Scope Z_scope.

(* a bare receive `<-x.done` in function wj_fn on a channel that the goroutine wj_goroutine
   closes when it ends (defer close(x.done)); wj_cancelled: the statement right before the
   receive calls a context.CancelFunc (the goroutine has just been told to stop); wj_sites: the
   blocking statements of the goroutine's own closure *)
Record wjoin := mkWjoin { wj_fn : list Z; wj_goroutine : list Z; wj_cancelled : bool; wj_sites : list wsite }.

(* exits through which a goroutine that has been told to stop leaves a wait: its context, a
   timer, a connection deadline *)
Definition is_stop_exit (x : wexit) : bool :=
  match x with XCtx | XTimer | XConnDeadline => true | _ => false end.

Definition stoppable (w : wsite) : Prop := exists x, In x (ws_exits w) /\ is_stop_exit x = true.

(* SPEC: the joined goroutine was told to stop right before, and none of its waits can hold it *)
Definition join_bounded (j : wjoin) : Prop := wj_cancelled j = true /\ Forall stoppable (wj_sites j).

(* the wait site is such a join: a bare channel operation in a function for which the table of
   joins has a bounded entry *)
Definition is_bounded_join (joins : list wjoin) (w : wsite) : Prop :=
  ws_kind w = WChanOp /\ exists j, In j joins /\ wj_fn j = ws_fn w /\ join_bounded j.
