(* Which frame answers which, written from the TChannel protocol document only (literals):
   "init res (0x02) ... in response to an init req (0x01)", "ping res (0xd1) ... in response to
   ping req (0xd0)", "call res (0x04) / call res continue (0x14)", "error (0xff): the id of the
   message that failed"; a response carries the id of the request ("message id ... chosen by the
   requestor, the response frames MUST carry the same id").  Nothing here mentions the code. *)
From Coq Require Import ZArith List Bool.
Import ListNotations.
Local Open Scope Z_scope.

Definition s_answer_init (id : Z) : list (Z * Z) := [(2, id)].
Definition s_answer_ping (id : Z) : list (Z * Z) := [(209, id)].
Definition s_answer_error (id : Z) : list (Z * Z) := [(255, id)].
(* a call res, followed by call res continue frames when it does not fit one frame; consecutive
   equal headers are written once *)
Definition s_answer_call (fragmented : bool) (id : Z) : list (Z * Z) :=
  if fragmented then [(4, id); (20, id)] else [(4, id)].

Definition s_step (kind a b : Z) : list (Z * Z) :=
  if kind =? 0 then s_answer_ping a
  else if kind =? 1 then s_answer_call false a
  else if kind =? 2 then s_answer_call true a
  else if kind =? 3 then s_answer_error a
  else if kind =? 4 then s_answer_call false b ++ s_answer_call false a
  else if kind =? 5 then s_answer_error b ++ s_answer_call false a
  else s_answer_error a.

Fixpoint s_script (l : list Z) : list (Z * Z) :=
  match l with
  | kind :: a :: b :: r => s_step kind a b ++ s_script r
  | _ => []
  end.

Definition s_flat (l : list (Z * Z)) : list Z := flat_map (fun p => [fst p; snd p]) l.

Definition s_replyhdr (c : list Z) : list Z :=
  match c with
  | ik :: iid :: script => if ik =? 0 then s_flat (s_answer_init iid ++ s_script script) else s_flat (s_answer_error iid)
  | _ => [-1]
  end.

(* the connecting side: any id may be chosen for the init req (the code's choice is a parameter
   [own]); the init res must carry it; errors and cancels carry the id of the message they refer to *)
Definition s_replyhdr_out (own : Z) (c : list Z) : list Z :=
  match c with
  | delta :: call_id :: _ =>
      [1; own] ++ (if (own + delta) mod 2 ^ 32 =? own then [1; 192; call_id] else [0; 255; own])
  | _ => [-1]
  end.
