(* The documented retry policy (retry.go doc comments / property C17), written as a table
   that does not look at the code: error class x policy -> retryable? *)
From Coq Require Import ZArith List Bool.
From Verif Require Import Base.Wrap.
Import ListNotations.
Local Open Scope Z_scope.

Inductive err_class := Busy | Declined | BadRequest | Network | Unexpected | OtherErr.
Inductive policy := PDefault | PConnectionError | PNever | PNonIdempotent | PUnexpected | PIdempotent.

Definition retryable (p : policy) (c : err_class) : bool :=
  match p, c with
  | PNever, _ => false
  | _, (Busy | Declined) => true                       (* every policy but never *)
  | _, BadRequest => false                             (* under none *)
  | (PConnectionError | PDefault | PIdempotent), Network => true
  | _, Network => false
  | (PUnexpected | PIdempotent), Unexpected => true
  | _, Unexpected => false
  | PIdempotent, OtherErr => true                      (* everything else: idempotent only *)
  | _, OtherErr => false
  end.

(* Protocol error codes as literals from the TChannel protocol document. *)
Definition class_of_code (code : Z) : err_class :=
  if code =? 3 then Busy else if code =? 4 then Declined else
  if code =? 6 then BadRequest else if code =? 7 then Network else
  if code =? 5 then Unexpected else OtherErr.

(* Policy numbering is the public enum order documented in retry.go. *)
Definition policy_of (r : Z) : option policy :=
  if r =? 0 then Some PDefault else if r =? 1 then Some PConnectionError else
  if r =? 2 then Some PNever else if r =? 3 then Some PNonIdempotent else
  if r =? 4 then Some PUnexpected else if r =? 5 then Some PIdempotent else None.

Definition all_policies : list Z := [0; 1; 2; 3; 4; 5].

(* classification of a Go error value as the policy table sees it *)
Definition classify (e : goerr) : err_class :=
  if e_net e then Network
  else if e_sys e then class_of_code (e_code e)
  else Unexpected.

