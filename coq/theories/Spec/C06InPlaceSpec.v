(* C06, in-place accessors: WHAT a function that reads (or overwrites) one field of a message
   straight at its place in a frame's payload must return, written from the protocol document
   with literal numbers only (field encoders of Spec/Protocol.v; no definition shared with the
   models of the Go code).

   The library has, next to the read/write method of every message, SECONDARY decoders that do
   not parse the message: callReqSpan / lazyCallReq.Span (tracing of a call req), lazyCallReq.TTL /
   SetTTL / Service / HasMoreFragments, lazyError.Code, isCallResOK / lazyCallRes.OK,
   hasMoreFragments, finishesCall.  The specification of each is "the field of the message whose
   specified encoding the payload is":

     call req payload   flags:1 ttl:4 tracing:25 service~1 <rest>       (<rest> = nh:1 (hk~1 hv~1){nh}
                                                                          csumtype:1 (csum:4){0,1} arg1~2 arg2~2 arg3~2)
     call res payload   flags:1 code:1 <rest>                            (<rest> = tracing:25 nh:1 ...)
     call res continue  flags:1 <rest>
     error payload      code:1 tracing:25 message~2
     tracing            spanid:8 parentid:8 traceid:8 traceflags:1
     flags              bit 0x01 = more fragments follow
     ttl                milliseconds

   and, for the error frame a relay / a closing connection builds for a call req it does not
   serve: its tracing field is the call req's tracing field, byte for byte.

   [s_run_c06inplace] is the specified observable of one harness case (engine c06inplace): the
   case carries the FIELDS, the observable lists what each accessor has to return. *)
From Coq Require Import ZArith List Bool.
From Verif Require Import Base.Wrap Base.Bytes Base.Wire Spec.Protocol Spec.ProtocolCall.
Import ListNotations.
Local Open Scope Z_scope.

(* a 64-bit id as two 32-bit halves (the harness line format carries signed 64-bit numbers) *)
Definition s_ip_id (hi lo : Z) : Z := hi * 4294967296 + lo.

(* flags:1 ttl:4 tracing:25 service~1 <rest> *)
Definition s_ip_callreq (flags ttl_ms : Z) (tracing service rest : list Z) : list Z :=
  [flags] ++ be 4 ttl_ms ++ tracing ++ s_str1 service ++ rest.
(* flags:1 code:1 <rest> *)
Definition s_ip_callres (flags code : Z) (rest : list Z) : list Z := [flags] ++ [code] ++ rest.

(* bit 0x01 of the flags byte *)
Definition s_ip_more (flags : Z) : bool := Z.odd flags.

(* "this frame ends the call": error (0xff) and cancel (0xc0) always; call res (0x04) and call res
   continue (0x14) when no more fragments follow; nothing else *)
Definition s_ip_finishes (mtype flags : Z) : bool :=
  if (mtype =? 255) || (mtype =? 192) then true
  else if (mtype =? 4) || (mtype =? 20) then negb (s_ip_more flags)
  else false.

Definition s_ip_u32 (v : Z) : bool := (0 <=? v) && (v <? 4294967296).
Definition s_ip_u8 (v : Z) : bool := (0 <=? v) && (v <? 256).

(* ---- harness cases ----
   kind 0 (call req): 0 flags ttl_ms span_hi span_lo parent_hi parent_lo trace_hi trace_lo tflags
                      new_ttl_ns code service~ rest~ msg~      (x~ = length-prefixed bytes)
     observable: 0 span_hi span_lo parent_hi parent_lo trace_hi trace_lo tflags   (callReqSpan / Span())
                 ttl_ns (TTL())  more (HasMoreFragments / hasMoreFragments)  finishes (finishesCall: never)
                 service~ (Service())
                 payload~ after SetTTL(new_ttl_ns): only the ttl field changes, to new_ttl_ns / 1ms
                 error payload~ of the system error (code, msg) answered for this call req:
                               code:1 tracing:25 (THE CALL'S) message~2
   kind 1 (call res / call res continue / any other type with a flags byte):
                      1 mtype flags code rest~
     observable: 1 ok (isCallResOK: code = 0)  more  finishes
   kind 2 (error frame): 2 code span_hi .. trace_lo tflags msg~
     observable: 2 code (lazyError.Code)  finishes (always)
   kind 3 (end to end: a call req with this tracing is answered by an ERROR FRAME of the library -- a
           relay's own system error, a relay timeout, a connection declining the call while closing):
                      3 scenario id span_hi .. trace_lo tflags
     observable: 3 type (0xff) id tracing~ of the error frame = the call's id and 25 tracing bytes
   anything else, or a field outside its range: -2 *)
Inductive s_ip_case : Type :=
| IPReq (flags ttl_ms sh sl ph pl th tl tflags new_ttl code : Z) (service rest msg : list Z)
| IPRes (mtype flags code : Z) (rest : list Z)
| IPErr (code sh sl ph pl th tl tflags : Z) (msg : list Z)
| IPWire (scenario id sh sl ph pl th tl tflags : Z).

Definition s_ip_halves (l : list Z) : bool := forallb s_ip_u32 l.

(* the ranges of the fields *)
Definition s_ip_case_ok (k : s_ip_case) : bool :=
  match k with
  | IPReq flags ttl_ms sh sl ph pl th tl tflags new_ttl code service rest msg =>
      s_ip_u8 flags && s_ip_u32 ttl_ms && s_ip_halves [sh; sl; ph; pl; th; tl] && s_ip_u8 tflags
      && (0 <=? new_ttl) && (new_ttl <? 4294967296000000) && s_ip_u8 code
      && (slen service <=? 255) && (slen msg <=? 65491)
      && bytes_ok service && bytes_ok rest && bytes_ok msg
  | IPRes mtype flags code rest => s_ip_u8 mtype && s_ip_u8 flags && s_ip_u8 code && bytes_ok rest
  | IPErr code sh sl ph pl th tl tflags msg =>
      s_ip_u8 code && s_ip_halves [sh; sl; ph; pl; th; tl] && s_ip_u8 tflags && (slen msg <=? 65491) && bytes_ok msg
  | IPWire scenario id sh sl ph pl th tl tflags =>
      s_ip_u32 id && s_ip_halves [sh; sl; ph; pl; th; tl] && s_ip_u8 tflags
  end.

Definition s_ip_parse (c : list Z) : option s_ip_case :=
  let k :=
    match c with
    | kind :: r =>
        if kind =? 0 then
          match r with
          | flags :: ttl_ms :: sh :: sl :: ph :: pl :: th :: tl :: tflags :: new_ttl :: code :: r0 =>
              let '(service, r1) := take_bytes r0 in
              let '(rest, r2) := take_bytes r1 in
              let '(msg, _) := take_bytes r2 in
              Some (IPReq flags ttl_ms sh sl ph pl th tl tflags new_ttl code service rest msg)
          | _ => None
          end
        else if kind =? 1 then
          match r with
          | mtype :: flags :: code :: r0 => let '(rest, _) := take_bytes r0 in Some (IPRes mtype flags code rest)
          | _ => None
          end
        else if kind =? 2 then
          match r with
          | code :: sh :: sl :: ph :: pl :: th :: tl :: tflags :: r0 =>
              let '(msg, _) := take_bytes r0 in Some (IPErr code sh sl ph pl th tl tflags msg)
          | _ => None
          end
        else if kind =? 3 then
          match r with
          | scenario :: id :: sh :: sl :: ph :: pl :: th :: tl :: tflags :: _ =>
              Some (IPWire scenario id sh sl ph pl th tl tflags)
          | _ => None
          end
        else None
    | [] => None
    end in
  match k with
  | Some k' => if s_ip_case_ok k' then Some k' else None
  | None => None
  end.

(* what the accessors have to return *)
Definition s_ip_obs (k : s_ip_case) : list Z :=
  match k with
  | IPReq flags ttl_ms sh sl ph pl th tl tflags new_ttl code service rest msg =>
      let tracing := s_tracing (s_ip_id sh sl) (s_ip_id ph pl) (s_ip_id th tl) tflags in
      [0; sh; sl; ph; pl; th; tl; tflags; ttl_ms * 1000000; zb (s_ip_more flags); zb (s_ip_finishes 3 flags)]
      ++ put_bytes service
      ++ put_bytes (s_ip_callreq flags (new_ttl / 1000000) tracing service rest)
      ++ put_bytes (s_error code tracing msg)
  | IPRes mtype flags code rest =>
      [1; zb (code =? 0); zb (s_ip_more flags); zb (s_ip_finishes mtype flags)]
  | IPErr code sh sl ph pl th tl tflags msg => [2; code; zb (s_ip_finishes 255 0)]
  | IPWire scenario id sh sl ph pl th tl tflags =>
      [3; 255; id] ++ put_bytes (s_tracing (s_ip_id sh sl) (s_ip_id ph pl) (s_ip_id th tl) tflags)
  end.

Definition s_run_c06inplace (c : list Z) : list Z :=
  match s_ip_parse c with None => [-2] | Some k => s_ip_obs k end.
