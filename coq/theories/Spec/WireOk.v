(* Code-independent grammar of what one request id may carry back to the caller
   (property C10).  Written from the property text and the protocol document only:
   a response is a call-res frame followed by call-res-continue frames, every frame but
   the last carrying the more-fragments flag; an error frame ends the exchange.

   Accepted words (per request id):
       Res[last]
       Res[more] Cont[more]* Cont[last]
       any proper prefix of those two forms followed by one Err   (incl. a single Err)
   Because a response may simply stop (deadline passed, connection lost), the safety
   statement for a log is "prefix of an accepted word" ([wire_prefix_ok]).

   Only the Coq standard library is used. *)
From Coq Require Import List Bool.
Import ListNotations.

Inductive kind : Type :=
| Res (more : bool)      (* call res, 0x04; [more] = more-fragments flag *)
| Cont (more : bool)     (* call res continue, 0x14 *)
| Err.                   (* error frame, 0xff *)

(* a frame that ends the exchange *)
Definition terminal (k : kind) : bool :=
  match k with Res m => negb m | Cont m => negb m | Err => true end.

(* Cont[more]* Cont[last] *)
Fixpoint conts_last (l : list kind) : bool :=
  match l with
  | [Cont false] => true
  | Cont true :: r => conts_last r
  | _ => false
  end.

(* Cont[more]* Err *)
Fixpoint conts_err (l : list kind) : bool :=
  match l with
  | [Err] => true
  | Cont true :: r => conts_err r
  | _ => false
  end.

(* Cont[more]* *)
Fixpoint conts_more (l : list kind) : bool :=
  match l with
  | [] => true
  | Cont true :: r => conts_more r
  | _ => false
  end.

(* a complete response *)
Definition wire_complete (l : list kind) : bool :=
  match l with
  | [Res false] => true
  | Res true :: r => conts_last r
  | _ => false
  end.

(* a proper prefix of a complete response, followed by one error frame *)
Definition wire_cut (l : list kind) : bool :=
  match l with
  | [Err] => true
  | Res true :: r => conts_err r
  | _ => false
  end.

Definition wire_ok (l : list kind) : bool := wire_complete l || wire_cut l.

(* a proper prefix of a complete response: nothing, or Res[more] Cont[more]* *)
Definition wire_open (l : list kind) : bool :=
  match l with
  | [] => true
  | Res true :: r => conts_more r
  | _ => false
  end.

(* prefix of an accepted word (see [wire_prefix_ok_spec] in Proofs/WireOkP.v:
   wire_prefix_ok l = true <-> exists s, wire_ok (l ++ s) = true) *)
Definition wire_prefix_ok (l : list kind) : bool := wire_ok l || wire_open l.

(* The same language as a three-state automaton (the form invariant proofs use). *)
Inductive wstate : Type :=
| W0      (* nothing sent *)
| WMid    (* Res[more] Cont[more]* sent *)
| WEnd.   (* a terminal frame sent *)

Definition wire_step (q : wstate) (k : kind) : option wstate :=
  match q, k with
  | W0, Res true => Some WMid
  | W0, Res false => Some WEnd
  | W0, Err => Some WEnd
  | WMid, Cont true => Some WMid
  | WMid, Cont false => Some WEnd
  | WMid, Err => Some WEnd
  | _, _ => None
  end.

Fixpoint wire_run (q : wstate) (l : list kind) : option wstate :=
  match l with
  | [] => Some q
  | k :: r => match wire_step q k with
              | Some q' => wire_run q' r
              | None => None
              end
  end.
