(* Vocabulary of the context-end table of property C20 (Gen/GenCtxSites.v, regenerated from the
   Go source by go2v/ctxsites.go) and the short specification "a context that ends is reported
   to the caller with the documented code".  Independent of the code. *)
From Coq Require Import ZArith List Bool.
Import ListNotations.
Local Open Scope Z_scope.

(* an error expression over the context's error *)
Inductive cexpr :=
| CxCtx                               (* the context's error itself: X.Err() or a variable bound to it *)
| CxConv (e : cexpr)                  (* GetContextError(e) *)
| CxWrap (code : Z) (e : cexpr)       (* NewWrappedSystemError(code, e) *)
| CxPass (fn : list Z) (e : cexpr)    (* f(e) for a function that hands its argument back *)
| CxVal (name : list Z)               (* a package-level error value *)
| CxNil
| CxOther (src : list Z).             (* anything else (source text) *)

Inductive ckind :=
| KDone        (* the body of `case <-X.Done():` *)
| KErrIf       (* the body of `if X.Err() != nil` / `if err := X.Err(); err != nil` / `if X.Err() == context.Canceled` *)
| KErrLoose.   (* another occurrence of X.Err() *)

(* which way of ending selects the branch *)
Inductive cwhen := WAny | WCanceled | WDeadline.

Record csite := mkCsite {
  cs_fn : list Z;                       (* "Recv.Func" or "Recv.Func$n" for the n-th function literal *)
  cs_kind : ckind;
  cs_when : cwhen;
  cs_rets : list cexpr;                 (* the error result of each return reachable from the branch *)
  cs_falls : bool;                      (* the end of the function can be reached without a return *)
  cs_calls : list (list Z * bool) }.    (* callees handed the context's error; true = only compares it *)

(* the two ways a context ends, and the code the statement of C20 fixes for each *)
Inductive ctx_end := EndDeadline | EndCanceled.
Definition spec_ctx_code (e : ctx_end) : Z :=
  match e with
  | EndDeadline => 1    (* timeout *)
  | EndCanceled => 2    (* cancelled *)
  end.

Definition when_applies (w : cwhen) (e : ctx_end) : bool :=
  match w, e with
  | WAny, _ | WCanceled, EndCanceled | WDeadline, EndDeadline => true
  | _, _ => false
  end.

Definition ckind_eqb (a b : ckind) : bool :=
  match a, b with KDone, KDone | KErrIf, KErrIf | KErrLoose, KErrLoose => true | _, _ => false end.
