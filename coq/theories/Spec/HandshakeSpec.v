(* Specification of the connection handshake, written from the statement of property C13
   and the protocol document (frame and init layouts of Spec/Protocol.v, literal numbers).
   It mentions no definition of the model of the Go code. *)
From Coq Require Import ZArith List Bool.
From Verif Require Import Base.Wrap Base.Bytes Spec.Protocol.
Import ListNotations.
Local Open Scope Z_scope.

(* a frame on the wire; the two reserved fields may hold anything (receivers ignore them) *)
Definition frame_bytes (t r1 id : Z) (res8 payload : list Z) : list Z :=
  be 2 (16 + slen payload) ++ [t; r1] ++ be 4 id ++ res8 ++ payload.

(* the stream starts with one complete frame of type t, id and payload *)
Definition first_frame (stream : list Z) (t id : Z) (payload : list Z) : Prop :=
  exists r1 res8 rest,
    0 <= t < 256 /\ 0 <= r1 < 256 /\ 0 <= id < 2 ^ 32 /\ length res8 = 8%nat /\ slen payload <= 65519 /\
    stream = frame_bytes t r1 id res8 payload ++ rest.

(* init req / init res body: version:2 nh:2 (key~2 value~2){nh}, possibly followed by bytes
   the receiver does not look at *)
Definition str2_ok (s : list Z) : Prop := slen s <= 65535 /\ bytes_ok s = true.
Definition params_ok (p : list (list Z * list Z)) : Prop :=
  slen p <= 65535 /\ Forall (fun kv => str2_ok (fst kv) /\ str2_ok (snd kv)) p.
Definition init_payload (payload : list Z) (version : Z) (params : list (list Z * list Z)) : Prop :=
  0 <= version < 65536 /\ params_ok params /\ exists junk, payload = s_init version params ++ junk.

Definition has_param (k : list Z) (p : list (list Z * list Z)) : Prop := exists v, In (k, v) p.
(* the value a key stands for: its last occurrence *)
Definition announced (k : list Z) (p : list (list Z * list Z)) (v : list Z) : Prop :=
  exists l1 l2, p = l1 ++ (k, v) :: l2 /\ ~ has_param k l2.

Definition k_host_port : list Z := [104; 111; 115; 116; 95; 112; 111; 114; 116].                  (* "host_port" *)
Definition k_process_name : list Z := [112; 114; 111; 99; 101; 115; 115; 95; 110; 97; 109; 101].  (* "process_name" *)
Definition protocol_version : Z := 2.

(* "the first frame is an init request with version 2 or higher carrying host_port and process_name" *)
Definition valid_init_req (stream : list Z) (id : Z) (params : list (list Z * list Z)) : Prop :=
  exists payload v,
    first_frame stream t_init_req id payload /\ init_payload payload v params /\
    protocol_version <= v /\ has_param k_host_port params /\ has_param k_process_name params.

(* "the reply is an init response echoing the request's id with version 2 and those parameters" *)
Definition valid_init_res (reqid : Z) (stream : list Z) (params : list (list Z * list Z)) : Prop :=
  exists payload,
    first_frame stream t_init_res reqid payload /\ init_payload payload protocol_version params /\
    has_param k_host_port params /\ has_param k_process_name params.

(* "a peer announcing an ephemeral host:port": "", "0.0.0.0:0" or anything ending in ":0" *)
Definition ephemeral_hp (hp : list Z) : Prop :=
  hp = [] \/ hp = [48; 46; 48; 46; 48; 46; 48; 58; 48] \/ exists pre, hp = pre ++ [58; 48].

(* "is identified by its socket address and marked ephemeral" (otherwise by what it announced) *)
Definition identified (params : list (list Z * list Z)) (sockaddr : list Z)
    (hostport process : list Z) (ephemeral : bool) : Prop :=
  exists hp, announced k_host_port params hp /\ announced k_process_name params process /\
    ((ephemeral_hp hp /\ hostport = sockaddr /\ ephemeral = true) \/
     (~ ephemeral_hp hp /\ hostport = hp /\ ephemeral = false)).

(* an error frame: code:1 tracing:25 (zero) message~2 *)
Definition error_frame (id code : Z) (msg : list Z) : list Z :=
  s_frame t_error id (s_error code (s_tracing 0 0 0 0) msg).
Definition init_frame (t id version : Z) (params : list (list Z * list Z)) : list Z :=
  s_frame t id (s_init version params).

(* system error codes of the protocol document *)
Definition e_timeout := 1.  Definition e_unexpected := 5.  Definition e_network := 7.  Definition e_protocol := 255.
