(* Specification of the application-header path for contexts that are used for SEVERAL calls
   (property C18: "application headers attached to a call's context reach the thrift or JSON
   handler exactly and the handler's response headers reach the caller").  Written from the
   statement and the documentation of ContextWithHeaders; it does not mention codecs, retry
   loops or the order of statements in the clients.

   A context is (the request headers the caller attached to it, the response headers of the
   last ANSWERED call made with it).  An answered call (handler outcome ok or application
   error) leaves exactly the response headers of ITS handler there -- empty when the handler set
   none -- whatever an earlier call left; the handler sees exactly the request headers.  A call
   that fails (system / transport error) has no response: the context keeps what it had.
   WithHeaders gives a context with new request headers and no response headers; Child a
   copy that is stored separately from its parent.  Header maps are canonical association
   lists; nil and the empty map are both []. *)
From Coq Require Import ZArith List Bool.
Import ListNotations.
Local Open Scope Z_scope.

Definition hmap := list (list Z * list Z).

Inductive hop :=
| HWith (h : hmap)                               (* ctx = WithHeaders(ctx, h) *)
| HChild                                         (* ctx = ctx.Child(), pushed *)
| HPop                                           (* back to the parent context *)
| HCall (kind : Z) (outcome : Z) (resp : hmap).  (* kind 0 thrift, other = JSON; outcome 0 ok, 1 application error, other = system error *)

(* what one call shows: result for the caller (0 ok, 1 application error, 2 failed), whether
   the handler ran, the request headers it saw *)
Record callobs := mkCallObs { co_result : Z; co_ran : bool; co_seen : hmap }.
(* after every operation: the call's observation (calls only), ctx.Headers(), ctx.ResponseHeaders() *)
Definition hobs := (option callobs * hmap * hmap)%type.

Definition answered (outcome : Z) : bool := (outcome =? 0) || (outcome =? 1).

Definition sctx := (hmap * hmap)%type.
Definition sstack := (sctx * list sctx)%type.

Definition spec_call (c : sctx) (outcome : Z) (resp : hmap) : sctx * callobs :=
  if answered outcome then ((fst c, resp), mkCallObs outcome true (fst c))
  else (c, mkCallObs 2 true (fst c)).

Definition spec_step (st : sstack) (o : hop) : sstack * option callobs :=
  let '(cur, par) := st in
  match o with
  | HWith h => (((h, []), par), None)
  | HChild => ((cur, cur :: par), None)
  | HPop => (match par with [] => (cur, []) | p :: par' => (p, par') end, None)
  | HCall _ outcome resp => let '(cur', ob) := spec_call cur outcome resp in ((cur', par), Some ob)
  end.

Fixpoint spec_run (st : sstack) (ops : list hop) : list hobs :=
  match ops with
  | [] => []
  | o :: rest => let '(st', ob) := spec_step st o in (ob, fst (fst st'), snd (fst st')) :: spec_run st' rest
  end.

Fixpoint spec_final (st : sstack) (ops : list hop) : sstack :=
  match ops with
  | [] => st
  | o :: rest => spec_final (fst (spec_step st o)) rest
  end.

Definition sinit : sstack := (([], []), []).

(* the caller's own actions in a sequence: everything but the calls *)
Definition is_call (o : hop) : bool := match o with HCall _ _ _ => true | _ => false end.
Definition caller_ops (ops : list hop) : list hop := filter (fun o => negb (is_call o)) ops.
