(* Vocabulary of the wait-site table of property C05 (b) and the short specification
   "every blocking statement on the call path can be left through the caller's deadline".
   Independent of the code: Gen/GenWaitSites.v (regenerated from the Go source by
   go2v/waitsites.go) is a list of [wsite] values. *)
From Coq Require Import ZArith List Bool.
Import ListNotations.
Local Open Scope Z_scope.

(* how a blocked goroutine can leave a blocking statement *)
Inductive wexit :=
  | XCtx            (* <-ctx.Done() of the call's context / a dial that takes the context *)
  | XErrLatch       (* <-mex.errCh.c : the exchange error latch closed by connectionError *)
  | XConnDeadline   (* net.Conn deadline set from the context before the I/O *)
  | XTimer          (* some other timer *)
  | XData.          (* the awaited event itself: frame received, queue slot free, lock granted *)

Inductive wkind := WSelect | WChanOp | WLock | WDial | WNetIO | WOther.

Record wsite := mkWsite { ws_fn : list Z; ws_kind : wkind; ws_exits : list wexit }.

Definition wexit_eqb (a b : wexit) : bool :=
  match a, b with
  | XCtx, XCtx | XErrLatch, XErrLatch | XConnDeadline, XConnDeadline | XTimer, XTimer | XData, XData => true
  | _, _ => false
  end.

(* the exits that fire no later than the caller's deadline *)
Definition is_deadline_exit (x : wexit) : bool :=
  match x with XCtx | XConnDeadline => true | _ => false end.

(* SPEC: the wait offers an exit bound to the call's deadline *)
Definition has_deadline_exit (w : wsite) : Prop := exists x, In x (ws_exits w) /\ is_deadline_exit x = true.
Definition has_deadline_exitb (w : wsite) : bool := existsb is_deadline_exit (ws_exits w).
