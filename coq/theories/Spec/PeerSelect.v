(* Specification of peer selection, written from the statement of property C15 (and from
   the documentation of PeerList.Get / RequestState.AddSelectedPeer), independent of the
   heap: a trivial reference over the plain list of (host:port, score) pairs.

   prev  = the strings previously selected for the request (host:ports and hosts).
   tiers = 1: neither the host:port nor its host was tried; 2: the host:port was not tried;
           3: any peer.  A selection must come from the strictest non-empty tier and have a
           minimum score within it. *)
From Coq Require Import ZArith List Bool.
From Verif Require Import Base.Wrap.
Import ListNotations.
Local Open Scope Z_scope.

(* the host of a host:port: the bytes before the LAST ':' (58) -- the one in front of the port, so
   that a bracketed IPv6 host:port "[::1]:4040" has host "[::1]" --, the whole string if none *)
Fixpoint has_colon (l : list Z) : bool :=
  match l with
  | [] => false
  | c :: r => orb (c =? 58) (has_colon r)
  end.
Fixpoint host_of (hp : list Z) : list Z :=
  match hp with
  | [] => []
  | c :: r => if c =? 58 then (if has_colon r then c :: host_of r else []) else c :: host_of r
  end.

Definition tried (prev : list (list Z)) (s : list Z) : bool := existsb (bytes_eqb s) prev.

Definition tier1 (prev : list (list Z)) (hp : list Z) : bool := negb (tried prev hp) && negb (tried prev (host_of hp)).
Definition tier2 (prev : list (list Z)) (hp : list Z) : bool := negb (tried prev hp).
Definition tier3 (hp : list Z) : bool := true.

(* eligibility for Get: the strictest tier that some member of the list belongs to *)
Definition eligible_get (prev : list (list Z)) (members : list (list Z)) : list Z -> bool :=
  if existsb (tier1 prev) members then tier1 prev
  else if existsb (tier2 prev) members then tier2 prev
  else tier3.

(* eligibility for GetNew: tiers 1 and 2 only *)
Definition eligible_getnew (prev : list (list Z)) (members : list (list Z)) : list Z -> bool :=
  if existsb (tier1 prev) members then tier1 prev else tier2 prev.

(* p is a least-loaded eligible peer of the list *)
Definition least_loaded (elig : list Z -> bool) (peers : list (list Z * Z)) (p : list Z) : Prop :=
  exists s, In (p, s) peers /\ elig p = true /\
            forall q sq, In (q, sq) peers -> elig q = true -> s <= sq.

(* default strategy (peer_strategies.go doc comment): peers with incoming connections, then
   peers with any connection, then unconnected peers; fewer pending calls first.
   rank = (tier, pending), compared lexicographically. *)
Definition default_rank (inbound outbound pending : Z) : Z * Z :=
  if inbound + outbound =? 0 then (2, 0)
  else if inbound =? 0 then (1, pending) else (0, pending).

Definition rank_lt (a b : Z * Z) : Prop := fst a < fst b \/ (fst a = fst b /\ snd a < snd b).
