(* Specification side of the static half of property C12: "the library neither reads nor
   writes a frame after handing it back" -- and, because a frame that was handed to another
   goroutine (sendCh <- f, recvCh <- f, go dispatch(f)) may be handed back by that goroutine at
   any moment, neither after handing it ON.

   This file fixes
     * the language of ABSTRACT PROGRAMS [fu] in which go2v (go2v/frameuse.go) describes what a
       Go function does with one frame: uses, (re)bindings, hand-overs, calls of functions that
       may take the frame, the bool / error variables that say whether they did, control flow;
     * OWNERSHIP SIGNATURES [conv] of functions that take a frame parameter;
     * a concrete, nondeterministic path semantics [exec] of abstract programs, which yields
       the trace of frame events of one execution;
     * the discipline itself, [disc], a property of traces that does not mention programs.
   Nothing here depends on the Go code. *)
From Coq Require Import ZArith List Bool.
Import ListNotations.
Local Open Scope Z_scope.

Definition str := list Z.

Fixpoint str_eqb (a b : str) : bool :=
  match a, b with
  | [], [] => true
  | x :: a', y :: b' => (x =? y) && str_eqb a' b'
  | _, _ => false
  end.

Definition is_nil (a : str) : bool := match a with [] => true | _ => false end.

(* a returned / assigned bool or error expression: a literal (error: nil = false, non-nil =
   true), a variable, or something the translator does not classify *)
Inductive rexp := RLit (b : bool) | RVar (x : str) | RUnk.

(* a condition: [TIs x b] holds iff x = b; [TImp x b] can only hold if x = b (err == errFoo
   implies err != nil); [TOther] anything else *)
Inductive test := TIs (x : str) (b : bool) | TImp (x : str) (b : bool) | TOther.

Inductive fu :=
| FSkip
| FUse (what : str)                      (* the function touches the frame *)
| FBind (how : str) (errv : str)         (* the frame variable is bound to a fresh frame; with errv <> []:
                                            to a fresh frame and errv = nil, or to no frame and errv <> nil *)
| FXfer (kind : Z) (what : str)          (* 1 chan send, 2 FramePool.Release, 3 go statement, 4 fragment.done() (idempotent) *)
| FCall (callee : str) (res : list str)  (* the frame is passed to a function with an ownership signature *)
| FSet (x : str) (e : rexp)
| FSeq (a b : fu)
| FIf (t : test) (a b : fu)
| FAlt (a b : fu)                        (* switch / select: one of the two *)
| FLoop (b : fu)
| FJump (k : Z)                          (* 0 break, 1 continue *)
| FRet (lbl : str) (vs : list rexp) (carrier : bool)   (* carrier: the frame itself is returned to the caller *)
| FUnsupported (what : str).

(* Ownership signature of a function F(.., f, ..):
     CAlways         after the call the caller must consider f gone, whatever F returns;
     CRes i g ei     F's i-th result says whether F took f: if f is gone when F returns then
                     result i = g and (ei = Some j) result j = false (a nil error);
     CNone           no signature (f must not be passed to it for keeps). *)
Inductive conv := CAlways | CRes (idx : nat) (g : bool) (erridx : option nat) | CNone.

(* ------------------------------------------------------------------ the discipline *)

(* what happens to the frame variable during one execution of a function *)
Inductive uev :=
| UUse      (* read / written / passed on *)
| UBind     (* bound to a fresh frame *)
| UNil      (* bound to no frame *)
| UGone     (* handed over: sent on a channel, released, given to a goroutine, taken by a callee *)
| UDone.    (* fragment.done(): releases unless already released *)

(* [disc live tr]: replay tr starting with a frame the function may touch (live = true) or
   not; None = the function touched or handed over a frame that was no longer its own *)
Fixpoint disc (live : bool) (tr : list uev) : option bool :=
  match tr with
  | [] => Some live
  | UUse :: r => if live then disc true r else None
  | UGone :: r => if live then disc false r else None
  | UBind :: r => disc true r
  | UNil :: r => disc false r
  | UDone :: r => disc false r
  end.

Definition disciplined (live : bool) (tr : list uev) : Prop := disc live tr <> None.

(* ------------------------------------------------------------------ path semantics *)

Definition cenv := str -> bool.
Definition upd (e : cenv) (x : str) (b : bool) : cenv := fun y => if str_eqb y x then b else e y.

Inductive reval (e : cenv) : rexp -> bool -> Prop :=
| rv_lit b : reval e (RLit b) b
| rv_var x : reval e (RVar x) (e x)
| rv_unk b : reval e RUnk b.

Inductive okind := KNorm | KBrk | KCnt | KRet (vs : list bool) (carrier : bool).

(* the variables a call assigns may change arbitrarily, nothing else does *)
Definition agree_except (res : list str) (e e' : cenv) : Prop := forall y, ~ In y res -> e' y = e y.

Definition res_is (res : list str) (i : nat) (e' : cenv) (b : bool) : Prop :=
  forall x, nth_error res i = Some x -> x <> [] -> e' x = b.
Definition res_err_nil (res : list str) (ei : option nat) (e' : cenv) : Prop :=
  forall j y, ei = Some j -> nth_error res j = Some y -> y <> [] -> e' y = false.

Section Exec.
Variable cv : str -> option conv.

Inductive exec : fu -> cenv -> list uev -> cenv -> okind -> Prop :=
| x_skip e : exec FSkip e [] e KNorm
| x_use w e : exec (FUse w) e [UUse] e KNorm
| x_bind h e : exec (FBind h []) e [UBind] e KNorm
| x_bind_ok h x e : x <> [] -> exec (FBind h x) e [UBind] (upd e x false) KNorm
| x_bind_nil h x e : x <> [] -> exec (FBind h x) e [UNil] (upd e x true) KNorm
| x_xfer k w e : k <> 4 -> exec (FXfer k w) e [UGone] e KNorm
| x_done w e : exec (FXfer 4 w) e [UDone] e KNorm
(* a callee that always takes the frame (or at least must be assumed to) *)
| x_call_always f res e e' : cv f = Some CAlways -> agree_except res e e' ->
    exec (FCall f res) e [UUse; UGone] e' KNorm
| x_call_always_kept f res e e' : cv f = Some CAlways -> agree_except res e e' ->
    exec (FCall f res) e [UUse] e' KNorm
(* a callee with a result that tells: it took the frame and says so, *)
| x_call_taken f res i g ei e e' : cv f = Some (CRes i g ei) -> agree_except res e e' ->
    res_is res i e' g -> res_err_nil res ei e' ->
    exec (FCall f res) e [UUse; UGone] e' KNorm
(* it did not take it and says so, *)
| x_call_refused f res i g ei e e' : cv f = Some (CRes i g ei) -> agree_except res e e' ->
    res_is res i e' (negb g) ->
    exec (FCall f res) e [UUse] e' KNorm
(* or it says it took it but dropped it *)
| x_call_dropped f res i g ei e e' : cv f = Some (CRes i g ei) -> agree_except res e e' ->
    exec (FCall f res) e [UUse] e' KNorm
| x_set x r b e : reval e r b -> exec (FSet x r) e [] (upd e x b) KNorm
| x_seq a b e tr1 e1 tr2 e2 k : exec a e tr1 e1 KNorm -> exec b e1 tr2 e2 k -> exec (FSeq a b) e (tr1 ++ tr2) e2 k
| x_seq_abort a b e tr1 e1 k : exec a e tr1 e1 k -> k <> KNorm -> exec (FSeq a b) e tr1 e1 k
| x_if_is_then x v a b e tr e' k : e x = v -> exec a e tr e' k -> exec (FIf (TIs x v) a b) e tr e' k
| x_if_is_else x v a b e tr e' k : e x <> v -> exec b e tr e' k -> exec (FIf (TIs x v) a b) e tr e' k
| x_if_imp_then x v a b e tr e' k : e x = v -> exec a e tr e' k -> exec (FIf (TImp x v) a b) e tr e' k
| x_if_imp_else x v a b e tr e' k : exec b e tr e' k -> exec (FIf (TImp x v) a b) e tr e' k
| x_if_other_then a b e tr e' k : exec a e tr e' k -> exec (FIf TOther a b) e tr e' k
| x_if_other_else a b e tr e' k : exec b e tr e' k -> exec (FIf TOther a b) e tr e' k
| x_alt_l a b e tr e' k : exec a e tr e' k -> exec (FAlt a b) e tr e' k
| x_alt_r a b e tr e' k : exec b e tr e' k -> exec (FAlt a b) e tr e' k
| x_loop_done b e : exec (FLoop b) e [] e KNorm
| x_loop_iter b e tr1 e1 k1 tr2 e2 k : exec b e tr1 e1 k1 -> k1 = KNorm \/ k1 = KCnt ->
    exec (FLoop b) e1 tr2 e2 k -> exec (FLoop b) e (tr1 ++ tr2) e2 k
| x_loop_brk b e tr e1 : exec b e tr e1 KBrk -> exec (FLoop b) e tr e1 KNorm
| x_loop_ret b e tr e1 vs c : exec b e tr e1 (KRet vs c) -> exec (FLoop b) e tr e1 (KRet vs c)
| x_break e : exec (FJump 0) e [] e KBrk
| x_continue e : exec (FJump 1) e [] e KCnt
| x_ret lbl vs bs c e : Forall2 (reval e) vs bs ->
    exec (FRet lbl vs c) e (if c then [UUse] else []) e (KRet bs c).
(* FUnsupported has no behaviour here; the checker rejects it, so nothing is claimed about it. *)
End Exec.

(* what a signature promises about one return of the function: [live] = the caller may still
   touch the frame (it was neither handed over nor released), [vs] the returned values *)
Definition conv_holds (c : option conv) (vs : list bool) (live : bool) : Prop :=
  match c with
  | Some (CRes i g ei) =>
      live = false -> nth_error vs i = Some g /\ (forall j, ei = Some j -> nth_error vs j = Some false)
  | Some CAlways => True
  | _ => False
  end.
