(* What a sequence of call fragments MEANS, from the protocol document: within a message,
   chunk 0 of a fragment continues the argument in progress, every further chunk of the
   fragment starts the next argument.  Independent of writer and reader code. *)
From Coq Require Import ZArith List Bool.
From Verif Require Import Base.Wrap.
Import ListNotations.
Local Open Scope Z_scope.

Inductive chunk_ev := Cont (c : list Z) | New (c : list Z).

Definition frag_events (chunks : list (list Z)) : list chunk_ev :=
  match chunks with [] => [] | c0 :: cs => Cont c0 :: map New cs end.

(* (closed arguments, argument in progress) *)
Definition ev_step (acc : list (list Z) * list Z) (e : chunk_ev) : list (list Z) * list Z :=
  match e with
  | Cont c => (fst acc, snd acc ++ c)
  | New c => (fst acc ++ [snd acc], c)
  end.
Definition denote_events (evs : list chunk_ev) : list (list Z) * list Z := fold_left ev_step evs ([], []).

(* the arguments carried by a complete message given as the chunk lists of its fragments *)
Definition denote (frags : list (list (list Z))) : list (list Z) :=
  let '(closed, cur) := denote_events (flat_map frag_events frags) in closed ++ [cur].
