(* Code-independent statements of property C09 over a log of RelayCall callbacks.
   The log is a list of (call, event), NEWEST FIRST; [is_end] recognises End. *)
From Coq Require Import ZArith List Bool.
Import ListNotations.
Local Open Scope Z_scope.

Section Account.
  Context {E : Type} (is_end : E -> bool).

  Fixpoint count_end (c : Z) (log : list (Z * E)) : Z :=
    match log with
    | [] => 0
    | (c', e) :: r => (if (c' =? c) && is_end e then 1 else 0) + count_end c r
    end.

  (* End reported at most once / exactly once for call c *)
  Definition end_at_most_once (log : list (Z * E)) : Prop := forall c, count_end c log <= 1.
  Definition end_exactly_once (c : Z) (log : list (Z * E)) : Prop := count_end c log = 1.

  (* nothing is reported for a call after its End: no event of c is newer than an End of c *)
  Definition silent_after_end (log : list (Z * E)) : Prop :=
    forall c later earlier e, log = later ++ (c, e) :: earlier -> is_end e = true ->
      forall e', ~ In (c, e') later.
End Account.
