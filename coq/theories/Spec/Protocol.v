(* The TChannel wire layout, written from the protocol specification
   (tchannel.readthedocs.io/en/latest/protocol) with literal numbers only.  It shares no
   definition with the models of the Go code. *)
From Coq Require Import ZArith List Bool.
From Verif Require Import Base.Bytes.
Import ListNotations.
Local Open Scope Z_scope.

Definition slen {A} (l : list A) : Z := Z.of_nat (length l).

(* xx~1 and xx~2: length-prefixed strings *)
Definition s_str1 (s : list Z) : list Z := [slen s] ++ s.
Definition s_str2 (s : list Z) : list Z := be 2 (slen s) ++ s.

(* tracing:25 = spanid:8 parentid:8 traceid:8 traceflags:1 *)
Definition s_tracing (spanid parentid traceid flags : Z) : list Z :=
  be 8 spanid ++ be 8 parentid ++ be 8 traceid ++ [flags].

(* nh:1 (hk~1 hv~1){nh} *)
Definition s_headers1 (h : list (list Z * list Z)) : list Z :=
  [slen h] ++ flat_map (fun kv => s_str1 (fst kv) ++ s_str1 (snd kv)) h.

(* init req / init res:  version:2 nh:2 (key~2 value~2){nh} *)
Definition s_init (version : Z) (params : list (list Z * list Z)) : list Z :=
  be 2 version ++ be 2 (slen params) ++ flat_map (fun kv => s_str2 (fst kv) ++ s_str2 (snd kv)) params.

(* call req (after flags:1):  ttl:4 tracing:25 service~1 nh:1 (hk~1 hv~1){nh} *)
Definition s_callreq (ttl_ms : Z) (tr : list Z) (service : list Z) (h : list (list Z * list Z)) : list Z :=
  be 4 ttl_ms ++ tr ++ s_str1 service ++ s_headers1 h.

(* call res (after flags:1):  code:1 tracing:25 nh:1 (hk~1 hv~1){nh} *)
Definition s_callres (code : Z) (tr : list Z) (h : list (list Z * list Z)) : list Z :=
  [code] ++ tr ++ s_headers1 h.

(* error:  code:1 tracing:25 message~2 *)
Definition s_error (code : Z) (tr : list Z) (msg : list Z) : list Z := [code] ++ tr ++ s_str2 msg.

(* cancel:  ttl:4 tracing:25 why~2 *)
Definition s_cancel (ttl : Z) (tr : list Z) (why : list Z) : list Z := be 4 ttl ++ tr ++ s_str2 why.

(* frame:  size:2 type:1 reserved:1 id:4 reserved:8 payload ; size counts the 16 header bytes *)
Definition s_frame (mtype id : Z) (payload : list Z) : list Z :=
  be 2 (16 + slen payload) ++ [mtype; 0] ++ be 4 id ++ [0;0;0;0;0;0;0;0] ++ payload.

(* message type codes *)
Definition t_init_req := 1.   Definition t_init_res := 2.
Definition t_call_req := 3.   Definition t_call_res := 4.
Definition t_call_req_cont := 19. (* 0x13 *)  Definition t_call_res_cont := 20. (* 0x14 *)
Definition t_cancel := 192. (* 0xc0 *)  Definition t_ping_req := 208. (* 0xd0 *)
Definition t_ping_res := 209. (* 0xd1 *)  Definition t_error := 255. (* 0xff *)
