(* What a transparent relay does, written from the property text and the protocol document
   (literal type codes and offsets), independent of the relay's tables and code paths:
   it keeps ONE table of calls in flight (source connection, id chosen by the caller,
   destination connection, id taken fresh from the destination connection's sequence);
   a call req opens an entry and goes to the destination with only the id replaced and the
   ttl clamped; every other frame of the call goes to the other side with only the id
   replaced; the frame that ends the response closes the entry.  Frames are emitted in the
   order they are read.  Shares only the vocabulary (labels, outputs) with the model. *)
From Coq Require Import ZArith List Bool.
From Verif Require Import Base.Wrap Base.Bytes Model.Messages Model.RelayFwd Spec.Protocol.
Import ListNotations.
Local Open Scope Z_scope.

Record scall := mkCall { sc_src : nat; sc_orig : Z; sc_dst : nat; sc_id : Z }.
Record sstate := mkSS { ss_calls : list scall; ss_count : nat -> Z }.

Definition sp_with_id (h : fheader) (id : Z) : fheader := mkFH (fh_size h) (fh_type h) (fh_res1 h) id.

(* call req payload: flags:1 ttl:4 ...  -- ttl := min ttl max, everything else untouched *)
Definition sp_ttl (p : list Z) : Z := unbe (firstn 4 (skipn 1 p)).
Definition sp_clamp (max_ms : Z) (p : list Z) : list Z :=
  firstn 1 p ++ be 4 (Z.min (sp_ttl p) max_ms) ++ skipn 5 p.

Fixpoint find_src (cs : list scall) (c : nat) (id : Z) : option scall :=
  match cs with
  | [] => None
  | x :: r => if Nat.eqb (sc_src x) c && (sc_orig x =? id) then Some x else find_src r c id
  end.
Fixpoint find_dst (cs : list scall) (d : nat) (k : Z) : option scall :=
  match cs with
  | [] => None
  | x :: r => if Nat.eqb (sc_dst x) d && (sc_id x =? k) then Some x else find_dst r d k
  end.
Definition remove_call (cs : list scall) (x : scall) : list scall :=
  filter (fun y => negb (Nat.eqb (sc_dst y) (sc_dst x) && (sc_id y =? sc_id x))) cs.

(* the last frame of a response: an error frame, or a call res (continue) frame without the
   more-fragments flag (bit 0 of the first payload byte) *)
Definition sp_ends (t : Z) (p : list Z) : bool :=
  (t =? t_error) || (((t =? t_call_res) || (t =? t_call_res_cont)) && (Z.land (nth 0 p 0) 1 =? 0)).

Definition bump (f : nat -> Z) (c : nat) : nat -> Z := fun c' => if Nat.eqb c' c then f c + 1 else f c'.

(* None: the label is outside what the specification covers *)
Definition spec_step (max_ms : Z) (ss : sstate) (l : label) : option (list out * sstate) :=
  match l with
  | LFrame c h p hd =>
      let t := fh_type h in
      if t =? t_cancel then Some ([], ss)            (* cancels are not propagated *)
      else if t =? t_call_req then
        match hd with
        | HDst d [] =>
            match find_src (ss_calls ss) c (fh_id h) with
            | Some _ => Some ([], ss)                (* id already in use on this connection *)
            | None =>
                let k := ss_count ss d + 1 in
                Some ([OFrame d (sp_with_id h k) (sp_clamp max_ms p)],
                      mkSS (mkCall c (fh_id h) d k :: ss_calls ss) (bump (ss_count ss) d))
            end
        | _ => None
        end
      else if t =? t_call_req_cont then
        match find_src (ss_calls ss) c (fh_id h) with
        | None => Some ([], ss)
        | Some x => Some ([OFrame (sc_dst x) (sp_with_id h (sc_id x)) p], ss)
        end
      else if (t =? t_call_res) || (t =? t_call_res_cont) || (t =? t_error) then
        match find_dst (ss_calls ss) c (fh_id h) with
        | None => Some ([], ss)
        | Some x =>
            Some ([OFrame (sc_src x) (sp_with_id h (sc_orig x)) p],
                  if sp_ends t p then mkSS (remove_call (ss_calls ss) x) (ss_count ss) else ss)
        end
      else None
  | LOwn c => Some ([], mkSS (ss_calls ss) (bump (ss_count ss) c))
  | _ => None
  end.

Fixpoint spec_run (max_ms : Z) (ls : list label) (ss : sstate) : option (list (list out) * sstate) :=
  match ls with
  | [] => Some ([], ss)
  | l :: r =>
      match spec_step max_ms ss l with
      | None => None
      | Some (o, ss1) =>
          match spec_run max_ms r ss1 with
          | None => None
          | Some (os, ss2) => Some (o :: os, ss2)
          end
      end
  end.
