(* Vocabulary of Gen/GenC04Reader.v (go2v/c04reader.go): the statement structure of the functions
   through which the READER half of a call (reqResReader: a caller reading its response, a
   handler reading its request) fetches its next fragment from its message exchange.

   One constructor per statement / condition / result of the source as it stands; the
   constructors ...MexCheckError stand for the writer-half idiom `mex.checkError()` (context
   error, else the error notified on the exchange's error channel) -- they have a semantics in
   Model/C04Reader.v so that a reader that asks that question first can be SHOWN to differ from the
   model; ...MexOther stand for any other statement on the exchange that is in no table. *)
From Coq Require Import ZArith List.

Inductive c04r_test :=
| C04rtInitial          (* r.initialFragment != nil *)
| C04rtErr              (* err != nil  (of the call just made) *)
| C04rtErrIsMsg         (* err, ok := err.(errorMessage); ok *)
| C04rtMexCheckError    (* err := <exchange>.checkError(); err != nil *)
| C04rtMexOther.        (* any other condition on the exchange *)

Inductive c04r_op :=
| C04roTakeInitial      (* fragment := r.initialFragment *)
| C04roClearInitial     (* r.initialFragment = nil *)
| C04roSetPrev          (* r.previousFragment = fragment *)
| C04roMessage          (* message := r.messageForFragment(initial) *)
| C04roRecvOfType       (* frame, err := r.mex.recvPeerFrameOfType(message.messageType()) *)
| C04roRecvPeerFrame    (* frame, err := mex.recvPeerFrame() *)
| C04roSetErrMsg        (* r.err = err.AsSystemError() *)
| C04roParse            (* fragment, err := parseInboundFragment(..., frame, message) *)
| C04roMexOther.        (* any other statement on the exchange *)

Inductive c04r_res :=
| C04rrFragment         (* return fragment, nil *)
| C04rrErrMsg           (* return nil, err   (the peer's error frame for this call) *)
| C04rrFailed           (* return nil, r.failed(err) *)
| C04rrErr              (* return nil, err   (recvPeerFrameOfType passing recvPeerFrame's error on) *)
| C04rrDecode.          (* the switch over the frame's type: the frame, the decoded error frame, or errUnexpectedFrameType *)

Inductive c04r_prog :=
| C04rRet (r : c04r_res)
| C04rIf (t : c04r_test) (a b : c04r_prog)
| C04rDo (o : c04r_op) (k : c04r_prog).
