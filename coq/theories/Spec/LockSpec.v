(* Vocabulary of the lock-discipline table of property C04, clause (c) "concurrent use of the
   public API causes no data race", and the short specification it is checked against.
   Independent of the code: Gen/GenLockSites.v (regenerated from the Go source by
   go2v/locksites.go) is a list of [lk_site] values, one per syntactic read / write site of a
   mutex-protected field of the concurrency core, with the lock mode syntactically held there.

   What the discipline is (Eraser-style lock sets): every write site of a protected field holds
   the field's mutex in write mode, every read site holds it at least in read mode.  What it
   buys is stated by [rw_exclusion] (Proofs/LockSitesP.v) against the small semantics of a
   readers-writer mutex below: two critical sections on the same mutex of which one is a write
   section are never occupied at the same time.  What it is NOT: a theorem about the Go memory
   model; the lock sets are syntactic (see go2v/locksites.go for the rules). *)
From Coq Require Import ZArith List Bool.
Import ListNotations.
Local Open Scope Z_scope.

Inductive lk_acc := LkRead | LkWrite.
Inductive lk_mode := LkNone | LkR | LkW.

Record lk_site := mkLkSite {
  lk_field   : list Z;                      (* "messageExchangeSet.exchanges" *)
  lk_fn      : list Z;                      (* enclosing function; "$lit" appended inside a function literal *)
  lk_kind    : lk_acc;
  lk_held    : lk_mode;                     (* mode of the field's mutex held in the function itself at the site *)
  lk_callers : list (list Z * lk_mode);     (* when nothing is held and the object is the receiver: every call
                                               path into the function ("f<g" = f called by g) with the mode held
                                               at its outermost call *)
  lk_doc     : bool                         (* the function's doc comment asks for the lock to be held *)
}.

Definition lk_acc_eqb (a b : lk_acc) : bool :=
  match a, b with LkRead, LkRead | LkWrite, LkWrite => true | _, _ => false end.

Definition lk_min (a b : lk_mode) : lk_mode :=
  match a, b with
  | LkNone, _ | _, LkNone => LkNone
  | LkR, _ | _, LkR => LkR
  | LkW, LkW => LkW
  end.

(* the mode a site can rely on: its own, else the weakest over all call paths (none if there is no caller) *)
Definition lk_effective (s : lk_site) : lk_mode :=
  match lk_held s with
  | LkNone => match lk_callers s with
              | [] => LkNone
              | c :: cs => fold_left (fun m c' => lk_min m (snd c')) cs (snd c)
              end
  | m => m
  end.

(* SPEC: write sites need the write lock, read sites at least the read lock *)
Definition lk_sufficient (a : lk_acc) (m : lk_mode) : bool :=
  match a, m with
  | LkWrite, LkW => true
  | LkRead, LkW | LkRead, LkR => true
  | _, _ => false
  end.

(* an exception names field, function, access kind and the exact list of call paths of the row *)
Definition lk_exception := (list Z * list Z * lk_acc * list (list Z))%type.

Fixpoint lz_eqb (a b : list Z) : bool :=
  match a, b with
  | [], [] => true
  | x :: a', y :: b' => (x =? y) && lz_eqb a' b'
  | _, _ => false
  end.

Fixpoint llz_eqb (a b : list (list Z)) : bool :=
  match a, b with
  | [], [] => true
  | x :: a', y :: b' => lz_eqb x y && llz_eqb a' b'
  | _, _ => false
  end.

Definition lk_matches (e : lk_exception) (s : lk_site) : bool :=
  let '(f, fn, a, cs) := e in
  lz_eqb f (lk_field s) && lz_eqb fn (lk_fn s) && lk_acc_eqb a (lk_kind s) && llz_eqb cs (map fst (lk_callers s)).

Definition lk_excepted (ex : list lk_exception) (s : lk_site) : bool := existsb (fun e => lk_matches e s) ex.

Definition lk_site_ok (ex : list lk_exception) (s : lk_site) : bool :=
  lk_sufficient (lk_kind s) (lk_effective s) || lk_excepted ex s.

Definition lk_discipline (ex : list lk_exception) (sites : list lk_site) : bool := forallb (lk_site_ok ex) sites.

(* the 1-based row numbers (as in the comments of Gen/GenLockSites.v) of the sites that violate the discipline *)
Fixpoint lk_offenders_from (ex : list lk_exception) (i : Z) (sites : list lk_site) : list Z :=
  match sites with
  | [] => []
  | s :: r => if lk_site_ok ex s then lk_offenders_from ex (i + 1) r else i :: lk_offenders_from ex (i + 1) r
  end.
Definition lk_offenders (ex : list lk_exception) (sites : list lk_site) : list Z := lk_offenders_from ex 1 sites.

(* every exception is needed: it matches a site that does not hold a sufficient lock *)
Definition lk_exceptions_needed (ex : list lk_exception) (sites : list lk_site) : bool :=
  forallb (fun e => existsb (fun s => lk_matches e s && negb (lk_sufficient (lk_kind s) (lk_effective s))) sites) ex.

(* a field is covered: the table has a site of it that holds a lock *)
Definition lk_field_covered (sites : list lk_site) (f : list Z) : bool :=
  existsb (fun s => lz_eqb f (lk_field s) && lk_sufficient (lk_kind s) (lk_effective s)) sites.

(* ---------------------------------------------------------------- readers-writer mutex *)

Record rw := mkRw { rw_readers : nat; rw_writer : bool }.

Definition rw_acquire (s : rw) (m : lk_mode) : option rw :=
  match m with
  | LkNone => Some s                                   (* an access that takes no lock is never delayed *)
  | LkR => if rw_writer s then None else Some (mkRw (S (rw_readers s)) false)
  | LkW => if rw_writer s then None else
           match rw_readers s with O => Some (mkRw O true) | S _ => None end
  end.

Definition rw_release (s : rw) (m : lk_mode) : option rw :=
  match m with
  | LkNone => Some s
  | LkR => match rw_readers s with S n => Some (mkRw n (rw_writer s)) | O => None end
  | LkW => if rw_writer s then Some (mkRw (rw_readers s) false) else None
  end.

(* a thread = (mode it takes around its access, inside its critical section?) *)
Definition lk_thread := (lk_mode * bool)%type.

Inductive rw_step : rw -> list lk_thread -> rw -> list lk_thread -> Prop :=
  | rw_enter : forall s s' m rest, rw_acquire s m = Some s' -> rw_step s ((m, false) :: rest) s' ((m, true) :: rest)
  | rw_leave : forall s s' m rest, rw_release s m = Some s' -> rw_step s ((m, true) :: rest) s' ((m, false) :: rest)
  | rw_other : forall s s' t rest rest', rw_step s rest s' rest' -> rw_step s (t :: rest) s' (t :: rest').

Inductive rw_reach : rw -> list lk_thread -> Prop :=
  | rw_init : forall ms, rw_reach (mkRw O false) (map (fun m => (m, false)) ms)
  | rw_next : forall s ts s' ts', rw_reach s ts -> rw_step s ts s' ts' -> rw_reach s' ts'.
