(* POOL DISCIPLINE (property C04): a specification that mentions no code.

   A sync.Pool is a bag of objects.  Get hands out one object of the bag (and removes that one
   occurrence) or, when it pleases, a NEW object, one that nobody has ever seen.  Put adds an
   object to the bag -- whatever the object, whoever the caller: the pool checks nothing.

   Events of a trace:   PGet o h   holder h was handed object o
                        PPut o h   holder h put object o back
   A holder is whatever uses the object privately between the two: a call's writer or reader,
   one invocation of thrift.ReadHeaders.

   [pw_step] is what the events do to the bag and to the table of holdings -- pure bookkeeping,
   no judgement.  The judgement is split in two:
     [get_legal]    what the POOL guarantees: a Get returns an object of the bag or a new one;
     [put_matched]  what the USERS owe: a Put is preceded by a Get of that object by that
                    holder that has not been answered by a Put yet (so: nobody puts an object
                    back twice, nobody puts back what he does not hold).
   [disciplined es]: every event of es meets its half in the state the events before it lead to.
   [exclusive w]: no object is held twice, no object is in the bag twice, no object of the bag is
   held: the content of [pw_bag w ++ map fst (pw_held w)] is duplicate-free.
   Proofs/PoolTraceP.v: disciplined traces are exclusive after every prefix; and without the
   users' half they are not (a second Put of one object lets the pool hand it to two holders). *)
From Coq Require Import ZArith List Bool.
Import ListNotations.
Local Open Scope Z_scope.

Inductive pev := PGet (o h : Z) | PPut (o h : Z).

Record pworld := mkPw {
  pw_bag : list Z;            (* content of the pool, with multiplicity *)
  pw_held : list (Z * Z);     (* (object, holder), one entry per Get not yet answered by a Put *)
  pw_seen : list Z            (* every object that was ever handed out *)
}.

Definition pw_init := mkPw [] [] [].

Fixpoint pw_rm1 (x : Z) (l : list Z) : list Z :=
  match l with [] => [] | y :: r => if y =? x then r else y :: pw_rm1 x r end.

Definition pw_pair_eqb (a b : Z * Z) : bool := (fst a =? fst b) && (snd a =? snd b).

Fixpoint pw_rm1p (x : Z * Z) (l : list (Z * Z)) : list (Z * Z) :=
  match l with [] => [] | y :: r => if pw_pair_eqb y x then r else y :: pw_rm1p x r end.

Definition pw_step (w : pworld) (e : pev) : pworld :=
  match e with
  | PGet o h => mkPw (pw_rm1 o (pw_bag w)) ((o, h) :: pw_held w) (o :: pw_seen w)
  | PPut o h => mkPw (o :: pw_bag w) (pw_rm1p (o, h) (pw_held w)) (pw_seen w)
  end.

Definition pw_run (w : pworld) (es : list pev) : pworld := fold_left pw_step es w.

(* the pool's half *)
Definition get_legal (w : pworld) (o : Z) : Prop := In o (pw_bag w) \/ ~ In o (pw_seen w).
(* the users' half *)
Definition put_matched (w : pworld) (o h : Z) : Prop := In (o, h) (pw_held w).

Definition ev_ok (w : pworld) (e : pev) : Prop :=
  match e with PGet o _ => get_legal w o | PPut o h => put_matched w o h end.

Definition disciplined (es : list pev) : Prop :=
  forall pre e post, es = pre ++ e :: post -> ev_ok (pw_run pw_init pre) e.

(* only the pool's half: what any program, disciplined or not, can observe of a pool *)
Definition pool_legal (es : list pev) : Prop :=
  forall pre o h post, es = pre ++ PGet o h :: post -> get_legal (pw_run pw_init pre) o.

Definition exclusive (w : pworld) : Prop := NoDup (pw_bag w ++ map fst (pw_held w)).

(* the same in the words of the property: two holdings of one object are the same holding *)
Definition no_sharing (w : pworld) : Prop :=
  forall o h1 h2, In (o, h1) (pw_held w) -> In (o, h2) (pw_held w) -> h1 = h2.
