(* Property C16 stated over the observables of the bookkeeping model: what must hold at a
   quiescent moment (no goroutine inside a bookkeeping function).  Written from the property
   text; it does not mention program counters or steps. *)
From Coq Require Import ZArith List Bool Permutation.
From Verif Require Import Gen.GenConsts Model.PeerBook.
Import ListNotations.
Local Open Scope Z_scope.

Definition quiescent (s : st) : Prop := forall t, s_thr s t = None.

Definition active (s : st) (c : Z) : Prop := k_st (s_conn s c) = c_connectionActive.

(* "each peer's inbound and outbound lists contain exactly the active connections to that
   host:port (an outbound connection whose peer announces a different host:port is listed
   under both)": for every peer of the root list, without duplicates ... *)
Definition lists_exact (s : st) : Prop :=
  forall hp pid, s_root s hp = Some pid ->
    let P := s_peer s pid in
    NoDup (p_in P ++ p_out P) /\
    (forall c, In c (p_in P) <->
       active s c /\ k_dir (s_conn s c) = c_inbound /\ k_rhp (s_conn s c) = hp) /\
    (forall c, In c (p_out P) <->
       active s c /\ k_dir (s_conn s c) = c_outbound /\
       (k_rhp (s_conn s c) = hp \/ k_ohp (s_conn s c) = hp)).

(* ... and every active connection has such a peer for its host:port(s) *)
Definition all_listed (s : st) : Prop :=
  forall c, active s c ->
    s_root s (k_rhp (s_conn s c)) <> None /\
    (k_dir (s_conn s c) = c_outbound -> s_root s (k_ohp (s_conn s c)) <> None).

(* "the channel tracks exactly its not-yet-closed connections" (those it accepted; a
   connection it refused is not active) *)
Definition channel_tracks (s : st) : Prop :=
  (forall c, s_inch s c = true <->
     k_acc (s_conn s c) = true /\ k_st (s_conn s c) <> c_connectionClosed) /\
  (forall c, k_st (s_conn s c) <> 0 -> k_acc (s_conn s c) = false -> ~ active s c).

(* "a status callback has fired for every connection gained or lost": the callback log is,
   as a multiset of host:ports, the gains plus the losses; and gains minus losses are exactly
   the list contents *)
Definition ev_hp (e : Z * Z * Z) : Z := fst (fst e).
Definition ev_is (pid c : Z) (e : Z * Z * Z) : bool := (snd (fst e) =? pid) && (snd e =? c).
Definition callbacks_exact (s : st) : Prop :=
  Permutation (s_log s) (map ev_hp (s_gain s ++ s_loss s)) /\
  (forall pid c,
     (length (filter (Z.eqb c) (p_in (s_peer s pid) ++ p_out (s_peer s pid)))
      + length (filter (ev_is pid c) (s_loss s)))%nat
     = length (filter (ev_is pid c) (s_gain s))).

(* "when a peer's last connection is removed while no peer list references it the peer
   leaves the root list": a root peer without connections and without references did not
   get there by losing a connection (p_last = 2); references are counted exactly *)
Definition refs (s : st) (pid : Z) : Z :=
  Z.of_nat (length (filter (fun e => snd e =? pid) (s_lists s))).
Definition peer_gc (s : st) : Prop :=
  (forall hp pid, s_root s hp = Some pid ->
     let P := s_peer s pid in
     p_in P = [] -> p_out P = [] -> refs s pid = 0 -> p_last P <> 2) /\
  (forall pid, p_sc (s_peer s pid) = refs s pid).

(* every peer-list entry refers to the peer the root list holds for that host:port *)
Definition refs_rooted (s : st) : Prop :=
  forall lid hp pid, In (lid, hp, pid) (s_lists s) -> s_root s hp = Some pid.
