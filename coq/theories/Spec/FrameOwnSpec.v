(* Specification side of property C12 (pooled frame buffers have exactly one owner at a
   time), written from the property text only.  It talks about a HISTORY of pool events
   and nothing else; it does not mention how the code is structured.

   A history is a chronological list of events about frame tokens:
     EGet site t p   the pool handed out frame t (at call site [site]); [p] is ghost
     ERel site t     frame t was handed back to the pool at call site [site]
     EAcc t          the library read or wrote frame t (header, payload or slices of it)
     EMov t p        ghost: the reference to t was handed to another holder
   [place] values are ghost annotations used by the proofs (who holds the reference); the
   three properties below ignore them. *)
From Coq Require Import ZArith List Bool.
Import ListNotations.
Local Open Scope Z_scope.

Inductive place :=
| PFree                 (* not obtained from the pool yet *)
| PReleased             (* handed back *)
| PReader (c : Z)       (* readFrames loop of connection c (local variable frame) *)
| PMex (k : Z)          (* recvCh of message exchange k *)
| PFrag (k : Z)         (* a readableFragment of the argument reader of call k *)
| PSend (c : Z)         (* sendCh of connection c *)
| PWriter (c : Z)       (* writeFrames loop of connection c (local variable f) *)
| PWFrag (k : Z)        (* the writableFragment of the argument writer of call k *)
| PLocal (c : Z).       (* a local variable of a non-loop function *)

Inductive ev :=
| EGet (site t : Z) (p : place)
| EMov (t : Z) (p : place)
| EAcc (t : Z)
| ERel (site t : Z).

Definition ev_tok (e : ev) : Z :=
  match e with EGet _ t _ => t | EMov t _ => t | EAcc t => t | ERel _ t => t end.

Definition gets (h : list ev) : list Z :=
  flat_map (fun e => match e with EGet _ t _ => [t] | _ => [] end) h.
Definition rels (h : list ev) : list Z :=
  flat_map (fun e => match e with ERel _ t => [t] | _ => [] end) h.
Definition toks (h : list ev) : list Z := map ev_tok h.

(* "A frame obtained from the pool is handed back at most once" *)
Definition released_at_most_once (h : list ev) : Prop := NoDup (rels h).

(* "the library neither reads nor writes it after handing it back": after a release of t no
   later event of the history concerns t (no access, no second release, no hand-over; the
   checking pool never hands a token out twice, so not even a Get). *)
Definition no_use_after_release (h : list ev) : Prop :=
  forall h1 s t h2, h = h1 ++ ERel s t :: h2 -> ~ In t (toks h2).

(* everything released or accessed was obtained from the pool before (no foreign frames) *)
Definition only_pool_frames (h : list ev) : Prop :=
  forall h1 e h2, h = h1 ++ e :: h2 ->
    match e with EGet _ t _ => ~ In t (toks h1) | _ => In (ev_tok e) (gets h1) end.

(* "every frame is handed back" *)
Definition all_released (h : list ev) : Prop := forall t, In t (gets h) -> In t (rels h).
