(* The COMPLETE payload of an unfragmented call req / call res, written from the protocol
   specification (tchannel.readthedocs.io/en/latest/protocol, sections "call req (0x03)",
   "call res (0x04)", "Checksums", "Fragmentation") with literal numbers only.  It shares no
   definition with the models of the Go code; the field encoders xx~1, xx~2, nh:1 (hk~1 hv~1){nh}
   are those of Spec/Protocol.v.

     call req:  flags:1 ttl:4 tracing:25 service~1 nh:1 (hk~1 hv~1){nh}
                csumtype:1 (csum:4){0,1} arg1~2 arg2~2 arg3~2
     call res:  flags:1 code:1 tracing:25 nh:1 (hk~1 hv~1){nh}
                csumtype:1 (csum:4){0,1} arg1~2 arg2~2 arg3~2

   flags: bit 0x01 = "more fragments follow"; a message that is its own only fragment has
   flags = 0.  csumtype: 0x00 none (no csum bytes), 0x01 crc-32 (IEEE), 0x02 farmhash
   Fingerprint32, 0x03 crc-32C (Castagnoli); every type other than none is followed by a
   4-byte csum computed over arg1, arg2, arg3 in this order. *)
From Coq Require Import ZArith List Bool.
From Verif Require Import Base.Bytes Spec.Protocol.
Import ListNotations.
Local Open Scope Z_scope.

(* (csum:4){0,1}: absent for type none *)
Definition s_csum (csumtype csum : Z) : list Z := if csumtype =? 0 then [] else be 4 csum.

(* csumtype:1 (csum:4){0,1} arg1~2 arg2~2 arg3~2 *)
Definition s_call_args (csumtype csum : Z) (arg1 arg2 arg3 : list Z) : list Z :=
  [csumtype] ++ s_csum csumtype csum ++ s_str2 arg1 ++ s_str2 arg2 ++ s_str2 arg3.

Definition s_callreq_full (flags ttl_ms : Z) (tracing service : list Z) (h : list (list Z * list Z))
    (csumtype csum : Z) (arg1 arg2 arg3 : list Z) : list Z :=
  [flags] ++ be 4 ttl_ms ++ tracing ++ s_str1 service ++ s_headers1 h ++ s_call_args csumtype csum arg1 arg2 arg3.

Definition s_callres_full (flags code : Z) (tracing : list Z) (h : list (list Z * list Z))
    (csumtype csum : Z) (arg1 arg2 arg3 : list Z) : list Z :=
  [flags] ++ [code] ++ tracing ++ s_headers1 h ++ s_call_args csumtype csum arg1 arg2 arg3.

(* the bytes the checksum covers *)
Definition s_csum_input (arg1 arg2 arg3 : list Z) : list Z := arg1 ++ arg2 ++ arg3.
