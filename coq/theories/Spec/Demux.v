(* Code-independent vocabulary of property C04: interleavings of per-call frame sequences,
   prefixes and in-order subsequences. *)
From Coq Require Import ZArith List Bool.
Import ListNotations.
Local Open Scope Z_scope.

(* [interleaving ls w]: w is a merge of the sequences ls that keeps each sequence's own
   order (what a FIFO shared by several senders can produce) *)
Inductive interleaving {A} : list (list A) -> list A -> Prop :=
| il_nil : forall ls, Forall (fun l => l = []) ls -> interleaving ls []
| il_cons : forall ls1 x l ls2 w,
    interleaving (ls1 ++ l :: ls2) w -> interleaving (ls1 ++ (x :: l) :: ls2) (x :: w).

Definition prefix {A} (a b : list A) : Prop := exists r, b = a ++ r.

(* in-order subsequence *)
Inductive subseq {A} : list A -> list A -> Prop :=
| ss_nil : forall l, subseq [] l
| ss_take : forall x a b, subseq a b -> subseq (x :: a) (x :: b)
| ss_skip : forall x a b, subseq a b -> subseq a (x :: b).
