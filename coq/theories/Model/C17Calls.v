(* Property C17, last clause -- "each attempt sees ... the peers already tried, and sub-channel
   calls avoid those peers while untried ones exist" -- for SEVERAL calls per attempt.

   The retried function may make more than one call with the RequestState it was handed (fall
   back to another replica, fan out) before it gives the attempt up.  Every such call goes through

     SubChannel.BeginCall (subchannel.go)   callOptions nil => defaultCallOptions;
                                            peer, err := c.peers.Get(callOptions.RequestState.PrevSelectedPeers());
                                            err => return; peer.BeginCall(...)
     Channel.BeginCall (channel.go)         p := ch.RootPeers().GetOrAdd(hostPort); p.BeginCall(...)
     Peer.BeginCall (peer.go)               callOptions nil => defaultCallOptions;
                                            callOptions.RequestState.AddSelectedPeer(p.HostPort());
                                            validateCall; GetConnection; conn.beginCall
     RequestState.PrevSelectedPeers (retry.go)   nil receiver => nil; the map

   Mirrors of these four functions ([m_prev_selected], [m_peer_begin_call], [m_sc_begin_call],
   [m_ch_begin_call]; the rest of the system -- the list's Get, the connection -- is a parameter),
   each proved EQUAL to the definition go2v regenerates from the source on every run
   (Gen/GenC17Calls.v, Proofs/C17CallsP.v).  The selection input is the request's selected set for
   EVERY call, whatever the attempt number.

   On top of them a machine for ONE RunWithRetry run whose attempts make calls:
     AStart o    options lookup, the RequestState is reset          (iso_step LStart, Model/RetryRuns.v)
     AEnter      loop head, rs.Attempt++, the retried function runs (iso_step LEnter)
     ACall c     the function makes a call: Channel.BeginCall to a host:port, or BeginCall on
                 sub-channel j (peer list j: Model/PeerList.v [pl_get]); with the RequestState in
                 its call options, with nil call options, or with options that carry none
     AExit e     the function returns e; stop rule                  (iso_step LExit)
   The run part of the state IS the private-run specification of Model/RetryRuns.v ([iso_run]: the
   loop of RunWithRetry, C17_run_alone); a call changes it only through what Peer.BeginCall
   records.  No proofs in this file. *)
From Coq Require Import ZArith List Bool.
From Verif Require Import Base.Wrap Base.Wire Base.GoErr Base.C17CallSem Gen.GenConsts Gen.GenRetry
  Model.Retry Model.RetryRuns Model.PeerHeap Model.PeerList.
Import ListNotations.
Local Open Scope Z_scope.

Definition c17co := option (option c17rs).

(* ------------------------------------------------------------------ mirrors of the Go functions *)

(* func (rs *RequestState) PrevSelectedPeers() map[string]struct{} *)
Definition m_prev_selected (rs : option c17rs) : list (list Z) :=
  match rs with
  | None => []
  | Some r => c17rs_sel r
  end.

(* func (rs *RequestState) RetryCount() int *)
Definition m_retry_count (rs : option c17rs) : Z :=
  match rs with
  | None => 0
  | Some r => wrapS 64 (c17rs_attempt r - 1)
  end.

(* what Peer.BeginCall does to the call options before anything else: nil => the default ones;
   the RequestState they point to (if any) records the peer *)
Definition m_record (p : list Z) (co : c17co) : c17co :=
  match co with
  | None => c17_default_co
  | Some None => Some None
  | Some (Some r) => Some (c17_add_selected_peer (Some r) p)
  end.

(* func (p *Peer) BeginCall(ctx, serviceName, methodName, callOptions): the recording comes
   first; then validateCall, GetConnection, beginCall, each of which may fail *)
Definition m_peer_begin_call {K C : Type} (validate : Z) (get_connection : K * Z)
  (conn_begin_call : K -> c17co -> C * Z) (no_call : C) (p : list Z) (co : c17co) : c17co * (C * Z) :=
  let co := m_record p co in
  if negb (validate =? 0) then (co, (no_call, validate))
  else
    let '(conn, err) := get_connection in
    if negb (err =? 0) then (co, (no_call, err))
    else
      let '(call, err) := conn_begin_call conn co in
      if negb (err =? 0) then (co, (no_call, err)) else (co, (call, err)).

(* func (c *SubChannel) BeginCall(ctx, methodName, callOptions): Get is given the request's
   selected set -- of whatever attempt *)
Definition m_sc_begin_call {P C : Type} (peers_get : list (list Z) -> P * Z)
  (peer_begin_call : P -> c17co -> C * Z) (no_call : C) (co : c17co) : C * Z :=
  let co := match co with None => c17_default_co | Some _ => co end in
  let '(peer, err) := peers_get (m_prev_selected (c17_co_rs co)) in
  if negb (err =? 0) then (no_call, err) else peer_begin_call peer co.

(* func (ch *Channel) BeginCall(ctx, hostPort, serviceName, methodName, callOptions) *)
Definition m_ch_begin_call {P C : Type} (get_or_add : list Z -> P)
  (peer_begin_call : P -> c17co -> C * Z) (hostPort : list Z) (co : c17co) : C * Z :=
  peer_begin_call (get_or_add hostPort) co.

(* the variant of SubChannel.BeginCall that hands the selected set over on a retry only
   ("the first attempt has nothing to avoid"): refuted in Proofs/C17CallsP.v *)
Definition m_sc_begin_call_retry_only {P C : Type} (peers_get : list (list Z) -> P * Z)
  (peer_begin_call : P -> c17co -> C * Z) (no_call : C) (co : c17co) : C * Z :=
  let co := match co with None => c17_default_co | Some _ => co end in
  let rs := c17_co_rs co in
  let prev := if m_retry_count rs >? 0 then m_prev_selected rs else [] in
  let '(peer, err) := peers_get prev in
  if negb (err =? 0) then (no_call, err) else peer_begin_call peer co.

(* ------------------------------------------------------------------ the rest of the system *)

(* c.peers.Get(prev) on the list [l]: the list afterwards, the peer chosen, the error
   (0 nil, 1 ErrNoPeers; 99 = the list model panics, which a well-formed list never does) *)
Definition peers_get_of (l : plist) (prev : list hostport) : (plist * hostport) * Z :=
  match pl_get l prev 0 with
  | Some (l', SelOk hp, _) => ((l', hp), 0)
  | Some (l', SelNoPeers, _) => ((l', []), 1)
  | Some (l', SelNoNewPeers, _) => ((l', []), 2)
  | None => ((l, []), 99)
  end.

(* the connection: validateCall passes, the dial is refused (error 7); no call object.
   Result of a peer's BeginCall: the call options afterwards and the peer that was dialled *)
Definition peer_begin_of (p : hostport) (co : c17co) : (c17co * hostport) * Z :=
  let '(co', (_, err)) := m_peer_begin_call (K:=unit) (C:=unit) 0 (tt, 7) (fun _ _ => (tt, 7)) tt p co in
  ((co', p), err).

(* the type of SubChannel.BeginCall as a function of the rest of the system *)
Definition sc_fun := forall P C : Type, (list (list Z) -> P * Z) -> (P -> c17co -> C * Z) -> C -> c17co -> C * Z.
Definition sc_model : sc_fun := fun P C => @m_sc_begin_call P C.
Definition sc_retry_only : sc_fun := fun P C => @m_sc_begin_call_retry_only P C.

(* a sub-channel call on list [l]: list afterwards, call options afterwards, peer dialled ([] none) *)
Definition sub_call (sc : sc_fun) (l : plist) (co : c17co) : (plist * c17co * hostport) * Z :=
  sc (plist * hostport)%type (plist * c17co * hostport)%type
     (peers_get_of l)
     (fun p co' => let '((co'', hp), err) := peer_begin_of (snd p) co' in ((fst p, co'', hp), err))
     (l, co, []) co.

(* Channel.BeginCall to a host:port *)
Definition direct_call (hp : hostport) (co : c17co) : (c17co * hostport) * Z :=
  m_ch_begin_call (fun h => h) peer_begin_of hp co.

(* ------------------------------------------------------------------ the machine *)

(* how the call options of a call are made: 0 = &CallOptions{RequestState: rs}, 1 = nil,
   other = &CallOptions{} *)
Definition co_of (opts : Z) (rs : c17rs) : c17co :=
  if opts =? 0 then Some (Some rs) else if opts =? 1 then None else Some None.

Inductive c17call :=
| CDirect (hp : hostport) (opts : Z)
| CSub (j : nat) (opts : Z).

Inductive c17act :=
| AStart (o : option retry_opts)
| AEnter
| ACall (c : c17call)
| AExit (e : goerr).

(* the run (None = not started), the peer lists, the peers dialled so far (every call, [] = the
   call dialled none), the peers dialled by calls that carried the RequestState, the labels of
   Model/RetryRuns.v the run has gone through *)
Record cstate := mkCS { cs_run : option iso_run; cs_lists : list plist; cs_picks : list hostport;
                        cs_marks : list hostport; cs_labels : list label }.

Definition c_init (lists : list plist) : cstate := mkCS None lists [] [] [].

Definition rs_of_obj (ob : rs_obj) : c17rs := mk_c17rs (ro_attempt ob) (ro_sel ob).
Definition obj_of_rs (r : c17rs) : rs_obj := mkObj (c17rs_attempt r) (c17rs_sel r).

(* the RequestState after a call that was given [co_of opts rs] and left [co'] *)
Definition rs_after (opts : Z) (rs : c17rs) (co' : c17co) : c17rs :=
  if opts =? 0 then match c17_co_rs co' with Some r => r | None => rs end else rs.

Fixpoint set_nth_list (ls : list plist) (j : nat) (l : plist) : list plist :=
  match ls, j with
  | [], _ => []
  | _ :: r, O => l :: r
  | x :: r, S j' => x :: set_nth_list r j' l
  end.

Definition run_label (l : label) (s : cstate) : option cstate :=
  match iso_step (cs_run s) l with
  | Some r => Some (mkCS r (cs_lists s) (cs_picks s) (cs_marks s) (cs_labels s ++ [l]))
  | None => None
  end.

Definition c_step (sc : sc_fun) (s : cstate) (a : c17act) : option cstate :=
  match a with
  | AStart o => run_label (LStart 1 o 1) s
  | AEnter => run_label (LEnter 1 1) s
  | AExit e => run_label (LExit 1 e) s
  | ACall c =>
      match cs_run s with
      | None => None
      | Some ir =>
          if negb (ctl_can_mark (ir_ctl ir)) then None else
          let rs := rs_of_obj (ir_obj ir) in
          match c with
          | CDirect hp opts =>
              let '((co', p), _) := direct_call hp (co_of opts rs) in
              let rs' := rs_after opts rs co' in
              Some (mkCS (Some (mkIso (obj_of_rs rs') (ir_ctl ir))) (cs_lists s) (cs_picks s ++ [p])
                         (if opts =? 0 then cs_marks s ++ [p] else cs_marks s)
                         (if opts =? 0 then cs_labels s ++ [LMark 1 p] else cs_labels s))
          | CSub j opts =>
              match nth_error (cs_lists s) j with
              | None => None
              | Some l =>
                  let '((l', co', p), err) := sub_call sc l (co_of opts rs) in
                  if err =? 99 then None else
                  let rs' := rs_after opts rs co' in
                  let marked := (opts =? 0) && (err =? 7) in   (* Peer.BeginCall ran: the dial was refused *)
                  Some (mkCS (Some (mkIso (obj_of_rs rs') (ir_ctl ir))) (set_nth_list (cs_lists s) j l')
                             (cs_picks s ++ [p])
                             (if marked then cs_marks s ++ [p] else cs_marks s)
                             (if marked then cs_labels s ++ [LMark 1 p] else cs_labels s))
              end
          end
      end
  end.

Fixpoint c_exec (sc : sc_fun) (s : cstate) (acts : list c17act) : option cstate :=
  match acts with
  | [] => Some s
  | a :: r => match c_step sc s a with Some s' => c_exec sc s' r | None => None end
  end.

Fixpoint c_exec_idx (sc : sc_fun) (s : cstate) (acts : list c17act) (i : Z) : cstate + Z :=
  match acts with
  | [] => inl s
  | a :: r => match c_step sc s a with Some s' => c_exec_idx sc s' r (i + 1) | None => inr i end
  end.

(* peer lists from (host:port, score) pairs, in Add order *)
Fixpoint build_list (l : plist) (ps : list (hostport * Z)) : option plist :=
  match ps with
  | [] => Some l
  | (hp, sc) :: r => match pl_add l hp sc 0 0 with Some (l', _) => build_list l' r | None => None end
  end.
Fixpoint build_lists (pss : list (list (hostport * Z))) : option (list plist) :=
  match pss with
  | [] => Some []
  | ps :: r => match build_list pl_empty ps, build_lists r with
               | Some l, Some ls => Some (l :: ls)
               | _, _ => None
               end
  end.

(* ------------------------------------------------------------------ harness entry point
   case:  nLists { nPeers { hp(bytes) score } }  nActs { act }
     act:  0 has maxAttempts retryOn        AStart
           1                                AEnter
           2 0 opts hp(bytes)               ACall (CDirect hp opts)
           2 1 opts j                       ACall (CSub j opts)
           3 nil sys code net               AExit
   observable:  done err(nil sys code net) nObs { attempt nSeen {bytes} }  nPicks { hp(bytes) }
                (the attempt's look at its RequestState when called and when it returns; the peer
                 every call dialled, in call order, empty = none)
             or -1 i  when act i is not enabled (a call outside an attempt, an attempt after the
                run returned, ...);  -2 when a peer list cannot be built                      *)
Definition take_peer (l : list Z) : (hostport * Z) * list Z :=
  let '(hp, r) := take_bytes l in let '(sc, r') := take1 r in ((hp, sc), r').

Definition take_act (l : list Z) : c17act * list Z :=
  match l with
  | 0 :: has :: ma :: ron :: rest =>
      (AStart (if bz has then Some {| max_attempts := ma; retry_on := ron |} else None), rest)
  | 1 :: rest => (AEnter, rest)
  | 2 :: 0 :: opts :: rest => let '(hp, rest') := take_bytes rest in (ACall (CDirect hp opts), rest')
  | 2 :: _ :: opts :: j :: rest => (ACall (CSub (Z.to_nat j) opts), rest)
  | 3 :: rest => let '(e, rest') := take_err rest in (AExit e, rest')
  | _ => (AEnter, [])
  end.

Definition put_cstate (s : cstate) : list Z :=
  match cs_run s with
  | None => [0; 1; 0; 0; 0; 0]
  | Some ir =>
      let c := ir_ctl ir in
      zb (rc_done c) :: put_err (rc_last c)
      ++ put_list (fun a => ao_attempt a :: put_list put_bytes (canon_set (ao_seen a))) (rc_log c)
  end ++ put_list put_bytes (cs_picks s).

Definition run_c17calls (c : list Z) : list Z :=
  let '(pss, r) := take_list (take_list take_peer) c in
  let '(acts, _) := take_list take_act r in
  match build_lists pss with
  | None => [-2]
  | Some lists =>
      match c_exec_idx sc_model (c_init lists) acts 0 with
      | inl s => put_cstate s
      | inr i => [-1; i]
      end
  end.
