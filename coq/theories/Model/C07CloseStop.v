(* C07, fourth strengthening (V07): the OPTIONAL components that a closing channel stops.

   Channel.Close is written to be repeatable: only a channel that is already ChannelClosed
   returns early; every other call closes the listener (when there is one), calls
   ch.mutable.idleSweep.Stop(), raises the state and closes the connections again.  That is
   safe only because every "stop" it performs is idempotent through a guard:
     idleSweep.Stop                    `if !is.started { return }; is.started = false; close(is.stopCh)`
     Connection.stopHealthCheck        `if c.healthCheckDone == nil { return }` (health checks off),
                                       `if c.healthCheckCtx.Err() != nil { return }` (already stopped),
                                       `c.healthCheckQuit(); <-c.healthCheckDone`
   close(stopCh) on a closed channel PANICS inside Channel.Close (under ch.mutable's lock; the
   deferred Unlock releases it), which kills the process together with every call being drained.

   Part 1: the channel close model (Model/ChanClose.v, [cstep]) extended with the idle sweeper:
     the locked region of Channel.Close (thread step PCl1) additionally runs l.Close() (ghost
     counter) and idleSweep.Stop(); where the Go code can panic (close of a closed channel) the
     step is explicit: the thread ends with outcome oClosePanic, the ghost counter x_panics is
     incremented and NOTHING ELSE of the region happens (the state is not raised, no connection
     is closed) -- as in the code.  [xstep_v keep]: keep = true is the wrong variant in which Stop
     does not clear is.started (refuted in Proofs/C07CloseStopP.v); [xstep] = [xstep_v false] is
     the code.  The idle-sweep options are the parameter [interval] (IdleCheckInterval: the
     poller is started by NewChannel iff it is > 0).
   Part 2: the health-check goroutine of one connection and any number of stopHealthCheck calls
     (from connectionError on the reader / writer side, closeNetwork, and from the goroutine
     itself through healthCheckConnectionError).
   Entry points of engine c07closecfg at the end. *)
From Coq Require Import ZArith List Bool.
From Verif Require Import Base.Wrap Base.Wire Gen.GenConsts Model.CloseKernel Model.ChanClose.
Import ListNotations.
Local Open Scope Z_scope.

(* ================= Part 1: idle sweeper + Channel.Close ================================= *)

Record sweep := mkSw {
  sw_started : bool;   (* is.started *)
  sw_closes : Z        (* ghost: number of close() executed on the CURRENT is.stopCh *)
}.

(* idleSweep.start: `if is.started || is.idleCheckInterval <= 0 { return }`; is.started = true;
   is.stopCh = make(chan struct{}) -- a fresh, open channel; go is.pollerLoop() *)
Definition sweep_start (interval : Z) (w : sweep) : sweep :=
  if sw_started w || (interval <=? 0) then w else mkSw true 0.

(* idleSweep.Stop.  None = the Go code panics: close of a closed channel.
   keep = true: the variant that does not clear is.started. *)
Definition sweep_stop_v (keep : bool) (w : sweep) : option sweep :=
  if negb (sw_started w) then Some w
  else if 1 <=? sw_closes w then None
  else Some (mkSw keep (sw_closes w + 1)).

Definition sweep_stop : sweep -> option sweep := sweep_stop_v false.

(* The statements of the locked closure of Channel.Close, from `defer ch.mutable.Unlock()` to the
   snapshot loop, as a function of what they read:
     (#ch.mutable.l.Close(), #ch.mutable.idleSweep.Stop(), ch.mutable.state afterwards, channelClosed) *)
Definition close_region (has_l : bool) (nconns cur : Z) : Z * Z * Z * bool :=
  if cur =? hCl then (0, 0, cur, false)
  else
    let cur1 := if cur <? hSC then hSC else cur in
    ((if has_l then 1 else 0), 1, (if nconns =? 0 then hCl else cur1), nconns =? 0).

Definition oClosePanic : Z := 11.   (* outcome of a Channel.Close that panicked *)

Record xsys := mkXS {
  xb : csys;          (* the channel close system of Model/ChanClose.v *)
  xw : sweep;         (* ch.mutable.idleSweep *)
  x_lcloses : Z;      (* ghost: number of ch.mutable.l.Close() calls *)
  x_panics : Z        (* ghost: number of Channel.Close calls that panicked *)
}.

Definition xlift (s : xsys) (b : option csys) : option xsys :=
  match b with Some b' => Some (mkXS b' (xw s) (x_lcloses s) (x_panics s)) | None => None end.

Definition xstep_v (keep : bool) (s : xsys) (l : clabel) : option xsys :=
  match l with
  | LRunC tid arg =>
      match nth_error (cthr (xb s)) tid with
      | Some PCl1 =>
          if chst (csh (xb s)) =? hCl then xlift s (cstep (xb s) l)     (* the early return: nothing is stopped *)
          else
            (* if ch.mutable.l != nil { ch.mutable.l.Close() };  ch.mutable.idleSweep.Stop() *)
            let lc := if lis (csh (xb s)) then x_lcloses s + 1 else x_lcloses s in
            match sweep_stop_v keep (xw s) with
            | None =>       (* panic inside the closure: Unlock by defer, the rest of Close does not run *)
                Some (mkXS (mkCS (csh (xb s)) (upd (cthr (xb s)) tid (CDone oClosePanic))) (xw s) lc (x_panics s + 1))
            | Some w' =>
                match cstep (xb s) l with
                | Some b' => Some (mkXS b' w' lc (x_panics s))
                | None => None
                end
            end
      | _ => xlift s (cstep (xb s) l)
      end
  | _ => xlift s (cstep (xb s) l)
  end.

Definition xstep : xsys -> clabel -> option xsys := xstep_v false.

(* NewChannel: startIdleSweep(ch, opts) on a zero idleSweep *)
Definition xinit (interval : Z) : xsys := mkXS cinit (sweep_start interval (mkSw false 0)) 0 0.

(* ================= Part 2: health checks of one connection ============================== *)
(* Shared: h_on = c.healthCheckDone != nil (health checks enabled: the goroutine was started by
   the connection becoming active); h_cancelled = healthCheckCtx.Err() != nil; h_exits = number of
   close(c.healthCheckDone) executed (deferred in Connection.healthCheck).
   Threads: the goroutine (HG0: in its loop; a ping fails often enough -> healthCheckConnectionError:
   HGq = c.healthCheckQuit(), then connectionError -> stopHealthCheck from INSIDE the goroutine
   (HGs1, HGs2 the two guards, HGs3 quit, HGs4 = <-c.healthCheckDone, which would wait for itself),
   HGx = the deferred close(c.healthCheckDone)), and callers of stopHealthCheck from outside
   (HS1, HS2 the guards, HS3 = healthCheckQuit(), HS4 = <-c.healthCheckDone). *)
Record hshared := mkH { h_on : bool; h_cancelled : bool; h_exits : Z; h_quits : Z }.

Inductive hpc :=
| HDone
| HS1 | HS2 | HS3 | HS4
| HG0 | HGq | HGs1 | HGs2 | HGs3 | HGs4 | HGx.

(* the two guards of stopHealthCheck as functions: 0 = return, 1 = go on *)
Definition hc_guard1 (enabled : bool) : Z := if negb enabled then 0 else 1.
Definition hc_guard2 (cancelled : bool) : Z := if cancelled then 0 else 1.

(* arg: the goroutine's choice in HG0 when it is not cancelled: 1 = the health check failed *)
Definition htstep (s : hshared) (p : hpc) (arg : Z) : option (hshared * hpc) :=
  match p with
  | HDone => None
  | HS1 => Some (s, if hc_guard1 (h_on s) =? 0 then HDone else HS2)
  | HS2 => Some (s, if hc_guard2 (h_cancelled s) =? 0 then HDone else HS3)
  | HS3 => Some (mkH (h_on s) true (h_exits s) (h_quits s + 1), HS4)
  | HS4 => if 1 <=? h_exits s then Some (s, HDone) else None          (* <-c.healthCheckDone *)
  | HG0 => if h_cancelled s then Some (s, HGx)                        (* case <-c.healthCheckCtx.Done(): return *)
           else if arg =? 1 then Some (s, HGq) else None
  | HGq => Some (mkH (h_on s) true (h_exits s) (h_quits s + 1), HGs1)
  | HGs1 => Some (s, if hc_guard1 (h_on s) =? 0 then HGx else HGs2)
  | HGs2 => Some (s, if hc_guard2 (h_cancelled s) =? 0 then HGx else HGs3)
  | HGs3 => Some (mkH (h_on s) true (h_exits s) (h_quits s + 1), HGs4)
  | HGs4 => if 1 <=? h_exits s then Some (s, HGx) else None
  | HGx => Some (mkH (h_on s) (h_cancelled s) (h_exits s + 1) (h_quits s), HDone)
  end.

Record hsys := mkHS { hsh : hshared; hthr : list hpc }.

Inductive hlabel :=
| LHStop                          (* a thread calls Connection.stopHealthCheck *)
| LHRun (tid : nat) (arg : Z).

Definition hstep (s : hsys) (l : hlabel) : option hsys :=
  match l with
  | LHStop => Some (mkHS (hsh s) (hthr s ++ [HS1]))
  | LHRun tid arg =>
      match nth_error (hthr s) tid with
      | None => None
      | Some p =>
          match htstep (hsh s) p arg with
          | None => None
          | Some (sh', p') => Some (mkHS sh' (upd (hthr s) tid p'))
          end
      end
  end.

(* a connection that became active: the goroutine exists iff health checks are enabled *)
Definition hinit (on : bool) : hsys := mkHS (mkH on false 0 0) (if on then [HG0] else []).

(* ================= entry points of engine c07closecfg =================================== *)
(* case:  interval listening nconns nops (op a b)*
     interval   IdleCheckInterval of the channel (0 = the idle sweeper is off)
     listening  1: ListenAndServe before the connections; 0: a client channel
     nconns     connections added before the script (connection i = index i)
     op 1 a _   a calls of Channel.Close, each run to its end (concurrent calls of the implementation
                are serialised by ch.mutable; the snapshot loop closes the connections in order)
     op 2 a b   the implementation's connection a was found in state b (> its state in the model): the
                connection moves there and its close-state callback runs to its end
     op 3 _ _   observation
   observable at every op 3:
     c07closecfg   channel-state #tracked-connections closed-signals started #close(stopCh) #panics
     c07closestop  started #close(stopCh) #panics          (= spec_c07closestop, Proofs/C07CloseStopP.v) *)
Definition xarg (s : xsys) (p : cpc) : Z :=
  match p with
  | PCl2 (c :: _) _ => Z.of_nat c
  | _ => minstate (csh (xb s))
  end.

Fixpoint xrun_thread (fuel : nat) (s : xsys) (tid : nat) : xsys :=
  match fuel with
  | O => s
  | S f =>
      match nth_error (cthr (xb s)) tid with
      | None => s
      | Some (CDone _) => s
      | Some p =>
          match xstep s (LRunC tid (xarg s p)) with
          | Some s' => xrun_thread f s' tid
          | None => s
          end
      end
  end.

(* start a thread with label l (LClose, LCallback, LNewConn) and run it to its end *)
Definition xspawn_run (s : xsys) (l : clabel) : xsys :=
  match xstep s l with
  | Some s1 => xrun_thread 64 s1 (length (cthr (xb s)))
  | None => s
  end.

Definition xobs (full : bool) (s : xsys) : list Z :=
  (if full then [chst (csh (xb s)); zlen (conns (csh (xb s))); g_closed (csh (xb s))] else [])
  ++ [zb (sw_started (xw s)); sw_closes (xw s); x_panics s].

Fixpoint xrun_ops (full : bool) (n : nat) (s : xsys) (l : list Z) : list Z :=
  match n with
  | O => []
  | S n' =>
      match l with
      | op :: a :: b :: r =>
          if op =? 1 then xrun_ops full n' (Nat.iter (Z.to_nat a) (fun s => xspawn_run s LClose) s) r
          else if op =? 2 then
            match xstep s (LConnMove (Z.to_nat a) b) with
            | Some s1 => xrun_ops full n' (xspawn_run s1 (LCallback (Z.to_nat a))) r
            | None => xrun_ops full n' s r
            end
          else xobs full s ++ xrun_ops full n' s r
      | _ => [-9]
      end
  end.

Definition xstart (interval listening nconns : Z) : xsys :=
  let s0 := xinit interval in
  let s1 := if listening =? 1 then match xstep s0 LListen with Some s => s | None => s0 end else s0 in
  Nat.iter (Z.to_nat nconns) (fun s => xspawn_run s LNewConn) s1.

Definition run_c07close (full : bool) (c : list Z) : list Z :=
  match c with
  | interval :: listening :: nconns :: nops :: r => xrun_ops full (Z.to_nat nops) (xstart interval listening nconns) r
  | _ => [-9]
  end.

Definition run_c07closecfg : list Z -> list Z := run_c07close true.
Definition run_c07closestop : list Z -> list Z := run_c07close false.

(* ---- the specification of the component observable, written from the statement ----------
   The idle sweeper runs (started, stopCh open) from NewChannel -- when IdleCheckInterval > 0 --
   until the FIRST call of Close; from then on it is stopped: its stopCh has been closed exactly
   once, however many Close calls follow and whatever the connections do; no Close panics. *)
Fixpoint spec_stop_ops (n : nat) (on called : bool) (l : list Z) : list Z :=
  match n with
  | O => []
  | S n' =>
      match l with
      | op :: a :: b :: r =>
          if op =? 1 then spec_stop_ops n' on (called || (0 <? a)) r
          else if op =? 2 then spec_stop_ops n' on called r
          else [zb (on && negb called); zb (on && called); 0] ++ spec_stop_ops n' on called r
      | _ => [-9]
      end
  end.

Definition spec_c07closestop (c : list Z) : list Z :=
  match c with
  | interval :: listening :: nconns :: nops :: r => spec_stop_ops (Z.to_nat nops) (0 <? interval) false r
  | _ => [-9]
  end.
