(* Harness entry point for the relay model (engine relaysched, C09/C10).

   The schedule engine controls the real relay at the granularity of its schedule points: it
   lets ONE goroutine run at a time, from one park point (relay.nonCallReq.afterGet,
   relay.Receive.afterGet, relayTimer.OnTimer, relay.timeout.afterEntomb) to the next or to
   the end of its work.  A case is therefore a list of MACRO labels; each one is expanded
   here into labels of [RelayItems.step] (so every macro run is a run of the proved system).
   No proofs in this file. *)
From Coq Require Import ZArith List Bool.
From Verif Require Import Base.Wrap Base.Wire Gen.GenConsts Gen.GenFrame Model.RelayItems.
Import ListNotations.
Local Open Scope Z_scope.

Inductive macro :=
| MArrive (k : Z) (f : frame) (e : env) (mask : Z)   (* reader of k reads f and runs to its first park point *)
| MArriveU (k : Z) (f : frame) (e : env) (mask : Z) (pk : Z)
    (* the same for a call req whose id may be IN USE (duplicate against a live item or a tombstone),
       and with an extra park point inside handleCallReq: pk = 1 the RelayHost's Destination() callback
       (after canHandleNewCall's increment, before getDestination's step), pk = 2 the Failed callback
       of a rejection (after getDestination / the remote admission, before the decrement) *)
| MCont (t : tid) (mask : Z)                          (* a parked goroutine continues to its next park point *)
| MFire (key : key)                                   (* the pending timeout timer of that item fires *)
| MGcAll                                              (* every pending tomb GC timer fires *)
| MClose (k : Z) | MLost (k : Z) | MDrained (k : Z)
| MStep1 (t : tid) (mask : Z).
    (* ONE instruction of a parked goroutine (C10, engine_c10timer.go): the OnTimer goroutine runs
       its marking (ITimerRun) and is held before relayItems.Entomb takes the lock -- by the
       too-many-tombstones warning inside Entomb (RelayMaxTombs = 1) or at the lock itself *)

(* the connection whose sendCh an instruction tries to enqueue on *)
Definition enq_conn (i : instr) : Z :=
  match i with
  | ISendErr k _ _ => k
  | IRcvEnq r _ _ => r_d r
  | _ => -1
  end.

Definition is_park (i : instr) : bool :=
  match i with
  | INcChk _ _ _ _ _ => true
  | IRcvChk _ _ _ => true
  | _ => false
  end.

Definition room_for (mask : Z) (i : instr) : bool :=
  let k := enq_conn i in if k <? 0 then true else negb (Z.testbit mask k).

(* run thread t: at least one action, then on until it parks or has nothing left to do *)
Fixpoint mrun (cf : config) (fuel : nat) (st : state) (t : tid) (mask : Z) : option state :=
  match fuel with
  | O => None
  | S fuel' =>
      match lookup tid_eqb t (threads st) with
      | Some (i :: _) =>
          match step cf st (LStep t (room_for mask i)) with
          | None => None
          | Some st' =>
              match lookup tid_eqb t (threads st') with
              | Some (j :: _) =>
                  if is_park j then Some st'
                  else match i with
                       | IEntomb _ (FromTimeout _) => Some st'     (* relay.timeout.afterEntomb *)
                       | _ => mrun cf fuel' st' t mask
                       end
              | _ => Some st'
              end
          end
      | _ => None
      end
  end.

(* the extra park points of MArriveU *)
Definition is_park_x (pk : Z) (j : instr) : bool :=
  is_park j ||
  match j with
  | IGetDest _ _ _ _ => pk =? 1
  | ICb _ (CbFailed _) => pk =? 2
  | _ => false
  end.

Fixpoint mrun_x (cf : config) (fuel : nat) (st : state) (t : tid) (mask : Z) (pk : Z) : option state :=
  match fuel with
  | O => None
  | S fuel' =>
      match lookup tid_eqb t (threads st) with
      | Some (i :: _) =>
          match step cf st (LStep t (room_for mask i)) with
          | None => None
          | Some st' =>
              match lookup tid_eqb t (threads st') with
              | Some (j :: _) =>
                  if is_park_x pk j then Some st'
                  else match i with
                       | IEntomb _ (FromTimeout _) => Some st'
                       | _ => mrun_x cf fuel' st' t mask pk
                       end
              | _ => Some st'
              end
          end
      | _ => None
      end
  end.

Definition find_tm (key : key) (l : list (Z * timer)) : option Z :=
  match find (fun p => key_eqb key (tm_key (snd p))) l with
  | Some p => Some (fst p)
  | None => None
  end.

Fixpoint gc_all (cf : config) (fuel : nat) (st : state) : option state :=
  match fuel with
  | O => Some st
  | S fuel' =>
      match rev (gcs st) with
      | [] => Some st
      | t :: _ => match step cf st (LGc t) with Some st' => gc_all cf fuel' st' | None => None end
      end
  end.

Definition mstep (cf : config) (st : state) (m : macro) : option state :=
  match m with
  | MArrive k f e mask =>
      if fresh_label st (LArrive k f e) then
        match step cf st (LArrive k f e) with
        | Some st' =>
            match lookup tid_eqb (TR k) (threads st') with
            | Some _ => mrun cf 200%nat st' (TR k) mask
            | None => Some st'
            end
        | None => None
        end
      else None
  | MArriveU k f e mask pk =>
      match step cf st (LArrive k f e) with
      | Some st' =>
          match lookup tid_eqb (TR k) (threads st') with
          | Some _ => mrun_x cf 200%nat st' (TR k) mask pk
          | None => Some st'
          end
      | None => None
      end
  | MCont t mask => mrun cf 200%nat st t mask
  | MFire key =>
      match lookup key_eqb key (items st) with
      | Some it => step cf st (LFire (it_tm it))
      | None => None
      end
  | MGcAll => gc_all cf (S (length (gcs st))) st
  | MClose k => step cf st (LClose k)
  | MLost k => step cf st (LLost k)
  | MDrained k =>
      (* the engine saw connection k reach the closed state: either by the close check of the
         goroutine that decremented pending (ICheck, already executed in the model) or by the
         check of the closing goroutine itself (the label LDrained) *)
      if c_state (get_conn st k) =? c_connectionClosed then Some st else step cf st (LDrained k)
  | MStep1 t mask =>
      match lookup tid_eqb t (threads st) with
      | Some (i :: _) => step cf st (LStep t (room_for mask i))
      | _ => None
      end
  end.

Fixpoint mrun_all (cf : config) (st : state) (ms : list macro) (n : Z) : state * Z :=
  match ms with
  | [] => (st, n)
  | m :: r => match mstep cf st m with
              | Some st' => mrun_all cf st' r (n + 1)
              | None => (st, n)
              end
  end.

(* ---- decoding / encoding ---- *)

Definition take_frame (l : list Z) : frame * list Z :=
  match l with
  | mt :: id :: fl :: code :: wf :: r => ({| f_mt := mt; f_id := id; f_flags := fl; f_code := code; f_wf := bz wf |}, r)
  | _ => ({| f_mt := 0; f_id := 0; f_flags := 0; f_code := 0; f_wf := false |}, [])
  end.

Definition take_macro (l : list Z) : macro * list Z :=
  match l with
  | 0 :: k :: r =>
      let '(f, r1) := take_frame r in
      match r1 with
      | es :: ec :: ed :: em :: mask :: r2 =>
          (MArrive k f {| e_start := es; e_code := ec; e_dest := ed; e_mode := em |} mask, r2)
      | _ => (MGcAll, [])
      end
  | 1 :: 0 :: k :: mask :: r => (MCont (TR k) mask, r)
  | 1 :: 1 :: tm :: mask :: r => (MCont (TT tm) mask, r)
  | 2 :: k :: dir :: id :: r => (MFire (k, dir, id), r)
  | 3 :: r => (MGcAll, r)
  | 4 :: k :: r => (MClose k, r)
  | 5 :: k :: r => (MLost k, r)
  | 6 :: k :: r => (MDrained k, r)
  | 8 :: 0 :: k :: mask :: r => (MStep1 (TR k) mask, r)
  | 8 :: 1 :: tm :: mask :: r => (MStep1 (TT tm) mask, r)
  | 7 :: k :: r =>
      let '(f, r1) := take_frame r in
      match r1 with
      | es :: ec :: ed :: em :: mask :: pk :: r2 =>
          (MArriveU k f {| e_start := es; e_code := ec; e_dest := ed; e_mode := em |} mask pk, r2)
      | _ => (MGcAll, [])
      end
  | _ => (MGcAll, [])
  end.

Definition put_cb (p : Z * cb) : list Z :=
  let '(c, x) := p in
  match x with
  | CbSent => [c; 1; 0] | CbRecv => [c; 2; 0] | CbResp => [c; 3; 0] | CbSucc => [c; 4; 0]
  | CbFailed r => [c; 5; r] | CbEnd => [c; 6; 0]
  end.

Definition live_count (st : state) (k dir : Z) : Z :=
  zlen (filter (fun e => (key_conn (fst e) =? k) && (key_dir (fst e) =? dir) && negb (it_tomb (snd e))) (items st)).

Definition put_conn_obs (st : state) (k : Z) : list Z :=
  let cn := get_conn st k in
  [c_state cn; c_pending cn; live_count st k 0; tomb_count st k 0; live_count st k 1; tomb_count st k 1] ++
  (if c_state cn =? c_connectionClosed then [-1]
   else put_list (fun p => let f := snd p in [f_id f; f_mt f;
                                             (if (f_mt f =? c_messageTypeError) || (f_mt f =? c_messageTypeCancel) then 0 else Z.land (f_flags f) 1);
                                             (if f_mt f =? c_messageTypeError then f_code f else 0)])
                 (filter (fun p => fst p =? k) (rev (sent st)))).

(* timers are named by the order of their creation; the engine needs to know which timer
   threads exist, so the observable also lists, per timer, 1 if it has fired *)
Definition run_relaysched (c : list Z) : list Z :=
  match c with
  | maxtombs :: cancel :: nconns :: r =>
      let cf := {| cf_maxtombs := maxtombs; cf_cancel := bz cancel |} in
      let '(ms, _) := take_list take_macro r in
      let '(st, n) := mrun_all cf init ms 0 in
      [n; panicked st] ++ put_list put_cb (rev (cblog st)) ++
      flat_map (fun i => put_conn_obs st (Z.of_nat i)) (seq 0 (Z.to_nat nconns))
  | _ => [-1]
  end.
