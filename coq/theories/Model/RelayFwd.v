(* Hand model of the relay's frame path (relay.go): Relayer.Relay, handleCallReq,
   handleNonCallReq, Receive, addRelayItem, finishRelayItem, failRelayItem, timeoutRelayItem,
   the relayItems tables of every connection of one relay channel, Connection.NextMessageID
   and the error frames of Connection.SendSystemError.

   Granularity: one label = one frame handled to completion by the reader goroutine of the
   connection it arrived on (Relay(f)), one id taken from a connection's counter for the
   connection's own use, one relay timer firing (Entomb), one tomb collection (Delete).
   Not modelled (labels that need them are not enabled / documented in lib/props.d/C08.py):
   a full send queue (relay-dest-conn-slow), connection state changes, local handlers
   (RelayLocalHandlers), the race between a timer and the reader (C09/C10). *)
From Coq Require Import ZArith List Bool.
From Verif Require Import Base.Wrap Base.Bytes Base.Wire Gen.GenConsts Gen.GenFrame Gen.GenRelayFwd
  Model.TypedBuf Model.Messages Model.Crc Model.Frag Model.RelayLazy Model.RelayAppend.
Import ListNotations.
Local Open Scope Z_scope.

(* ---------------- frames ---------------- *)
Definition set_id (h : fheader) (id : Z) : fheader := mkFH (fh_size h) (fh_type h) (fh_res1 h) id.

(* f.Payload[_flagsIndex] of a frame whose sized payload is p *)
Definition flags_of (p : list Z) : Z := nth 0 p 0.

(* ---------------- relay items ---------------- *)
Record item := mkItem {
  it_remap : Z;              (* remapID *)
  it_dest : nat;             (* destination (index of the connection whose Relayer receives) *)
  it_tomb : bool;
  it_orig : bool;            (* isOriginator *)
  it_span : span;
  it_mut : option ckst       (* mutatedChecksum *)
}.
Definition tombed (it : item) : item := mkItem (it_remap it) (it_dest it) true (it_orig it) (it_span it) (it_mut it).
Definition with_mut (it : item) (ck : ckst) : item :=
  mkItem (it_remap it) (it_dest it) (it_tomb it) (it_orig it) (it_span it) (Some ck).

(* relayItems.items of every connection: connection index -> id -> item *)
Definition imap := nat -> Z -> option item.
Definition im_set (m : imap) (c : nat) (id : Z) (v : option item) : imap :=
  fun c' id' => if Nat.eqb c' c && (id' =? id) then v else m c' id'.

Record rstate := mkSt {
  st_count : nat -> Z;          (* Connection.nextMessageID: number of Inc() so far *)
  st_out : imap;                (* Relayer.outbound of each connection *)
  st_in : imap;                 (* Relayer.inbound of each connection *)
  st_own : nat -> Z -> bool     (* ghost: ids handed out for the connection's own exchanges *)
}.

Definition get_items (st : rstate) (outb : bool) : imap := if outb then st_out st else st_in st.
Definition set_item (st : rstate) (outb : bool) (c : nat) (id : Z) (v : option item) : rstate :=
  if outb then mkSt (st_count st) (im_set (st_out st) c id v) (st_in st) (st_own st)
  else mkSt (st_count st) (st_out st) (im_set (st_in st) c id v) (st_own st).

(* NextMessageID: atomic uint32 increment, the new value is the id *)
Definition alloc_id (st : rstate) (c : nat) : Z * rstate :=
  let n := st_count st c + 1 in
  (wrapU 32 n, mkSt (fun c' => if Nat.eqb c' c then n else st_count st c') (st_out st) (st_in st) (st_own st)).

(* what the host (RelayHost.Start / RelayCall.Destination) decides for a call req *)
Inductive host :=
| HDst (d : nat) (appends : kvs)             (* a peer whose connection is d; Arg2Append calls made *)
| HErr (sys : bool) (code : Z) (msg : list Z)  (* Start returned an error (SystemError or not) *)
| HDrop                                       (* relay.RateLimitDropError *)
| HNoPeer.                                    (* Destination() has no peer *)

Inductive label :=
| LFrame (c : nat) (h : fheader) (p : list Z) (hd : host)
| LOwn (c : nat)
| LExpire (c : nat) (outb : bool) (id : Z)
| LGC (c : nat) (outb : bool) (id : Z).

(* a frame handed to the send queue of connection c, either forwarded or an error frame
   made by SendSystemError (id, code, tracing, message) *)
Inductive out :=
| OFrame (c : nat) (h : fheader) (p : list Z)
| OErr (c : nat) (id : Z) (code : Z) (sp : span) (msg : list Z).

Definition msg_bad_host : list Z :=   (* "bad relay host implementation" *)
  [98;97;100;32;114;101;108;97;121;32;104;111;115;116;32;105;109;112;108;101;109;101;110;116;97;116;105;111;110].
Definition msg_timeout : list Z := [116;105;109;101;111;117;116].   (* ErrTimeout: "timeout" *)

Section Relay.
  Variable maxT : Z.        (* Relayer.maxTimeout (ns), validated by validateRelayMaxTimeout *)
  Variable pc : bool.       (* ConnectionOptions.PropagateCancel *)

  (* Relayer.Receive on connection d: (sent, frames enqueued, state) *)
  Definition receive (st : rstate) (d : nat) (h : fheader) (p : list Z) (ft : Z) : bool * list out * rstate :=
    let outb := negb (ft =? c_requestFrame) in   (* receiverItems: request -> inbound, response -> outbound *)
    let finished := finishesCall (fh_type h) (flags_of p) in
    match get_items st outb d (fh_id h) with
    | None => (false, [], st)                       (* _relayErrorNotFound *)
    | Some it =>
        if it_tomb it then (true, [], st)           (* previously timed out: swallowed *)
        else (true, [OFrame d h p], if finished then set_item st outb d (fh_id h) None else st)
    end.

  (* failRelayItem(items, id, reason, err) on connection c *)
  Definition fail_item (st : rstate) (c : nat) (outb : bool) (id : Z) (reason : list Z) : list out * rstate :=
    match get_items st outb c id with
    | None => ([], st)
    | Some it =>
        if it_tomb it then ([], st)
        else (if it_orig it && negb (bytes_eqb reason c_u_relayErrorSourceConnSlow)
              then [OErr c id c_ErrCodeUnexpected (it_span it) reason] else [],
              set_item st outb c id (Some (tombed it)))
    end.

  (* handleNonCallReq; None = frameTypeFor panics *)
  Definition handle_other (st : rstate) (c : nat) (h : fheader) (p : list Z) : option (list out * rstate) :=
    match frameTypeFor (fh_type h) with
    | None => None
    | Some ft =>
        let outb := (ft =? c_requestFrame) in      (* request frames use outbound, response frames inbound *)
        let finished := finishesCall (fh_type h) (flags_of p) in
        match get_items st outb c (fh_id h) with
        | None => Some ([], st)                    (* errUnknownID: left to the connection's own exchanges *)
        | Some it =>
            if it_tomb it then Some ([], st)
            else
              let '(p1, st1) :=
                if fh_type h =? c_messageTypeCallReqContinue then
                  match it_mut it with
                  | Some ck => let '(p', ck') := update_cont_ck p ck in
                               (p', set_item st outb c (fh_id h) (Some (with_mut it ck')))
                  | None => (p, st)
                  end
                else (p, st) in
              let '(sent, outs, st2) := receive st1 (it_dest it) (set_id h (it_remap it)) p1 ft in
              if negb sent then Some (fail_item st2 c outb (fh_id h) c_u_relayErrorNotFound)
              else Some (outs, if finished then set_item st2 outb c (fh_id h) None else st2)
        end
    end.

  (* the frames of fragmentingSend go through Receive one by one *)
  Fixpoint send_frags (st : rstate) (d : nat) (id : Z) (fs : list (bool * list Z)) : list out * rstate :=
    match fs with
    | [] => ([], st)
    | (initial, pl) :: r =>
        let h := mkFH (SetPayloadSize (wrapU 16 (zlen pl)))
                      (if initial then c_messageTypeCallReq else c_messageTypeCallReqContinue) 0 id in
        let '(_, o, st1) := receive st d h pl c_requestFrame in
        let '(o2, st2) := send_frags st1 d id r in (o ++ o2, st2)
    end.

  (* handleCallReq (after Relay's newLazyCallReq); None = outside the model *)
  Definition handle_callreq (st : rstate) (c : nat) (h : fheader) (p : list Z) (hd : host) : option (list out * rstate) :=
    let '(code, lz) := lazy_callreq p in
    if negb (code =? 0) then Some ([], st)          (* "Failed to relay frame": dropped *)
    else
      let id := fh_id h in
      let sp := span_of p in
      match hd with
      | HDrop => Some ([], st)
      | HErr sys ecode msg =>
          let ecode' := if sys then ecode else c_ErrCodeDeclined in
          if ecode' =? c_ErrCodeProtocol then None  (* the connection is closed *)
          else Some ([OErr c id ecode' sp msg], st)
      | HNoPeer =>
          match st_out st c id with
          | Some _ => Some ([], st)                 (* "callReq with already active ID" *)
          | None => Some ([OErr c id c_ErrCodeDeclined sp msg_bad_host], st)
          end
      | HDst d appends =>
          match st_out st c id with
          | Some _ => Some ([], st)                 (* "callReq with already active ID": no error frame *)
          | None =>
              let '(destID, st1) := alloc_id st d in
              let p1 := clamp_ttl maxT p in
              match appends with
              | [] =>
                  let st2 := set_item st1 false d destID (Some (mkItem id c false false sp None)) in
                  let st3 := set_item st2 true c id (Some (mkItem destID d false true sp None)) in
                  let '(sent, outs, st4) := receive st3 d (set_id h destID) p1 c_requestFrame in
                  if sent then Some (outs, st4) else Some (fail_item st4 c true id c_u_relayErrorNotFound)
              | _ :: _ =>
                  match ck_new (lz_ctype lz) with
                  | None => None                    (* checksumPools index out of range *)
                  | Some ck =>
                      let st2 := set_item st1 false d destID (Some (mkItem id c false false sp None)) in
                      let st3 := set_item st2 true c id (Some (mkItem destID d false true sp (Some ck))) in
                      let '(acode, frames, ck') := append_send p1 lz appends ck in
                      if acode =? 5 then None
                      else if acode =? 0 then
                        let st4 := set_item st3 true c id (Some (mkItem destID d false true sp (Some ck'))) in
                        Some (send_frags st4 d destID frames)
                      else Some (fail_item st3 c true id c_u_relayArg2ModifyFailed)
                  end
              end
          end
      end.

  (* timeoutRelayItem: Entomb, and for the originating side the timeout error frame *)
  Definition expire (st : rstate) (c : nat) (outb : bool) (id : Z) : list out * rstate :=
    match get_items st outb c id with
    | None => ([], st)
    | Some it =>
        if it_tomb it then ([], st)
        else (if it_orig it then [OErr c id c_ErrCodeTimeout (it_span it) msg_timeout] else [],
              set_item st outb c id (Some (tombed it)))
    end.

  Definition step (st : rstate) (l : label) : option (list out * rstate) :=
    match l with
    | LFrame c h p hd =>
        let route := relayRoute (fh_type h) pc in
        if route =? 0 then Some ([], st)
        else if ((fh_type h =? c_messageTypeCallRes) || (fh_type h =? c_messageTypeCallResContinue))
                && (zlen p =? 0) then None           (* finishesCall reads Payload[0] beyond the sized payload: stale pool memory *)
        else if route =? 1 then
          if fh_type h =? c_messageTypeCallReq then handle_callreq st c h p hd else handle_other st c h p
        else None                                   (* handleFrameNoRelay: not the relay's business *)
    | LOwn c =>
        let '(id, st1) := alloc_id st c in
        Some ([], mkSt (st_count st1) (st_out st1) (st_in st1)
                       (fun c' id' => if Nat.eqb c' c && (id' =? id) then true else st_own st1 c' id'))
    | LExpire c outb id => Some (expire st c outb id)
    | LGC c outb id =>
        match get_items st outb c id with
        | Some it => if it_tomb it then Some ([], set_item st outb c id None) else Some ([], st)
        | None => Some ([], st)
        end
    end.

  (* a history: outputs per label, in order *)
  Fixpoint run (ls : list label) (st : rstate) : option (list (list out) * rstate) :=
    match ls with
    | [] => Some ([], st)
    | l :: r =>
        match step st l with
        | None => None
        | Some (o, st1) =>
            match run r st1 with
            | None => None
            | Some (os, st2) => Some (o :: os, st2)
            end
        end
    end.
End Relay.

Definition init_state (cnt0 : nat -> Z) : rstate :=
  mkSt cnt0 (fun _ _ => None) (fun _ _ => None) (fun _ _ => false).

(* ---------------- harness entry point (engine relayfwd) ----------------
   input : RelayMaxTimeout-option pc nconns count_0..count_{n-1} nevents event*
   event : 0 c hostkind hostdata frame(put_bytes) | 1 c | 2 c outb id | 3 c outb id
           hostkind 0: d nappends (k v)* ; 1: sys code msg ; 2 ; 3
   output: per event  noutputs (0 c frame(put_bytes) | 1 c id code span(put_bytes) msg-before-colon(put_bytes))*
           -2 = label outside the model, -3 = not a frame *)
Fixpoint before_colon (m : list Z) : list Z :=
  match m with
  | [] => []
  | x :: r => if x =? 58 then [] else x :: before_colon r
  end.

Definition put_out (o : out) : list Z :=
  match o with
  | OFrame c h p => 0 :: Z.of_nat c :: put_bytes (frame_out h p)
  | OErr c id code sp msg => 1 :: Z.of_nat c :: id :: code :: put_bytes (span_bytes sp) ++ put_bytes (before_colon msg)
  end.

Definition take_host (l : list Z) : host * list Z :=
  match l with
  | 0 :: d :: r => let '(app, r') := take_list take_kv r in (HDst (Z.to_nat d) app, r')
  | 1 :: sys :: code :: r => let '(m, r') := take_bytes r in (HErr (bz sys) code m, r')
  | 2 :: r => (HDrop, r)
  | _ :: r => (HNoPeer, r)
  | [] => (HDrop, [])
  end.

Definition take_label (l : list Z) : option label * list Z :=
  match l with
  | 0 :: c :: r =>
      let '(hd, r1) := take_host r in
      let '(fb, r2) := take_bytes r1 in
      let '(code, h, p, rest) := frame_read_in fb in
      if (code =? 0) && (zlen rest =? 0) then (Some (LFrame (Z.to_nat c) h p hd), r2) else (None, r2)
  | 1 :: c :: r => (Some (LOwn (Z.to_nat c)), r)
  | 2 :: c :: o :: id :: r => (Some (LExpire (Z.to_nat c) (bz o) id), r)
  | 3 :: c :: o :: id :: r => (Some (LGC (Z.to_nat c) (bz o) id), r)
  | _ => (None, [])
  end.

Fixpoint run_events (maxT : Z) (pc : bool) (n : nat) (l : list Z) (st : rstate) : list Z :=
  match n with
  | O => []
  | S n' =>
      let '(lab, r) := take_label l in
      match lab with
      | None => [-3]
      | Some lb =>
          match step maxT pc st lb with
          | None => [-2]
          | Some (os, st1) => put_list put_out os ++ run_events maxT pc n' r st1
          end
      end
  end.

Definition run_relayfwd (c : list Z) : list Z :=
  match c with
  | maxT :: pcz :: r =>
      let '(cnts, r1) := take_list take1 r in
      let '(n, r2) := take1 r1 in
      run_events (validateRelayMaxTimeout maxT) (bz pcz) (Z.to_nat n) r2 (init_state (fun i => nth i cnts 0))
  | _ => [-1]
  end.
