(* Hand models (property C10) of the helper layers ABOVE the arg writers of a response: what each
   of them calls on the writer / on the response object, in order, and the error it reports to
   its caller.  Close() of the LAST arg writer is not a resource release: it finishes the
   response (final fragment without the more-fragments flag, doneSending), and
   InboundCallResponse.SendSystemError is guarded by response.err only, which a completed
   response leaves nil.  A layer that reports a failure (its caller then answers the call with a
   system error) must therefore not have closed the last arg writer on that path.

   Each model is a trace function: [tr] = markers of the calls made so far, the result is the
   extended trace and "an error is returned".  The boolean parameters are the results of the
   callees (free: every combination is considered).  The same functions are regenerated from the
   Go source by go2v (go2v/helptargets.go, Target.CallTrace) into Gen/GenArgHelper.v and proved
   equal in Proofs/ArgHelperP.v.  No proofs here. *)
From Coq Require Import ZArith List Bool.
Import ListNotations.
Local Open Scope Z_scope.

(* ---- arguments.go ------------------------------------------------------------------------ *)

(* func (w ArgWriteHelper) write(f func() error) error     markers: 1 = f(), 2 = w.writer.Close()
   werr: the helper was built from a failed ArgXWriter() call; ferr: f (Write / json Encode)
   failed; cerr: Close failed *)
Definition mk_f : Z := 1.
Definition mk_close : Z := 2.

Definition helper_write (werr ferr cerr : bool) (tr : list Z) : list Z * bool :=
  if werr then (tr, true)
  else if ferr then (tr ++ [mk_f], true)
  else (tr ++ [mk_f; mk_close], cerr).

(* does ArgWriteHelper.write close its writer when f() returned [ok]?  (read off the model) *)
Definition helper_closes (ok : bool) : bool :=
  existsb (Z.eqb mk_close) (fst (helper_write false (negb ok) false [])).

(* func (r ArgReadHelper) read(f func() error) error
   markers: 1 = f(), 2 = argreader.EnsureEmpty(r.reader, ..), 3 = r.reader.Close() *)
Definition helper_read (rerr ferr eerr cerr : bool) (tr : list Z) : list Z * bool :=
  if rerr then (tr, true)
  else if ferr then (tr ++ [1], true)
  else if eerr then (tr ++ [1; 2], true)
  else (tr ++ [1; 2; 3], cerr).

(* ---- handlers.go ErrorHandlerFunc.Handle -------------------------------------------------------
   markers: 1 = the handler function ran, 2 = call.Response().SendSystemError(err):
   one system error exactly when the function returned an error *)
Definition mk_handler : Z := 1.
Definition mk_syserr : Z := 2.

Definition efh_handle (herr : bool) (tr : list Z) : list Z :=
  if herr then tr ++ [mk_handler; mk_syserr] else tr ++ [mk_handler].

(* ---- raw/handler.go WriteResponse ----------------------------------------------------------------
   markers: 9 = response.SendSystemError, 8 = response.SetApplicationError,
   2 / 3 = NewArgWriter(response.ArgNWriter()).Write(..) *)
Definition raw_write_response (has_sys is_err serr aerr e2 e3 : bool) (tr : list Z) : list Z * bool :=
  if has_sys then (tr ++ [9], serr)
  else
    let args (tr : list Z) := if e2 then (tr ++ [2], true) else (tr ++ [2; 3], e3) in
    if is_err then (if aerr then (tr ++ [8], true) else args (tr ++ [8])) else args tr.

(* ---- json/handler.go handler.Handle, after the conversion of the handler's error ----------------
   markers: 2 / 3 = NewArgWriter(call.Response().ArgNWriter()).WriteJSON(..) *)
Definition json_write_tail (e2 e3 : bool) (tr : list Z) : list Z * bool :=
  if e2 then (tr ++ [2], true) else (tr ++ [2; 3], e3).

(* ---- thrift/server.go Server.handle, after the arg3 writer was obtained ------------------------
   markers: 1 = resp.Write(protocol), 2 = call.Response().SendSystemError(err), 3 = writer.Close():
   a result struct that cannot be serialized is answered with ONE system error and the writer
   is left open *)
Definition thrift_write_tail (serr cerr : bool) (tr : list Z) : list Z * bool :=
  if serr then (tr ++ [1; 2], true) else (tr ++ [1; 3], cerr).

(* ---- census of the helper layers ---------------------------------------------------------------
   Per function (func literals inside it included): [calls of a method named Close; of
   SendSystemError; of Flush].  What the trace models above cannot see -- a Close() or a
   SendSystemError() added inside a closure (the f() of WriteJSON), in a caller of a tied function,
   or outside a translated region -- changes a row.  The Close() calls that can finish a response:
   ArgWriteHelper.write (tied: success path only), thrift Server.handle (5: three reader closes, the
   arg2 writer, the arg3 writer -- tied), http writeHeaders (arg2) and finish (arg3: only when no
   error was recorded). *)
Definition helper_census_expected : list (list Z) :=
  [ [1; 0; 0];   (* tchannel ArgWriteHelper.write *)
    [0; 0; 0];   (* tchannel ArgWriteHelper.Write *)
    [0; 0; 0];   (* tchannel ArgWriteHelper.WriteJSON *)
    [1; 0; 0];   (* tchannel ArgReadHelper.read *)
    [0; 0; 0];   (* tchannel ArgReadHelper.Read *)
    [0; 0; 0];   (* tchannel ArgReadHelper.ReadJSON *)
    [0; 1; 0];   (* tchannel ErrorHandlerFunc.Handle *)
    [0; 0; 0];   (* tchannel HandlerFunc.Handle *)
    [0; 0; 0];   (* tchannel InboundCallResponse.Arg2Writer *)
    [0; 0; 0];   (* tchannel InboundCallResponse.Arg3Writer *)
    [0; 1; 0];   (* raw WriteResponse *)
    [0; 0; 0];   (* raw Wrap *)
    [0; 0; 0];   (* raw ReadArgs *)
    [0; 1; 0];   (* json handler.Handle *)
    [0; 0; 0];   (* json Register *)
    [5; 2; 0];   (* thrift Server.handle *)
    [0; 0; 0];   (* thrift Server.Handle *)
    [0; 0; 0];   (* thrift WriteStruct *)
    [0; 0; 0];   (* thrift WriteHeaders *)
    [1; 0; 0];   (* http tchanResponseWriter.writeHeaders *)
    [0; 0; 0];   (* http tchanResponseWriter.Write *)
    [1; 0; 0] ]. (* http tchanResponseWriter.finish *)
