(* Hand model of the per-context header slot and of what a finished thrift / JSON call does
   to it: context_header.go (headersContainer, headerCtx.Headers / ResponseHeaders /
   SetResponseHeaders / Child, WrapWithHeaders), thrift/client.go client.Call +
   thrift/server.go handle (headers through WriteHeaders / ReadHeaders of Model/Codecs.v),
   json/call.go Client.Call and wrapCall + json/handler.go Handle (encoding/json is a
   library oracle: a header map survives it unchanged).

   A ContextWithHeaders points to ONE container {reqHeaders, respHeaders}; a context used for
   several calls keeps it, so whatever a call does not overwrite is seen after the next call.
   Header maps are canonical association lists (sorted by key, distinct keys); nil and the
   empty map are both [].  No proofs in this file. *)
From Coq Require Import ZArith List Bool.
From Verif Require Import Base.Wrap Base.Wire Model.TypedBuf Model.Messages Model.Codecs Spec.HdrPath.
Import ListNotations.
Local Open Scope Z_scope.

(* ---------------- context_header.go ---------------- *)
Record hslot := mkSlot { s_req : kvs; s_resp : kvs }.

Definition ctx_headers (c : hslot) : kvs := s_req c.
Definition ctx_resp_headers (c : hslot) : kvs := s_resp c.
(* h.respHeaders = headers: the old value is replaced, whatever it was *)
Definition ctx_set_resp (c : hslot) (h : kvs) : hslot := mkSlot (s_req c) h.
(* WrapWithHeaders: a fresh container, response headers unset *)
Definition ctx_with_headers (h : kvs) : hslot := mkSlot h [].
(* Child: a copy of the container *)
Definition ctx_child (c : hslot) : hslot := mkSlot (s_req c) (s_resp c).

(* ---------------- thrift: a header map over the wire ---------------- *)
(* WriteHeaders on one side, ReadHeaders + EnsureEmpty on the other (Go then builds a map: the
   last binding of a key wins).  None = the writer or the reader fails. *)
Definition thrift_wire (h : kvs) : option kvs :=
  match write_theaders h with
  | None => None
  | Some bs =>
      let '(m, r) := r_theaders (rb bs) in
      if rerr r then None
      else if negb (zlen (rrem r) =? 0) then None
      else Some (match m with None => [] | Some p => canon_map p end)
  end.

(* ---------------- what a finished call does to the slot ---------------- *)
(* thrift/client.go Call, the statements after RunWithRetry: (new respHeaders of the container,
   None = the call failed | Some isOK) *)
Definition thrift_call_tail (slot : kvs) (has_err : bool) (respHeaders : kvs) (isOK : bool) : kvs * option bool :=
  if has_err then (slot, None) else (respHeaders, Some isOK).
(* json/call.go Call and wrapCall, the statements after RunWithRetry / makeCall:
   result 0 = nil, 1 = the application error, 2 = transport / system error *)
Definition json_call_tail (slot : kvs) (has_err : bool) (respHeaders : kvs) (isOK : bool) : kvs * Z :=
  if has_err then (slot, 2) else (respHeaders, if isOK then 0 else 1).

(* ---------------- one call ---------------- *)
(* outcome of the handler: 0 ok, 1 application error, anything else = system error;
   callobs (Spec/HdrPath.v): result for the caller, handler ran?, request headers it saw *)

(* thrift: client.Call -> writeArgs (WriteHeaders ctx.Headers()) -> server.handle (ReadHeaders,
   ctxFn = WithHeaders, handler, WriteHeaders ctx.ResponseHeaders()) -> readResponse -> tail *)
Definition call_thrift (c : hslot) (outcome : Z) (resp : kvs) : hslot * callobs :=
  match thrift_wire (ctx_headers c) with
  | None => (c, mkCallObs 2 false [])
  | Some seen =>
      if negb ((outcome =? 0) || (outcome =? 1)) then
        let '(slot, _) := thrift_call_tail (ctx_resp_headers c) true [] false in
        (ctx_set_resp c slot, mkCallObs 2 true seen)
      else
        (* the handler's context: WithHeaders(seen); it sets resp; the server writes them *)
        let hctx := ctx_set_resp (ctx_with_headers seen) resp in
        match thrift_wire (ctx_resp_headers hctx) with
        | None => (c, mkCallObs 2 true seen)
        | Some rh =>
            let '(slot, res) := thrift_call_tail (ctx_resp_headers c) false rh (outcome =? 0) in
            (ctx_set_resp c slot,
             mkCallObs (match res with None => 2 | Some true => 0 | Some false => 1 end) true seen)
        end
  end.

(* JSON: Client.Call / wrapCall -> makeCall (WriteJSON ctx.Headers()) -> handler.Handle
   (ReadJSON, WithHeaders, handler, WriteJSON ctx.ResponseHeaders()) -> makeCall reads -> tail *)
Definition call_json (c : hslot) (outcome : Z) (resp : kvs) : hslot * callobs :=
  let seen := ctx_headers c in
  if negb ((outcome =? 0) || (outcome =? 1)) then
    let '(slot, res) := json_call_tail (ctx_resp_headers c) true [] false in
    (ctx_set_resp c slot, mkCallObs res true seen)
  else
    let hctx := ctx_set_resp (ctx_with_headers seen) resp in
    let '(slot, res) := json_call_tail (ctx_resp_headers c) false (ctx_resp_headers hctx) (outcome =? 0) in
    (ctx_set_resp c slot, mkCallObs res true seen).

(* ---------------- sequences of operations on a stack of contexts ---------------- *)
(* operations: Spec/HdrPath.v hop *)
Definition do_call (c : hslot) (kind outcome : Z) (resp : kvs) : hslot * callobs :=
  if kind =? 0 then call_thrift c outcome resp else call_json c outcome resp.

(* the stack is never empty: (current, parents) *)
Definition hstack := (hslot * list hslot)%type.

Definition hstep (st : hstack) (o : hop) : hstack * option callobs :=
  let '(cur, par) := st in
  match o with
  | HWith h => ((ctx_with_headers h, par), None)
  | HChild => ((ctx_child cur, cur :: par), None)
  | HPop => (match par with [] => (cur, []) | p :: par' => (p, par') end, None)
  | HCall kind outcome resp =>
      let '(cur', ob) := do_call cur kind outcome resp in ((cur', par), Some ob)
  end.

Definition hinit : hstack := (mkSlot [] [], []).

(* observation after an operation: the call's observation (calls only), then the current
   context's Headers() and ResponseHeaders() *)
Fixpoint hrun_obs (st : hstack) (ops : list hop) : list hobs :=
  match ops with
  | [] => []
  | o :: rest =>
      let '(st', ob) := hstep st o in
      (ob, ctx_headers (fst st'), ctx_resp_headers (fst st')) :: hrun_obs st' rest
  end.

Fixpoint hfinal (st : hstack) (ops : list hop) : hstack :=
  match ops with
  | [] => st
  | o :: rest => hfinal (fst (hstep st o)) rest
  end.

(* line encoding: for a call [result; ran; seen], else [9]; then Headers(), ResponseHeaders() *)
Definition put_hobs (b : hobs) : list Z :=
  let '(ob, req, resp) := b in
  (match ob with
   | None => [9]
   | Some o => co_result o :: zb (co_ran o) :: put_list put_kv (co_seen o)
   end) ++ put_list put_kv req ++ put_list put_kv resp.

(* ---------------- harness entry points ---------------- *)
(* op encodings: 0 variant h | 1 | 2 | 3 kind outcome variant resp  (variant: how the harness
   spells nil / empty; not observable) *)
Definition take_hop (l : list Z) : hop * list Z :=
  let '(tag, r) := take1 l in
  if tag =? 0 then
    let '(_, r1) := take1 r in
    let '(h, r2) := take_list take_kv r1 in (HWith h, r2)
  else if tag =? 1 then (HChild, r)
  else if tag =? 2 then (HPop, r)
  else
    let '(kind, r1) := take1 r in
    let '(outcome, r2) := take1 r1 in
    let '(_, r3) := take1 r2 in
    let '(resp, r4) := take_list take_kv r3 in (HCall kind outcome resp, r4).

Definition run_hdrseq (c : list Z) : list Z :=
  let '(ops, _) := take_list take_hop c in flat_map put_hobs (hrun_obs hinit ops).
Definition run_hdrseq_err (c : list Z) : list Z := run_hdrseq c.
