(* Hand model of the CALLER side of the drain of mex.go: who calls messageExchange.shutdown().
   Model/MexDrain.v proves that the exchange maps are empty once every exchange object has
   finished shutting down; this file models the goroutine that owns that obligation -- the
   caller of an outbound call / the handler of an inbound call driving the request/response
   WRITER of reqres.go (reqResWriter.argWriter, newFragment, flushFragment, failed) -- so that
   "finished shutting down" becomes a consequence of "every call was driven to its end or to
   its first error".

   Part 1: the exits of the writer functions as decision functions (tied to the source by
   go2v: Gen/GenWriterExit.v, Proofs/CallDrainGenP.v).  Result = bit set
       1 a non-nil error is returned     4 mex.shutdown() was called
       8 w.err was set                   16 the frame was queued on the connection's send channel.
   Part 2: one thread per exchange object over the exchange set of Model/MexDrain.v; the two
   atomic regions of shutdown() (CAS, removeExchange) are separate steps of the thread, other
   threads, expiry, stopExchanges and frame lookups interleave freely.
   No proofs here (Proofs/CallDrainP.v). *)
From Coq Require Import ZArith List Bool.
From Verif Require Import Base.Wire Model.MexDrain.
Import ListNotations.
Local Open Scope Z_scope.

(* ---- Part 1: exits of the writer ------------------------------------------------------ *)

(* reqResWriter.failed: `if w.err != nil { return w.err }; w.mex.shutdown(); w.err = err; return w.err` *)
Definition w_failed (werr : bool) : Z := if werr then 1 else 13.

(* reqResWriter.argWriter: sticky error; state mismatch -> failed; error of
   fragmentingWriter.ArgWriter (BeginArgument) -> failed *)
Definition w_arg_writer (werr state_ok begin_err : bool) : Z :=
  if werr then 1
  else if negb state_ok then w_failed werr
  else if begin_err then w_failed werr
  else 0.

(* reqResWriter.newFragment: context/latch check -> failed; an error of message.write or of
   the write buffer is returned as it is (the writer is NOT failed by newFragment itself) *)
Definition w_new_fragment (werr check_err msg_err buf_err : bool) : Z :=
  if check_err then w_failed werr
  else if msg_err then 1
  else if buf_err then 1
  else 0.

(* reqResWriter.flushFragment: sticky error; context/latch check -> failed; then the select:
   arm 0 = <-ctx.Done() -> failed, arm 1 = <-errCh -> failed, arm 2 = the frame is queued.
   99 = no clause ever runs (not an exit) *)
Definition w_flush_fragment (werr check_err : bool) (arm : Z) : Z :=
  if werr then 1
  else if check_err then w_failed werr
  else if arm =? 0 then w_failed werr
  else if arm =? 1 then w_failed werr
  else if arm =? 2 then 16
  else 99.

Definition x_err (c : Z) : bool := Z.testbit c 0.
Definition x_shut (c : Z) : bool := Z.testbit c 2.
Definition x_set (c : Z) : bool := Z.testbit c 3.

(* what the application calls on a writer *)
Inductive wop :=
| OArgWriter (state_ok : bool) (begin : Z)
    (* Arg1/2/3Writer.  begin: what fragmentingWriter.BeginArgument does: 0 = no error (with or
       without asking for a fragment), 1 = an error that is not the writer's own (errComplete,
       errAlreadyWritingArgument, message.write / buffer error of the initial fragment),
       2 = it asks for a fragment and newFragment's context/latch check fails *)
| ONewFragment (check_err : bool)
    (* fragmentingWriter.Write/Flush asking for a CONTINUATION fragment; its message
       (callReqContinue / callResContinue: no body) and checksum header always fit *)
| OFlush (check_err : bool) (arm : Z).
    (* fragmentingWriter.Write/Flush/Close handing a fragment over: flushFragment *)

Definition op_enabled (o : wop) : bool :=
  match o with
  | OArgWriter _ b => (0 <=? b) && (b <=? 2)
  | ONewFragment _ => true
  | OFlush _ arm => (0 <=? arm) && (arm <=? 2)
  end.

Definition op_code (werr : bool) (o : wop) : Z :=
  match o with
  | OArgWriter state_ok b =>
      if (b =? 2) && negb werr && state_ok
      then (* newFragment fails the writer, then argWriter's own w.failed(err) is sticky *)
           let c1 := w_new_fragment werr true false false in
           Z.lor c1 (w_arg_writer (werr || x_set c1) state_ok true)
      else w_arg_writer werr state_ok (negb (b =? 0))
  | ONewFragment ce => w_new_fragment werr ce false false
  | OFlush ce arm => w_flush_fragment werr ce arm
  end.

(* ---- Part 2: call threads over the exchange set ---------------------------------------
   ct_pc: 0 = in the application, between two operations on the call;
          1 = inside mex.shutdown(), before the CAS;  2 = after winning the CAS, before
          removeExchange;  3 = the application is done with the call.
   ct_after: where shutdown() returns to: 0 = into a failed writer operation (which then returns
   its error), 3 = the call's normal end (doneReading / doneSending). *)
Record cthread := { ct_pc : Z; ct_werr : bool; ct_lasterr : bool; ct_after : Z }.

Record cstate := { cs_mex : mexset; cs_thr : list cthread }.

Definition cs_init : cstate := {| cs_mex := ms_init; cs_thr := [] |}.

Inductive clabel :=
| CBegin (id : Z)            (* newExchange(id); on success the call is in its owner's hands *)
| COp (t : Z) (o : wop)      (* the owner calls a writer operation *)
| CFinish (t : Z)            (* a call whose writer never failed reaches its normal end: mex.shutdown() *)
| CCas (t : Z)               (* shutdown(): shutdownAtomic.CAS + errCh notify *)
| CRemove (t : Z)            (* shutdown(): mexset.removeExchange *)
| CGiveUp (t : Z)            (* the owner got an error from the last operation and drops the call *)
| CExpire (h : Z)            (* the expiry watcher of an inbound call: expireExchange *)
| CStop                      (* stopExchanges *)
| CForward (id : Z).         (* the connection reader looks an id up *)

Definition get_thr (s : cstate) (t : Z) : option cthread :=
  if t <? 0 then None else nth_error (cs_thr s) (Z.to_nat t).

Definition set_thr (s : cstate) (t : Z) (x : cthread) : cstate :=
  {| cs_mex := cs_mex s; cs_thr := upd_nth (Z.to_nat t) x (cs_thr s) |}.

Definition with_mex (s : cstate) (m : mexset) : cstate := {| cs_mex := m; cs_thr := cs_thr s |}.

Definition lift_mex (s : cstate) (l : mlabel) : option cstate :=
  match mstep (cs_mex s) l with Some m => Some (with_mex s m) | None => None end.

Definition cstep (s : cstate) (l : clabel) : option cstate :=
  match l with
  | CBegin id =>
      match mstep (cs_mex s) (MNew id) with
      | None => None
      | Some m =>
          if ms_shutdown (cs_mex s) || has_key id (ms_exch (cs_mex s))
          then Some (with_mex s m)        (* newExchange returned an error: no call *)
          else Some {| cs_mex := m;
                       cs_thr := cs_thr s ++ [{| ct_pc := 0; ct_werr := false; ct_lasterr := false; ct_after := 0 |}] |}
      end
  | COp t o =>
      match get_thr s t with
      | None => None
      | Some x =>
          if (ct_pc x =? 0) && op_enabled o then
            let c := op_code (ct_werr x) o in
            if x_shut c
            then Some (set_thr s t {| ct_pc := 1; ct_werr := ct_werr x || x_set c; ct_lasterr := x_err c; ct_after := 0 |})
            else Some (set_thr s t {| ct_pc := 0; ct_werr := ct_werr x || x_set c; ct_lasterr := x_err c; ct_after := 0 |})
          else None
      end
  | CFinish t =>
      match get_thr s t with
      | None => None
      | Some x =>
          if (ct_pc x =? 0) && negb (ct_werr x)
          then Some (set_thr s t {| ct_pc := 1; ct_werr := false; ct_lasterr := ct_lasterr x; ct_after := 3 |})
          else None
      end
  | CCas t =>
      match get_thr s t, get_obj (cs_mex s) t with
      | Some x, Some o =>
          if ct_pc x =? 1 then
            match mstep (cs_mex s) (MShutCas t) with
            | None => None
            | Some m =>
                (* the CAS is lost when the exchange was shut down before: shutdown() returns at once *)
                let pc' := if mo_pc o =? 0 then 2 else ct_after x in
                Some (set_thr (with_mex s m) t {| ct_pc := pc'; ct_werr := ct_werr x; ct_lasterr := ct_lasterr x; ct_after := ct_after x |})
            end
          else None
      | _, _ => None
      end
  | CRemove t =>
      match get_thr s t with
      | None => None
      | Some x =>
          if ct_pc x =? 2 then
            match mstep (cs_mex s) (MShutRemove t) with
            | None => None
            | Some m => Some (set_thr (with_mex s m) t {| ct_pc := ct_after x; ct_werr := ct_werr x; ct_lasterr := ct_lasterr x; ct_after := ct_after x |})
            end
          else None
      end
  | CGiveUp t =>
      match get_thr s t with
      | None => None
      | Some x =>
          if (ct_pc x =? 0) && ct_lasterr x
          then Some (set_thr s t {| ct_pc := 3; ct_werr := ct_werr x; ct_lasterr := true; ct_after := ct_after x |})
          else None
      end
  | CExpire h => lift_mex s (MExpire h)
  | CStop => lift_mex s MStop
  | CForward id => lift_mex s (MForward id)
  end.

Fixpoint crun (s : cstate) (ls : list clabel) : option cstate :=
  match ls with
  | [] => Some s
  | l :: r => match cstep s l with Some s' => crun s' r | None => None end
  end.

(* every call is over for its owner: completed, or given up after an error *)
Definition calls_over (s : cstate) : bool := forallb (fun x => ct_pc x =? 3) (cs_thr s).

(* the exchange-set labels a history consists of (for the link to Model/MexDrain.v) *)
Definition mlabels_of (l : clabel) : list mlabel :=
  match l with
  | CBegin id => [MNew id]
  | CCas t => [MShutCas t]
  | CRemove t => [MShutRemove t]
  | CExpire h => [MExpire h]
  | CStop => [MStop]
  | CForward id => [MForward id]
  | _ => []
  end.
