(* Executable CHECKER of the pool discipline of Spec/PoolTraceSpec.v (property C04) and its harness
   entry point.

   The harness engine poolmux records, per scenario on the real library, a trace of Get / Put
   events on pooled objects (harness/engine_c04pool.go: events of the tracking checksum pools,
   and differences between censuses of the pools that cannot be intercepted).  [pt_step] judges
   one event in the state the earlier events lead to:
       Get o h   o is held by somebody                -> offence 3 (two holders would share o)
                 o is in the bag                      -> fine
                 o was seen before (and is nowhere)   -> offence 4 (not a trace of a pool)
                 o is new                             -> fine
       Put o h   (o, h) is a holding                  -> fine
                 o is held, but not by h              -> offence 2 (put back by a stranger)
                 o is held by nobody                  -> offence 1 (put back twice / never taken)
   and [pt_run] stops at the first offence.  Proofs/PoolTraceP.v: the checker accepts a trace
   iff the trace is [disciplined]; an accepted trace is [exclusive] after every prefix.

   run_pooltrace:  input   n, then n triples  op (0 Get, 1 Put)  object  holder
                   output  [1; n; holdings at the end; objects in the bag at the end]
                           [0; index of the first offending event; offence]
                           [2] malformed input
   No proofs in this file. *)
From Coq Require Import ZArith List Bool.
From Verif Require Import Base.Wrap Base.Wire Spec.PoolTraceSpec.
Import ListNotations.
Local Open Scope Z_scope.

Fixpoint pt_memz (x : Z) (l : list Z) : bool :=
  match l with [] => false | y :: r => (y =? x) || pt_memz x r end.

Fixpoint pt_memp (x : Z * Z) (l : list (Z * Z)) : bool :=
  match l with [] => false | y :: r => pw_pair_eqb y x || pt_memp x r end.

Definition pt_step (w : pworld) (e : pev) : pworld + Z :=
  match e with
  | PGet o h =>
      if pt_memz o (map fst (pw_held w)) then inr 3
      else if pt_memz o (pw_bag w) then inl (pw_step w e)
      else if pt_memz o (pw_seen w) then inr 4
      else inl (pw_step w e)
  | PPut o h =>
      if pt_memp (o, h) (pw_held w) then inl (pw_step w e)
      else if pt_memz o (map fst (pw_held w)) then inr 2
      else inr 1
  end.

(* the final world, or (index, offence) of the first offending event *)
Fixpoint pt_run (w : pworld) (i : Z) (es : list pev) : pworld + (Z * Z) :=
  match es with
  | [] => inl w
  | e :: r => match pt_step w e with
              | inl w' => pt_run w' (i + 1) r
              | inr c => inr (i, c)
              end
  end.

Definition pt_ok (es : list pev) : bool :=
  match pt_run pw_init 0 es with inl _ => true | inr _ => false end.

(* ------------------------------------------------------------------ harness entry point *)

Fixpoint pt_decode (fuel : nat) (l : list Z) : option (list pev) :=
  match fuel with
  | O => match l with [] => Some [] | _ => None end
  | S f =>
      match l with
      | op :: o :: h :: r =>
          match pt_decode f r with
          | None => None
          | Some es =>
              if op =? 0 then Some (PGet o h :: es)
              else if op =? 1 then Some (PPut o h :: es)
              else None
          end
      | _ => None
      end
  end.

Definition run_pooltrace (input : list Z) : list Z :=
  match input with
  | n :: r =>
      if n <? 0 then [2] else
      match pt_decode (Z.to_nat n) r with
      | None => [2]
      | Some es =>
          match pt_run pw_init 0 es with
          | inl w => [1; zlen es; zlen (pw_held w); zlen (pw_bag w)]
          | inr (i, c) => [0; i; c]
          end
      end
  | [] => [2]
  end.
