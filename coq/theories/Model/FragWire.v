(* Byte level of call fragments: parseInboundFragment (reqres.go), the chunk loop of
   recvAndParseNextFragment, and the layout written by reqResWriter.newFragment /
   writableFragment.finish / flushFragment; plus the harness entry points for engine "frag". *)
From Coq Require Import ZArith List Bool.
From Verif Require Import Base.Wrap Base.Bytes Base.Wire Gen.GenConsts Gen.GenFrame
  Model.TypedBuf Model.Messages Model.Crc Model.Frag.
Import ListNotations.
Local Open Scope Z_scope.

Definition enc_chunks (cs : list (list Z)) : list Z := flat_map (fun c => be 2 (zlen c) ++ c) cs.

(* the chunk loop: 0 ok, 10 errChunkExceedsFragmentSize, 11 typed.ErrEOF *)
Fixpoint parse_chunks (fuel : nat) (r : rbuf) (acc : list (list Z)) : Z * list (list Z) :=
  match fuel with
  | O => (if rerr r then 11 else 0, acc)
  | S f =>
      if (zlen (rrem r) >? 0) && negb (rerr r) then
        let '(sz, r1) := r_u16 r in
        if sz >? wrapU 16 (zlen (rrem r1)) then (10, acc)
        else let '(d, r2) := r_bytes (Z.to_nat sz) r1 in parse_chunks f r2 (acc ++ [d])
      else (if rerr r then 11 else 0, acc)
  end.

(* parseInboundFragment after the message header has been read:
   csumtype:1 csum:size.  code 0 ok, 11 ErrEOF, 14 unknown checksum type *)
Definition parse_frag_tail (flags : Z) (r : rbuf) : Z * frag :=
  let '(ct, r1) := r_u8 r in
  if (ct >=? c_checksumCount) && negb (rerr r1) then (14, mkFrag false ct [] []) else
  let '(ck, r2) := r_bytes (Z.to_nat (ChecksumSize ct)) r1 in
  if rerr r2 then (11, mkFrag false ct [] []) else
  let '(code, cs) := parse_chunks (length (rrem r2)) r2 [] in
  (code, mkFrag (hasMoreFragments flags) ct ck cs).

(* a whole call req / call res / continuation payload: kind 3,4 have a message header *)
Definition parse_frag_payload (mt : Z) (payload : list Z) : Z * frag :=
  let '(flags, r0) := r_u8 (rb payload) in
  let r1 := if mt =? c_messageTypeCallReq then snd (r_callreq r0)
            else if mt =? c_messageTypeCallRes then snd (r_callres r0) else r0 in
  if rerr r1 then (11, mkFrag false 0 [] []) else parse_frag_tail flags r1.

(* payload of an outbound fragment as newFragment + finish + flush lay it out *)
Definition enc_frag_payload (msghdr : list Z) (f : frag) : list Z :=
  [if f_more f then c_hasMoreFragmentsFlag else 0] ++ msghdr ++ [f_ctype f] ++ f_ck f ++ enc_chunks (f_chunks f).

(* ---------------- harness encoding ---------------- *)
Definition put_frag (f : frag) : list Z :=
  zb (f_more f) :: f_ctype f :: put_bytes (f_ck f) ++ put_list put_bytes (f_chunks f).
Definition take_frag (l : list Z) : frag * list Z :=
  match l with
  | m :: ct :: r => let '(ck, r1) := take_bytes r in let '(cs, r2) := take_list take_bytes r1 in (mkFrag (bz m) ct ck cs, r2)
  | _ => (mkFrag false 0 [] [], [])
  end.

Definition take_wop (l : list Z) : wop * list Z :=
  match l with
  | 0 :: last :: r => (WBegin (bz last), r)
  | 1 :: r => let '(b, r') := take_bytes r in (WWrite b, r')
  | 2 :: r => (WFlush, r)
  | _ :: r => (WClose, r)
  | [] => (WClose, [])
  end.

(* fragw: capInitial capCont ctype ops -> panic? codes state done frags *)
Definition run_fragw (c : list Z) : list Z :=
  match c with
  | ci :: cc :: ct :: r =>
      let '(ops, _) := take_list take_wop r in
      match ck_new ct with
      | None => [2]
      | Some ck =>
          match w_run (fun initial => if initial then ci else cc) ops (w_init ck) [] with
          | None => [1]
          | Some (codes, st) => 0 :: put_list (fun x => [x]) codes ++ [ws_state st; zb (ws_done st)] ++ put_list put_frag (ws_out st)
          end
      end
  | _ => [-1]
  end.

Definition take_rop (l : list Z) : rop * list Z :=
  match l with
  | 0 :: last :: r => (RBegin (bz last), r)
  | 1 :: n :: r => (RRead n, r)
  | 2 :: r => (RClose, r)
  | 3 :: n :: r => (RHelper n, r)
  | _ => (RClose, [])
  end.

(* per-op observable: code followed by the bytes returned (reads) *)
Fixpoint r_run (ops : list rop) (st : rst) (acc : list Z) : option (list Z * rst) :=
  match ops with
  | [] => Some (acc, st)
  | o :: r =>
      match o with
      | RBegin l => match r_begin l st with None => None | Some (c, st') => r_run r st' (acc ++ [c]) end
      | RClose => match r_close st with None => None | Some (c, st') => r_run r st' (acc ++ [c]) end
      | RRead n => match r_read n st with None => None | Some (bs, c, st') => r_run r st' (acc ++ c :: put_bytes bs) end
      | RHelper n => match r_helper_read n st with None => None | Some (bs, c, st') => r_run r st' (acc ++ c :: put_bytes bs) end
      end
  end.

(* the same without the accumulator (linear in the number of operations) *)
Fixpoint r_run_lin (ops : list rop) (st : rst) : option (list Z * rst) :=
  match ops with
  | [] => Some ([], st)
  | o :: r =>
      let step : option (list Z * rst) :=
        match o with
        | RBegin l => match r_begin l st with None => None | Some (c, st') => Some ([c], st') end
        | RClose => match r_close st with None => None | Some (c, st') => Some ([c], st') end
        | RRead n => match r_read n st with None => None | Some (bs, c, st') => Some (c :: put_bytes bs, st') end
        | RHelper n => match r_helper_read n st with None => None | Some (bs, c, st') => Some (c :: put_bytes bs, st') end
        end in
      match step with
      | None => None
      | Some (obs, st') => match r_run_lin r st' with None => None | Some (rest, stf) => Some (obs ++ rest, stf) end
      end
  end.

(* fragr: frags ops -> panic? observations state released finished *)
Definition run_fragr (c : list Z) : list Z :=
  let '(fs, r) := take_list take_frag c in
  let '(ops, _) := take_list take_rop r in
  match r_run_lin ops (r_init fs) with
  | None => [1]
  | Some (obs, st) => 0 :: obs ++ [rs_state st; rs_rel st; zb (rs_fin st)]
  end.

(* fragparse: mt payload -> code [more chunks]: parseInboundFragment, then the reader's
   recvAndParseNextFragment on that single fragment (checksum check, first chunk) *)
Definition run_fragparse (c : list Z) : list Z :=
  match c with
  | mt :: payload =>
      let '(code, f) := parse_frag_payload mt payload in
      if negb (code =? 0) then [code] else
      match r_recv (r_init [f]) with
      | None => [99]
      | Some (c2, st) => if c2 =? 0 then 0 :: zb (rs_more st) :: put_list put_bytes (rs_cur st :: rs_rem st) else [c2]
      end
  | _ => [-1]
  end.
