(* Property C05 (a): a call over a transport that FAILS after some byte offset.
   Hand model of
     connection.go  readFrames            (frame loop over the byte stream: read_frames)
     connection.go  handleFrameNoRelay / mex.go forwardPeerFrame by message id   (for_call)
     reqres.go      recvNextFragment + mex.go recvPeerFrameOfType + parseInboundFragment (recv_frags)
     raw/call.go    ReadArgsV2 / outbound.go Arg2Reader: three ArgReadHelper reads    (call_outcome)
   on top of the frame model (Model/Messages.v) and the fragment reader (Model/Frag.v).
   A cut (close), half-close or stall at byte offset n all mean: the receiving side gets
   exactly the first n bytes of the stream and then never another byte; readFrames then
   reports an error (or blocks until the context ends) and the exchange's reader gets an
   error after the fragments that were completely received: in Model/Frag.v that is the
   receiver error 9 returned once [rs_in] is exhausted. *)
From Coq Require Import ZArith List Bool.
From Verif Require Import Base.Wrap Base.Bytes Base.Wire Gen.GenConsts Gen.GenFrame
  Model.TypedBuf Model.Messages Model.Crc Model.Frag Model.FragWire.
Import ListNotations.
Local Open Scope Z_scope.

(* readFrames: frames completely contained in the stream, and why the loop ended:
   1 = invalid frame size, 2 = short read inside a frame (io.ErrUnexpectedEOF, or blocked
   for ever on a stalled connection), 3 = end of stream between two frames (io.EOF). *)
Fixpoint read_frames (fuel : nat) (stream : list Z) : list (fheader * list Z) * Z :=
  match fuel with
  | O => ([], 2)
  | S f =>
      match stream with
      | [] => ([], 3)
      | _ :: _ =>
          match frame_read_in stream with
          | (code, h, p, rest) =>
              if code =? 0 then (let '(l, c) := read_frames f rest in ((h, p) :: l, c)) else ([], code)
          end
      end
  end.

(* frames handed to the exchange of call [id]: call res / call res continue (outbound
   exchange set) resp. call req / call req continue (inbound), looked up by header id;
   frames for other ids are dropped ("unknown message exchange") *)
Definition for_call (id mt0 mtc : Z) (frames : list (fheader * list Z)) : list (fheader * list Z) :=
  filter (fun hp => (fh_id (fst hp) =? id) &&
                    ((fh_type (fst hp) =? mt0) || (fh_type (fst hp) =? mtc) || (fh_type (fst hp) =? c_messageTypeError)))
         frames.

(* recvNextFragment: the first fragment must have the initial message type, the others the
   continuation type; an error frame or any other type fails the reader
   (errorMessage / errUnexpectedFrameType), as does a payload that does not parse.  The
   fragments before the failing one have been delivered. *)
Fixpoint recv_frags (initial : bool) (mt0 mtc : Z) (frames : list (fheader * list Z)) : list frag :=
  match frames with
  | [] => []
  | hp :: r =>
      let want := if initial then mt0 else mtc in
      if fh_type (fst hp) =? want then
        (let '(code, f) := parse_frag_payload want (snd hp) in
         if code =? 0 then f :: recv_frags false mt0 mtc r else [])
      else []
  end.

(* what the caller (resp. handler) ends up with *)
Inductive outcome := OPanic | OErr | OOk (args : list (list Z)).

(* three ArgReadHelper.Read calls (arg1 = method, arg2, arg3); the first failing one ends the call *)
Definition call_outcome (n1 n2 n3 : Z) (fs : list frag) : outcome :=
  match r_begin false (r_init fs) with
  | None => OPanic
  | Some (cb1, s0) =>
  if negb (cb1 =? 0) then OErr else
  match r_helper_read n1 s0 with
  | None => OPanic
  | Some (a1, c1, s1) =>
  if negb (c1 =? 0) then OErr else
  match r_begin false s1 with
  | None => OPanic
  | Some (cb2, s1') =>
  if negb (cb2 =? 0) then OErr else
  match r_helper_read n2 s1' with
  | None => OPanic
  | Some (a2, c2, s2) =>
  if negb (c2 =? 0) then OErr else
  match r_begin true s2 with
  | None => OPanic
  | Some (cb3, s2') =>
  if negb (cb3 =? 0) then OErr else
  match r_helper_read n3 s2' with
  | None => OPanic
  | Some (a3, c3, s3) =>
  if negb (c3 =? 0) then OErr else OOk [a1; a2; a3]
  end end end end end end.

(* the receiving side of one call, from the bytes that arrived *)
Definition recv_outcome (id mt0 mtc : Z) (n1 n2 n3 : Z) (stream : list Z) : outcome :=
  let '(frames, _) := read_frames (S (length stream)) stream in
  call_outcome n1 n2 n3 (recv_frags true mt0 mtc (for_call id mt0 mtc frames)).

(* the stream cut at byte offset n *)
Definition cut_at (n : Z) (stream : list Z) : list Z := firstn (Z.to_nat n) stream.

(* ---------------- harness entry point ----------------
   cut: dir id n stream...  ->  [0] error | [2] panic | 1 :: args
   dir 0: response stream seen by the caller (call res / call res continue; observable arg2, arg3)
   dir 1: request stream seen by the handler (call req / call req continue; observable arg1..arg3)
   n < 0 means "no fault". *)
Definition run_cut (c : list Z) : list Z :=
  match c with
  | dir :: id :: n :: stream =>
      let mt0 := if dir =? 0 then c_messageTypeCallRes else c_messageTypeCallReq in
      let mtc := if dir =? 0 then c_messageTypeCallResContinue else c_messageTypeCallReqContinue in
      let got := if n <? 0 then stream else cut_at n stream in
      match recv_outcome id mt0 mtc 512 512 512 got with
      | OPanic => [2]
      | OErr => [0]
      | OOk args => 1 :: put_list put_bytes (if dir =? 0 then tl args else args)
      end
  | _ => [-1]
  end.
