(* The NO-OVERLAP condition on schedules of the relay model (properties C09, C10), as executable
   definitions; the theorems about it are in Proofs/RelayCalmP.v, RelayPairP.v, RelayGrammarP.v.

   A goroutine of the relay (the reader of a connection handling one frame, or the goroutine
   of a fired relay timer) ACTS ON call c when
     - a relayItems operation it performs (Get in handleNonCallReq / Receive / failRelayItem,
       Entomb, Delete) hits a live (non-tombstone) item of c, or
     - it is the OnTimer goroutine created by the firing of the timer of a live item of c.
   From that moment until it has finished handling its frame (its code is exhausted) it HOLDS c:
   it may hold a looked-up copy of c's item.  [held] is this ghost relation; it is a function of
   the schedule alone ([held_next]).

   [no_overlap cf ls]: in the schedule ls no goroutine acts on a call that another goroutine
   holds, i.e. no timer of c fires and no other reader touches c while a goroutine holds a
   looked-up copy of c's item.
   [calm cf ls] = no_overlap + [whole]: whenever a Get (handleNonCallReq / Receive) returns a
   live item of call c, the ORIGINATING item of c is still live (no frame of a call is processed
   between the timeout of its originating item and the timeout of its destination item).
   [causal], [dest_ok]: the two hypotheses on destinations used by the C10 grammar theorem.
   The last section is the harness entry point [run_relaycalm] (engine relaysched).
   No proofs in this file. *)
From Coq Require Import ZArith List Bool.
From Verif Require Import Base.Wrap Base.Wire Gen.GenConsts Gen.GenFrame Model.RelayItems Model.RelaySched Spec.WireOk.
Import ListNotations.
Local Open Scope Z_scope.

(* ---------------------------------------------------------------- frames on the wire *)

(* the grammar symbol of a frame (None: not a response-direction call frame) *)
Definition kind_of (f : frame) : option kind :=
  if f_mt f =? c_messageTypeCallRes then Some (Res (hasMoreFragments (f_flags f)))
  else if f_mt f =? c_messageTypeCallResContinue then Some (Cont (hasMoreFragments (f_flags f)))
  else if f_mt f =? c_messageTypeError then Some Err
  else None.

(* frames enqueued on connection k for id, oldest first (the log is newest first) *)
Fixpoint wire_of (k id : Z) (log : list (Z * frame)) : list kind :=
  match log with
  | [] => []
  | (k', f) :: r =>
      wire_of k id r ++
      (if (k' =? k) && (f_id f =? id) then match kind_of f with Some x => [x] | None => [] end else [])
  end.


(* ---------------------------------------------------------------- the condition *)

Definition held := list (tid * Z).

(* the call of the live item at key t (at most one) *)
Definition live_call (st : state) (t : key) : list Z :=
  match lookup key_eqb t (items st) with
  | Some it => if it_tomb it then [] else [it_call it]
  | None => []
  end.

Definition nc_key (k : Z) (f : frame) : option key :=
  match frameTypeFor (f_mt f) with
  | Some ft => Some (k, (if ft =? c_responseFrame then 1 else 0), f_id f)
  | None => None
  end.
Definition rcv_key (r : rcv) : key := (r_d r, (if r_ft r =? c_requestFrame then 1 else 0), f_id (r_f r)).

(* calls whose live item the Get of handleNonCallReq / Receive returns *)
Definition gets_i (st : state) (i : instr) : list Z :=
  match i with
  | INcGet k f => match nc_key k f with Some t => live_call st t | None => [] end
  | IRcvGet r => live_call st (rcv_key r)
  | _ => []
  end.

(* calls a relayItems operation of instruction i acts on *)
Definition touches_i (st : state) (i : instr) : list Z :=
  match i with
  | INcGet _ _ | IRcvGet _ => gets_i st i
  | IFailGet t _ | IEntomb t _ | IDelete t _ => live_call st t
  | _ => []
  end.

(* the call RelayHost.Start creates *)
Definition creates_i (st : state) (i : instr) : list Z :=
  match i with
  | IStart _ _ e => if (e_start e =? 0) || (e_start e =? 1) || (e_start e =? 3) then [next_call st] else []
  | _ => []
  end.

Definition head_of (st : state) (th : tid) : option instr :=
  match lookup tid_eqb th (threads st) with Some (i :: _) => Some i | _ => None end.

Definition actor (l : label) : option tid :=
  match l with LStep th _ => Some th | LFire tm => Some (TT tm) | _ => None end.

Definition touches (st : state) (l : label) : list Z :=
  match l with
  | LStep th _ => match head_of st th with Some i => touches_i st i | None => [] end
  | LFire tm => match lookup Z.eqb tm (timers st) with Some x => live_call st (tm_key x) | None => [] end
  | _ => []
  end.

Definition acquires (st : state) (l : label) : list Z :=
  touches st l ++
  match l with
  | LStep th _ => match head_of st th with Some i => creates_i st i | None => [] end
  | _ => []
  end.

Definition others_hold (h : held) (th : tid) (c : Z) : bool :=
  existsb (fun p => negb (tid_eqb (fst p) th) && (snd p =? c)) h.

(* the ghost after the step st --l--> st': the actor holds what it acted on; a goroutine that
   has nothing left to do holds nothing *)
Definition held_next (st : state) (l : label) (st' : state) (h : held) : held :=
  match actor l with
  | Some th =>
      let h1 := map (fun c => (th, c)) (acquires st l) ++ h in
      match lookup tid_eqb th (threads st') with
      | None => filter (fun p => negb (tid_eqb (fst p) th)) h1
      | Some _ => h1
      end
  | None => h
  end.

Definition no_overlap_step (st : state) (h : held) (l : label) : bool :=
  match actor l with
  | Some th => forallb (fun c => negb (others_hold h th c)) (touches st l)
  | None => true
  end.

Definition orig_live (st : state) (c : Z) : bool :=
  existsb (fun p => (it_call (snd p) =? c) && it_orig (snd p) && negb (it_tomb (snd p))) (items st).

Definition whole_step (st : state) (l : label) : bool :=
  match l with
  | LStep th _ => match head_of st th with Some i => forallb (orig_live st) (gets_i st i) | None => true end
  | _ => true
  end.

Fixpoint sched (cf : config) (chk : state -> held -> label -> bool) (st : state) (h : held) (ls : list label) : bool :=
  match ls with
  | [] => true
  | l :: r => chk st h l &&
              match step cf st l with Some st' => sched cf chk st' (held_next st l st' h) r | None => true end
  end.

Definition calm_chk (st : state) (h : held) (l : label) : bool := no_overlap_step st h l && whole_step st l.

Definition no_overlap (cf : config) (ls : list label) : Prop := sched cf no_overlap_step init [] ls = true.
Definition calm (cf : config) (ls : list label) : Prop := sched cf calm_chk init [] ls = true.


(* ---------------------------------------------------------------- hypotheses on the destination *)

Definition causal_step (st : state) (l : label) : bool :=
  match l with
  | LArrive d f _ => match kind_of f with Some _ => f_id f <? c_nextid (get_conn st d) | None => true end
  | _ => true
  end.


Definition arr_step (arr : list (Z * frame)) (l : label) : list (Z * frame) :=
  match l with LArrive d f _ => (d, f) :: arr | _ => arr end.
Definition arr_run (arr : list (Z * frame)) (ls : list label) : list (Z * frame) := fold_left arr_step ls arr.

(* what connection d delivered for message id did, oldest first, is a prefix of an accepted word *)
Definition dest_ok (ls : list label) : Prop :=
  forall d did, wire_prefix_ok (wire_of d did (arr_run [] ls)) = true.

Fixpoint causal_run (cf : config) (st : state) (ls : list label) : bool :=
  match ls with
  | [] => true
  | l :: r => causal_step st l && match step cf st l with Some st' => causal_run cf st' r | None => true end
  end.
Definition causal (cf : config) (ls : list label) : Prop := causal_run cf init ls = true.


(* executable form of [dest_ok]: only the (connection, id) pairs that occur need checking *)
Definition dest_okb (ls : list label) : bool :=
  let arr := arr_run [] ls in
  forallb (fun p => wire_prefix_ok (wire_of (fst p) (f_id (snd p)) arr)) arr.

(* ---------------------------------------------------------------- harness entry point (engine relaysched)

   The macro schedule of a relaysched case is expanded into the labels of [RelayItems.step]
   exactly as [RelaySched.mstep] does; the label list is then classified by the proved
   predicates.  The engine appends two bits observed on the IMPLEMENTATION: sv = a callback was
   reported after End, gv = the caller-side frames of some id are not a prefix of an accepted
   word.  The answer is [1] iff neither the implementation nor the model shows a violation inside
   the class the theorems cover (C09_silent_after_end_calm, C10_relay_grammar_calm); otherwise
   [0; no_overlap; calm; causal; dest_ok; sv; gv; model sv; model gv]. *)

Fixpoint mrun_l (cf : config) (fuel : nat) (st : state) (t : tid) (mask : Z) (acc : list label) : option (state * list label) :=
  match fuel with
  | O => None
  | S fuel' =>
      match lookup tid_eqb t (threads st) with
      | Some (i :: _) =>
          let l := LStep t (room_for mask i) in
          match step cf st l with
          | None => None
          | Some st' =>
              match lookup tid_eqb t (threads st') with
              | Some (j :: _) =>
                  if is_park j then Some (st', l :: acc)
                  else match i with
                       | IEntomb _ (FromTimeout _) => Some (st', l :: acc)
                       | _ => mrun_l cf fuel' st' t mask (l :: acc)
                       end
              | _ => Some (st', l :: acc)
              end
          end
      | _ => None
      end
  end.

Fixpoint gc_all_l (cf : config) (fuel : nat) (st : state) (acc : list label) : option (state * list label) :=
  match fuel with
  | O => Some (st, acc)
  | S fuel' =>
      match rev (gcs st) with
      | [] => Some (st, acc)
      | t :: _ => match step cf st (LGc t) with Some st' => gc_all_l cf fuel' st' (LGc t :: acc) | None => None end
      end
  end.

Definition one_l (cf : config) (st : state) (l : label) (acc : list label) : option (state * list label) :=
  match step cf st l with Some st' => Some (st', l :: acc) | None => None end.

Definition mstep_l (cf : config) (st : state) (m : macro) (acc : list label) : option (state * list label) :=
  match m with
  | MArrive k f e mask =>
      if fresh_label st (LArrive k f e) then
        match step cf st (LArrive k f e) with
        | Some st' =>
            match lookup tid_eqb (TR k) (threads st') with
            | Some _ => mrun_l cf 200%nat st' (TR k) mask (LArrive k f e :: acc)
            | None => Some (st', LArrive k f e :: acc)
            end
        | None => None
        end
      else None
  | MArriveU _ _ _ _ _ => None      (* id re-use / extra park points: outside the classified schedules *)
  | MCont t mask => mrun_l cf 200%nat st t mask acc
  | MFire key =>
      match lookup key_eqb key (items st) with
      | Some it => one_l cf st (LFire (it_tm it)) acc
      | None => None
      end
  | MGcAll => gc_all_l cf (S (length (gcs st))) st acc
  | MClose k => one_l cf st (LClose k) acc
  | MLost k => one_l cf st (LLost k) acc
  | MDrained k =>
      if c_state (get_conn st k) =? c_connectionClosed then Some (st, acc) else one_l cf st (LDrained k) acc
  | MStep1 t mask =>
      match lookup tid_eqb t (threads st) with
      | Some (i :: _) => one_l cf st (LStep t (room_for mask i)) acc
      | _ => None
      end
  end.

(* newest label first *)
Fixpoint mrun_all_l (cf : config) (st : state) (ms : list macro) (acc : list label) : state * list label :=
  match ms with
  | [] => (st, acc)
  | m :: r => match mstep_l cf st m acc with
              | Some (st', acc') => mrun_all_l cf st' r acc'
              | None => (st, acc)
              end
  end.

(* a callback of call c logged after (= nearer the head than) an End of c *)
Fixpoint log_silent (log : list (Z * cb)) : bool :=
  match log with
  | [] => true
  | (c, x) :: r =>
      (match x with CbEnd => true | _ => negb (existsb (fun p => (fst p =? c) && match snd p with CbEnd => true | _ => false end) r) end)
      && log_silent r
  end.

Definition sent_grammar (st : state) : bool :=
  forallb (fun p => wire_prefix_ok (wire_of (fst p) (snd p) (sent st))) (seen st).

Definition run_relaycalm (c : list Z) : list Z :=
  match c with
  | maxtombs :: cancel :: nconns :: r =>
      let cf := {| cf_maxtombs := maxtombs; cf_cancel := bz cancel |} in
      let '(ms, rest) := take_list take_macro r in
      let '(st, racc) := mrun_all_l cf init ms [] in
      let ls := rev racc in
      let novl := sched cf no_overlap_step init [] ls in
      let cal := sched cf calm_chk init [] ls in
      let cau := causal_run cf init ls in
      let dok := dest_okb ls in
      let sv := match rest with a :: _ => negb (a =? 0) | [] => false end in
      let gv := match rest with _ :: b :: _ => negb (b =? 0) | _ => false end in
      let msv := negb (log_silent (cblog st)) in
      let mgv := negb (sent_grammar st) in
      let b2 := fun b : bool => if b then 1 else 0 in
      if negb (cal && (sv || msv)) && negb (novl && cau && dok && (gv || mgv)) then [1]
      else [0; b2 novl; b2 cal; b2 cau; b2 dok; b2 sv; b2 gv; b2 msv; b2 mgv]
  | _ => [-1]
  end.
