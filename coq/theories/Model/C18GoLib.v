(* C18: the few library / helper functions that the generated code of the relay's lazy
   parsers (Gen/GenC18Lazy.v, from relay_messages.go) refers to through translator hints.
   Each one states what ONE Go expression does (part of the translator's trusted base, like
   Base/GoSem.v); Proofs/C18LazyGenP.v ties the two that stand for translated Go functions
   (c18_has_more, c18_BytesRead) to the generated functions. *)
From Coq Require Import ZArith List Bool.
From Verif Require Import Base.Wrap Base.Bytes Base.GoSem Gen.GenConsts Gen.GenTypedBuf.
Import ListNotations.
Local Open Scope Z_scope.

(* bytes.Equal(a, b): same length and same bytes; a nil slice equals an empty one *)
Definition c18_bytes_equal (a b : bslice) : bool := bytes_eqb (bs_list a) (bs_list b).

(* f.Payload[_flagsIndex]&hasMoreFragmentsFlag != 0 in the right operand of a `&&`
   (hasMoreFragments(f) / cr.HasMoreFragments()): the pure form.  f.Payload is the frame's
   whole payload array (never empty); Proofs/C18LazyGenP.v: equal to the translated functions
   whenever the array is not empty. *)
Definition c18_has_more (payload : bslice) : bool :=
  negb (Z.land (nth (Z.to_nat c_u_flagsIndex) (bs_list payload) 0) c_hasMoreFragmentsFlag =? 0).

(* rbuf.BytesRead() = r.initialLength - len(r.remaining), for a ReadBuffer made by
   typed.NewReadBuffer(sized): initialLength = len(sized)  (the field is not represented in
   Gen/GenTypedBuf.v).  [sized] is the (possibly panicking) expression the buffer was made from. *)
Definition c18_BytesRead (sized : option bslice) (r : ReadBuffer) : option Z :=
  match sized with
  | None => None
  | Some p => Some (bs_len p - bs_len (ReadBuffer_remaining r))
  end.

(* fmt.Errorf("read response frame: %v", err): an error that is not nil (fmt.Errorf never
   returns nil) and is none of the error variables *)
Definition c18_e_readResponseFrame : Z := 99.
