(* Hand model of inbound.go Connection.handleCallReq as far as "who answers the call req" is
   concerned (property C10, strengthening V10 part B).

   A call req read by the connection's reader takes exactly one of five paths; every refusing path
   ends in a `return`, only the last one hands the call to a handler goroutine:

     ApRefuseClosing  the connection is not active when the frame is read:
                      SendSystemError(ErrChannelClosed); return true
     ApParseFail      the initial fragment cannot be decoded: logged, dropped; return true
     ApProtocol       newExchange fails (duplicate id / exchanges shut down):
                      protocolError(id, ..); return true
     ApDeclineRace    Close landed between the first state check and the registration of the
                      exchange: SendSystemError(ErrChannelClosed); mex.shutdown(); return true
     ApDispatch       go c.dispatchInbound(..); return false

   [admit_model] is the function Gen/GenC10Admit.v c10HandleCallReq is proved equal to
   (Proofs/C10AdmitP.v); markers of the trace: 1 error frame "closed channel", 2 mex.shutdown,
   3 dispatch to a handler, 4 protocol error.  The reader labels RdCallReq1/2/3 of Model/RespWire.v
   are the same five paths cut at the two schedule points of the function.  No proofs here. *)
From Coq Require Import ZArith List Bool.
From Verif Require Import Gen.GenConsts Model.RespWire.
Import ListNotations.
Local Open Scope Z_scope.

Inductive admit_path := ApRefuseClosing | ApParseFail | ApProtocol | ApDeclineRace | ApDispatch.

Definition admit_path_of (st1 : Z) (parse_ok mex_ok : bool) (st2 : Z) : option admit_path :=
  if st1 =? c_connectionActive then
    if negb parse_ok then Some ApParseFail
    else if negb mex_ok then Some ApProtocol
    else if negb (st2 =? c_connectionActive) then Some ApDeclineRace
    else Some ApDispatch
  else if (st1 =? c_connectionStartClose) || (st1 =? c_connectionInboundClosed) || (st1 =? c_connectionClosed)
  then Some ApRefuseClosing
  else None.    (* panic: unknown connection state *)

(* responder actions of a path, and the result of handleCallReq (true = the reader releases the frame) *)
Definition path_trace (p : admit_path) : list Z * bool :=
  match p with
  | ApRefuseClosing => ([1], true)
  | ApParseFail => ([], true)
  | ApProtocol => ([4], true)
  | ApDeclineRace => ([1; 2], true)
  | ApDispatch => ([3], false)
  end.

Definition admit_model (st1 : Z) (parse_ok mex_ok : bool) (st2 : Z) (tr : list Z) : option (list Z * bool) :=
  match admit_path_of st1 parse_ok mex_ok st2 with
  | Some p => Some (tr ++ fst (path_trace p), snd (path_trace p))
  | None => None
  end.

(* markers that answer the call req (or promise an answer): error frame, dispatch, protocol error *)
Definition is_responder (m : Z) : bool := (m =? 1) || (m =? 3) || (m =? 4).

(* connection.go connectionState of the model's cstate *)
Definition cstate_go (s : cstate) : Z :=
  match s with
  | CActive => c_connectionActive
  | CStartClose => c_connectionStartClose
  | CInboundClosed => c_connectionInboundClosed
  | CClosed => c_connectionClosed
  end.

(* newExchange refuses: the exchange set is shut down or the id is registered *)
Definition mex_refuses (st : state) (id : Z) : bool :=
  mexset_shut st || match get id (calls st) with Some c => in_ex c | None => false end.
