(* Property C05 (a), "error notification against pending frames": one outbound call whose
   response arrives frame by frame while the receiver lags behind and the connection fails
   from OUTSIDE the connection reader.

   This file adds nothing to the code models: it composes
     Model/Mex.v   (the exchange: mex.go forwardPeerFrame / recvPeerFrame / stopExchanges as an
                    interleaving system; [step_obs true] = the code with frameDropped)
     Model/Cut.v   (recv_frags + call_outcome: fragment parser, fragment reader, the three
                    ArgReadHelper reads of the caller)
   into the scenario the engine "errq" plays against the real client channel:
     - the raw peer WRITES wire items (response frames in order, or -- error kind 3 -- an error
       frame with code "protocol error"), the connection reader takes them off the wire one at
       a time (LLookup ; LFwdCheck ; LFwdSend | LFwdErr, or LStopCopy ; LStopNotify for the
       protocol error, which connection.go handleError turns into connectionError);
     - the receiver is asked to TAKE one more frame (one recvPeerFrame: LRecvCheck ;
       LRecvFrame | LRecvErr); takes are served in order by one goroutine;
     - an error is raised by ANOTHER goroutine (kinds 1, 2: failed write in writeFrames, failed
       ping send): LStopCopy ; LStopNotify at once.
   After every event everything that can move runs until it returns or blocks (reader first).
   At the end the peer writes the remaining frames and the receiver reads until it is complete
   or gets an error.  [x_recvd] = the frames recvPeerFrame returned, in order. *)
From Coq Require Import ZArith List Bool.
From Verif Require Import Base.Wrap Base.Wire Gen.GenConsts Gen.GenMex
  Model.Messages Model.Frag Model.FragWire Model.Cut Model.Mex.
Import ListNotations.
Local Open Scope Z_scope.

Inductive xitem := XFrame (f : frame) | XErr (code : Z).

Record xst := mkX {
  x_st : st;               (* the exchange set with the one exchange of the call (reference 0) *)
  x_wire : list xitem;     (* written by the peer, not yet taken off the wire by the reader *)
  x_want : nat;            (* takes asked of the receiver that have not begun *)
  x_rerr : Z;              (* the fragment reader's sticky error (0 = none) *)
  x_res : list Z           (* results of the finished takes, oldest first: 0 = a frame, else the error *)
}.

Definition x_set_st (s : st) (x : xst) : xst := mkX s (x_wire x) (x_want x) (x_rerr x) (x_res x).

(* stopExchanges(err): copy under the lock, then notify every copied exchange *)
Definition stop_all (code : Z) (s : st) : st :=
  match step_obs true s (LStopCopy code) with
  | Some (s', _) =>
      fold_left (fun s _ => match step_obs true s (LStopNotify 0) with Some (x, _) => x | None => s end) (s_stop s') s'
  | None => s
  end.

(* the connection reader: (state, moved?) *)
Definition rd_advance (x : xst) : xst * bool :=
  match s_reader (x_st x) with
  | RIdle =>
      match x_wire x with
      | [] => (x, false)
      | XFrame f :: w =>
          match step_obs true (x_st x) (LLookup f) with
          | Some (s', _) => (mkX s' w (x_want x) (x_rerr x) (x_res x), true)
          | None => (x, false)
          end
      | XErr c :: w => (mkX (stop_all c (x_st x)) w (x_want x) (x_rerr x) (x_res x), true)
      end
  | _ =>
      let '(s', o) := fwd_advance true (x_st x) in
      (x_set_st s' x, match o with Some _ => true | None => false end)
  end.

Definition in_recv (s : st) : bool :=
  match nth_error (s_mexes s) 0 with Some e => m_cpc e | None => false end.

(* the receiver goroutine: a take after the reader's error returns that error at once
   (fragmentingReader.err is sticky), otherwise it is one recvPeerFrame *)
Definition cs_advance (x : xst) : xst * bool :=
  if negb (x_rerr x =? 0) then
    match x_want x with
    | O => (x, false)
    | S w => (mkX (x_st x) (x_wire x) w (x_rerr x) (x_res x ++ [x_rerr x]), true)
    end
  else
    let started := in_recv (x_st x) in
    match started, x_want x with
    | false, O => (x, false)
    | _, _ =>
        let want' := if started then x_want x else pred (x_want x) in
        let '(s', o) := cons_advance true (x_st x) 0 in
        match o with
        | Some (0 :: _) => (mkX s' (x_wire x) want' 0 (x_res x ++ [0]), true)
        | Some (c :: _) => (mkX s' (x_wire x) want' c (x_res x ++ [c]), true)
        | Some [] => (mkX s' (x_wire x) want' (x_rerr x) (x_res x), true)
        | None => (mkX s' (x_wire x) want' (x_rerr x) (x_res x), negb started)
        end
    end.

Fixpoint x_settle (fuel : nat) (x : xst) : xst :=
  match fuel with
  | O => x
  | S fuel' =>
      let '(x1, p1) := rd_advance x in
      let '(x2, p2) := cs_advance x1 in
      if p1 || p2 then x_settle fuel' x2 else x2
  end.

(* the frames recvPeerFrame has returned to the receiver *)
Definition x_recvd (x : xst) : list frame :=
  match nth_error (s_mexes (x_st x)) 0 with Some e => g_received (m_g e) | None => [] end.

(* events: 0 = the peer writes the next response frame, 1 = the receiver is asked to take a
   frame, 2 = the error (kind 3: an error frame on the wire; else raised by another goroutine) *)
Definition x_event (id kind code : Z) (nframes : nat) (acc : xst * nat) (ev : Z) : xst * nat :=
  let '(x, next) := acc in
  let fuel := (8 + 4 * nframes)%nat in
  if ev =? 0 then
    if (next <=? nframes)%nat
    then (x_settle fuel (mkX (x_st x) (x_wire x ++ [XFrame (mkF id (Z.of_nat next))]) (x_want x) (x_rerr x) (x_res x)), S next)
    else (x, next)
  else if ev =? 1 then
    (x_settle fuel (mkX (x_st x) (x_wire x) (S (x_want x)) (x_rerr x) (x_res x)), next)
  else if ev =? 2 then
    if kind =? 3
    then (x_settle fuel (mkX (x_st x) (x_wire x ++ [XErr code]) (x_want x) (x_rerr x) (x_res x)), next)
    else (x_settle fuel (x_set_st (stop_all code (x_st x)) x), next)
  else (x, next).

(* the end of the scenario: the peer writes what it has not written yet; the receiver is asked
   for one frame at a time (everything settles in between) until it holds all frames, has an
   error, or a take stays blocked *)
Fixpoint x_finish (fuel : nat) (nframes : nat) (x : xst) : xst :=
  match fuel with
  | O => x
  | S fuel' =>
      if negb (x_rerr x =? 0) then x
      else if (nframes <=? length (x_recvd x))%nat then x
      else if negb (Nat.eqb (x_want x) 0) || in_recv (x_st x) then x
      else x_finish fuel' nframes
             (x_settle (8 + 4 * nframes)%nat (mkX (x_st x) (x_wire x) (S (x_want x)) (x_rerr x) (x_res x)))
  end.

Definition x_init (id cap : Z) : xst :=
  match step_obs true init (LNew id cap) with
  | Some (s, _) => mkX s [] O 0 []
  | None => mkX init [] O 0 []
  end.

Definition x_run (id cap kind code : Z) (nframes : nat) (evs : list Z) : xst :=
  let '(x, next) := fold_left (x_event id kind code nframes) evs (x_init id cap, 1%nat) in
  let rest := map (fun k => XFrame (mkF id (Z.of_nat k))) (seq next (S nframes - next)) in
  let x1 := x_settle (8 + 4 * nframes)%nat (mkX (x_st x) (x_wire x ++ rest) (x_want x) (x_rerr x) (x_res x)) in
  x_finish (S nframes) nframes x1.

(* the caller's outcome on the frames it received: frame tag k = the k-th frame the peer built *)
Definition frames_of (id : Z) (wfs : list (Z * list Z)) (tags : list Z) : list (fheader * list Z) :=
  map (fun k => let '(t, p) := nth (Z.to_nat (k - 1)) wfs (0, []) in (mkFH (16 + zlen p) t 0 id, p)) tags.

Definition take_wframe (l : list Z) : (Z * list Z) * list Z :=
  let '(t, r) := take1 l in let '(p, r') := take_bytes r in ((t, p), r').

(* case: id kind code | events | frames (type, payload)  ->   (cap(recvCh) = mexChannelBufferSize, regenerated)
         results of the takes | 0 err  or  1 arg2 arg3 *)
Definition run_c05errq (c : list Z) : list Z :=
  match c with
  | id :: kind :: code :: r =>
      let '(evs, r1) := take_list take1 r in
      let '(wfs, _) := take_list take_wframe r1 in
      let x := x_run id c_mexChannelBufferSize kind code (length wfs) evs in
      let frs := frames_of id wfs (map f_tag (x_recvd x)) in
      put_list (fun z => [z]) (x_res x) ++
      (if negb (x_rerr x =? 0) then [0; x_rerr x]
       else match call_outcome 512 512 512 (recv_frags true c_messageTypeCallRes c_messageTypeCallResContinue frs) with
            | OOk [a1; a2; a3] => 1 :: put_bytes a2 ++ put_bytes a3
            | OOk _ => [3]
            | OErr => [0; 0]
            | OPanic => [2]
            end)
  | _ => [-1]
  end.
