(* The channel close model with two flags, each describing a WRONG variant of channel.go that the
   third strengthening of C07 is about ([false] [false] is the code as it is: the step function of
   Model/ChanClose.v, unchanged):

     serve_late   Channel.Serve guards with `if mutable.state == ChannelClosed { return errInvalidStateForOp }`
                  instead of `if mutable.state != ChannelClient`: only a fully closed channel is refused.
     read_first   Channel.connectionCloseStateChange reads `chState := ch.State()` on entry, BEFORE
                  removeClosedConn(c), instead of after it.

   The variant callback needs two program counters of its own (the channel state read on entry is
   carried across the removal), so the threads of this system are [vpc]: VN p = a thread at
   program counter p of the unchanged model.  Proofs/ClosePinned3P.v shows that the flags set to
   false give exactly the runs of [cstep], and refutes C07_chan_monotone for serve_late and
   C07_chan_reaches_closed for read_first, each with a concrete schedule (the schedules the
   chanclose engine forces on the implementation). *)
From Coq Require Import ZArith List Bool.
From Verif Require Import Base.Wrap Gen.GenConsts Model.CloseKernel Model.ChanClose.
Import ListNotations.
Local Open Scope Z_scope.

Inductive vpc :=
| VN (p : cpc)
| VCb1 (c : nat) (chState : Z)     (* read_first: the state was read; next: removeClosedConn's test *)
| VCb2 (c : nat) (chState : Z).    (* read_first: next: the delete *)

Definition vlift (r : option (cshared * cpc)) : option (cshared * vpc) :=
  match r with Some (s, p) => Some (s, VN p) | None => None end.

(* the state test that follows, on the value read on entry *)
Definition v_after (c : nat) (chState : Z) : vpc :=
  VN (if (chState =? hSC) || (chState =? hIC) then PCb4 c chState else CDone oCbDone).

Definition vtstep (serve_late read_first : bool) (s : cshared) (p : vpc) (arg : Z) : option (cshared * vpc) :=
  match p with
  | VN (PCb1 c) =>
      if read_first then Some (s, VCb1 c (chst s))                     (* chState := ch.State() comes first *)
      else vlift (ctstep s (PCb1 c) arg)
  | VCb1 c chState => if cstate s c =? kCl then Some (s, VCb2 c chState) else Some (s, v_after c chState)
  | VCb2 c chState => Some (set_conns s (remn c (conns s)), v_after c chState)
  | VN PSrv =>
      if serve_late then
        if lis s then Some (s, VN (CDone oSrvAlready))
        else
          let s1 := set_lis s true in
          if chst s =? hCl then Some (s1, VN (CDone oSrvInvalid))       (* only Closed is refused *)
          else Some (set_chst s1 hListening, VN (CDone oSrvOk))
      else vlift (ctstep s PSrv arg)
  | VN p => vlift (ctstep s p arg)
  end.

Record vsys := mkVS { vsh : cshared; vthr : list vpc }.

Definition vstep (serve_late read_first : bool) (s : vsys) (l : clabel) : option vsys :=
  let sh := vsh s in
  match l with
  | LListen =>
      if (chst sh =? hClient) && negb (lis sh) then Some (mkVS (set_chst (set_lis sh true) hListening) (vthr s)) else None
  | LNewConn =>
      let c := length (cstates sh) in
      Some (mkVS (add_cstate sh kA) (vthr s ++ [VN (PAd1 c)]))
  | LConnMove c v =>
      if (Nat.ltb c (length (cstates sh))) && (cstate sh c <? v) && (v <=? kCl)
      then Some (mkVS (set_cstate sh c v) (vthr s)) else None
  | LClose => Some (mkVS sh (vthr s ++ [VN PCl1]))
  | LCallback c =>
      if Nat.ltb c (length (cstates sh))
      then Some (mkVS (set_owed sh (remn c (g_owed sh))) (vthr s ++ [VN (PCb1 c)]))
      else None
  | LConnect => Some (mkVS sh (vthr s ++ [VN PConn]))
  | LRunC tid arg =>
      match nth_error (vthr s) tid with
      | None => None
      | Some p =>
          match vtstep serve_late read_first sh p arg with
          | None => None
          | Some (sh', p') => Some (mkVS sh' (upd (vthr s) tid p'))
          end
      end
  | LServe => Some (mkVS sh (vthr s ++ [VN PSrv]))
  | LListenServe => Some (mkVS sh (vthr s ++ [VN PLs1]))
  end.

Definition vinit : vsys := mkVS csh0 [].
Definition vembed (s : csys) : vsys := mkVS (csh s) (map VN (cthr s)).
