(* Hand model of the argument-scheme codecs: thrift application headers
   (thrift/headers.go), the arg2 key/value iterator (thrift/arg2/kv_iterator.go), the
   HTTP-over-TChannel byte layer (http/buf.go, request.go, response.go) and the uvarint
   code of encoding/binary that they use. *)
From Coq Require Import ZArith List Bool Lia.
From Verif Require Import Base.Wrap Base.Bytes Base.Wire Model.TypedBuf Model.Messages.
Import ListNotations.
Local Open Scope Z_scope.

(* ---------------- thrift application headers: nh:2 (k~2 v~2)* ---------------- *)
Definition w_theaders (h : kvs) : wbuf -> wbuf := w_u16 (zlen h) >> w_kv16s h.
(* WriteHeaders sizes the buffer exactly: 2 + sum (4 + |k| + |v|) *)
Definition theaders_size (h : kvs) : Z :=
  2 + fold_right (fun kv acc => 4 + zlen (fst kv) + zlen (snd kv) + acc) 0 h.
(* result: Some bytes | None = error (errStringTooLong) *)
Definition write_theaders (h : kvs) : option (list Z) :=
  let w := w_theaders h (wb (theaders_size h)) in
  if werr w =? 0 then Some (wout w) else None.

(* readHeaders: a zero count gives the nil map *)
Definition r_theaders : rbuf -> option kvs * rbuf :=
  n <- r_u16 ;; if n =? 0 then retR None else (p <- r_kv16s (Z.to_nat n) ;; retR (Some p)).

(* ---------------- arg2 key/value iterator ---------------- *)
(* one Next step on (leftPairCount, remaining): None = io.EOF (count exhausted),
   Some (inl _) = typed.ErrEOF, Some (inr (k, v, left', rem')) *)
Definition kv_next (left : Z) (rem : list Z) : option (unit + (list Z * list Z * Z * list Z)) :=
  if left <=? 0 then None else
  let '(k, r1) := (kl <- r_u16 ;; r_bytes (Z.to_nat kl)) (rb rem) in
  let '(v, r2) := (vl <- r_u16 ;; r_bytes (Z.to_nat vl)) r1 in
  if rerr r2 then Some (inl tt) else Some (inr (k, v, left - 1, rrem r2)).

(* iterate to the end: the pairs yielded and how it ended (true = io.EOF, false = error) *)
Fixpoint kv_iter_loop (fuel : nat) (left : Z) (rem : list Z) : kvs * bool :=
  match fuel with
  | O => ([], true)
  | S f => match kv_next left rem with
           | None => ([], true)
           | Some (inl _) => ([], false)
           | Some (inr (k, v, left', rem')) =>
               let '(ps, fin) := kv_iter_loop f left' rem' in ((k, v) :: ps, fin)
           end
  end.
(* NewKeyValIterator: fewer than 2 bytes => io.EOF *)
Definition kv_iter (buf : list Z) : kvs * bool :=
  match buf with
  | a :: b :: rem => let n := unbe [a; b] in kv_iter_loop (S (Z.to_nat n)) n rem
  | _ => ([], true)
  end.

(* ---------------- uvarint (encoding/binary) ---------------- *)
Fixpoint put_uvarint (fuel : nat) (x : Z) : list Z :=
  match fuel with
  | O => []
  | S f => if x <? 128 then [x] else (x mod 128 + 128) :: put_uvarint f (x / 128)
  end.

(* ReadUvarint over ReadBuffer.ReadByte, error result dropped by typed.ReadBuffer.ReadUvarint:
   at most 10 bytes; on overflow the partial value is returned and NO buffer error is set *)
Fixpoint r_uvarint_loop (n : nat) (i x s : Z) (r : rbuf) : Z * rbuf :=
  match n with
  | O => (x, r)
  | S n' =>
      let '(b, r1) := r_u8 r in
      if rerr r1 then (x, r1)
      else if b <? 128 then
        (if (i =? 9) && (b >? 1) then x else Z.lor x (wrapU 64 (Z.shiftl b s)), r1)
      else r_uvarint_loop n' (i + 1) (Z.lor x (wrapU 64 (Z.shiftl (Z.land b 127) s))) (s + 7) r1
  end.
Definition r_uvarint (r : rbuf) : Z * rbuf := r_uvarint_loop 10 0 0 0 r.

(* ---------------- slices with Go's panics ---------------- *)
(* remaining[0:n] and remaining[n:]: None = slice bounds out of range *)
Definition slice_to (l : list Z) (n : Z) : option (list Z) :=
  if (n <? 0) || (zlen l <? n) then None else Some (firstn (Z.to_nat n) l).

(* ReadBuffer.ReadBytes(n) with a Go int: after the repair a negative n is ErrEOF. *)
Definition r_bytes_go (n : Z) (r : rbuf) : option (list Z * rbuf) :=
  if rerr r then Some ([], r)
  else if (n <? 0) || (zlen (rrem r) <? n) then Some ([], mkR (rrem r) true)
  else match slice_to (rrem r) n with
       | None => None
       | Some b => Some (b, mkR (skipn (Z.to_nat n) (rrem r)) false)
       end.

Definition r_varint_string (r : rbuf) : option (list Z * rbuf) :=
  let '(len, r1) := r_uvarint r in r_bytes_go (wrapS 64 len) r1.

(* ---------------- HTTP byte layer ---------------- *)
(* headers: nh:2 (k~2 v~2)* with one pair per VALUE; count written last through a deferred ref *)
Definition hdrs := list (list Z * list (list Z)).      (* key -> values, keys in map order *)
Definition flat_hdrs (h : hdrs) : kvs := flat_map (fun kvs_ => map (fun v => (fst kvs_, v)) (snd kvs_)) h.

(* DeferUint16 + pairs + Update: when the 2 bytes cannot be reserved the ref is nil *)
Definition w_http_headers (h : hdrs) : wbuf -> wbuf :=
  fun w =>
    let n := wrapU 16 (zlen (flat_hdrs h)) in
    let w1 := w_bytes [0; 0] w in
    let reserved := (werr w =? 0) && (werr w1 =? 0) in
    let pos := length (wout w) in
    let w2 := w_kv16s (flat_hdrs h) w1 in
    if reserved then mkW (firstn pos (wout w2) ++ be 2 n ++ skipn (pos + 2) (wout w2)) (wroom w2) (werr w2)
    else w2.

Definition w_varint_string (s : list Z) : wbuf -> wbuf := w_bytes (put_uvarint 10 (zlen s)) >> w_bytes s.

Definition http_buf_size : Z := 10000.

(* WriteRequest's arg2: flushed whatever the buffer error (the code does not look at it) *)
Definition write_http_request (method url : list Z) (h : hdrs) : list Z * Z :=
  let w := (w_len8 method >> w_varint_string url >> w_http_headers h) (wb http_buf_size) in (wout w, werr w).
Definition write_http_response (status : Z) (msg : list Z) (h : hdrs) : list Z * Z :=
  let w := (w_u16 status >> w_varint_string msg >> w_http_headers h) (wb http_buf_size) in (wout w, werr w).

(* readers: None = panic; Some (fields, err?) *)
Definition read_http_headers (r : rbuf) : kvs * rbuf := (n <- r_u16 ;; r_kv16s (Z.to_nat n)) r.

Definition read_http_request (b : list Z) : option (list Z * list Z * kvs * bool) :=
  let '(m, r1) := r_len8 (rb b) in
  match r_varint_string r1 with
  | None => None
  | Some (u, r2) => let '(h, r3) := read_http_headers r2 in Some (m, u, h, rerr r3)
  end.
Definition read_http_response (b : list Z) : option (Z * list Z * kvs * bool) :=
  let '(s, r1) := r_u16 (rb b) in
  match r_varint_string r1 with
  | None => None
  | Some (u, r2) => let '(h, r3) := read_http_headers r2 in Some (s, u, h, rerr r3)
  end.

(* ---------------- harness entry points ---------------- *)
Definition put_opt_bytes (o : option (list Z)) : list Z :=
  match o with None => [1] | Some b => 0 :: put_bytes b end.

(* thrift_w: pairs (in emitted order) -> err | bytes *)
Definition run_thrift_w (c : list Z) : list Z :=
  let '(h, _) := take_list take_kv c in put_opt_bytes (write_theaders h).
(* thrift_r: bytes -> err | nil? canonical map, bytes consumed *)
Definition run_thrift_r (c : list Z) : list Z :=
  let '(m, r) := r_theaders (rb c) in
  if rerr r then [1]
  else match m with
       | None => [0; 1; zlen c - zlen (rrem r)]
       | Some p => [0; 0] ++ put_list put_kv (canon_map p) ++ [zlen c - zlen (rrem r)]
       end.
(* kviter: bytes -> ended-with-EOF? pairs in order *)
Definition run_kviter (c : list Z) : list Z :=
  let '(ps, fin) := kv_iter c in zb fin :: put_list put_kv ps.

(* group a flat pair list into key -> values (stable), sorted by key *)
Fixpoint group_insert (k v : list Z) (l : hdrs) : hdrs :=
  match l with
  | [] => [(k, [v])]
  | (k', vs) :: r => match bytes_cmp k k' with
                     | Lt => (k, [v]) :: l
                     | Eq => (k', vs ++ [v]) :: r
                     | Gt => (k', vs) :: group_insert k v r
                     end
  end.
Definition group_pairs (p : kvs) : hdrs := fold_left (fun acc kv => group_insert (fst kv) (snd kv) acc) p [].
Definition put_hdrs (h : hdrs) : list Z := put_list (fun e => put_bytes (fst e) ++ put_list put_bytes (snd e)) h.
Definition take_hdr (l : list Z) : (list Z * list (list Z)) * list Z :=
  let '(k, r) := take_bytes l in let '(vs, r') := take_list take_bytes r in ((k, vs), r').

(* http_w: kind(0 req,1 res) a b hdrs -> bytes (the buffer error is not observable: the code drops it)   (a = method | status, b = url | message) *)
Definition run_http_w (c : list Z) : list Z :=
  match c with
  | kind :: r =>
      if kind =? 0 then
        let '(m, r1) := take_bytes r in let '(u, r2) := take_bytes r1 in let '(h, _) := take_list take_hdr r2 in
        let '(out, e) := write_http_request m u h in put_bytes out
      else
        let '(s, r1) := take1 r in let '(u, r2) := take_bytes r1 in let '(h, _) := take_list take_hdr r2 in
        let '(out, e) := write_http_response s u h in put_bytes out
  | _ => [-1]
  end.
(* http_r: kind bytes -> 2 (panic) | 1 (error) | 0 fields *)
Definition run_http_r (c : list Z) : list Z :=
  match c with
  | kind :: b =>
      if kind =? 0 then
        match read_http_request b with
        | None => [2]
        | Some (m, u, h, e) => if e then [1] else 0 :: put_bytes m ++ put_bytes u ++ put_hdrs (group_pairs h)
        end
      else
        match read_http_response b with
        | None => [2]
        | Some (s, u, h, e) => if e then [1] else 0 :: s :: put_bytes u ++ put_hdrs (group_pairs h)
        end
  | _ => [-1]
  end.
(* uvarint: value -> bytes ; bytes -> value consumed err *)
Definition run_uvarint_w (c : list Z) : list Z := put_uvarint 10 (fst (take1 c)).
Definition run_uvarint_r (c : list Z) : list Z :=
  let '(v, r) := r_uvarint (rb c) in [v; zlen c - zlen (rrem r); zb (rerr r)].
