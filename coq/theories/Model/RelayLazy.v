(* Hand model of relay_messages.go: newLazyCallReq (the relay's lazy parse of a call req
   frame: offsets of checksum type / arg2 / arg3, the method, the routing headers),
   lazyCallReq.arg2 / arg3 / Span, TTL bytes and SetTTL. *)
From Coq Require Import ZArith List Bool.
From Verif Require Import Base.Wrap Base.Bytes Base.Wire Gen.GenConsts Gen.GenFrame Gen.GenRelayFwd
  Model.TypedBuf Model.Messages.
Import ListNotations.
Local Open Scope Z_scope.

Record lazyreq := mkLazy {
  lz_ctoff : Z;            (* checksumTypeOffset *)
  lz_ctype : Z;            (* checksumType *)
  lz_method : list Z;      (* arg1 *)
  lz_a2start : Z; lz_a2end : Z; lz_a2frag : bool;   (* arg2StartOffset, arg2EndOffset, isArg2Fragmented *)
  lz_a3start : Z;          (* arg3StartOffset (0 when arg2 is fragmented) *)
  lz_as : list Z; lz_caller : list Z; lz_delegate : list Z; lz_key : list Z }.

(* the transport headers the relay looks at; a later occurrence of a key overwrites *)
Record hsel := mkHsel { hs_as : list Z; hs_cn : list Z; hs_rd : list Z; hs_rk : list Z }.

Definition hsel_upd (a : hsel) (k v : list Z) : hsel :=
  if bytes_eqb k c_ArgScheme then mkHsel v (hs_cn a) (hs_rd a) (hs_rk a)
  else if bytes_eqb k c_CallerName then mkHsel (hs_as a) v (hs_rd a) (hs_rk a)
  else if bytes_eqb k c_RoutingDelegate then mkHsel (hs_as a) (hs_cn a) v (hs_rk a)
  else if bytes_eqb k c_RoutingKey then mkHsel (hs_as a) (hs_cn a) (hs_rd a) v
  else a.

(* for i := 0; i < numHeaders; i++ { keyLen; key; valLen; val; compare } *)
Fixpoint lazy_hdrs (n : nat) (a : hsel) : rbuf -> hsel * rbuf :=
  match n with
  | O => retR a
  | S n' => k <- r_len8 ;; v <- r_len8 ;; lazy_hdrs n' (hsel_upd a k v)
  end.

(* rbuf.BytesRead() *)
Definition bytes_read (p : list Z) (r : rbuf) : Z := zlen p - zlen (rrem r).

Definition lz_dummy : lazyreq := mkLazy 0 0 [] 0 0 false 0 [] [] [] [].

(* newLazyCallReq on f.SizedPayload().  code: 0 ok, 11 typed.ErrEOF, 14 errUnknownChecksumType.
   The offsets are Go uint16 values (explicit wraps). *)
Definition lazy_callreq (p : list Z) : Z * lazyreq :=
  let '(_, r1) := r_bytes (Z.to_nat c_u_serviceLenIndex) (rb p) in
  let '(sl, r2) := r_u8 r1 in
  let '(_, r3) := r_bytes (Z.to_nat sl) r2 in
  let '(nh, r4) := r_u8 r3 in
  let '(hs, r5) := lazy_hdrs (Z.to_nat nh) (mkHsel [] [] [] []) r4 in
  let ctoff := wrapU 16 (bytes_read p r5) in
  let '(ct, r6) := r_u8 r5 in
  if ct >=? c_checksumCount then (14, lz_dummy) else
  let '(_, r7) := r_bytes (Z.to_nat (ChecksumSize ct)) r6 in
  let '(a1len, r8) := r_u16 r7 in
  let '(method, r9) := r_bytes (Z.to_nat a1len) r8 in
  let '(a2len, r10) := r_u16 r9 in
  let a2start := wrapU 16 (bytes_read p r10) in
  let a2end := wrapU 16 (a2start + a2len) in
  let '(_, r11) := r_bytes (Z.to_nat a2len) r10 in
  (* arg2 is fragmented if arg3 is not seen in this frame *)
  let frag := (zlen (rrem r11) =? 0) && hasMoreFragments (nth 0 p 0) in
  let '(a3start, r12) :=
    if frag then (0, r11)
    else let '(_, r) := r_bytes 2 r11 in (wrapU 16 (bytes_read p r), r) in
  if rerr r12 then (11, lz_dummy)
  else (0, mkLazy ctoff ct method a2start a2end frag a3start (hs_as hs) (hs_cn hs) (hs_rd hs) (hs_rk hs)).

(* Go slice expression p[lo:hi] *)
Definition slice (p : list Z) (lo hi : Z) : list Z := firstn (Z.to_nat (hi - lo)) (skipn (Z.to_nat lo) p).

Definition lz_arg2 (p : list Z) (lz : lazyreq) : list Z := slice p (lz_a2start lz) (lz_a2end lz).
Definition lz_arg3 (p : list Z) (lz : lazyreq) : list Z := skipn (Z.to_nat (lz_a3start lz)) p.
(* Service(): Payload[_serviceNameIndex : _serviceNameIndex+Payload[_serviceLenIndex]] *)
Definition lz_service (p : list Z) : list Z :=
  slice p c_u_serviceNameIndex (c_u_serviceNameIndex + nth (Z.to_nat c_u_serviceLenIndex) p 0).

(* the 4 ttl bytes (binary.BigEndian.Uint32(f.Payload[_ttlIndex:_ttlIndex+_ttlLen])) *)
Definition lazy_ttl_ms (p : list Z) : Z := unbe (slice p c_u_ttlIndex (c_u_ttlIndex + c_u_ttlLen)).

(* SetTTL(d): ttl := uint32(d / time.Millisecond), written in place *)
Definition set_ttl (p : list Z) (d : Z) : list Z :=
  firstn (Z.to_nat c_u_ttlIndex) p ++ be 4 (wrapU 32 (wrapS 64 (Z.quot d ms_ns)))
  ++ skipn (Z.to_nat (c_u_ttlIndex + c_u_ttlLen)) p.

(* handleCallReq: ttl := f.TTL(); if ttl > r.maxTimeout { ttl = r.maxTimeout; f.SetTTL(r.maxTimeout) } *)
Definition clamp_ttl (maxT : Z) (p : list Z) : list Z :=
  if lazyTTL (lazy_ttl_ms p) >? maxT then set_ttl p maxT else p.

(* callReqSpan: the 25 tracing bytes decoded and (for error frames) encoded again *)
Definition span_of (p : list Z) : span := fst (r_span (rb (slice p c_u_spanIndex (c_u_spanIndex + c_u_spanLength)))).
Definition span_bytes (s : span) : list Z := wout (w_span s (wb 25)).

(* ---- harness entry point: payload -> code [offsets method as cn rd rk service ttl] ---- *)
Definition run_lazyreq (c : list Z) : list Z :=
  let '(code, lz) := lazy_callreq c in
  if negb (code =? 0) then [code]
  else [0; lz_ctoff lz; lz_ctype lz; lz_a2start lz; lz_a2end lz; zb (lz_a2frag lz); lz_a3start lz]
       ++ put_bytes (lz_method lz) ++ put_bytes (lz_as lz) ++ put_bytes (lz_caller lz)
       ++ put_bytes (lz_delegate lz) ++ put_bytes (lz_key lz) ++ put_bytes (lz_service c)
       ++ [lazyTTL (lazy_ttl_ms c)] ++ put_bytes (lz_arg2 c lz) ++ put_bytes (if lz_a2frag lz then [] else lz_arg3 c lz).
