(* Hand model of the relay's arg2 append path (relay.go): fragmentingSend,
   relayFragmentSender.newFragment / flushFragment, writeArg2WithAppends and
   updateMutatedCallReqContinueChecksum.  The fragmenting writer itself is the model of
   Model/Frag.v (fragmenting_writer.go); only the fragment sender differs. *)
From Coq Require Import ZArith List Bool.
From Verif Require Import Base.Wrap Base.Bytes Base.Wire Gen.GenConsts Gen.GenFrame
  Model.TypedBuf Model.Messages Model.Crc Model.Frag Model.FragWire Spec.FragOk Model.RelayLazy.
Import ListNotations.
Local Open Scope Z_scope.

(* Room that relayFragmentSender.newFragment leaves for chunks in a pooled frame:
   initial: flags:1 + Payload[1:checksumTypeOffset] + csumtype:1 + csum   (arg1 is written as
   the first chunk by newFragment itself); continuation: flags:1 csumtype:1 csum *)
Definition relay_capf (lz : lazyreq) (ck : ckst) (initial : bool) : Z :=
  if initial then c_MaxFramePayloadSize - (lz_ctoff lz + 1 + ck_size ck)
  else c_MaxFramePayloadSize - (2 + ck_size ck).

(* state of the fragmenting writer after BeginArgument has obtained the initial fragment:
   newFragment(initial=true) has written arg1 as a complete chunk and added it to the checksum *)
Definition relay_w_init (lz : lazyreq) (ck : ckst) : wst :=
  mkWst c_fragmentingWriteStart 0 [] true [lz_method lz]
        (relay_capf lz ck true - (c_chunkHeaderSize + zlen (lz_method lz)))
        (ck_add ck (lz_method lz)) false.

(* writeArg2WithAppends: the Write calls made on the arg2 writer *)
Definition append_items (arg2 : list Z) (appends : kvs) : list witem :=
  IWrite (be 2 (wrapU 16 (unbe (firstn 2 arg2) + wrapU 16 (zlen appends))))
  :: (if zlen arg2 >? 2 then [IWrite (skipn 2 arg2)] else [])
  ++ flat_map (fun kv => [IWrite (be 2 (wrapU 16 (zlen (fst kv)))); IWrite (fst kv);
                          IWrite (be 2 (wrapU 16 (zlen (snd kv)))); IWrite (snd kv)]) appends.

Definition append_script (arg2 arg3 : list Z) (appends : kvs) : list wop :=
  arg_ops false (append_items arg2 appends) ++ arg_ops true [IWrite arg3].

(* payload of a fragment as newFragment + finish lay it out: the flags byte is copied from
   the original call req and only overwritten (with 0x01) when more fragments follow *)
Definition relay_frag_payload (origflags : Z) (prefix : list Z) (initial : bool) (f : frag) : list Z :=
  [if f_more f then c_hasMoreFragmentsFlag else origflags]
  ++ (if initial then prefix else []) ++ [f_ctype f] ++ f_ck f ++ enc_chunks (f_chunks f).

Fixpoint relay_frag_payloads (origflags : Z) (prefix : list Z) (initial : bool) (fs : list frag) : list (bool * list Z) :=
  match fs with
  | [] => []
  | f :: r => (initial, relay_frag_payload origflags prefix initial f) :: relay_frag_payloads origflags prefix false r
  end.

(* fragmentingSend.  code: 0 ok, 1 errFragmentedArg2WithAppend, 2 errArg2ThriftOnly,
   3 errNoNHInArg2, 4 newFragment failed (buffer full), 5 panic in the writer.
   On success: the new frames (initial?, payload) in order and the checksum state that the
   relay item keeps for the continuation frames. *)
Definition append_send (p : list Z) (lz : lazyreq) (appends : kvs) (ck : ckst) : Z * list (bool * list Z) * ckst :=
  if lz_a2frag lz then (1, [], ck)
  else if negb (bytes_eqb (lz_as lz) c_Thrift) then (2, [], ck)
  else if relay_capf lz ck true - (c_chunkHeaderSize + zlen (lz_method lz)) <? 0 then (4, [], ck)
  else if relay_capf lz ck true - (c_chunkHeaderSize + zlen (lz_method lz)) <=? c_chunkHeaderSize then (5, [], ck)
  else if zlen (lz_arg2 p lz) <? 2 then (3, [], ck)
  else
    match w_run (relay_capf lz ck) (append_script (lz_arg2 p lz) (lz_arg3 p lz) appends) (relay_w_init lz ck) [] with
    | None => (5, [], ck)
    | Some (_, st) =>
        (0, relay_frag_payloads (nth 0 p 0) (slice p 1 (lz_ctoff lz)) true (ws_out st), ws_ck st)
    end.

(* updateMutatedCallReqContinueChecksum: skip flags and checksum type, take a reference to
   the checksum bytes, add the FIRST chunk to the running checksum, overwrite the bytes.
   A reference that could not be taken (short frame) makes the update a no-op. *)
Definition update_cont_ck (p : list Z) (ck : ckst) : list Z * ckst :=
  let '(_, r1) := r_bytes 1 (rb p) in
  let '(_, r2) := r_bytes 1 r1 in
  let '(_, r3) := r_bytes (Z.to_nat (ck_size ck)) r2 in
  let '(n, r4) := r_u16 r3 in
  let '(d, r5) := r_bytes (Z.to_nat n) r4 in
  let ck' := ck_add ck d in
  (if rerr r3 then p else firstn 2 p ++ ck_sum ck' ++ skipn (Z.to_nat (2 + ck_size ck)) p, ck').
