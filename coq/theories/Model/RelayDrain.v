(* Hand model of the life cycle of one relayItems map of relay.go together with the
   relayTimer of each item (relay_timer_pool.go) and the tombstone garbage collection:
     relayItems.Add / Get(stopTimeout) / Delete / Entomb (+ time.AfterFunc(deleteAfter, Delete)),
     relayTimer.Start / Stop / OnTimer / Release,
     Relayer.addRelayItem (with canHandleNewCall's pending.Inc), timeoutRelayItem,
     failRelayItem, finishRelayItem (with decrementPending).
   One label = one lock region / one timer event.  failRelayItem is two labels (Get with
   stopTimeout, then Entomb); a frame handler that stops the timer (Get(id, true)) and later
   finishes or fails the item is two labels as well, the id is remembered in rs_held in
   between.  OnTimer is two labels (the runtime has started the callback: Stop() now returns
   false; then timeoutRelayItem's Entomb).  No proofs here (Proofs/RelayDrainP.v). *)
From Coq Require Import ZArith List Bool.
From Verif Require Import Base.Wire Model.MexDrain.
Import ListNotations.
Local Open Scope Z_scope.

(* ri_timer: 0 = started (armed), 1 = stopped by Stop(), 2 = the callback has started/run *)
Record ritem := { ri_tomb : bool; ri_timer : Z }.

Record rstate := {
  rs_items : list (Z * ritem);   (* relayItems.items *)
  rs_tombs : Z;                  (* relayItems.tombs *)
  rs_maxtombs : Z;               (* relayItems.maxTombs *)
  rs_gc : list Z;                (* pending time.AfterFunc(deleteAfter, func(){ r.Delete(id) }) callbacks *)
  rs_held : list Z;              (* handlers between Get(id, stopTimeout=true) and finish/fail *)
  rs_firing : list Z;            (* timer callbacks between their start and Entomb *)
  rs_pending : Z;                (* Relayer.pending restricted to this map *)
  rs_panic : bool;               (* relayTimer.Release on an active timer *)
  rs_out : list Z
}.

Definition rs_init (maxtombs : Z) : rstate :=
  {| rs_items := []; rs_tombs := 0; rs_maxtombs := maxtombs; rs_gc := []; rs_held := []; rs_firing := [];
     rs_pending := 0; rs_panic := false; rs_out := [] |}.

Inductive rlabel :=
| RAdd (id : Z)          (* canHandleNewCall (pending.Inc) + addRelayItem: Add + timer Start.  Enabled only
                            when id has no item: getDestination rejects a callReq whose id is still in
                            outbound (tombstones included); the receiving side uses NextMessageID *)
| RGetStop (id : Z)      (* Receive / handleNonCallReq: items.Get(id, true) for a frame that finishes the call;
                            the handler goes on only if found, not a tomb and stopped *)
| RFailStop (id : Z)     (* failRelayItem: items.Get(id, true); goes on if found and stopped *)
| RFinishHeld (id : Z)   (* finishRelayItem: Delete + decrementPending when it was not a tomb *)
| RFailHeld (id : Z)     (* failRelayItem: Entomb + decrementPending on success *)
| RFireStart (id : Z)    (* the runtime starts relayTimer.OnTimer for the item's timer *)
| RFireEntomb (id : Z)   (* timeoutRelayItem: Entomb + decrementPending on success *)
| RGc (id : Z).          (* the AfterFunc scheduled by Entomb runs: Delete(id), result ignored *)

Fixpoint get_item (id : Z) (l : list (Z * ritem)) : option ritem :=
  match l with
  | [] => None
  | (k, v) :: r => if k =? id then Some v else get_item id r
  end.
Definition del_item (id : Z) (l : list (Z * ritem)) : list (Z * ritem) :=
  filter (fun p => negb (fst p =? id)) l.
Fixpoint set_item (id : Z) (v : ritem) (l : list (Z * ritem)) : list (Z * ritem) :=
  match l with
  | [] => []
  | (k, x) :: r => if k =? id then (k, v) :: r else (k, x) :: set_item id v r
  end.
Fixpoint remove1 (id : Z) (l : list Z) : list Z :=
  match l with
  | [] => []
  | x :: r => if x =? id then r else x :: remove1 id r
  end.

Definition with_items (s : rstate) (items : list (Z * ritem)) : rstate :=
  {| rs_items := items; rs_tombs := rs_tombs s; rs_maxtombs := rs_maxtombs s; rs_gc := rs_gc s;
     rs_held := rs_held s; rs_firing := rs_firing s; rs_pending := rs_pending s; rs_panic := rs_panic s; rs_out := rs_out s |}.
Definition rout (s : rstate) (v : Z) : rstate :=
  {| rs_items := rs_items s; rs_tombs := rs_tombs s; rs_maxtombs := rs_maxtombs s; rs_gc := rs_gc s;
     rs_held := rs_held s; rs_firing := rs_firing s; rs_pending := rs_pending s; rs_panic := rs_panic s; rs_out := v :: rs_out s |}.
Definition dec_pending (s : rstate) : rstate :=
  {| rs_items := rs_items s; rs_tombs := rs_tombs s; rs_maxtombs := rs_maxtombs s; rs_gc := rs_gc s;
     rs_held := rs_held s; rs_firing := rs_firing s; rs_pending := rs_pending s - 1; rs_panic := rs_panic s; rs_out := rs_out s |}.

(* relayItems.Delete: (completed-a-call?, state).  timeout.Release() panics on an active timer *)
Definition r_delete (id : Z) (s : rstate) : bool * rstate :=
  match get_item id (rs_items s) with
  | None => (false, s)
  | Some it =>
      (negb (ri_tomb it),
       {| rs_items := del_item id (rs_items s);
          rs_tombs := if ri_tomb it then rs_tombs s - 1 else rs_tombs s;
          rs_maxtombs := rs_maxtombs s; rs_gc := rs_gc s; rs_held := rs_held s; rs_firing := rs_firing s;
          rs_pending := rs_pending s;
          rs_panic := rs_panic s || (ri_timer it =? 0);
          rs_out := rs_out s |})
  end.

(* relayItems.Entomb *)
Definition r_entomb (id : Z) (s : rstate) : bool * rstate :=
  if rs_maxtombs s <? rs_tombs s then r_delete id s
  else match get_item id (rs_items s) with
       | None => (false, s)
       | Some it =>
           if ri_tomb it then (false, s)
           else (true,
                 {| rs_items := set_item id {| ri_tomb := true; ri_timer := ri_timer it |} (rs_items s);
                    rs_tombs := rs_tombs s + 1; rs_maxtombs := rs_maxtombs s;
                    rs_gc := id :: rs_gc s; rs_held := rs_held s; rs_firing := rs_firing s;
                    rs_pending := rs_pending s; rs_panic := rs_panic s; rs_out := rs_out s |})
       end.

(* relayItems.Get(id, true): the new timer state and the value of Stop() *)
Definition timer_stop (t : Z) : Z * bool :=
  if t =? 1 then (1, true) else if t =? 0 then (1, true) else (t, false).

Definition r_get_stop (checks_tomb : bool) (id : Z) (s : rstate) : rstate :=
  match get_item id (rs_items s) with
  | None => if checks_tomb then rout s 0 else s
  | Some it =>
      let '(t', stopped) := timer_stop (ri_timer it) in
      let s1 := with_items s (set_item id {| ri_tomb := ri_tomb it; ri_timer := t' |} (rs_items s)) in
      let go := stopped && negb (checks_tomb && ri_tomb it) in
      let s2 := if go
                then {| rs_items := rs_items s1; rs_tombs := rs_tombs s1; rs_maxtombs := rs_maxtombs s1; rs_gc := rs_gc s1;
                        rs_held := id :: rs_held s1; rs_firing := rs_firing s1; rs_pending := rs_pending s1;
                        rs_panic := rs_panic s1; rs_out := rs_out s1 |}
                else s1 in
      (* only the frame handlers look at the result; failRelayItem returns nothing *)
      if checks_tomb then rout s2 (1 + 2 * zb stopped + 4 * zb (ri_tomb it)) else s2
  end.

Definition drop_held (id : Z) (s : rstate) : rstate :=
  {| rs_items := rs_items s; rs_tombs := rs_tombs s; rs_maxtombs := rs_maxtombs s; rs_gc := rs_gc s;
     rs_held := remove1 id (rs_held s); rs_firing := rs_firing s; rs_pending := rs_pending s; rs_panic := rs_panic s; rs_out := rs_out s |}.
Definition drop_firing (id : Z) (s : rstate) : rstate :=
  {| rs_items := rs_items s; rs_tombs := rs_tombs s; rs_maxtombs := rs_maxtombs s; rs_gc := rs_gc s;
     rs_held := rs_held s; rs_firing := remove1 id (rs_firing s); rs_pending := rs_pending s; rs_panic := rs_panic s; rs_out := rs_out s |}.
Definition drop_gc (id : Z) (s : rstate) : rstate :=
  {| rs_items := rs_items s; rs_tombs := rs_tombs s; rs_maxtombs := rs_maxtombs s; rs_gc := remove1 id (rs_gc s);
     rs_held := rs_held s; rs_firing := rs_firing s; rs_pending := rs_pending s; rs_panic := rs_panic s; rs_out := rs_out s |}.

Definition finish_with (r : bool * rstate) : rstate :=
  let '(ok, s) := r in rout (if ok then dec_pending s else s) (zb ok).

Definition rstep (s : rstate) (l : rlabel) : option rstate :=
  match l with
  | RAdd id =>
      match get_item id (rs_items s) with
      | Some _ => None
      | None => Some {| rs_items := (id, {| ri_tomb := false; ri_timer := 0 |}) :: rs_items s;
                        rs_tombs := rs_tombs s; rs_maxtombs := rs_maxtombs s; rs_gc := rs_gc s;
                        rs_held := rs_held s; rs_firing := rs_firing s; rs_pending := rs_pending s + 1;
                        rs_panic := rs_panic s; rs_out := rs_out s |}
      end
  | RGetStop id => Some (r_get_stop true id s)
  | RFailStop id => Some (r_get_stop false id s)
  | RFinishHeld id =>
      if has id (rs_held s) then Some (finish_with (r_delete id (drop_held id s))) else None
  | RFailHeld id =>
      if has id (rs_held s) then Some (finish_with (r_entomb id (drop_held id s))) else None
  | RFireStart id =>
      match get_item id (rs_items s) with
      | Some it =>
          if ri_timer it =? 0
          then Some {| rs_items := set_item id {| ri_tomb := ri_tomb it; ri_timer := 2 |} (rs_items s);
                       rs_tombs := rs_tombs s; rs_maxtombs := rs_maxtombs s; rs_gc := rs_gc s;
                       rs_held := rs_held s; rs_firing := id :: rs_firing s; rs_pending := rs_pending s;
                       rs_panic := rs_panic s; rs_out := rs_out s |}
          else None
      | None => None
      end
  | RFireEntomb id =>
      if has id (rs_firing s) then Some (finish_with (r_entomb id (drop_firing id s))) else None
  | RGc id =>
      if has id (rs_gc s) then Some (snd (r_delete id (drop_gc id s))) else None
  end.

Fixpoint rrun (s : rstate) (ls : list rlabel) : option rstate :=
  match ls with
  | [] => Some s
  | l :: r => match rstep s l with Some s' => rrun s' r | None => None end
  end.

(* quiescence: every timer has fired or was stopped, every handler and timer callback that
   held an id has finished, every tombstone GC callback has run *)
Definition relay_quiet (s : rstate) : bool :=
  forallb (fun p => negb (ri_timer (snd p) =? 0)) (rs_items s)
  && match rs_gc s with [] => true | _ => false end
  && match rs_held s with [] => true | _ => false end
  && match rs_firing s with [] => true | _ => false end.

(* ---- harness entry point ----------------------------------------------------------
   case: maxTombs n (kind id)*    kinds 0..7 in the order of [rlabel]; a label that is not enabled
   is skipped and reported as -9.
   observable: results (count-prefixed), items sorted by id as (id tomb), tombs, pending, panic *)
Definition take_rlabel (l : list Z) : rlabel * list Z :=
  match l with
  | k :: a :: r =>
      ((if k =? 0 then RAdd a else if k =? 1 then RGetStop a else if k =? 2 then RFailStop a
        else if k =? 3 then RFinishHeld a else if k =? 4 then RFailHeld a else if k =? 5 then RFireStart a
        else if k =? 6 then RFireEntomb a else RGc a), r)
  | _ => (RGc 0, [])
  end.

Fixpoint rrun_skip (s : rstate) (ls : list rlabel) : rstate :=
  match ls with
  | [] => s
  | l :: r => match rstep s l with Some s' => rrun_skip s' r | None => rrun_skip (rout s (-9)) r end
  end.

Fixpoint iinsert (x : Z * ritem) (l : list (Z * ritem)) : list (Z * ritem) :=
  match l with
  | [] => [x]
  | y :: r => if fst x <=? fst y then x :: l else y :: iinsert x r
  end.

Definition run_relaydrain (c : list Z) : list Z :=
  match c with
  | mt :: r =>
      let '(ls, _) := take_list take_rlabel r in
      let s := rrun_skip (rs_init mt) ls in
      put_list (fun x => [x]) (rev (rs_out s))
      ++ put_list (fun p => [fst p; zb (ri_tomb (snd p))]) (fold_right iinsert [] (rs_items s))
      ++ [rs_tombs s; rs_pending s; zb (rs_panic s)]
  | _ => [-1]
  end.
