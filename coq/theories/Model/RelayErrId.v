(* C08 clauses (b)/(c): which id a relay-originated error carries and which relay item a failing
   send fails -- definitions over the interleaving model of the relay bookkeeping
   (Model/RelayItems.v: relay items are addressed by (connection, table, id) triples), and the
   harness entry point of the engine relayslow (a stalled DESTINATION connection).

   [err_attempt st l]   the SendSystemError call that step l performs in state st:
                        (goroutine, connection, id, code)
   [fail_attempt st l]  the failRelayItem call (its lookup) that step l performs:
                        (goroutine, key of the item, reason)
   [last_arr k ls cur]  the frame last read on connection k in the label sequence ls
   [dir_of f]           the table a reader uses for frame f: 0 = outbound (request direction: call req,
                        call req continue, cancel), 1 = inbound (response direction)
   No proofs in this file (Proofs/RelayErrIdP.v). *)
From Coq Require Import ZArith List Bool.
From Verif Require Import Base.Wrap Base.Wire Gen.GenConsts Gen.GenFrame Model.RelayItems.
Import ListNotations.
Local Open Scope Z_scope.

Definition err_attempt (st : state) (l : label) : option (tid * Z * Z * Z) :=
  match l with
  | LStep t _ =>
      match lookup tid_eqb t (threads st) with
      | Some (ISendErr k id code :: _) => Some (t, k, id, code)
      | _ => None
      end
  | _ => None
  end.

Definition fail_attempt (st : state) (l : label) : option (tid * key * Z) :=
  match l with
  | LStep t _ =>
      match lookup tid_eqb t (threads st) with
      | Some (IFailGet x reason :: _) => Some (t, x, reason)
      | _ => None
      end
  | _ => None
  end.

Fixpoint last_arr (k : Z) (ls : list label) (cur : option frame) : option frame :=
  match ls with
  | [] => cur
  | LArrive k' f _ :: r => last_arr k r (if k' =? k then Some f else cur)
  | _ :: r => last_arr k r cur
  end.

Definition dir_of (f : frame) : Z :=
  match frameTypeFor (f_mt f) with
  | Some ft => if ft =? c_responseFrame then 1 else 0
  | None => 0
  end.

(* the reader's own item for the frame it read on connection k *)
Definition own_key (k : Z) (f : frame) : key := (k, dir_of f, f_id f).

(* ---------------------------------------------------------------- harness entry point (engine relayslow)

   Connections: 0 = the caller's, 1 = a healthy destination, 2 = a destination whose writer is
   stalled (its send queue has [free] free slots, then it is full).
     V  call req id [vid] read on connection 0, relayed to connection 1 (stays in flight);
     M  call req id [mid] read on connection 0 for connection 2, whose next id is [did]:
        forwarded as is ([nre] = 0) or re-fragmented into [nre] frames (arg2 appends), followed by
        [ncont] continuation frames read on connection 0; every frame handled to completion.
   input : maxtombs vid mid did nre ncont free
   output: code of the error frame enqueued for the caller with id vid (0 = none), the same for mid,
           frames enqueued on connection 2, reason of M's Failed callback (0 = none), M's End
           callbacks, the same two for V;  -2 = a step of the schedule is not enabled in the model *)

Definition slow_cf (maxtombs : Z) : config := {| cf_maxtombs := maxtombs; cf_cancel := false |}.

(* goroutine t handles its frame to completion; [free] = free slots of connection 2's send queue *)
Fixpoint slow_finish (cf : config) (fuel : nat) (st : state) (t : tid) (free : Z) : option (state * Z) :=
  match lookup tid_eqb t (threads st) with
  | None => Some (st, free)
  | Some code =>
      match fuel with
      | O => None
      | S n =>
          let to2 := match code with IRcvEnq r _ _ :: _ => r_d r =? 2 | _ => false end in
          let room := if to2 then 0 <? free else true in
          match step cf st (LStep t room) with
          | Some st' => slow_finish cf n st' t (if to2 && room then free - 1 else free)
          | None => None
          end
      end
  end.

Definition slow_arrive (cf : config) (st : state) (free : Z) (f : frame) (e : env) : option (state * Z) :=
  match step cf st (LArrive 0 f e) with
  | None => None
  | Some st1 => slow_finish cf 200 st1 (TR 0) free
  end.

Fixpoint slow_conts (cf : config) (n : nat) (st : state) (free : Z) (mid : Z) : option (state * Z) :=
  match n with
  | O => Some (st, free)
  | S n' =>
      let f := {| f_mt := c_messageTypeCallReqContinue; f_id := mid;
                  f_flags := (match n' with O => 0 | _ => c_hasMoreFragmentsFlag end); f_code := 0; f_wf := true |} in
      match slow_arrive cf st free f {| e_start := 0; e_code := 0; e_dest := 2; e_mode := 0 |} with
      | None => None
      | Some (st1, free1) => slow_conts cf n' st1 free1 mid
      end
  end.

Definition slow_err_code (st : state) (id : Z) : Z :=
  match find (fun p => (fst p =? 0) && (f_mt (snd p) =? c_messageTypeError) && (f_id (snd p) =? id)) (sent st) with
  | Some p => f_code (snd p)
  | None => 0
  end.
Definition slow_failed (st : state) (c : Z) : Z :=
  match find (fun e => (fst e =? c) && match snd e with CbFailed _ => true | _ => false end) (cblog st) with
  | Some (_, CbFailed r) => r
  | _ => 0
  end.
Definition slow_ends (st : state) (c : Z) : Z :=
  zlen (filter (fun e => (fst e =? c) && match snd e with CbEnd => true | _ => false end) (cblog st)).

Definition run_relayslow (c : list Z) : list Z :=
  match c with
  | [maxtombs; vid; mid; did; nre; ncont; free] =>
      let cf := slow_cf maxtombs in
      let st0 := put_conn init 2 {| c_state := c_connectionActive; c_pending := 0; c_nextid := did |} in
      let reqV := {| f_mt := c_messageTypeCallReq; f_id := vid; f_flags := 0; f_code := 0; f_wf := true |} in
      let reqM := {| f_mt := c_messageTypeCallReq; f_id := mid;
                     f_flags := (if 0 <? ncont then c_hasMoreFragmentsFlag else 0); f_code := 0; f_wf := true |} in
      match slow_arrive cf st0 1 reqV {| e_start := 0; e_code := 0; e_dest := 1; e_mode := 0 |} with
      | None => [-2]
      | Some (st1, _) =>
          match slow_arrive cf st1 free reqM {| e_start := 0; e_code := 0; e_dest := 2; e_mode := nre |} with
          | None => [-2]
          | Some (st2, free2) =>
              match slow_conts cf (Z.to_nat ncont) st2 free2 mid with
              | None => [-2]
              | Some (st3, _) =>
                  [slow_err_code st3 vid; slow_err_code st3 mid;
                   zlen (filter (fun p => fst p =? 2) (sent st3));
                   slow_failed st3 2; slow_ends st3 2; slow_failed st3 1; slow_ends st3 1]
              end
          end
      end
  | _ => [-1]
  end.
