(* Hand model of the error path of tchannel-go (property C20):
     errors.go            error values, NewWrappedSystemError / GetSystemErrorCode /
                          GetSystemErrorMessage / GetContextError (the three decision functions
                          and GetSystemErrorCode are the GENERATED definitions of Gen/GenErrors.v and
                          Gen/GenRetry.v, instantiated here with the error ADT), SystemErrCode.String
     connection.go        SendSystemError, logConnectionError, connectionError, protocolError,
                          handleFrameRelay / handleFrameNoRelay (dispatch of error / call res frames)
     outbound.go          handleError, beginCall's local failures, ApplicationError
     inbound.go           handleCallReq's state check, InboundCallResponse.SendSystemError,
                          SetApplicationError and the response code of the first call res fragment
     mex.go               recvPeerFrame (priority ctx > frame > errCh), recvPeerFrameOfType
     reqres.go / fragmenting_reader.go:265-274   errorMessage -> SystemError at the reader
     relay.go             Receive / handleNonCallReq for response-type frames (id remapping, tombs,
                          full send queue), handleCallReq's error sites, timeoutRelayItem, failRelayItem,
                          handleLocalCallReq
   The byte layer (typed buffers, error / call res codecs, frames) is Model/TypedBuf.v and
   Model/Messages.v (property C06).  No proofs in this file. *)
From Coq Require Import ZArith List Bool String Ascii.
From Verif Require Import Base.Wrap Base.Wire Base.Bytes Gen.GenConsts Gen.GenRetry Gen.GenFrame Gen.GenErrors
  Model.TypedBuf Model.Messages.
Import ListNotations.
Local Open Scope Z_scope.

(* ---------------------------------------------------------------- strings *)
(* String literals are turned into byte lists when this file is compiled ([lit "..."] elaborates
   to the literal list), so that no Coq [string] reaches the extracted model. *)
Definition s2z (s : string) : list Z :=
  map (fun a => Z.of_N (N_of_ascii a)) (list_ascii_of_string s).
Notation lit s := ltac:(let v := eval vm_compute in (s2z s) in exact v) (only parsing).

(* decimal rendering (fmt %d) of 0 <= n < 1000 *)
Definition digit (d : Z) : Z := 48 + d.
Definition dec (n : Z) : list Z :=
  if n <? 10 then [digit n]
  else if n <? 100 then [digit (n / 10); digit (n mod 10)]
  else [digit (n / 100); digit ((n / 10) mod 10); digit (n mod 10)].

(* systemerrcode_string.go: SystemErrCode.String *)
Definition code_names : list (list Z) :=
  [lit "ErrCodeInvalid"; lit "ErrCodeTimeout"; lit "ErrCodeCancelled"; lit "ErrCodeBusy"; lit "ErrCodeDeclined";
   lit "ErrCodeUnexpected"; lit "ErrCodeBadRequest"; lit "ErrCodeNetwork"].
Definition code_string (c : Z) : list Z :=
  if (0 <=? c) && (c <=? 7) then nth (Z.to_nat c) code_names []
  else if c =? 255 then lit "ErrCodeProtocol"
  else lit "SystemErrCode(" ++ dec c ++ lit ")".

(* connectionstate_string.go: connectionState.String *)
Definition state_names : list (list Z) :=
  [lit "connectionActive"; lit "connectionStartClose"; lit "connectionInboundClosed"; lit "connectionClosed"].
Definition state_string (s : Z) : list Z :=
  if (1 <=? s) && (s <=? 4) then nth (Z.to_nat (s - 1)) state_names []
  else lit "connectionState(" ++ dec s ++ lit ")".

(* ---------------------------------------------------------------- error values *)
(* What the error path can observe of a Go [error]:
   nil | tchannel.SystemError{code,msg} | context.DeadlineExceeded | context.Canceled | io.EOF |
   any other error with its Error() text ([net] : 0 not a net.Error, 1 net.Error, 2 net.Error
   whose Timeout() is true). *)
Inductive gerr :=
| ENil
| ESys (code : Z) (msg : list Z)
| ECtxDeadline
| ECtxCanceled
| EEOF
| EOther (msg : list Z) (net : Z).

Definition is_nil (e : gerr) : bool := match e with ENil => true | _ => false end.
Definition is_sys (e : gerr) : bool := match e with ESys _ _ => true | _ => false end.
Definition is_deadline (e : gerr) : bool := match e with ECtxDeadline => true | _ => false end.
Definition is_canceled (e : gerr) : bool := match e with ECtxCanceled => true | _ => false end.
Definition sys_msg (e : gerr) : list Z := match e with ESys _ m => m | _ => [] end.

(* Error() (for the nil interface: what fmt.Sprint prints) *)
Definition err_text (e : gerr) : list Z :=
  match e with
  | ENil => lit "<nil>"
  | ESys c m => lit "tchannel error " ++ code_string c ++ lit ": " ++ m
  | ECtxDeadline => lit "context deadline exceeded"
  | ECtxCanceled => lit "context canceled"
  | EEOF => lit "EOF"
  | EOther m _ => m
  end.

(* the view of Base.Wrap.goerr, over which GetSystemErrorCode is generated *)
Definition to_goerr (e : gerr) : goerr :=
  {| e_nil := is_nil e; e_sys := is_sys e;
     e_code := match e with ESys c _ => c | _ => 0 end;
     e_net := match e with EOther _ n => negb (n =? 0) | _ => false end |}.

Definition sys_code (e : gerr) : Z := GetSystemErrorCode (to_goerr e).
(* GetSystemErrorMessage(nil) dereferences a nil interface: None = panic *)
Definition sys_message (e : gerr) : option (list Z) :=
  if is_nil e then None else Some (GetSystemErrorMessage is_sys sys_msg err_text e).
(* SystemError{code: code, msg: fmt.Sprint(wrapped), wrapped: wrapped} *)
Definition mk_wrapped (code : Z) (w : gerr) : gerr := ESys code (err_text w).
Definition new_wrapped (code : Z) (w : gerr) : gerr := NewWrappedSystemError is_sys mk_wrapped code w.

(* package-level error values of errors.go / connection.go / mex.go / typed *)
Definition v_ErrServerBusy := ESys c_ErrCodeBusy (lit "server busy").
Definition v_ErrRequestCancelled := ESys c_ErrCodeCancelled (lit "request cancelled").
Definition v_ErrTimeout := ESys c_ErrCodeTimeout (lit "timeout").
Definition v_ErrTimeoutRequired := ESys c_ErrCodeBadRequest (lit "timeout required").
Definition v_ErrChannelClosed := ESys c_ErrCodeDeclined (lit "closed channel").
Definition v_ErrMethodTooLarge := ESys c_ErrCodeProtocol (lit "method too large").
Definition v_ErrConnectionClosed := EOther (lit "connection is closed") 0.
Definition v_errUnexpectedFrameType := EOther (lit "unexpected frame received") 0.
Definition v_errMexShutdown := EOther (lit "mex has been shutdown") 0.
Definition v_typedErrEOF := EOther (lit "buffer is too small") 0.
Definition v_errInboundRequestAlreadyActive :=
  EOther (lit "inbound request is already active; possible duplicate client id") 0.
Definition v_errRelayMethodFragmented := ESys c_ErrCodeBadRequest (lit "relay handler cannot receive fragmented calls").
Definition v_errFrameNotSent := ESys c_ErrCodeNetwork (lit "frame was not sent to remote side").
Definition v_errBadRelayHost := ESys c_ErrCodeDeclined (lit "bad relay host implementation").

Definition get_context_error (e : gerr) : gerr :=
  GetContextError is_deadline is_canceled v_ErrTimeout v_ErrRequestCancelled e.

(* errConnNotActive{info, state}.Error() *)
Definition conn_not_active (info : list Z) (state : Z) : gerr :=
  EOther (info ++ lit " connection is not active: " ++ state_string state) 0.

(* connection.go logConnectionError: the error handed to the exchanges of a failed connection *)
Definition log_connection_error (e : gerr) : gerr :=
  let errCode :=
    match e with
    | EEOF => c_ErrCodeNetwork
    | ESys c _ => if negb (c =? c_ErrCodeNetwork) then c else c_ErrCodeNetwork
    | _ => c_ErrCodeNetwork
    end in
  new_wrapped errCode e.

(* ---------------------------------------------------------------- sending an error frame *)
Definition zero_span : span := mkSpan 0 0 0 0.

(* connection as far as the error path looks at it: close state, free slots of sendCh,
   whether it belongs to a relay channel *)
Record conn := mkConn { cn_state : Z; cn_room : Z; cn_relay : bool }.

(* outcome of Connection.SendSystemError: 0 = frame queued (its wire bytes), 1 = frame could
   not be created (message does not fit), 2 = connection closed, 3 = send buffer full,
   4 = panic (nil error) *)
Inductive send_res := Sent (wire : list Z) | NotSent (why : Z).

(* frame.write(&errorMessage{id, GetSystemErrorCode(err), span, GetSystemErrorMessage(err)})
   on a pool frame (payload capacity MaxFramePayloadSize) *)
Definition error_frame (id : Z) (sp : span) (e : gerr) : option (option (fheader * list Z)) :=
  match sys_message e with
  | None => None
  | Some m => Some (frame_write c_MaxFramePayloadSize (w_error (mkErr (sys_code e) sp m)) c_messageTypeError id)
  end.

Definition send_system_error (c : conn) (id : Z) (sp : span) (e : gerr) : send_res :=
  match error_frame id sp e with
  | None => NotSent 4
  | Some None => NotSent 1
  | Some (Some (h, p)) =>
      if cn_state c =? c_connectionClosed then NotSent 2
      else if cn_room c <=? 0 then NotSent 3
      else Sent (frame_out h p)
  end.

(* InboundCallResponse.SendSystemError: a response that already failed returns its error and
   sends nothing *)
Definition response_send_system_error (resp_err : gerr) (c : conn) (id : Z) (sp : span) (e : gerr) : send_res :=
  if negb (is_nil resp_err) then NotSent 5 else send_system_error c id sp e.

(* protocolError(id, err): error frame with the wrapped error, then the connection closes *)
Definition protocol_error (c : conn) (id : Z) (e : gerr) : gerr * send_res :=
  let sysErr := new_wrapped c_ErrCodeProtocol e in
  (sysErr, send_system_error c id zero_span sysErr).

(* inbound.go handleCallReq, state check: a call req reaching a connection that is closing
   (start-close, inbound-closed, closed) is answered with ErrChannelClosed carrying the
   request's id and span; an active connection admits it; any other state value panics. *)
Inductive accept_res := Accepted | Rejected (s : send_res) | PanicUnknownState.
Definition handle_call_req_state (c : conn) (id : Z) (req_span : span) : accept_res :=
  let st := cn_state c in
  if st =? c_connectionActive then Accepted
  else if (st =? c_connectionStartClose) || (st =? c_connectionInboundClosed) || (st =? c_connectionClosed)
  then Rejected (send_system_error c id req_span v_ErrChannelClosed)
  else PanicUnknownState.

(* outbound.go beginCall: local failures before anything is sent.
   ttl_ms = time to live in ms (deadline - now), ctx = ctx.Err() *)
Definition begin_call (state : Z) (has_deadline : bool) (ttl_lt_1ms : bool) (ctx : gerr) : gerr :=
  if (state =? c_connectionStartClose) || (state =? c_connectionInboundClosed) || (state =? c_connectionClosed)
  then v_ErrConnectionClosed
  else if negb (state =? c_connectionActive)
  then EOther (lit "connection is in unknown state: " ++ state_string state ++ lit " at beginCall") 0
  else if negb has_deadline then v_ErrTimeoutRequired
  else if ttl_lt_1ms then v_ErrTimeout
  else if negb (is_nil ctx) then get_context_error ctx
  else ENil.

(* ---------------------------------------------------------------- receiving *)
(* what the connection's read loop does with a frame (as far as C20 is concerned) *)
Inductive frame_action :=
| AClose (site : Z) (e : gerr)   (* connectionError(site, e): 1 = parsing error frame, 2 = received protocol error *)
| AForward (id : Z)              (* handed to the outbound exchange with this id (dropped when there is none) *)
| ARelay                         (* handed to the relayer *)
| AOther.                        (* a frame type outside this model *)

(* outbound.go handleError on the sized payload *)
Definition handle_error (id : Z) (payload : list Z) : frame_action :=
  let '(m, r) := r_error (rb payload) in
  if rerr r then AClose 1 v_typedErrEOF
  else if em_code m =? c_ErrCodeProtocol then AClose 2 (ESys (em_code m) (em_msg m))
  else AForward id.

(* connection.go readFrames dispatch for the frame types of this model *)
Definition handle_frame (relay_conn : bool) (h : fheader) (payload : list Z) : frame_action :=
  let mt := fh_type h in
  if relay_conn && ((mt =? c_messageTypeCallRes) || (mt =? c_messageTypeCallResContinue) || (mt =? c_messageTypeError))
  then ARelay
  else if mt =? c_messageTypeError then handle_error (fh_id h) payload
  else if (mt =? c_messageTypeCallRes) || (mt =? c_messageTypeCallResContinue) then AForward (fh_id h)
  else AOther.

(* a message exchange at the moment its owner looks at it: ctx.Err(), frames waiting in
   recvCh, the error the connection notified (ENil = none) *)
Record mex := mkMex { mx_ctx : gerr; mx_queue : list (fheader * list Z); mx_err : gerr }.

Inductive recv_res :=
| RFrame (h : fheader) (payload : list Z)
| RErrMsg (code : Z) (msg : list Z)    (* an errorMessage returned as the error *)
| RErr (e : gerr)
| RBlock.                              (* nothing ready: the caller keeps waiting *)

(* mex.go recvPeerFrame: context error first, then a waiting frame, then the connection's error *)
Definition recv_peer_frame (id : Z) (m : mex) : recv_res :=
  if negb (is_nil (mx_ctx m)) then RErr (get_context_error (mx_ctx m))
  else match mx_queue m with
       | (h, p) :: _ => if fh_id h =? id then RFrame h p else RErr v_errUnexpectedFrameType
       | [] => if is_nil (mx_err m) then RBlock else RErr (mx_err m)
       end.

(* mex.go recvPeerFrameOfType *)
Definition recv_peer_frame_of_type (id mt : Z) (m : mex) : recv_res :=
  match recv_peer_frame id m with
  | RFrame h p =>
      if fh_type h =? mt then RFrame h p
      else if fh_type h =? c_messageTypeError then
        let '(em, r) := r_error (rb p) in
        if rerr r then RErr v_typedErrEOF else RErrMsg (em_code em) (em_msg em)
      else RErr v_errUnexpectedFrameType
  | r => r
  end.

(* what the caller of a reader / raw.Call gets *)
Inductive caller_res :=
| CErr (e : gerr)
| CRes (code : Z) (rest : list Z)   (* first call res fragment: response code, bytes after the call res header *)
| CWait.

(* parseInboundFragment on a call res frame: flags:1, callRes.read, then the rest (checksum
   type, checksum, argument chunks) is the fragment's contents.  (The checksum bytes are split
   off by the fragment reader; they stay part of [rest] here.) *)
Definition parse_callres (p : list Z) : option (Z * callres * list Z) :=
  let '(fl, r1) := r_u8 (rb p) in
  let '(m, r2) := r_callres r1 in
  if rerr r2 then None else Some (fl, m, rrem r2).

(* reqResReader.recvNextFragment + fragmentingReader.recvAndParseNextFragment for the first
   response fragment; errorMessage.AsSystemError keeps code and message *)
Definition read_response (id : Z) (m : mex) : caller_res :=
  match recv_peer_frame_of_type id c_messageTypeCallRes m with
  | RFrame h p => match parse_callres p with
                  | Some (_, cr, rest) => CRes (cs_code cr) rest
                  | None => CErr v_typedErrEOF
                  end
  | RErrMsg c msg => CErr (ESys c msg)
  | RErr e => CErr e
  | RBlock => CWait
  end.

(* OutboundCallResponse.ApplicationError *)
Definition application_error (response_code : Z) : bool := response_code =? c_responseApplicationError.

(* the caller's connection receives [stream] while exchange [id] is waiting with state [m]
   (mexChannelBufferSize slots): ReadIn, dispatch, exchange update, then the caller reads.
   Result: what the caller gets + whether the connection was closed by this frame. *)
(* the error of readFrames when the stream ends: io.ReadFull reports io.EOF when it could read
   nothing at all (stream ended before the header, or right after it) and io.ErrUnexpectedEOF
   when it read a part; a size field below the header size = "invalid frame size" *)
Definition read_error (code : Z) (h : fheader) (stream : list Z) : gerr :=
  if code =? 1 then EOther (lit "invalid frame size " ++ dec (fh_size h)) 0
  else if (zlen stream =? 0) || (zlen stream =? c_FrameHeaderSize) then EEOF
  else EOther (lit "unexpected EOF") 0.

(* connectionError(site, e): every exchange not yet notified gets logConnectionError(e) *)
Definition notify (m : mex) (e : gerr) : mex :=
  mkMex (mx_ctx m) (mx_queue m) (if is_nil (mx_err m) then log_connection_error e else mx_err m).

Definition caller_receive (relay_conn : bool) (id : Z) (m : mex) (stream : list Z) : caller_res * bool :=
  let '(code, h, payload, _) := frame_read_in stream in
  if negb (code =? 0) then (read_response id (notify m (read_error code h stream)), true)
  else match handle_frame relay_conn h payload with
       | AClose _ e => (read_response id (notify m e), true)
       | AForward fid =>
           (* forwardPeerFrame: refused when the context is done; a full recvCh blocks the read loop
              (modelled as not delivered) *)
           if (fid =? id) && is_nil (mx_ctx m) && (zlen (mx_queue m) <? c_mexChannelBufferSize)
           then (read_response id (mkMex (mx_ctx m) (mx_queue m ++ [(h, payload)]) (mx_err m)), false)
           else (read_response id m, false)
       | _ => (read_response id m, false)
       end.

(* ---------------------------------------------------------------- call res with the application flag *)
(* InboundCallResponse: writer state 0 preArg1, 1 preArg2, 2 preArg3, 3 complete *)
Record resp := mkResp { rs_state : Z; rs_app : bool }.
(* SetApplicationError: refused once the arguments have started *)
Definition set_application_error (r : resp) : option resp :=
  if rs_state r >? 1 then None else Some (mkResp (rs_state r) true).
(* messageForFragment(initial = true) *)
Definition response_code_of (r : resp) : Z :=
  if rs_app r then c_responseApplicationError else c_responseOK.
(* first fragment: flags, callRes{code, zero tracing, headers}, then checksum type, checksum
   and chunks ([rest], produced by the fragment writer) *)
Definition w_callres_fragment (flags : Z) (r : resp) (hdrs : kvs) (rest : list Z) : wbuf -> wbuf :=
  w_u8 flags >> w_callres (mkCallRes (response_code_of r) zero_span hdrs) >> w_bytes rest.
Definition callres_frame (id flags : Z) (r : resp) (hdrs : kvs) (rest : list Z) : option (fheader * list Z) :=
  frame_write c_MaxFramePayloadSize (w_callres_fragment flags r hdrs rest) c_messageTypeCallRes id.

(* ---------------------------------------------------------------- relay: forwarding response-type frames *)
(* a relay item as Relayer.Receive / handleNonCallReq see it *)
Inductive item :=
| INone                                  (* no item for the id *)
| ITomb                                  (* entombed (timed out / failed earlier) *)
| ILive (stoppable : bool) (remap : Z).  (* live; [stoppable] = timeout.Stop() succeeds *)

(* one relay hop for a frame read on the connection towards the callee:
   hp_in  = the item of that connection's relayer (inbound items) for the frame's id,
   hp_out = the item of the caller-side connection's relayer (outbound items) for the remapped id,
   hp_room = free slots of the caller-side connection's send queue *)
Record hop := mkHop { hp_in : item; hp_out : item; hp_room : Z }.

Inductive hop_res :=
| HForward (wire : list Z)   (* written to the caller-side connection *)
| HLocal                     (* unknown id: offered to the relay channel's own outbound exchanges *)
| HDropped.                  (* late / tombed / queue full: nothing is written, no error frame *)

Definition frame_flags (payload : list Z) : Z := nth 0 payload 0.

(* handleNonCallReq followed by destination.Receive(f, responseFrame) *)
Definition relay_hop (hp : hop) (h : fheader) (payload : list Z) : hop_res :=
  let finished := finishesCall (fh_type h) (frame_flags payload) in
  match hp_in hp with
  | INone => HLocal
  | ITomb => HDropped
  | ILive stoppable remap =>
      if finished && negb stoppable then HDropped
      else
        let h' := mkFH (fh_size h) (fh_type h) (fh_res1 h) remap in
        match hp_out hp with
        | INone => HDropped                       (* "relay-not-found" *)
        | ITomb => HDropped
        | ILive stoppable2 _ =>
            if finished && negb stoppable2 then HDropped
            else if hp_room hp <=? 0 then HDropped  (* relay-source-conn-slow: no error frame *)
            else HForward (frame_out h' payload)
        end
  end.

(* a chain of relays between callee and caller; the frame read from [stream] by the first hop *)
Fixpoint relay_chain (hops : list hop) (stream : list Z) : option (list Z) :=
  match hops with
  | [] => Some stream
  | hp :: rest =>
      let '(code, h, payload, _) := frame_read_in stream in
      if negb (code =? 0) then None
      else match relay_hop hp h payload with
           | HForward wire => relay_chain rest wire
           | _ => None
           end
  end.

(* ---------------------------------------------------------------- relay: errors it originates *)
(* relay.go handleCallReq up to the forwarding decision *)
Record callreq_env := mkEnv {
  ce_local : bool;              (* the service is handled by the relay channel itself *)
  ce_fragmented : bool;         (* the call req has more fragments *)
  ce_start : gerr;              (* error returned by RelayHost.Start (ENil = none) *)
  ce_ratelimit : bool;          (*   ... and it is a relay.RateLimitDropError *)
  ce_src_state : Z;             (* state of the connection the call arrived on *)
  ce_dup : bool;                (* the id is already active *)
  ce_has_dest : bool;           (* RelayCall.Destination() ok *)
  ce_connect : gerr;            (* error of getConnectionRelay (ENil = connected) *)
  ce_remote_state : Z }.        (* state of the selected remote connection *)

Inductive relay_res :=
| RRError (e : gerr) (close : bool)   (* error handed to SendSystemError; [close] = the connection is closed too *)
| RRSilent                            (* the call is dropped without an error frame *)
| RRLocal                             (* handled by the relay channel's own handlers *)
| RRForward.                          (* the call is relayed *)

Definition relay_handle_callreq (env : callreq_env) : relay_res :=
  if ce_local env then
    if ce_fragmented env then RRError v_errRelayMethodFragmented false else RRLocal
  else if negb (is_nil (ce_start env)) then
    if ce_ratelimit env then RRSilent
    else
      let err := if is_sys (ce_start env) then ce_start env
                 else ESys c_ErrCodeDeclined (err_text (ce_start env)) in
      RRError err (sys_code err =? c_ErrCodeProtocol)
  else if negb (ce_src_state env =? c_connectionActive) then
    RRError (new_wrapped c_ErrCodeDeclined (conn_not_active (lit "incoming") (ce_src_state env))) false
  else if ce_dup env then RRSilent
  else if negb (ce_has_dest env) then RRError v_errBadRelayHost false
  else if negb (is_nil (ce_connect env)) then RRError (new_wrapped c_ErrCodeNetwork (ce_connect env)) false
  else if negb (ce_remote_state env =? c_connectionActive) then
    RRError (new_wrapped c_ErrCodeDeclined (conn_not_active (lit "selected remote") (ce_remote_state env))) false
  else RRForward.

(* timeoutRelayItem: only the originating side tells the caller *)
Definition relay_timeout (entombed is_originator : bool) : relay_res :=
  if negb entombed then RRSilent
  else if is_originator then RRError v_ErrTimeout false else RRSilent.

(* failRelayItem(items, id, reason, err) *)
Definition relay_fail (found stopped entombed is_originator : bool) (reason : list Z) (e : gerr) : relay_res :=
  if negb found then RRSilent
  else if negb stopped then RRSilent
  else if negb entombed then RRSilent
  else if is_originator then
    if bytes_eqb reason c_u_relayErrorSourceConnSlow then RRSilent
    else RRError (EOther (reason ++ lit ": " ++ err_text e) 0) false
  else RRSilent.

(* ================================================================ harness entry points *)
(* error value: 0 | 1 code msg | 2 | 3 | 4 | 5 net msg *)
Definition take_gerr (l : list Z) : gerr * list Z :=
  match l with
  | 1 :: c :: r => let '(m, r') := take_bytes r in (ESys c m, r')
  | 2 :: r => (ECtxDeadline, r)
  | 3 :: r => (ECtxCanceled, r)
  | 4 :: r => (EEOF, r)
  | 5 :: n :: r => let '(m, r') := take_bytes r in (EOther m n, r')
  | _ :: r => (ENil, r)
  | [] => (ENil, [])
  end.
Definition put_gerr (e : gerr) : list Z :=
  match e with
  | ENil => [0]
  | ESys c m => 1 :: c :: put_bytes m
  | ECtxDeadline => [2]
  | ECtxCanceled => [3]
  | EEOF => [4]
  | EOther m n => 5 :: n :: put_bytes m
  end.
Definition take_span4 (l : list Z) : span * list Z :=
  match l with
  | a :: b :: c :: d :: r => (mkSpan a b c d, r)
  | _ => (zero_span, [])
  end.
Definition put_send (s : send_res) : list Z :=
  match s with Sent w => 0 :: put_bytes w | NotSent why => [why] end.

(* fn err...: the small error-value functions
   0 code-string c | 1 Error() | 2 GetSystemErrorCode+Message | 3 NewWrappedSystemError code |
   4 GetContextError | 5 logConnectionError | 6 package error values k | 7 state-string s *)
Definition run_c20_errfn (c : list Z) : list Z :=
  match c with
  | 0 :: code :: _ => put_bytes (code_string code)
  | 1 :: r => put_bytes (err_text (fst (take_gerr r)))
  | 2 :: r => let e := fst (take_gerr r) in
              match sys_message e with None => [sys_code e; -1] | Some m => sys_code e :: put_bytes m end
  | 3 :: code :: r => put_gerr (new_wrapped code (fst (take_gerr r)))
  | 4 :: r => put_gerr (get_context_error (fst (take_gerr r)))
  | 5 :: r => put_gerr (log_connection_error (fst (take_gerr r)))
  | 6 :: k :: _ =>
      put_gerr (nth (Z.to_nat k)
        [v_ErrServerBusy; v_ErrRequestCancelled; v_ErrTimeout; v_ErrTimeoutRequired; v_ErrChannelClosed;
         v_ErrMethodTooLarge; v_ErrConnectionClosed; v_errUnexpectedFrameType; v_errMexShutdown; v_typedErrEOF;
         v_errRelayMethodFragmented; v_errFrameNotSent; v_errBadRelayHost; v_errInboundRequestAlreadyActive] ENil)
  | 7 :: s :: _ => put_bytes (state_string s)
  | _ => [-1]
  end.

(* state room id span(4) resp_err err -> send result (wire bytes of the error frame) *)
Definition run_c20_send (c : list Z) : list Z :=
  match c with
  | st :: room :: id :: r =>
      let '(sp, r1) := take_span4 r in
      let '(rerr_, r2) := take_gerr r1 in
      let '(e, _) := take_gerr r2 in
      put_send (response_send_system_error rerr_ (mkConn st room false) id sp e)
  | _ => [-1]
  end.

(* state room id span(4) -> 0 (admitted) | 1 send-result | 2 (panic) : a call req reaching a connection in [state] *)
Definition run_c20_closing (c : list Z) : list Z :=
  match c with
  | st :: room :: id :: r =>
      let '(sp, _) := take_span4 r in
      match handle_call_req_state (mkConn st room false) id sp with
      | Accepted => [0]
      | Rejected s => 1 :: put_send s
      | PanicUnknownState => [2]
      end
  | _ => [-1]
  end.

Definition put_caller (r : caller_res * bool) : list Z :=
  match fst r with
  | CErr e => 0 :: zb (snd r) :: put_gerr e
  | CRes code rest => 1 :: zb (snd r) :: zb (application_error code) :: put_bytes rest
  | CWait => [2; zb (snd r)]
  end.

(* relay_conn id ctx(gerr) stream -> caller result : the bytes of one frame arrive on the
   caller's connection while exchange [id] waits with an empty queue *)
Definition run_c20_recv (c : list Z) : list Z :=
  match c with
  | rc :: id :: r =>
      let '(ctx, stream) := take_gerr r in
      put_caller (caller_receive (bz rc) id (mkMex ctx [] ENil) stream)
  | _ => [-1]
  end.

(* exchange priority: id ctx err nframes (type fid payload)* -> result of recvPeerFrameOfType(callRes) *)
Definition take_qframe (l : list Z) : (fheader * list Z) * list Z :=
  match l with
  | t :: fid :: r => let '(p, r') := take_bytes r in ((mkFH (16 + zlen p) t 0 fid, p), r')
  | _ => ((mkFH 16 0 0 0, []), [])
  end.
Definition run_c20_mexrecv (c : list Z) : list Z :=
  match c with
  | id :: r =>
      let '(ctx, r1) := take_gerr r in
      let '(e, r2) := take_gerr r1 in
      let '(q, _) := take_list take_qframe r2 in
      match recv_peer_frame_of_type id c_messageTypeCallRes (mkMex ctx q e) with
      | RFrame h p => 0 :: fh_type h :: put_bytes p
      | RErrMsg code m => 1 :: code :: put_bytes m
      | RErr e' => 2 :: put_gerr e'
      | RBlock => [3]
      end
  | _ => [-1]
  end.

Definition take_item (l : list Z) : item * list Z :=
  match l with
  | 0 :: r => (INone, r)
  | 1 :: r => (ITomb, r)
  | 2 :: s :: m :: r => (ILive (bz s) m, r)
  | _ => (INone, [])
  end.
Definition take_hop (l : list Z) : hop * list Z :=
  let '(a, r1) := take_item l in
  let '(b, r2) := take_item r1 in
  let '(room, r3) := take1 r2 in (mkHop a b room, r3).

(* end to end, system error: err reqid span(4) callerid nhops hops... :
   handler's SendSystemError on an active connection -> relay hops -> caller *)
Definition run_c20_e2e_err (c : list Z) : list Z :=
  let '(e, r0) := take_gerr c in
  match r0 with
  | sid :: r =>
      let '(sp, r1) := take_span4 r in
      let '(cid, r2) := take1 r1 in
      let '(hops, _) := take_list take_hop r2 in
      match send_system_error (mkConn c_connectionActive 1 false) sid sp e with
      | NotSent why => [9; why]
      | Sent wire =>
          match relay_chain hops wire with
          | None => [8]
          | Some w => put_caller (caller_receive false cid (mkMex ENil [] ENil) w)
          end
      end
  | _ => [-1]
  end.

(* end to end, call response: set_app(0/1) writer-state flags id hdrs rest callerid nhops hops...
   (writer-state = state of the response writer when SetApplicationError is called) *)
Definition run_c20_e2e_res (c : list Z) : list Z :=
  match c with
  | app :: st :: flags :: sid :: r =>
      let '(hdrs, r1) := take_list take_kv r in
      let '(rest, r2) := take_bytes r1 in
      let '(cid, r3) := take1 r2 in
      let '(hops, _) := take_list take_hop r3 in
      let r0 := mkResp st false in
      match (if bz app then set_application_error r0 else Some r0) with
      | None => [7]
      | Some rs =>
          match callres_frame sid flags rs hdrs rest with
          | None => [9]
          | Some (h, p) =>
              match relay_chain hops (frame_out h p) with
              | None => [8]
              | Some w => put_caller (caller_receive false cid (mkMex ENil [] ENil) w)
              end
          end
      end
  | _ => [-1]
  end.

(* state room id err -> wrapped-error send-result : Connection.protocolError *)
Definition run_c20_protoerr (c : list Z) : list Z :=
  match c with
  | st :: room :: id :: r =>
      let '(e, _) := take_gerr r in
      let '(sysErr, s) := protocol_error (mkConn st room false) id e in
      put_gerr sysErr ++ put_send s
  | _ => [-1]
  end.

(* state has_deadline ttl_below_1ms ctx -> error of Connection.beginCall before anything is sent *)
Definition run_c20_begincall (c : list Z) : list Z :=
  match c with
  | st :: hd :: ttl :: r => put_gerr (begin_call st (bz hd) (bz ttl) (fst (take_gerr r)))
  | _ => [-1]
  end.

Definition put_relay_res (r : relay_res) : list Z :=
  match r with
  | RRError e close =>
      match sys_message e with
      | Some m => 1 :: zb close :: sys_code e :: put_bytes m
      | None => [1; zb close; sys_code e; -1]
      end
  | RRSilent => [0]
  | RRForward => [2]
  | RRLocal => [3]
  end.

(* relay-originated errors:
   0 local fragmented start ratelimit srcstate dup hasdest connect remotestate   (handleCallReq)
   1 entombed originator                                                  (timeoutRelayItem)
   2 found stopped entombed originator reason err                         (failRelayItem)
   -> 0 silent | 2 forwarded | 1 close code msg *)
Definition run_c20_relay (c : list Z) : list Z :=
  match c with
  | 0 :: lf :: fr :: r =>
      let '(st, r1) := take_gerr r in
      match r1 with
      | rl :: ss :: dup :: hd :: r2 =>
          let '(cn, r3) := take_gerr r2 in
          let '(rs, _) := take1 r3 in
          put_relay_res (relay_handle_callreq (mkEnv (bz lf) (bz fr) st (bz rl) ss (bz dup) (bz hd) cn rs))
      | _ => [-1]
      end
  | 1 :: en :: orig :: _ => put_relay_res (relay_timeout (bz en) (bz orig))
  | 2 :: f :: s :: en :: orig :: r =>
      let '(reason, r1) := take_bytes r in
      let '(e, _) := take_gerr r1 in
      put_relay_res (relay_fail (bz f) (bz s) (bz en) (bz orig) reason e)
  | _ => [-1]
  end.
