(* Hand model of typed/buffer.go: ReadBuffer and WriteBuffer with their sticky errors. *)
From Coq Require Import ZArith List Bool Lia.
From Verif Require Import Base.Wrap Base.Bytes.
Import ListNotations.
Local Open Scope Z_scope.

(* ---------------- ReadBuffer ---------------- *)
Record rbuf := mkR { rrem : list Z; rerr : bool }.

Definition rb (l : list Z) : rbuf := mkR l false.

(* ReadBytes(n) for n >= 0: nil + sticky ErrEOF when fewer than n bytes remain *)
Definition r_bytes (n : nat) (r : rbuf) : list Z * rbuf :=
  if rerr r then ([], r)
  else if (length (rrem r) <? n)%nat then ([], mkR (rrem r) true)
  else (firstn n (rrem r), mkR (skipn n (rrem r)) false).

(* ReadBytes/SkipBytes with a Go int argument: a negative n passes the `len < n` test
   and the slice expression panics (None = panic). *)
Definition r_bytes_int (n : Z) (r : rbuf) : option (list Z * rbuf) :=
  if rerr r then Some ([], r)
  else if zlen (rrem r) <? n then Some ([], mkR (rrem r) true)
  else if n <? 0 then None
  else Some (r_bytes (Z.to_nat n) r).

(* sequencing of reads / writes (the Go code is straight-line with sticky errors) *)
Definition bindR {A B} (m : rbuf -> A * rbuf) (k : A -> rbuf -> B * rbuf) : rbuf -> B * rbuf :=
  fun r => let '(x, r1) := m r in k x r1.
Definition retR {A} (v : A) : rbuf -> A * rbuf := fun r => (v, r).
Notation "x <- m ;; k" := (bindR m (fun x => k)) (at level 61, m at next level, right associativity).

Definition r_uint (n : nat) : rbuf -> Z * rbuf :=
  b <- r_bytes n ;; fun r' => (if rerr r' then 0 else unbe b, r').

Definition r_u8 := r_uint 1.
Definition r_u16 := r_uint 2.
Definition r_u32 := r_uint 4.
Definition r_u64 := r_uint 8.

Definition r_string (n : Z) (r : rbuf) : list Z * rbuf := r_bytes (Z.to_nat n) r.

Definition r_len8 : rbuf -> list Z * rbuf := n <- r_u8 ;; r_string n.
Definition r_len16 : rbuf -> list Z * rbuf := n <- r_u16 ;; r_string n.

(* ---------------- WriteBuffer ---------------- *)
(* werr: 0 = nil, 1 = ErrBufferFull, 2 = errStringTooLong *)
Record wbuf := mkW { wout : list Z; wroom : Z; werr : Z }.

Definition wb (room : Z) : wbuf := mkW [] room 0.

Definition w_seterr (e : Z) (w : wbuf) : wbuf :=
  if werr w =? 0 then mkW (wout w) (wroom w) e else w.

(* reserve(n) + copy *)
Definition w_bytes (bs : list Z) (w : wbuf) : wbuf :=
  if negb (werr w =? 0) then w
  else if wroom w <? zlen bs then w_seterr 1 w
  else mkW (wout w ++ bs) (wroom w - zlen bs) 0.

Definition w_u8 (b : Z) := w_bytes [b mod 256].
Definition w_uint (n : nat) (v : Z) := w_bytes (be n v).
Definition w_u16 := w_uint 2.
Definition w_u32 := w_uint 4.
Definition w_u64 := w_uint 8.

Definition seqW (f g : wbuf -> wbuf) : wbuf -> wbuf := fun w => g (f w).
Notation "f >> g" := (seqW f g) (at level 60, right associativity).
Definition w_nop : wbuf -> wbuf := fun w => w.

Definition w_check_len (bits : Z) (s : list Z) : wbuf -> wbuf :=
  fun w => if wrapU bits (zlen s) =? zlen s then w else w_seterr 2 w.
Definition w_len8 (s : list Z) : wbuf -> wbuf := w_check_len 8 s >> w_u8 (zlen s) >> w_bytes s.
Definition w_len16 (s : list Z) : wbuf -> wbuf := w_check_len 16 s >> w_u16 (zlen s) >> w_bytes s.
