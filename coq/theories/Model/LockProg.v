(* Property C05 (b), lock discipline: an executable CHECKER for lock programs (Spec/LockProgSpec.v).
   [cb sem b s] runs the skeleton b abstractly from the lock state s: it follows every branch,
   runs a loop body once and requires that an iteration leaves the lock state unchanged, checks
   every event against the discipline (a blocking event only under semaphores, an acquisition
   only of a mutex smaller than every lock held) and returns the set of (control, lock state)
   outcomes; None = some path violates the discipline.  [fn_ok] additionally requires every
   non-panic exit to hold nothing after the deferred unlocks.
   Proofs/LockProgP.v proves the checker sound for EVERY execution of the program.
   No proofs here. *)
From Coq Require Import ZArith List Bool.
From Verif Require Import Spec.LockProgSpec.
Import ListNotations.
Local Open Scope Z_scope.

Definition ctl_eqb (a b : ctl) : bool :=
  match a, b with
  | CFall, CFall | CRet, CRet | CBrk, CBrk | CCont, CCont | CPanic, CPanic => true
  | _, _ => false
  end.

Fixpoint hlist_eqb (a b : list hitem) : bool :=
  match a, b with
  | [], [] => true
  | x :: r, y :: q => hitem_eqb x y && hlist_eqb r q
  | _, _ => false
  end.

Definition hst_eqb (a b : hst) : bool := hlist_eqb (h_held a) (h_held b) && hlist_eqb (h_dfr a) (h_dfr b).
Definition out_eqb (a b : ctl * hst) : bool := ctl_eqb (fst a) (fst b) && hst_eqb (snd a) (snd b).

(* union without duplicates (keeps the outcome sets small: one entry per distinct lock state) *)
Fixpoint add_out (o : ctl * hst) (l : list (ctl * hst)) : list (ctl * hst) :=
  match l with
  | [] => [o]
  | x :: r => if out_eqb o x then l else x :: add_out o r
  end.
Definition union_out (a b : list (ctl * hst)) : list (ctl * hst) := fold_right add_out b a.

Definition acq_ok (held : list hitem) (m : Z) : bool := forallb (fun h => m <? fst h) held.
Definition blk_ok (sem : Z -> bool) (held : list hitem) : bool := forallb (fun h => sem (fst h)) held.

(* sequencing: run [k] from every Fall outcome, keep the others *)
Fixpoint seq_outs (k : hst -> option (list (ctl * hst))) (o : list (ctl * hst)) : option (list (ctl * hst)) :=
  match o with
  | [] => Some []
  | (c, s) :: r =>
      match seq_outs k r with
      | None => None
      | Some acc =>
          match c with
          | CFall => match k s with None => None | Some o' => Some (union_out o' acc) end
          | _ => Some (add_out (c, s) acc)
          end
      end
  end.

(* what a loop hands on: the entry state (no iteration / normal end), the states at a break, returns and panics *)
Fixpoint loop_outs (o : list (ctl * hst)) : list (ctl * hst) :=
  match o with
  | [] => []
  | (c, s) :: r =>
      match c with
      | CBrk => add_out (CFall, s) (loop_outs r)
      | CRet | CPanic => add_out (c, s) (loop_outs r)
      | CFall | CCont => loop_outs r
      end
  end.

Definition loop_inv (s : hst) (o : list (ctl * hst)) : bool :=
  forallb (fun x => match fst x with CFall | CCont => hst_eqb (snd x) s | _ => true end) o.

Fixpoint catch_outs (o : list (ctl * hst)) : list (ctl * hst) :=
  match o with
  | [] => []
  | (c, s) :: r => add_out (catch_brk c, s) (catch_outs r)
  end.

Section Check.
  Variable sem : Z -> bool.

  Fixpoint cs (st : lstmt) (s : hst) {struct st} : option (list (ctl * hst)) :=
    match st with
    | SLock m rd => if acq_ok (h_held s) m then Some [(CFall, mkH ((m, rd) :: h_held s) (h_dfr s))] else None
    | SUnlock m rd => match remove1 (m, rd) (h_held s) with
                      | Some h' => Some [(CFall, mkH h' (h_dfr s))]
                      | None => None
                      end
    | SDefer m rd => Some [(CFall, mkH (h_held s) ((m, rd) :: h_dfr s))]
    | SBlock => if blk_ok sem (h_held s) then Some [(CFall, s)] else None
    | SCall blk acq =>
        if (negb blk || blk_ok sem (h_held s)) && forallb (acq_ok (h_held s)) acq then Some [(CFall, s)] else None
    | SRet => Some [(CRet, s)]
    | SPanic => Some [(CPanic, s)]
    | SBreak => Some [(CBrk, s)]
    | SCont => Some [(CCont, s)]
    | SAlt a b => match cb a s, cb b s with
                  | Some x, Some y => Some (union_out x y)
                  | _, _ => None
                  end
    | SLoop b => match cb b s with
                 | Some o => if loop_inv s o then Some (add_out (CFall, s) (loop_outs o)) else None
                 | None => None
                 end
    | SCatch b => match cb b s with Some o => Some (catch_outs o) | None => None end
    end
  with cb (b : lblock) (s : hst) {struct b} : option (list (ctl * hst)) :=
    match b with
    | BNil => Some [(CFall, s)]
    | BCons st r => match cs st s with
                    | None => None
                    | Some o => seq_outs (cb r) o
                    end
    end.

  Definition exit_okb (o : ctl * hst) : bool :=
    match fst o with
    | CPanic => true
    | CFall | CRet => match run_defers (h_dfr (snd o)) (h_held (snd o)) with Some [] => true | _ => false end
    | CBrk | CCont => false
    end.

  Definition fn_ok (f : lfunc) : bool :=
    match cb (lf_body f) hinit with
    | Some o => forallb exit_okb o
    | None => false
    end.
End Check.

(* the lock sites name plain mutexes of the table *)
Definition site_plainb (ms : list lmutex) (l : lsite) : bool :=
  existsb (fun x => (lm_id x =? ls_mutex l) && negb (lm_sem x)) ms.

(* ---------------- interleaving model of threads that follow the discipline ----------------
   A thread is the set of mutexes it holds and the list of lock operations it still has to
   perform; a mutex is held by at most one thread (read locks are treated as exclusive:
   conservative).  [OWait]: a blocking statement, which only the environment can end. *)
Inductive lop := OAcq (m : Z) | ORel (m : Z) | OWait.

Notation thread := (list Z * list lop)%type (only parsing).
Notation tstate := (list (list Z * list lop)) (only parsing).

Inductive tlabel := TStep (i : nat) | TEvent (i : nat).   (* thread i moves / the environment ends thread i's wait *)

Definition holds_any (s : tstate) (m : Z) : bool := existsb (fun th => existsb (Z.eqb m) (fst th)) s.

Fixpoint zremove (m : Z) (l : list Z) : list Z :=
  match l with [] => [] | x :: r => if m =? x then r else x :: zremove m r end.

Definition upd {A} (i : nat) (x : A) (l : list A) : list A :=
  firstn i l ++ match skipn i l with [] => [] | _ :: r => x :: r end.

Definition tstep (s : tstate) (l : tlabel) : option tstate :=
  match l with
  | TStep i =>
      match nth i s ([], []) with
      | (held, OAcq m :: r) => if holds_any s m then None else Some (upd i (m :: held, r) s)
      | (held, ORel m :: r) => if existsb (Z.eqb m) held then Some (upd i (zremove m held, r) s) else None
      | (_, OWait :: _) => None
      | (_, []) => None
      end
  | TEvent i =>
      match nth i s ([], []) with
      | (held, OWait :: r) => Some (upd i (held, r) s)
      | _ => None
      end
  end.

Fixpoint trun (s : tstate) (ls : list tlabel) : option tstate :=
  match ls with
  | [] => Some s
  | l :: r => match tstep s l with None => None | Some s' => trun s' r end
  end.

(* a thread's operations follow the discipline from the lock set [held]: acquisitions go
   strictly down, releases are of held mutexes, waits happen with nothing held, and the
   thread ends holding nothing *)
Fixpoint ops_ok (held : list Z) (ops : list lop) : bool :=
  match ops with
  | [] => match held with [] => true | _ => false end
  | OAcq m :: r => forallb (fun h => m <? h) held && ops_ok (m :: held) r
  | ORel m :: r => existsb (Z.eqb m) held && ops_ok (zremove m held) r
  | OWait :: r => match held with [] => ops_ok held r | _ => false end
  end.

Definition tinit (threads : list (list lop)) : tstate := map (fun ops => ([], ops)) threads.

(* operations a thread that holds something still has to perform before it holds nothing *)
Fixpoint section_left (held : list Z) (ops : list lop) : nat :=
  match held with
  | [] => O
  | _ => match ops with
         | [] => O
         | OAcq m :: r => S (section_left (m :: held) r)
         | ORel m :: r => S (section_left (zremove m held) r)
         | OWait :: r => O
         end
  end.

Definition sections_left (s : tstate) : nat := list_sum (map (fun th => section_left (fst th) (snd th)) s).
Definition all_free (s : tstate) : Prop := Forall (fun th => fst th = []) s.
Definition is_tstep (l : tlabel) : Prop := match l with TStep _ => True | TEvent _ => False end.

(* ---------------- from an execution of a lock program to a thread of that model ----------------
   The lock operations a run performs, in order: the events of its trace, then the deferred
   unlocks at the exit.  Operations on semaphores are left out (their waiters have a ctx exit
   and are not part of the mutex model); a callee that takes and releases m is OAcq m; ORel m. *)
Definition ops_of_ev (sem : Z -> bool) (e : list hitem * lev) : list lop :=
  match snd e with
  | EvAcq m => if sem m then [] else [OAcq m]
  | EvRel m => if sem m then [] else [ORel m]
  | EvIn m => if sem m then [] else [OAcq m; ORel m]
  | EvBlock => [OWait]
  | EvBadRel _ => []
  end.
Definition ops_of_trace (sem : Z -> bool) (tr : ltrace) : list lop := flat_map (ops_of_ev sem) tr.
Definition plain_ids (sem : Z -> bool) (h : list hitem) : list Z := map fst (filter (fun x => negb (sem (fst x))) h).
Definition exit_ops (sem : Z -> bool) (s : hst) : list lop := map ORel (plain_ids sem (h_dfr s)).
Definition thread_of_run (sem : Z -> bool) (tr : ltrace) (s : hst) : list lop := ops_of_trace sem tr ++ exit_ops sem s.
