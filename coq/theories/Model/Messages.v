(* Hand model of messages.go, tracing.go (Span codec) and frame.go. *)
From Coq Require Import ZArith List Bool Lia.
From Verif Require Import Base.Wrap Base.Bytes Gen.GenConsts Gen.GenFrame Model.TypedBuf.
Import ListNotations.
Local Open Scope Z_scope.

Definition kvs := list (list Z * list Z).

Record span := mkSpan { sp_span : Z; sp_parent : Z; sp_trace : Z; sp_flags : Z }.

Definition w_span (s : span) : wbuf -> wbuf :=
  w_u64 (sp_span s) >> w_u64 (sp_parent s) >> w_u64 (sp_trace s) >> w_u8 (sp_flags s).
Definition r_span : rbuf -> span * rbuf :=
  a <- r_u64 ;; b <- r_u64 ;; c <- r_u64 ;; d <- r_u8 ;; retR (mkSpan a b c d).

(* transport headers: nh:1 (k~1 v~1)*.  The Go map's iteration order is the order of
   the list; the count byte is byte(len(map)). *)
Definition w_kv8 (kv : list Z * list Z) : wbuf -> wbuf := w_len8 (fst kv) >> w_len8 (snd kv).
Fixpoint w_kv8s (h : kvs) : wbuf -> wbuf :=
  match h with [] => w_nop | kv :: r => w_kv8 kv >> w_kv8s r end.
Definition w_headers (h : kvs) : wbuf -> wbuf := w_u8 (zlen h) >> w_kv8s h.

Fixpoint r_kv8s (n : nat) : rbuf -> kvs * rbuf :=
  match n with
  | O => retR []
  | S n' => k <- r_len8 ;; v <- r_len8 ;; rest <- r_kv8s n' ;; retR ((k, v) :: rest)
  end.
Definition r_headers : rbuf -> kvs * rbuf := n <- r_u8 ;; r_kv8s (Z.to_nat n).

(* init req/res: version:2 nh:2 (k~2 v~2)* *)
Record initmsg := mkInit { im_version : Z; im_params : kvs }.
Definition w_kv16 (kv : list Z * list Z) : wbuf -> wbuf := w_len16 (fst kv) >> w_len16 (snd kv).
Fixpoint w_kv16s (h : kvs) : wbuf -> wbuf :=
  match h with [] => w_nop | kv :: r => w_kv16 kv >> w_kv16s r end.
Definition w_init (m : initmsg) : wbuf -> wbuf :=
  w_u16 (im_version m) >> w_u16 (zlen (im_params m)) >> w_kv16s (im_params m).
Fixpoint r_kv16s (n : nat) : rbuf -> kvs * rbuf :=
  match n with
  | O => retR []
  | S n' => k <- r_len16 ;; v <- r_len16 ;; rest <- r_kv16s n' ;; retR ((k, v) :: rest)
  end.
Definition r_init : rbuf -> initmsg * rbuf :=
  v <- r_u16 ;; n <- r_u16 ;; p <- r_kv16s (Z.to_nat n) ;; retR (mkInit v p).

(* call req: ttl:4 tracing:25 service~1 headers   (the flags byte in front and the
   checksum/args behind are written by the fragment layer) *)
Record callreq := mkCallReq { cq_ttl_ns : Z; cq_span : span; cq_service : list Z; cq_headers : kvs }.
Definition ms_ns : Z := 1000000.
Definition w_callreq (m : callreq) : wbuf -> wbuf :=
  w_u32 (wrapU 32 (Z.quot (cq_ttl_ns m) ms_ns)) >> w_span (cq_span m) >> w_len8 (cq_service m)
  >> w_headers (cq_headers m).
Definition r_callreq : rbuf -> callreq * rbuf :=
  t <- r_u32 ;; s <- r_span ;; svc <- r_len8 ;; h <- r_headers ;;
  retR (mkCallReq (wrapS 64 (t * ms_ns)) s svc h).

(* call res: code:1 tracing:25 headers *)
Record callres := mkCallRes { cs_code : Z; cs_span : span; cs_headers : kvs }.
Definition w_callres (m : callres) : wbuf -> wbuf :=
  w_u8 (cs_code m) >> w_span (cs_span m) >> w_headers (cs_headers m).
Definition r_callres : rbuf -> callres * rbuf :=
  c <- r_u8 ;; s <- r_span ;; h <- r_headers ;; retR (mkCallRes c s h).

(* error: code:1 tracing:25 message~2 *)
Record errmsg := mkErr { em_code : Z; em_span : span; em_msg : list Z }.
Definition w_error (m : errmsg) : wbuf -> wbuf :=
  w_u8 (em_code m) >> w_span (em_span m) >> w_len16 (em_msg m).
Definition r_error : rbuf -> errmsg * rbuf :=
  c <- r_u8 ;; s <- r_span ;; m <- r_len16 ;; retR (mkErr c s m).

(* cancel: ttl:4 tracing:25 why~2 *)
Record cancelmsg := mkCancel { cm_ttl : Z; cm_span : span; cm_msg : list Z }.
Definition w_cancel (m : cancelmsg) : wbuf -> wbuf :=
  w_u32 (cm_ttl m) >> w_span (cm_span m) >> w_len16 (cm_msg m).
Definition r_cancel : rbuf -> cancelmsg * rbuf :=
  t <- r_u32 ;; s <- r_span ;; m <- r_len16 ;; retR (mkCancel t s m).

(* ---------------- frames ---------------- *)
Record fheader := mkFH { fh_size : Z; fh_type : Z; fh_res1 : Z; fh_id : Z }.

Definition w_fheader (h : fheader) : wbuf -> wbuf :=
  w_u16 (fh_size h) >> w_u8 (fh_type h) >> w_u8 (fh_res1 h) >> w_u32 (fh_id h) >> w_bytes (repeat 0 8).
Definition r_fheader : rbuf -> fheader * rbuf :=
  s <- r_u16 ;; t <- r_u8 ;; r1 <- r_u8 ;; i <- r_u32 ;; _ <- r_bytes 8 ;; retR (mkFH s t r1 i).

(* Frame.write(msg): the body is written into a payload of capacity [cap]; on success
   the header gets id, reserved1 = 0, type and size = 16 + bytes written (uint16). *)
Definition frame_write (cap : Z) (body : wbuf -> wbuf) (mtype id : Z) : option (fheader * list Z) :=
  let w := body (wb cap) in
  if werr w =? 0
  then Some (mkFH (SetPayloadSize (wrapU 16 (zlen (wout w)))) mtype 0 id, wout w)
  else None.

(* Frame.WriteOut: header (16 bytes) followed by buffer[16:size]; the payload area has
   [payload] at its front (what lies beyond is stale pool memory, never sent). *)
Definition frame_out (h : fheader) (payload : list Z) : list Z :=
  wout (w_fheader h (wb 16)) ++ firstn (Z.to_nat (fh_size h - c_FrameHeaderSize)) payload.

(* Frame.ReadBody on a 16-byte header and the following stream.
   result: 0 = ok (header, sized payload, rest of stream), 1 = invalid size, 2 = short read *)
Definition frame_read_body (hdr : list Z) (stream : list Z) : Z * fheader * list Z * list Z :=
  let '(h, r) := r_fheader (rb hdr) in
  if rerr r then (2, h, [], stream) else
  let ps := PayloadSize (fh_size h) in
  if ps >? c_MaxFramePayloadSize then (1, h, [], stream)
  else if ps >? 0 then
    if zlen stream <? ps then (2, h, [], stream)
    else (0, h, firstn (Z.to_nat ps) stream, skipn (Z.to_nat ps) stream)
  else (0, h, [], stream).

(* ReadIn: header first *)
Definition frame_read_in (stream : list Z) : Z * fheader * list Z * list Z :=
  if zlen stream <? c_FrameHeaderSize then (2, mkFH 0 0 0 0, [], stream)
  else frame_read_body (firstn 16 stream) (skipn 16 stream).
