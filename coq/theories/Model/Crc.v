(* hash/crc32 re-modelled from its definition (bitwise, table-free), and the Checksum
   objects of checksum.go. *)
From Coq Require Import ZArith List Bool.
From Verif Require Import Base.Wrap Base.Bytes Gen.GenConsts Gen.GenFrame.
Import ListNotations.
Local Open Scope Z_scope.

Definition poly_ieee : Z := 3988292384.       (* 0xEDB88320 *)
Definition poly_castagnoli : Z := 2197175160. (* 0x82F63B78 *)
Definition mask32 : Z := 4294967295.

(* one bit of the reflected CRC *)
Definition crc_T1 (P s : Z) : Z := Z.lxor (Z.shiftr s 1) (if Z.odd s then P else 0).
Definition crc_T8 (P s : Z) : Z :=
  crc_T1 P (crc_T1 P (crc_T1 P (crc_T1 P (crc_T1 P (crc_T1 P (crc_T1 P (crc_T1 P s))))))).
Definition crc_byte (P s b : Z) : Z := crc_T8 P (Z.lxor s b).
Definition crc_raw (P s : Z) (bs : list Z) : Z := fold_left (crc_byte P) bs s.
(* crc32.Update(crc, tab, p): pre- and post-inversion *)
Definition crc32_update (P crc : Z) (bs : list Z) : Z :=
  Z.lxor (crc_raw P (Z.lxor crc mask32) bs) mask32.

(* ---- Checksum objects ---- *)
(* ck_kind: 0 = nullChecksum, 1 = crc32 IEEE, 3 = crc32 Castagnoli.  TypeCode() of the null
   checksum is ChecksumTypeNone even when it was obtained for Farmhash (type 2). *)
Record ckst := mkCk { ck_kind : Z; ck_val : Z }.

(* ChecksumType.New(): pool lookup by the type byte; [None] = index out of range panic *)
Definition ck_new (t : Z) : option ckst :=
  if (t <? 0) || (t >=? c_checksumCount) then None
  else if t =? c_ChecksumTypeCrc32 then Some (mkCk 1 0)
  else if t =? c_ChecksumTypeCrc32C then Some (mkCk 3 0)
  else Some (mkCk 0 0).

Definition ck_typecode (c : ckst) : Z := ck_kind c.   (* 0 for the null checksum *)
Definition ck_size (c : ckst) : Z := if ck_kind c =? 0 then 0 else 4.

Definition ck_add (c : ckst) (bs : list Z) : ckst :=
  if ck_kind c =? 1 then mkCk 1 (crc32_update poly_ieee (ck_val c) bs)
  else if ck_kind c =? 3 then mkCk 3 (crc32_update poly_castagnoli (ck_val c) bs)
  else c.

Definition ck_sum (c : ckst) : list Z := if ck_kind c =? 0 then [] else be 4 (ck_val c).

(* crc: poly(0 ieee,1 castagnoli) init bytes -> value *)
Definition run_crc (c : list Z) : list Z :=
  match c with
  | p :: init :: bs => [crc32_update (if p =? 0 then poly_ieee else poly_castagnoli) init bs]
  | _ => [-1]
  end.
