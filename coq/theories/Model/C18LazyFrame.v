(* C18: what a RelayHost is offered, as a function of the FRAME the relay received -- the
   payload array of a pooled frame holds the sized payload followed by whatever an earlier use
   of the buffer left there.  Hand model of relay_messages.go:
     newLazyCallReq      = Model/RelayLazy.v lazy_callreq, on f.SizedPayload()
     lazyCallReq.Arg2Iterator / arg2   slice f.Payload (the ARRAY, not the sized payload) with
                         the offsets the parser computed, then thrift/arg2 NewKeyValIterator /
                         Next (Model/Codecs.v kv_iter)
     lazyCallReq.arg3    f.SizedPayload()[arg3StartOffset:]
     newLazyCallRes      (below), lazyCallRes.Arg2 / ArgScheme / Arg2IsFragmented
   Go slice expressions that can panic have an explicit test (None / A2Panic). *)
From Coq Require Import ZArith List Bool.
From Verif Require Import Base.Wrap Base.Bytes Base.Wire Gen.GenConsts Gen.GenFrame Gen.GenRelayFwd
  Model.TypedBuf Model.Messages Model.Codecs Model.RelayLazy.
Import ListNotations.
Local Open Scope Z_scope.

(* a received frame: Header.PayloadSize(), and the payload array = the explicit bytes [lf_buf]
   followed by [lf_fill] up to the array's length [lf_cap] (MaxFramePayloadSize in the pool) *)
Record lframe := mkLF { lf_size : Z; lf_buf : list Z; lf_fill : Z; lf_cap : Z }.
Definition lf_array (fr : lframe) : list Z :=
  lf_buf fr ++ repeat (lf_fill fr) (Z.to_nat (lf_cap fr - zlen (lf_buf fr))).
(* f.SizedPayload() = f.Payload[:size]  (the harness only builds frames with size <= cap) *)
Definition lf_sized (fr : lframe) : list Z := firstn (Z.to_nat (lf_size fr)) (lf_array fr).

(* Go slice expression l[lo:hi]; None = panic (slice bounds out of range) *)
Definition go_slice (l : list Z) (lo hi : Z) : option (list Z) :=
  if (lo <? 0) || (hi <? lo) || (zlen l <? hi) then None else Some (slice l lo hi).

(* ---------------- lazyCallReq.Arg2Iterator ---------------- *)
Inductive a2res :=
| A2Panic                              (* slice bounds out of range *)
| A2Refused                            (* errArg2ThriftOnly *)
| A2Pairs (ps : kvs) (fin : bool).     (* the pairs yielded by Next() until it fails; fin = ended with io.EOF *)

Definition lazy_arg2_iter (arr : list Z) (lz : lazyreq) : a2res :=
  if negb (bytes_eqb (lz_as lz) c_Thrift) then A2Refused
  else match go_slice arr (lz_a2start lz) (lz_a2end lz) with
       | None => A2Panic
       | Some b => let '(ps, fin) := kv_iter b in A2Pairs ps fin
       end.

(* lazyCallReq.arg2(): f.Payload[arg2StartOffset:arg2EndOffset] *)
Definition lazy_arg2_arr (arr : list Z) (lz : lazyreq) : option (list Z) :=
  go_slice arr (lz_a2start lz) (lz_a2end lz).
(* lazyCallReq.arg3(): f.SizedPayload()[arg3StartOffset:] *)
Definition lazy_arg3_sized (sized : list Z) (lz : lazyreq) : option (list Z) :=
  go_slice sized (lz_a3start lz) (zlen sized).

(* ---------------- newLazyCallRes ---------------- *)
Record lazyres := mkLazyRes { lr_as : list Z; lr_a2frag : bool; lr_arg2 : list Z }.
Definition lr_dummy : lazyres := mkLazyRes [] false [].

(* for i := 0; i < nh; i++ { keyLen; key; valLen; val; if key == "as" { as = val; continue } } *)
Fixpoint lazyres_hdrs (n : nat) (a : list Z) : rbuf -> list Z * rbuf :=
  match n with
  | O => retR a
  | S n' => k <- r_len8 ;; v <- r_len8 ;; lazyres_hdrs n' (if bytes_eqb k c_ArgScheme then v else a)
  end.

(* newLazyCallRes on f.SizedPayload(); [flags0] = f.Payload[_flagsIndex] (read from the ARRAY).
   code 0 ok, 1 "read response frame: ..." (the buffer's error).  The checksum type is not
   range-checked here (ChecksumSize of an unknown type is 0). *)
Definition lazy_callres (flags0 : Z) (p : list Z) : Z * lazyres :=
  let '(_, r1) := r_bytes 1 (rb p) in
  let '(_, r2) := r_bytes 1 r1 in
  let '(_, r3) := r_bytes (Z.to_nat c_u_spanLength) r2 in
  let '(nh, r4) := r_u8 r3 in
  let '(as_, r5) := lazyres_hdrs (Z.to_nat nh) [] r4 in
  let '(ct, r6) := r_u8 r5 in
  let '(_, r7) := r_bytes (Z.to_nat (ChecksumSize ct)) r6 in
  let '(n1, r8) := r_u16 r7 in
  let '(_, r9) := r_bytes (Z.to_nat n1) r8 in
  let '(n2, r10) := r_u16 r9 in
  let '(a2, r11) := r_bytes (Z.to_nat n2) r10 in
  let frag := (zlen (rrem r11) =? 0) && hasMoreFragments flags0 in
  if rerr r11 then (1, lr_dummy) else (0, mkLazyRes as_ frag a2).

(* ---------------- harness entry points ---------------- *)
(* input: size fill cap (len buf) buf... *)
Definition take_lframe (c : list Z) : lframe :=
  let '(size, c1) := take1 c in
  let '(fill, c2) := take1 c1 in
  let '(cap, c3) := take1 c2 in
  let '(buf, _) := take_bytes c3 in
  mkLF size buf fill cap.

Definition put_opt_bytes (o : option (list Z)) : list Z :=
  match o with None => [-9] | Some b => put_bytes b end.

(* call req: code | 0 offsets method as, then Arg2Iterator (-9 panic | 2 refused | fin pairs),
   arg2() and arg3() (-9 = panic) *)
Definition run_c18lazyreq (c : list Z) : list Z :=
  let fr := take_lframe c in
  let '(code, lz) := lazy_callreq (lf_sized fr) in
  if negb (code =? 0) then [code]
  else [0; lz_ctoff lz; lz_ctype lz; lz_a2start lz; lz_a2end lz; zb (lz_a2frag lz); lz_a3start lz]
       ++ put_bytes (lz_method lz) ++ put_bytes (lz_as lz)
       ++ match lazy_arg2_iter (lf_array fr) lz with
          | A2Panic => [-9]
          | A2Refused => [2]
          | A2Pairs ps fin => zb fin :: put_list put_kv ps
          end
       ++ put_opt_bytes (lazy_arg2_arr (lf_array fr) lz)
       ++ (if lz_a2frag lz then [0] else put_opt_bytes (lazy_arg3_sized (lf_sized fr) lz)).

(* call res: code | 0 frag as arg2 *)
Definition run_c18lazyres (c : list Z) : list Z :=
  let fr := take_lframe c in
  let '(code, lr) := lazy_callres (nth 0 (lf_array fr) 0) (lf_sized fr) in
  if negb (code =? 0) then [code]
  else [0; zb (lr_a2frag lr)] ++ put_bytes (lr_as lr) ++ put_bytes (lr_arg2 lr).
