(* Hand model of the goroutines the library starts and of the teardown paths that make them
   exit (channel.go Serve/serve/Close, connection.go newConnection/readFrames/writeFrames/
   connectionError/protocolError/checkExchanges/close/closeNetwork, health.go
   healthCheck/stopHealthCheck, idle_sweep.go start/Stop/pollerLoop, inbound.go
   handleCallReq/dispatchInbound, preinit_connection.go inboundHandshake/setInitDeadline).

   1. [ledger]: one entry per `go` statement (and per time.AfterFunc site) of package tchannel
      with the kind of goroutine it starts.  Proofs/GoroutinesP.v proves that the ledger covers
      the list Gen/GenSites.go_sites regenerated from the source on every run.
   2. A transition system for the teardown of a channel: labels are atomic actions of the
      library's goroutines (one lock region / channel operation / blocking call returning).
      Goroutine program counters are part of the state.  [fixw] selects the behaviour of the
      frame writer on a write error: true = the repaired code (closeNetwork before returning),
      false = the code before the repair.
   Not modelled: stopHealthCheck's wait for healthCheckDone (it only delays its caller; the
   self-deadlock when the caller IS the health goroutine is property C19's finding), the
   interleaving of concurrent checkExchanges calls (C07).  No proofs here. *)
From Coq Require Import ZArith List Bool.
From Verif Require Import Base.Wire Gen.GenConsts Model.MexDrain.
Import ListNotations.
Local Open Scope Z_scope.

(* ------------------------------------------------------------------ the ledger *)

Inductive gkind :=
| GAccept      (* Channel.Serve: go ch.serve() -- exits when Accept fails and ch.State() >= ChannelStartClose *)
| GHandshake   (* Channel.serve: go func(){ inboundHandshake } -- exits when the handshake ends: init
                  message read/written, or the 5 s init deadline (setInitDeadline), or socket error *)
| GReader      (* newConnection: go c.readFrames -- exits on the first read error (socket closed by
                  closeNetwork, by the peer, or read deadline MaxCloseTime) *)
| GWriter      (* newConnection: go c.writeFrames -- exits after stopCh is closed (state Closed) *)
| GHealth      (* callOnActive: go c.healthCheck -- exits when healthCheckCtx is cancelled (stopHealthCheck,
                  called by connectionError and closeNetwork) or after FailuresToClose failed pings *)
| GSweep       (* idleSweep.start: go is.pollerLoop -- exits when stopCh is closed (idleSweep.Stop in Channel.Close) *)
| GDispatch    (* handleCallReq: go c.dispatchInbound -- exits when readMethod fails or the handler returns *)
| GWatcher     (* dispatchInbound: go func(){ select ctx.Done / errCh } -- exits when the call context is
                  done (TTL timer / cancel) or the exchange's errCh is notified (shutdown, connection error) *)
| GTombGC      (* relayItems.Entomb: time.AfterFunc(deleteAfter, Delete) -- a timer, no goroutine until it
                  fires; the callback does one Delete and returns (label RGc of Model/RelayDrain.v) *)
| GRelayTimer. (* relayTimerPool.Get: time.AfterFunc(MaxInt64, rt.OnTimer), stopped at once and re-armed by
                  Start; the callback is timeoutRelayItem (labels RFireStart/RFireEntomb), non-blocking *)

Definition gkind_code (k : gkind) : Z :=
  match k with
  | GAccept => 0 | GHandshake => 1 | GReader => 2 | GWriter => 3 | GHealth => 4 | GSweep => 5
  | GDispatch => 6 | GWatcher => 7 | GTombGC => 8 | GRelayTimer => 9
  end.

Record gentry := { g_fn : list Z; g_text : list Z; g_kind : gkind; g_is_go : bool }.

(* strings are ASCII codes; g_fn = enclosing function as go2v prints it, g_text = first 40
   characters of the first line of the started function expression *)
Definition ledger : list gentry := [
  {| g_fn := [67;104;97;110;110;101;108;46;83;101;114;118;101] (* Channel.Serve *);
     g_text := [99;104;46;115;101;114;118;101] (* ch.serve *); g_kind := GAccept; g_is_go := true |};
  {| g_fn := [67;104;97;110;110;101;108;46;115;101;114;118;101] (* Channel.serve *);
     g_text := [102;117;110;99;40;41;32;123] (* func() { *); g_kind := GHandshake; g_is_go := true |};
  {| g_fn := [67;104;97;110;110;101;108;46;110;101;119;67;111;110;110;101;99;116;105;111;110] (* Channel.newConnection *);
     g_text := [99;46;114;101;97;100;70;114;97;109;101;115] (* c.readFrames *); g_kind := GReader; g_is_go := true |};
  {| g_fn := [67;104;97;110;110;101;108;46;110;101;119;67;111;110;110;101;99;116;105;111;110] (* Channel.newConnection *);
     g_text := [99;46;119;114;105;116;101;70;114;97;109;101;115] (* c.writeFrames *); g_kind := GWriter; g_is_go := true |};
  {| g_fn := [67;111;110;110;101;99;116;105;111;110;46;99;97;108;108;79;110;65;99;116;105;118;101] (* Connection.callOnActive *);
     g_text := [99;46;104;101;97;108;116;104;67;104;101;99;107] (* c.healthCheck *); g_kind := GHealth; g_is_go := true |};
  {| g_fn := [105;100;108;101;83;119;101;101;112;46;115;116;97;114;116] (* idleSweep.start *);
     g_text := [105;115;46;112;111;108;108;101;114;76;111;111;112] (* is.pollerLoop *); g_kind := GSweep; g_is_go := true |};
  {| g_fn := [67;111;110;110;101;99;116;105;111;110;46;104;97;110;100;108;101;67;97;108;108;82;101;113] (* Connection.handleCallReq *);
     g_text := [99;46;100;105;115;112;97;116;99;104;73;110;98;111;117;110;100] (* c.dispatchInbound *); g_kind := GDispatch; g_is_go := true |};
  {| g_fn := [67;111;110;110;101;99;116;105;111;110;46;100;105;115;112;97;116;99;104;73;110;98;111;117;110;100] (* Connection.dispatchInbound *);
     g_text := [102;117;110;99;40;41;32;123] (* func() { *); g_kind := GWatcher; g_is_go := true |};
  {| g_fn := [114;101;108;97;121;73;116;101;109;115;46;69;110;116;111;109;98] (* relayItems.Entomb *);
     g_text := [116;105;109;101;46;65;102;116;101;114;70;117;110;99] (* time.AfterFunc *); g_kind := GTombGC; g_is_go := false |};
  {| g_fn := [114;101;108;97;121;84;105;109;101;114;80;111;111;108;46;71;101;116] (* relayTimerPool.Get *);
     g_text := [116;105;109;101;46;65;102;116;101;114;70;117;110;99] (* time.AfterFunc *); g_kind := GRelayTimer; g_is_go := false |}
].

Fixpoint zlist_eqb (a b : list Z) : bool :=
  match a, b with
  | [], [] => true
  | x :: a', y :: b' => (x =? y) && zlist_eqb a' b'
  | _, _ => false
  end.

Definition entry_matches (site : list Z * list Z) (e : gentry) : bool :=
  g_is_go e && zlist_eqb (fst site) (g_fn e) && zlist_eqb (snd site) (g_text e).

Definition ledger_covers (sites : list (list Z * list Z)) : bool :=
  forallb (fun s => existsb (entry_matches s) ledger) sites.
Definition ledger_is_current (sites : list (list Z * list Z)) : bool :=
  forallb (fun e => negb (g_is_go e) || existsb (fun s => entry_matches s e) sites) ledger.

(* ------------------------------------------------------------------ one connection *)

Record tconn := {
  t_state : Z;          (* Connection.state *)
  t_stop : bool;        (* stopCh closed *)
  t_sock : bool;        (* the library has called conn.Close() *)
  t_rfail : bool;       (* reads on the socket fail (peer closed / reset / read deadline) *)
  t_wfail : bool;       (* writes on the socket fail *)
  t_cnc : bool;         (* closeNetworkCalled *)
  t_stopped_ex : bool;  (* stoppedExchanges *)
  t_inb : Z;            (* inbound.count() *)
  t_outb : Z;           (* outbound.count() *)
  t_relay : Z;          (* relay.pending (0 without relay) *)
  t_health : Z;         (* health goroutine: 0 health checks disabled, 1 running, 2 exited *)
  t_hquit : bool;       (* healthCheckQuit called *)
  t_rd : Z;             (* readFrames: 0 running, 1 exited *)
  t_wr : Z              (* writeFrames: 0 in its loop, 1 left the loop on a write error (deferred <-stopCh), 2 exited,
                           3 inside a Write that does not return (the peer does not read; no write deadline is set) *)
}.

Definition tconn_init (health : bool) : tconn :=
  {| t_state := c_connectionActive; t_stop := false; t_sock := false; t_rfail := false; t_wfail := false;
     t_cnc := false; t_stopped_ex := false; t_inb := 0; t_outb := 0; t_relay := 0;
     t_health := if health then 1 else 0; t_hquit := false; t_rd := 0; t_wr := 0 |}.

Definition set_state (c : tconn) (st : Z) (stop : bool) : tconn :=
  {| t_state := st; t_stop := stop; t_sock := t_sock c; t_rfail := t_rfail c; t_wfail := t_wfail c;
     t_cnc := t_cnc c; t_stopped_ex := t_stopped_ex c; t_inb := t_inb c; t_outb := t_outb c; t_relay := t_relay c;
     t_health := t_health c; t_hquit := t_hquit c; t_rd := t_rd c; t_wr := t_wr c |}.

(* checkExchanges, executed by one goroutine at a time *)
Definition check_exchanges (c : tconn) : tconn :=
  let orig := t_state c in
  let cur1 := if negb (orig =? c_connectionClosed) && t_stopped_ex c then c_connectionClosed else orig in
  if (cur1 =? c_connectionStartClose) && negb (t_relay c =? 0) then c      (* early return: relay cannot close *)
  else
  let cur2 := if (cur1 =? c_connectionStartClose) && (t_inb c =? 0) then c_connectionInboundClosed else cur1 in
  if (cur2 =? c_connectionInboundClosed) && negb (t_relay c =? 0) then set_state c cur2 (t_stop c)
  else
  let cur3 := if (cur2 =? c_connectionInboundClosed) && (t_outb c =? 0) then c_connectionClosed else cur2 in
  set_state c cur3 (t_stop c || (negb (cur3 =? orig) && (cur3 =? c_connectionClosed))).

(* Connection.close: Active -> StartClose, then checkExchanges; an error (no effect) otherwise *)
Definition conn_close (c : tconn) : tconn :=
  if t_state c =? c_connectionActive then check_exchanges (set_state c c_connectionStartClose (t_stop c)) else c.

Definition stop_health (c : tconn) : tconn :=
  if t_health c =? 0 then c
  else {| t_state := t_state c; t_stop := t_stop c; t_sock := t_sock c; t_rfail := t_rfail c; t_wfail := t_wfail c;
          t_cnc := t_cnc c; t_stopped_ex := t_stopped_ex c; t_inb := t_inb c; t_outb := t_outb c; t_relay := t_relay c;
          t_health := t_health c; t_hquit := true; t_rd := t_rd c; t_wr := t_wr c |}.

Definition set_stopped_ex (c : tconn) : tconn :=
  {| t_state := t_state c; t_stop := t_stop c; t_sock := t_sock c; t_rfail := t_rfail c; t_wfail := t_wfail c;
     t_cnc := t_cnc c; t_stopped_ex := true; t_inb := t_inb c; t_outb := t_outb c; t_relay := t_relay c;
     t_health := t_health c; t_hquit := t_hquit c; t_rd := t_rd c; t_wr := t_wr c |}.

(* connectionError: stopHealthCheck; close; stoppedExchanges; checkExchanges *)
Definition connection_error (c : tconn) : tconn :=
  check_exchanges (set_stopped_ex (conn_close (stop_health c))).

(* protocolError: close; stoppedExchanges (no checkExchanges afterwards) *)
Definition protocol_error (c : tconn) : tconn := set_stopped_ex (conn_close c).

(* closeNetwork: stopHealthCheck; closeNetworkCalled; conn.Close() *)
Definition close_network (c : tconn) : tconn :=
  let c := stop_health c in
  {| t_state := t_state c; t_stop := t_stop c; t_sock := true; t_rfail := t_rfail c; t_wfail := t_wfail c;
     t_cnc := true; t_stopped_ex := t_stopped_ex c; t_inb := t_inb c; t_outb := t_outb c; t_relay := t_relay c;
     t_health := t_health c; t_hquit := t_hquit c; t_rd := t_rd c; t_wr := t_wr c |}.

Definition with_pcs (c : tconn) (rd wr health : Z) : tconn :=
  {| t_state := t_state c; t_stop := t_stop c; t_sock := t_sock c; t_rfail := t_rfail c; t_wfail := t_wfail c;
     t_cnc := t_cnc c; t_stopped_ex := t_stopped_ex c; t_inb := t_inb c; t_outb := t_outb c; t_relay := t_relay c;
     t_health := health; t_hquit := t_hquit c; t_rd := rd; t_wr := wr |}.

Definition with_counts (c : tconn) (inb outb relay : Z) : tconn :=
  {| t_state := t_state c; t_stop := t_stop c; t_sock := t_sock c; t_rfail := t_rfail c; t_wfail := t_wfail c;
     t_cnc := t_cnc c; t_stopped_ex := t_stopped_ex c; t_inb := inb; t_outb := outb; t_relay := relay;
     t_health := t_health c; t_hquit := t_hquit c; t_rd := t_rd c; t_wr := t_wr c |}.

Definition with_faults (c : tconn) (rf wf : bool) : tconn :=
  {| t_state := t_state c; t_stop := t_stop c; t_sock := t_sock c; t_rfail := rf; t_wfail := wf;
     t_cnc := t_cnc c; t_stopped_ex := t_stopped_ex c; t_inb := t_inb c; t_outb := t_outb c; t_relay := t_relay c;
     t_health := t_health c; t_hquit := t_hquit c; t_rd := t_rd c; t_wr := t_wr c |}.

Inductive tlabel :=
| TClose            (* Connection.close from Channel.Close, the idle sweep, connectionActive on a closing channel, user *)
| TPeerGone         (* the remote end closes or resets the socket: reads and writes fail from now on *)
| TWriteFault       (* writes start failing while reads stay blocked (net.Conn contract allows it) *)
| TReadDeadline     (* the MaxCloseTime read deadline expires: reads fail *)
| TReadErr          (* readFrames: Read returned an error *)
| TWriteErr         (* writeFrames: WriteOut returned an error *)
| TWriterStop       (* writeFrames: <-stopCh with an empty sendCh: closeNetwork, return *)
| TWriterDeferred   (* writeFrames' deferred function: <-stopCh received after a write error *)
| THealthExit       (* healthCheck: <-healthCheckCtx.Done() *)
| THealthFail       (* healthCheck: FailuresToClose consecutive failures: c.close(); return *)
| TExAdd (inb : bool)    (* a new exchange (handleCallReq / beginCall / ping) on an Active connection *)
| TExDone (inb : bool)   (* an exchange is removed: onRemoved -> checkExchanges *)
| TRelayAdd         (* canHandleNewCall on an Active connection: pending.Inc *)
| TRelayDone        (* decrementPending: pending.Dec; checkExchanges *)
| TProtocolError    (* protocolError(...) from the reader *)
| TConnError        (* connectionError(...) from another site (handleError, ping/cancel send failure) *)
| TWriteBlock       (* writeFrames: WriteOut blocks (send buffer full, the peer does not read) *)
| TWriteReturn.     (* the blocked WriteOut returns (the peer reads again); an error is a later TWriteErr *)

Definition tenabled (c : tconn) (l : tlabel) : bool :=
  match l with
  | TReadErr => (t_rd c =? 0) && (t_sock c || t_rfail c)
  | TWriteErr => (t_wr c =? 0) && (t_sock c || t_wfail c)
  | TWriterStop => (t_wr c =? 0) && t_stop c
  | TWriterDeferred => (t_wr c =? 1) && t_stop c
  | THealthExit => (t_health c =? 1) && t_hquit c
  | THealthFail => t_health c =? 1
  | TExAdd _ => t_state c =? c_connectionActive
  | TExDone inb => if inb then 0 <? t_inb c else 0 <? t_outb c
  | TRelayAdd => t_state c =? c_connectionActive
  | TRelayDone => 0 <? t_relay c
  | TProtocolError => t_rd c =? 0
  | TConnError => true
  | TWriteBlock => t_wr c =? 0
  | TWriteReturn => t_wr c =? 3
  | _ => true
  end.

Definition tstep (fixw : bool) (c : tconn) (l : tlabel) : option tconn :=
  if negb (tenabled c l) then None else
  Some match l with
  | TClose => conn_close c
  | TPeerGone => with_faults c true true
  | TWriteFault => with_faults c (t_rfail c) true
  | TReadDeadline => with_faults c true (t_wfail c)
  | TReadErr =>
      let c1 := if t_cnc c then c else connection_error c in
      with_pcs c1 1 (t_wr c1) (t_health c1)
  | TWriteErr =>
      let c1 := connection_error c in
      let c2 := if fixw then close_network c1 else c1 in
      with_pcs c2 (t_rd c2) 1 (t_health c2)
  | TWriterStop => let c1 := close_network c in with_pcs c1 (t_rd c1) 2 (t_health c1)
  | TWriterDeferred => with_pcs c (t_rd c) 2 (t_health c)
  | THealthExit => with_pcs c (t_rd c) (t_wr c) 2
  | THealthFail => let c1 := conn_close c in with_pcs c1 (t_rd c1) (t_wr c1) 2
  | TExAdd inb => if inb then with_counts c (t_inb c + 1) (t_outb c) (t_relay c) else with_counts c (t_inb c) (t_outb c + 1) (t_relay c)
  | TExDone inb => check_exchanges (if inb then with_counts c (t_inb c - 1) (t_outb c) (t_relay c) else with_counts c (t_inb c) (t_outb c - 1) (t_relay c))
  | TRelayAdd => with_counts c (t_inb c) (t_outb c) (t_relay c + 1)
  | TRelayDone => check_exchanges (with_counts c (t_inb c) (t_outb c) (t_relay c - 1))
  | TProtocolError => protocol_error c
  | TConnError => connection_error c
  | TWriteBlock => with_pcs c (t_rd c) 3 (t_health c)
  | TWriteReturn => with_pcs c (t_rd c) 0 (t_health c)
  end.

Fixpoint trun (fixw : bool) (c : tconn) (ls : list tlabel) : option tconn :=
  match ls with
  | [] => Some c
  | l :: r => match tstep fixw c l with Some c' => trun fixw c' r | None => None end
  end.

(* no goroutine of the connection can take an exit step: what remains is stuck for ever
   (that an enabled step is eventually taken is the scheduler's business, outside the model) *)
Definition tconn_settled (c : tconn) : bool :=
  negb (tenabled c TReadErr) && negb (tenabled c TWriterStop) && negb (tenabled c TWriterDeferred)
  && negb (tenabled c THealthExit).

Definition tconn_exited (c : tconn) : bool :=
  (t_rd c =? 1) && (t_wr c =? 2) && negb (t_health c =? 1).

(* ------------------------------------------------------------------ the world: a channel *)

Record tcall := { k_ctxdone : bool; k_errch : bool; k_handler : Z (* 0 running 1 returned *);
                  k_watch : Z (* watcher goroutine: 0 never started (readMethod failed), 1 running, 2 exited *) }.
Record thand := { h_finished : bool (* init messages exchanged or failed *); h_deadline : bool (* 5 s init deadline passed *);
                  h_sockerr : bool; h_go : Z (* 1 running 2 exited *) }.

Record world := {
  w_state : Z;              (* Channel.mutable.state *)
  w_lclosed : bool;         (* listener closed *)
  w_accept : Z;             (* ch.serve goroutine: 0 not listening, 1 running, 2 exited *)
  w_sweep : Z;              (* idle sweep goroutine: 0 not configured, 1 running, 2 exited *)
  w_sweepstop : bool;       (* idleSweep.stopCh closed *)
  w_conns : list tconn;
  w_calls : list tcall;
  w_hands : list thand
}.

Definition world_init (listening sweep : bool) : world :=
  {| w_state := if listening then c_ChannelListening else c_ChannelClient; w_lclosed := false;
     w_accept := if listening then 1 else 0; w_sweep := if sweep then 1 else 0; w_sweepstop := false;
     w_conns := []; w_calls := []; w_hands := [] |}.

Inductive wlabel :=
| WConn (i : Z) (l : tlabel)
| WNewConn (health : bool)        (* a handshake completed: newConnection *)
| WChClose                        (* Channel.Close's locked region: listener closed, sweep stopped, state StartClose/Closed *)
| WChState (st : Z)               (* connectionCloseStateChange moves the channel state forward *)
| WAcceptExit                     (* serve: Accept failed and State() >= ChannelStartClose *)
| WSweepExit                      (* pollerLoop: <-stopCh *)
| WNewCall (watch : bool)         (* handleCallReq: go dispatchInbound; watch=false when readMethod fails at once *)
| WCallCtxDone (i : Z) | WCallErrCh (i : Z) | WCallHandlerReturn (i : Z) | WCallWatchExit (i : Z)
| WNewHand                        (* serve accepted a socket: go func(){ inboundHandshake } *)
| WHandFinished (i : Z) | WHandDeadline (i : Z) | WHandSockErr (i : Z) | WHandExit (i : Z).

Definition nth_z {A} (l : list A) (i : Z) : option A := if i <? 0 then None else nth_error l (Z.to_nat i).

Definition wset_conns (w : world) (cs : list tconn) : world :=
  {| w_state := w_state w; w_lclosed := w_lclosed w; w_accept := w_accept w; w_sweep := w_sweep w;
     w_sweepstop := w_sweepstop w; w_conns := cs; w_calls := w_calls w; w_hands := w_hands w |}.
Definition wset_calls (w : world) (ks : list tcall) : world :=
  {| w_state := w_state w; w_lclosed := w_lclosed w; w_accept := w_accept w; w_sweep := w_sweep w;
     w_sweepstop := w_sweepstop w; w_conns := w_conns w; w_calls := ks; w_hands := w_hands w |}.
Definition wset_hands (w : world) (hs : list thand) : world :=
  {| w_state := w_state w; w_lclosed := w_lclosed w; w_accept := w_accept w; w_sweep := w_sweep w;
     w_sweepstop := w_sweepstop w; w_conns := w_conns w; w_calls := w_calls w; w_hands := hs |}.

Definition call_watch_enabled (k : tcall) : bool := (k_watch k =? 1) && (k_ctxdone k || k_errch k).
Definition hand_exit_enabled (h : thand) : bool := (h_go h =? 1) && (h_finished h || h_deadline h || h_sockerr h).

Definition wstep (fixw : bool) (w : world) (l : wlabel) : option world :=
  match l with
  | WConn i tl =>
      match nth_z (w_conns w) i with
      | None => None
      | Some c => match tstep fixw c tl with
                  | None => None
                  | Some c' => Some (wset_conns w (upd_nth (Z.to_nat i) c' (w_conns w)))
                  end
      end
  | WNewConn health => Some (wset_conns w (w_conns w ++ [tconn_init health]))
  | WChClose =>
      if w_state w =? c_ChannelClosed then Some w
      else Some {| w_state := match w_conns w with [] => c_ChannelClosed | _ => c_ChannelStartClose end;
                   w_lclosed := true; w_accept := w_accept w; w_sweep := w_sweep w;
                   w_sweepstop := negb (w_sweep w =? 0);
                   w_conns := w_conns w; w_calls := w_calls w; w_hands := w_hands w |}
  | WChState st =>
      if (c_ChannelStartClose <=? w_state w) && (w_state w <? st) && (st <=? c_ChannelClosed)
      then Some {| w_state := st; w_lclosed := w_lclosed w; w_accept := w_accept w; w_sweep := w_sweep w;
                   w_sweepstop := w_sweepstop w; w_conns := w_conns w; w_calls := w_calls w; w_hands := w_hands w |}
      else None
  | WAcceptExit =>
      if (w_accept w =? 1) && w_lclosed w && (c_ChannelStartClose <=? w_state w)
      then Some {| w_state := w_state w; w_lclosed := w_lclosed w; w_accept := 2; w_sweep := w_sweep w;
                   w_sweepstop := w_sweepstop w; w_conns := w_conns w; w_calls := w_calls w; w_hands := w_hands w |}
      else None
  | WSweepExit =>
      if (w_sweep w =? 1) && w_sweepstop w
      then Some {| w_state := w_state w; w_lclosed := w_lclosed w; w_accept := w_accept w; w_sweep := 2;
                   w_sweepstop := w_sweepstop w; w_conns := w_conns w; w_calls := w_calls w; w_hands := w_hands w |}
      else None
  | WNewCall watch =>
      Some (wset_calls w (w_calls w ++ [{| k_ctxdone := false; k_errch := false; k_handler := if watch then 0 else 1;
                                           k_watch := if watch then 1 else 0 |}]))
  | WCallCtxDone i =>
      match nth_z (w_calls w) i with
      | None => None
      | Some k => Some (wset_calls w (upd_nth (Z.to_nat i) {| k_ctxdone := true; k_errch := k_errch k; k_handler := k_handler k; k_watch := k_watch k |} (w_calls w)))
      end
  | WCallErrCh i =>
      match nth_z (w_calls w) i with
      | None => None
      | Some k => Some (wset_calls w (upd_nth (Z.to_nat i) {| k_ctxdone := k_ctxdone k; k_errch := true; k_handler := k_handler k; k_watch := k_watch k |} (w_calls w)))
      end
  | WCallHandlerReturn i =>
      match nth_z (w_calls w) i with
      | None => None
      | Some k => Some (wset_calls w (upd_nth (Z.to_nat i) {| k_ctxdone := k_ctxdone k; k_errch := k_errch k; k_handler := 1; k_watch := k_watch k |} (w_calls w)))
      end
  | WCallWatchExit i =>
      match nth_z (w_calls w) i with
      | None => None
      | Some k => if call_watch_enabled k
                  then Some (wset_calls w (upd_nth (Z.to_nat i) {| k_ctxdone := k_ctxdone k; k_errch := k_errch k; k_handler := k_handler k; k_watch := 2 |} (w_calls w)))
                  else None
      end
  | WNewHand => Some (wset_hands w (w_hands w ++ [{| h_finished := false; h_deadline := false; h_sockerr := false; h_go := 1 |}]))
  | WHandFinished i =>
      match nth_z (w_hands w) i with
      | None => None
      | Some h => Some (wset_hands w (upd_nth (Z.to_nat i) {| h_finished := true; h_deadline := h_deadline h; h_sockerr := h_sockerr h; h_go := h_go h |} (w_hands w)))
      end
  | WHandDeadline i =>
      match nth_z (w_hands w) i with
      | None => None
      | Some h => Some (wset_hands w (upd_nth (Z.to_nat i) {| h_finished := h_finished h; h_deadline := true; h_sockerr := h_sockerr h; h_go := h_go h |} (w_hands w)))
      end
  | WHandSockErr i =>
      match nth_z (w_hands w) i with
      | None => None
      | Some h => Some (wset_hands w (upd_nth (Z.to_nat i) {| h_finished := h_finished h; h_deadline := h_deadline h; h_sockerr := true; h_go := h_go h |} (w_hands w)))
      end
  | WHandExit i =>
      match nth_z (w_hands w) i with
      | None => None
      | Some h => if hand_exit_enabled h
                  then Some (wset_hands w (upd_nth (Z.to_nat i) {| h_finished := h_finished h; h_deadline := h_deadline h; h_sockerr := h_sockerr h; h_go := 2 |} (w_hands w)))
                  else None
      end
  end.

Fixpoint wrun (fixw : bool) (w : world) (ls : list wlabel) : option world :=
  match ls with
  | [] => Some w
  | l :: r => match wstep fixw w l with Some w' => wrun fixw w' r | None => None end
  end.

(* The quiescent situation of the property: every channel closed, every connection closed and
   no frame writer held inside a Write by a peer that does not read, every call context done and
   every handler returned, every init deadline passed; and no goroutine exit step is enabled
   any more. *)
Definition world_quiescent (w : world) : bool :=
  (w_state w =? c_ChannelClosed)
  && forallb (fun c => (t_state c =? c_connectionClosed) && negb (t_wr c =? 3)) (w_conns w)
  && forallb (fun k => k_ctxdone k && (k_handler k =? 1)) (w_calls w)
  && forallb h_deadline (w_hands w).

Definition world_settled (w : world) : bool :=
  negb ((w_accept w =? 1) && w_lclosed w && (c_ChannelStartClose <=? w_state w))
  && negb ((w_sweep w =? 1) && w_sweepstop w)
  && forallb tconn_settled (w_conns w)
  && forallb (fun k => negb (call_watch_enabled k)) (w_calls w)
  && forallb (fun h => negb (hand_exit_enabled h)) (w_hands w).

(* every goroutine of kind k has exited *)
Definition kind_exited (k : gkind) (w : world) : bool :=
  match k with
  | GAccept => negb (w_accept w =? 1)
  | GHandshake => forallb (fun h => negb (h_go h =? 1)) (w_hands w)
  | GReader => forallb (fun c => t_rd c =? 1) (w_conns w)
  | GWriter => forallb (fun c => t_wr c =? 2) (w_conns w)
  | GHealth => forallb (fun c => negb (t_health c =? 1)) (w_conns w)
  | GSweep => negb (w_sweep w =? 1)
  | GDispatch => forallb (fun k => k_handler k =? 1) (w_calls w)
  | GWatcher => forallb (fun k => negb (k_watch k =? 1)) (w_calls w)
  | GTombGC | GRelayTimer => true      (* timers: see Model/RelayDrain.v (relay_quiet) *)
  end.

(* ---- harness entry points ----------------------------------------------------------
   ledger: case = creating function, started function key (count-prefixed byte strings, as read
           from a goroutine dump) -> [kind code] or [-1] when the site is not in the ledger
   teardown: case = fixw health n (label)* ; labels 0..17 in the order of [tlabel], TExAdd/TExDone carry
           the direction as 100+label (inbound) ; after every label the model takes all enabled
           goroutine exit steps (settling); observable per label: state sock rd wr health          *)
(* the name by which a started function shows up in a goroutine dump: the part of the go
   expression after its last '.', or "func" for a function literal *)
Fixpoint after_last_dot (acc l : list Z) : list Z :=
  match l with
  | [] => acc
  | x :: r => if x =? 46 then after_last_dot r r else after_last_dot acc r
  end.
Definition text_key (t : list Z) : list Z :=
  match t with
  | 102 :: 117 :: 110 :: 99 :: 40 :: _ => [102; 117; 110; 99]      (* "func(" -> "func" *)
  | _ => after_last_dot t t
  end.

Definition run_ledger (c : list Z) : list Z :=
  let '(fn, r) := take_bytes c in
  let '(key, _) := take_bytes r in
  match find (fun e => g_is_go e && zlist_eqb fn (g_fn e) && zlist_eqb key (text_key (g_text e))) ledger with
  | Some e => [gkind_code (g_kind e)]
  | None => [-1]
  end.

Definition tlabel_of (z : Z) : tlabel :=
  if z =? 0 then TClose else if z =? 1 then TPeerGone else if z =? 2 then TWriteFault else if z =? 3 then TReadDeadline
  else if z =? 4 then TReadErr else if z =? 5 then TWriteErr else if z =? 6 then TWriterStop else if z =? 7 then TWriterDeferred
  else if z =? 8 then THealthExit else if z =? 9 then THealthFail else if z =? 10 then TExAdd false else if z =? 110 then TExAdd true
  else if z =? 11 then TExDone false else if z =? 111 then TExDone true else if z =? 12 then TRelayAdd else if z =? 13 then TRelayDone
  else if z =? 14 then TProtocolError else if z =? 16 then TWriteBlock else if z =? 17 then TWriteReturn else TConnError.

(* Settling, for the correspondence run only: the goroutine exit steps, and -- because the
   harness keeps every caller and handler blocked inside a library call -- the removal of every
   exchange once the exchanges were stopped (a notified exchange makes its blocked reader fail
   and shut down; an inbound one is expired by its watcher). *)
Definition settle_labels : list tlabel := [TReadErr; TWriterStop; TWriterDeferred; THealthExit].

Definition drain_stopped (fixw : bool) (c : tconn) : tconn :=
  if t_stopped_ex c then
    let c1 := if 0 <? t_inb c then check_exchanges (with_counts c 0 (t_outb c) (t_relay c)) else c in
    if 0 <? t_outb c1 then check_exchanges (with_counts c1 (t_inb c1) 0 (t_relay c1)) else c1
  else c.

Fixpoint settle (fuel : nat) (fixw : bool) (c : tconn) : tconn :=
  match fuel with
  | O => c
  | S f =>
      let c' := fold_left (fun acc l => match tstep fixw acc l with Some a => a | None => acc end) settle_labels c in
      settle f fixw (drain_stopped fixw c')
  end.

Fixpoint teardown_obs (fixw : bool) (c : tconn) (ls : list Z) : list Z :=
  match ls with
  | [] => []
  | z :: r =>
      let c1 := match tstep fixw c (tlabel_of z) with Some a => a | None => c end in
      let c2 := settle 4 fixw c1 in
      [t_state c2; zb (t_sock c2); t_rd c2; t_wr c2; t_health c2] ++ teardown_obs fixw c2 r
  end.

Definition run_teardown (c : list Z) : list Z :=
  match c with
  | fixw :: health :: r =>
      let '(ls, _) := take_list take1 r in
      teardown_obs (bz fixw) (tconn_init (bz health)) ls
  | _ => [-1]
  end.
