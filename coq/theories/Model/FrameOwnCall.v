(* Per-call vocabulary for property C12 (definitions only; proofs in Proofs/FrameOwnCallP.v).

   [held s t] of Model/FrameOwn.v says that SOME exchange queue, reader, writer or send queue
   still refers to frame t.  Here the same references are attributed to one call k (the key
   of its message exchange: the exchange, the reqResReader and the reqResWriter of a call
   share it), so that "every frame is handed back" can be stated for one completed call
   while other calls are still in flight on the same connections. *)
From Coq Require Import ZArith List Bool.
From Verif Require Import Spec.FrameOwnSpec Model.FrameOwn.
Import ListNotations.
Local Open Scope Z_scope.

(* call k still refers to frame t: t waits in its exchange's recvCh, is a not yet released
   fragment of its reader, or is the unsent fragment of its writer *)
Definition call_holds (s : st) (k t : Z) : Prop :=
  In t (x_q (s_mex s k)) \/ rdr_holds s k t \/ wr_holds s k t.

(* the call has completed without a fault: its argument reader reached
   fragmentingReadComplete (the last argument was closed), its writer reached
   reqResWriterComplete without an error, and completion did not come from
   InboundCallResponse.SendSystemError / a failed dispatch ([r_quit]) *)
Definition call_done (s : st) (k : Z) : Prop :=
  r_complete (s_rdr s k) = true /\ w_complete (s_wr s k) = true /\
  w_err (s_wr s k) = false /\ r_quit (s_rdr s k) = false.

(* ... and the peer sent nothing beyond the last fragment: recvCh is drained *)
Definition call_settled (s : st) (k : Z) : Prop := call_done s k /\ x_q (s_mex s k) = [].

(* Frames the history attributes to call k: those that were at some time in its exchange's
   recvCh, a fragment of its reader or a fragment of its writer (ghost places of the events). *)
Definition of_call (k : Z) (p : place) : bool :=
  match p with PMex k' | PFrag k' | PWFrag k' => k' =? k | _ => false end.
Definition call_toks (h : list ev) (k : Z) : list Z :=
  flat_map (fun e => match e with EGet _ t p | EMov t p => if of_call k p then [t] else [] | _ => [] end) h.
