(* The idle sweep on a RELAYING channel: the connection table as the sweep sees it (Model/Idle.v,
   property C19) combined with the relay bookkeeping of the same channel (Model/RelayItems.v,
   property C09, read-only here).

   In the Go code the two meet in one variable: idleSweep.checkIdleConnections ->
   Connection.hasPendingCalls -> c.relay.canClose() -> r.countPending() == 0, and
   Relayer.pending is the counter that canHandleNewCall increments for each side of an admitted
   relayed call and that decrementPending gives back when timeoutRelayItem / failRelayItem /
   finishRelayItem (or the rejection branch of handleCallReq) ends the item.  Model/Idle.v keeps
   the counter as the field k_relay of a connection; Model/RelayItems.v keeps it as c_pending of
   the relay connection with the same number.  The combined state carries both, [linked] says
   they are the same variable, [link] makes them so.

   No proofs in this file (Proofs/IdleRelayP.v). *)
From Coq Require Import ZArith List Bool.
From Verif Require Import Base.Wrap Base.Wire Gen.GenConsts Gen.GenHealthIdle Gen.GenIdleRelay Model.Health Model.Idle.
From Verif Require Model.RelayItems.
Import ListNotations.
Local Open Scope Z_scope.

Record rchan := {
  rc_relay : RelayItems.state;   (* items, timers, goroutines and counters of the relayers *)
  rc_chan : chan                 (* clock and connection table of the channel *)
}.

(* Relayer.countPending() of connection k (the accessor is regenerated from relay.go) *)
Definition relay_count (st : RelayItems.state) (k : Z) : Z :=
  sweepRelayCountPending (RelayItems.c_pending (RelayItems.get_conn st k)).

(* every connection of a relaying channel has a relayer (newConnection: opts.RelayHost != nil),
   and its k_relay IS that relayer's counter *)
Definition linked (rc : rchan) : Prop :=
  forall id c, lookup id (ch_conns (rc_chan rc)) = Some c -> k_relay c = Some (relay_count (rc_relay rc) id).

Definition link_conn (st : RelayItems.state) (id : Z) (c : conn) : conn :=
  set_counts (k_inb c) (k_outb c) (k_pings c) (Some (relay_count st id)) c.

Definition link_chan (st : RelayItems.state) (s : chan) : chan :=
  {| ch_now := ch_now s; ch_conns := map (fun ic => (fst ic, link_conn st (fst ic) (snd ic))) (ch_conns s) |}.

Definition link (st : RelayItems.state) (s : chan) : rchan := {| rc_relay := st; rc_chan := link_chan st s |}.

(* a sweep of the combined state: the poller works on the connection table; the relayers'
   items, timers and counters are not touched by it *)
Definition rsweep (max_idle : Z) (rc : rchan) : rchan :=
  {| rc_relay := rc_relay rc; rc_chan := sweep max_idle (rc_chan rc) |}.

(* what hasPendingCalls computes on a relay connection, from the generated functions only:
   the two exchange counts and canClose of countPending *)
Definition relay_has_pending (st : RelayItems.state) (id : Z) (c : conn) : bool :=
  hasPendingCalls (k_inb c) (k_outb c) (relayCanClose false (relay_count st id)).
