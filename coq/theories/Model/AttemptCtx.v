(* Hand model of the context of ONE ATTEMPT of a retried call (property C14, clauses a/b/d for
   the clients of the sub-packages):
     retry.go          Channel.RunWithRetry: per attempt, f(runCtx, rs) when
                       RetryOptions.TimeoutPerAttempt == 0, otherwise
                       attemptCtx, cancel := context.WithTimeout(runCtx, opts.TimeoutPerAttempt); f(attemptCtx, rs)
     thrift/client.go  client.Call: the attempt function handed to RunWithRetry calls
                       c.startCall(ctx, ...) -> c.ch.BeginCall(ctx, ...) / c.sc.BeginCall(ctx, ...)
     json/call.go      Client.Call: the same shape
     outbound.go       Connection.beginCall (Model/TTL.v begin_call): the time-to-live of the call
                       req, the context of the message exchange (every wait of the caller) and hence
                       the handler's deadline all come from the context given to BeginCall
   WHICH context reaches BeginCall is read off the source on every run: the [origin] column of
   Gen/GenCtxFlow.ctxflow_sites (go2v/ctxflow.go), folded along the call path by [path_src].
   Instants and durations are Z nanoseconds as in Model/TTL.v.  No proofs in this file. *)
From Coq Require Import ZArith List Bool.
From Verif Require Import Base.Wrap Base.Wire Gen.GenConsts Gen.GenTTL Model.Messages Model.TTL.
Import ListNotations.
Local Open Scope Z_scope.

(* which context a call primitive below RunWithRetry receives *)
Inductive ctx_src :=
| SrcAttempt     (* the context RunWithRetry made for this attempt (or one derived from it) *)
| SrcOverall     (* the caller's overall context, captured from the enclosing function *)
| SrcOther.      (* anything else: context.Background(), a stored context, ... (no usable deadline) *)

(* one hand-over, by the origin column of the generated table *)
Definition src_of_origin (o : Z) : ctx_src :=
  if (o =? 0) || (o =? 1) then SrcAttempt else if o =? 2 then SrcOverall else SrcOther.

(* along attempt function -> startCall -> BeginCall the first deviation decides *)
Definition src_join (a b : ctx_src) : ctx_src := match a with SrcAttempt => b | _ => a end.
Definition path_src (origins : list Z) : ctx_src :=
  fold_right (fun o acc => src_join (src_of_origin o) acc) SrcAttempt origins.

(* RunWithRetry: the context of an attempt that starts at instant [start] ([None] = no deadline) *)
Definition attempt_ctx (overall : option Z) (start tpa : Z) : option Z :=
  if tpa =? 0 then overall else with_timeout overall start tpa.

(* the context BeginCall is given *)
Definition client_ctx (src : ctx_src) (overall : option Z) (start tpa : Z) : option Z :=
  match src with
  | SrcAttempt => attempt_ctx overall start tpa
  | SrcOverall => overall
  | SrcOther => None
  end.

(* BeginCall of the attempt at instant [now] (>= start); [cerr] = Err() of that context *)
Definition client_begin (src : ctx_src) (overall : option Z) (start tpa now cerr : Z) : bc_result :=
  match client_ctx src overall start tpa with
  | Some dl => begin_call c_connectionActive true dl now cerr
  | None => begin_call c_connectionActive false 0 now cerr
  end.

(* the time an attempt has left at [now]: what clause (a) calls the caller's remaining time *)
Definition attempt_remaining (overall_dl start tpa now : Z) : Z :=
  if tpa =? 0 then overall_dl - now else Z.min (overall_dl - now) (start + tpa - now).

(* the ttl field that reaches the destination through a chain of relays *)
Definition attempt_field (src : ctx_src) (overall_dl start tpa now : Z) (maxes : list Z) : option Z :=
  match client_begin src (Some overall_dl) start tpa now 0 with
  | BcErr _ => None
  | BcOk ttl => Some (hops_ttl maxes (wire_ttl_ms ttl))
  end.

(* ---- harness entry point (engine attemptttl) ------------------------------------------
   All instants are relative to the start of RunWithRetry (0).
   case: overall_ns tpa_ns n_max max_1..max_n n_attempts start_1 .. start_k
         start_i = a LOWER bound of the instant attempt i started (the harness knows when the
         previous attempt was answered); the ttl is antitone in the start, so the output is an
         UPPER bound of the field any correct attempt can deliver
   out : per attempt the largest ttl field (ms) the destination may see, 0 when the attempt has
         under a millisecond left (it fails locally) *)
Definition attempt_bound (overall tpa : Z) (maxes : list Z) (start : Z) : Z :=
  match attempt_field SrcAttempt overall start tpa start maxes with
  | Some f => f
  | None => 0
  end.

Definition run_ttl_attempt (c : list Z) : list Z :=
  match c with
  | overall :: tpa :: r =>
      let '(maxes, r1) := take_list take1 r in
      let '(starts, _) := take_list take1 r1 in
      map (attempt_bound overall tpa maxes) starts
  | _ => [-1]
  end.
