(* Harness entry point of the "response with a gap" scenarios (property C08, engine relaygap):
   the relay bookkeeping model of Model/RelayItems.v (relay.go handleCallReq / handleNonCallReq /
   Receive / failRelayItem / relayItems / relay timers) replayed on the schedule the engine
   forces on the real relay:

     a call req (id 7) read on connection 0 is relayed to connection 1 (destination id 1) and
     handled to completion; then the destination's frames with id 1 arrive one at a time on
     connection 1, each handled to completion by the reader of connection 1 while the send
     queue of connection 0 has room (room = 1) or is full behind a stalled writer (room = 0).

   No relay timer fires (the ttl is far longer than the scenario).
   input : maxtombs nframes (mt flags code room)*
   output: per frame the number of frames it put on the send queue of connection 0, then
           #Failed callbacks, #End callbacks, #live (non-tombstone) relay items, #tombstones;
           -2 = a step of the schedule is not enabled in the model
   No proofs in this file (Proofs/RelayGapP.v). *)
From Coq Require Import ZArith List Bool.
From Verif Require Import Base.Wrap Base.Wire Gen.GenConsts Gen.GenFrame Model.RelayItems.
Import ListNotations.
Local Open Scope Z_scope.

Definition gap_cf (maxtombs : Z) : config := {| cf_maxtombs := maxtombs; cf_cancel := false |}.
Definition gap_env : env := {| e_start := 0; e_code := 0; e_dest := 1; e_mode := 0 |}.
Definition gap_req : frame :=
  {| f_mt := c_messageTypeCallReq; f_id := 7; f_flags := 0; f_code := 0; f_wf := true |}.

(* goroutine t handles its frame to completion: every send-queue attempt sees [room] *)
Fixpoint gap_finish (cf : config) (fuel : nat) (st : state) (t : tid) (room : bool) : option state :=
  match lookup tid_eqb t (threads st) with
  | None => Some st
  | Some _ =>
      match fuel with
      | O => None
      | S n => match step cf st (LStep t room) with
               | Some st' => gap_finish cf n st' t room
               | None => None
               end
      end
  end.

Definition gap_count_sent (st : state) (k : Z) : Z := zlen (filter (fun p => fst p =? k) (sent st)).
Definition gap_count_cb (st : state) (p : cb -> bool) : Z := zlen (filter (fun e => p (snd e)) (cblog st)).
Definition gap_is_failed (x : cb) : bool := match x with CbFailed _ => true | _ => false end.
Definition gap_is_end (x : cb) : bool := match x with CbEnd => true | _ => false end.
Definition gap_live (st : state) : Z := zlen (filter (fun e => negb (it_tomb (snd e))) (items st)).

Definition gap_tombs (st : state) : Z := zlen (filter (fun e => it_tomb (snd e)) (items st)).

Definition gap_tail (st : state) : list Z :=
  [gap_count_cb st gap_is_failed; gap_count_cb st gap_is_end; gap_live st; gap_tombs st].

(* one destination frame: arrival on connection 1 and the whole handling *)
Definition gap_frame (cf : config) (st : state) (mt fl code room : Z) : option state :=
  let f := {| f_mt := mt; f_id := 1; f_flags := fl; f_code := code; f_wf := true |} in
  match step cf st (LArrive 1 f gap_env) with
  | None => None
  | Some st1 => gap_finish cf 64 st1 (TR 1) (bz room)
  end.

Fixpoint gap_frames (cf : config) (n : nat) (l : list Z) (st : state) : list Z :=
  match n with
  | O => gap_tail st
  | S n' =>
      match l with
      | mt :: fl :: code :: room :: r =>
          match gap_frame cf st mt fl code room with
          | None => [-2]
          | Some st2 => (gap_count_sent st2 0 - gap_count_sent st 0) :: gap_frames cf n' r st2
          end
      | _ => [-3]
      end
  end.

(* the call req of the scenario relayed from connection 0 to connection 1 *)
Definition gap_start (cf : config) : option state :=
  match step cf init (LArrive 0 gap_req gap_env) with
  | None => None
  | Some st1 => gap_finish cf 64 st1 (TR 0) true
  end.

Definition run_relaygap (c : list Z) : list Z :=
  match c with
  | maxtombs :: n :: r =>
      match gap_start (gap_cf maxtombs) with
      | None => [-2]
      | Some st => gap_frames (gap_cf maxtombs) (Z.to_nat n) r st
      end
  | _ => [-1]
  end.
