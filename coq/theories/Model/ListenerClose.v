(* Hand model of tnet/listener.go: the wrapper that guarantees that no connection is accepted
   after Close returned.  refs/cond protocol:
     Accept:  incRef (LA1); underlying Accept begins (LA2) and returns (LA3); deferred decRef (LA4)
     Close:   underlying Close (LK1; an error -- already closed -- is returned at once);
              cond.L.Lock; for refs > 0 { cond.Wait() }; Unlock (LK2: enabled when refs = 0)
   Assumption about the kernel/net package (the reason the wrapper exists): an underlying Accept
   that BEGAN before the underlying Close may still return a connection afterwards; one that
   begins after it fails.  An underlying Accept may return an error at any time. *)
From Coq Require Import ZArith List Bool.
From Verif Require Import Model.CloseKernel.
Import ListNotations.
Local Open Scope Z_scope.

Inductive lpc :=
| LA1 | LA2 | LA3 (began_open : bool) | LA4 (got_conn : bool) | LADone (got_conn : bool)
| LK1 | LK2 | LKDone (ok : bool).

Record lsys := mkL { refs : Z; lclosed : bool; lthr : list lpc }.

Inductive llabel := LAccept | LCloseL | LRunL (tid : nat) (ok : bool).

Definition ltstep (s : lsys) (p : lpc) (ok : bool) : option (Z * bool * lpc) :=
  match p with
  | LA1 => Some (refs s + 1, lclosed s, LA2)
  | LA2 => Some (refs s, lclosed s, LA3 (negb (lclosed s)))
  | LA3 b => if ok && negb b then None else Some (refs s, lclosed s, LA4 ok)
  | LA4 g => Some (refs s - 1, lclosed s, LADone g)
  | LK1 => if lclosed s then Some (refs s, true, LKDone false) else Some (refs s, true, LK2)
  | LK2 => if refs s =? 0 then Some (refs s, lclosed s, LKDone true) else None
  | LADone _ | LKDone _ => None
  end.

Definition lstep (s : lsys) (l : llabel) : option lsys :=
  match l with
  | LAccept => Some (mkL (refs s) (lclosed s) (lthr s ++ [LA1]))
  | LCloseL => Some (mkL (refs s) (lclosed s) (lthr s ++ [LK1]))
  | LRunL tid ok =>
      match nth_error (lthr s) tid with
      | None => None
      | Some p => match ltstep s p ok with
                  | None => None
                  | Some (r, c, p') => Some (mkL r c (upd (lthr s) tid p'))
                  end
      end
  end.

Definition linit : lsys := mkL 0 false [].
