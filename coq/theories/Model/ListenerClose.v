(* Hand model of tnet/listener.go: the wrapper that guarantees that no connection is accepted
   after Close returned.  refs/cond protocol:
     Accept:  incRef (LA1); underlying Accept begins (LA2) and returns (LA3); deferred decRef (LA4)
     Close:   underlying Close (LK1; an error -- already closed -- is returned at once);
              cond.L.Lock; for refs > 0 { cond.Wait() }; Unlock (LK2: enabled when refs = 0)
   Assumption about the kernel/net package (the reason the wrapper exists): an underlying Accept
   that BEGAN before the underlying Close may still return a connection afterwards; one that
   begins after it fails.  An underlying Accept may return an error at any time. *)
From Coq Require Import ZArith List Bool.
From Verif Require Import Model.CloseKernel.
Import ListNotations.
Local Open Scope Z_scope.

Inductive lpc :=
| LA1 | LA2 | LA3 (began_open : bool) | LA4 (got_conn : bool) | LADone (got_conn : bool)
| LK1 | LK2 | LKDone (ok : bool).

Record lsys := mkL { refs : Z; lclosed : bool; lthr : list lpc }.

Inductive llabel := LAccept | LCloseL | LRunL (tid : nat) (ok : bool).

Definition ltstep (s : lsys) (p : lpc) (ok : bool) : option (Z * bool * lpc) :=
  match p with
  | LA1 => Some (refs s + 1, lclosed s, LA2)
  | LA2 => Some (refs s, lclosed s, LA3 (negb (lclosed s)))
  | LA3 b => if ok && negb b then None else Some (refs s, lclosed s, LA4 ok)
  | LA4 g => Some (refs s - 1, lclosed s, LADone g)
  | LK1 => if lclosed s then Some (refs s, true, LKDone false) else Some (refs s, true, LK2)
  | LK2 => if refs s =? 0 then Some (refs s, lclosed s, LKDone true) else None
  | LADone _ | LKDone _ => None
  end.

Definition lstep (s : lsys) (l : llabel) : option lsys :=
  match l with
  | LAccept => Some (mkL (refs s) (lclosed s) (lthr s ++ [LA1]))
  | LCloseL => Some (mkL (refs s) (lclosed s) (lthr s ++ [LK1]))
  | LRunL tid ok =>
      match nth_error (lthr s) tid with
      | None => None
      | Some p => match ltstep s p ok with
                  | None => None
                  | Some (r, c, p') => Some (mkL r c (upd (lthr s) tid p'))
                  end
      end
  end.

Definition linit : lsys := mkL 0 false [].

(* ---- harness entry point (engine listenerclose) -------------------------------------------
   The engine drives the real tnet wrapper over a scripted underlying listener that follows the
   assumption above: an underlying Accept that begins after the underlying Close fails at once,
   one that began before parks until the script lets it return (a connection or an error, also
   after the underlying Close).  Every Accept / Close call is its own goroutine = model thread
   (thread id = number of calls made before it).
   case:  nops (op a)*
     op 0: a goroutine calls Accept and runs until it is parked inside the underlying Accept
           (LA1, LA2) -- or, when the underlying listener was already closed, to its end
     op 1: the parked Accept of thread a returns a connection;  op 2: it returns an error
           (LA3, LA4; -1 when thread a is not a parked Accept)
     op 3: a goroutine calls Close (LK1)
     op 4: the connection accepted by thread a is closed (no effect on the listener)
   After every op the Close calls waiting for refs = 0 return if they can (LK2), then the
   observation:  code refs underlying-closed #parked-accepts #accepts-returned-conn
                 #accepts-returned-error #closes-blocked #closes-returned-nil #closes-returned-error *)
Fixpoint lsettle_from (fuel : nat) (i : nat) (s : lsys) : lsys :=
  match fuel with
  | O => s
  | S f =>
      let s' := match nth_error (lthr s) i with
                | Some LK2 => match lstep s (LRunL i true) with Some s1 => s1 | None => s end
                | _ => s
                end in
      lsettle_from f (S i) s'
  end.
Definition lsettle (s : lsys) : lsys := lsettle_from (length (lthr s)) 0 s.

Definition lrun2 (s : lsys) (tid : nat) (ok : bool) : option lsys :=
  match lstep s (LRunL tid ok) with
  | Some s1 => lstep s1 (LRunL tid ok)
  | None => None
  end.

Definition lop (s : lsys) (op a : Z) : lsys * Z :=
  if op =? 0 then
    let tid := length (lthr s) in
    match lstep s LAccept with
    | Some s1 =>
        match lrun2 s1 tid true with
        | Some s2 =>
            match nth_error (lthr s2) tid with
            | Some (LA3 false) => match lrun2 s2 tid false with Some s3 => (s3, 0) | None => (s, -1) end
            | _ => (s2, 0)
            end
        | None => (s, -1)
        end
    | None => (s, -1)
    end
  else if (op =? 1) || (op =? 2) then
    let tid := Z.to_nat a in
    match nth_error (lthr s) tid with
    | Some (LA3 _) => match lrun2 s tid (op =? 1) with Some s1 => (s1, 0) | None => (s, -1) end
    | _ => (s, -1)
    end
  else if op =? 3 then
    let tid := length (lthr s) in
    match lstep s LCloseL with
    | Some s1 => match lstep s1 (LRunL tid true) with Some s2 => (s2, 0) | None => (s, -1) end
    | None => (s, -1)
    end
  else (s, 0).

Definition lcount (f : lpc -> bool) (s : lsys) : Z := Z.of_nat (count_if f (lthr s)).

Definition lobs (s : lsys) (code : Z) : list Z :=
  [code; refs s; (if lclosed s then 1 else 0);
   lcount (fun p => match p with LA3 _ => true | _ => false end) s;
   lcount (fun p => match p with LADone true => true | _ => false end) s;
   lcount (fun p => match p with LADone false => true | _ => false end) s;
   lcount (fun p => match p with LK2 => true | _ => false end) s;
   lcount (fun p => match p with LKDone true => true | _ => false end) s;
   lcount (fun p => match p with LKDone false => true | _ => false end) s].

Fixpoint lrun_ops (n : nat) (s : lsys) (l : list Z) : list Z :=
  match n with
  | O => []
  | S n' =>
      match l with
      | op :: a :: r =>
          let '(s1, code) := lop s op a in
          let s2 := lsettle s1 in
          lobs s2 code ++ lrun_ops n' s2 r
      | _ => [-9]
      end
  end.

Definition run_listenerclose (c : list Z) : list Z :=
  match c with
  | nops :: r => lrun_ops (Z.to_nat nops) linit r
  | _ => [-9]
  end.
