(* Hand model of mex.go: messageExchangeSet / messageExchange as an interleaving system,
   plus Connection.NextMessageID (connection.go:525-527).

   One label = one atomic action of the Go code (one lock-protected region of the mexset
   mutex, one atomic/CAS, one channel operation / select).  Threads:
     - the connection reader (single goroutine per connection, connection.go readFrames):
         mexset.forwardPeerFrame = LLookup ; (LFwdNil | LFwdCheck ; (LFwdSend|LFwdCtxDone|LFwdErr))
     - one consumer per exchange (the goroutine reading the call's arguments):
         mex.recvPeerFrame = LRecvCheck ; (LRecvFrame|LRecvCtxDone|LRecvErr)
     - mex.shutdown = LShutCAS ; LShutNotify ; LShutRemove    (any number of callers; the CAS elects one)
     - expireExchange / removeExchange = LExpire / LRemoveId (one locked region each)
     - stopExchanges = LStopCopy ; LStopNotify*                (any number of callers)
     - newExchange = LNew (one locked region)
     - the environment: LCtx (deadline timer / cancellation of an exchange's context)
   Exchanges are identified by a ghost reference (allocation index) because message ids
   can be reused over time.  Ghost history (never read by the modelled code): s_wire,
   g_from, g_to, g_arrived, g_delivered, g_received.

   [fx] selects the code: true = the repaired messageExchange.forwardPeerFrame (a frame
   dropped because the error latch is set and the queue is full makes every later frame of
   the exchange refused too: frameDropped); false = the pinned code (no such flag).
   Not modelled: logging, onCtxErr/onCancel (sends a cancel frame), handleCancel (it is
   [LCtx r 2] of the environment), recvPeerFrameOfType's decoding of error frames,
   unbuffered exchanges (bufferSize 0; the library passes 2 and 1 only). *)
From Coq Require Import ZArith List Bool.
From Verif Require Import Base.Wrap Base.Wire Gen.GenConsts Gen.GenMex.
Import ListNotations.
Local Open Scope Z_scope.

Record frame := mkF { f_id : Z; f_tag : Z }.

(* error enum of the observables *)
Definition E_TIMEOUT : Z := 1.      (* ErrTimeout          = GetContextError(DeadlineExceeded) *)
Definition E_CANCELLED : Z := 2.    (* ErrRequestCancelled = GetContextError(Canceled) *)
Definition E_MEXSHUTDOWN : Z := 3.  (* errMexShutdown *)
Definition E_UNEXPECTED : Z := 4.   (* errUnexpectedFrameType *)
Definition E_DUPLICATE : Z := 5.    (* errDuplicateMex *)
Definition E_SETSHUTDOWN : Z := 6.  (* errMexSetShutdown *)
(* codes >= 10: the error handed to stopExchanges by the connection *)

Definition ctx_err (k : Z) : Z := if k =? 1 then E_TIMEOUT else E_CANCELLED.

Record ghost := mkG {
  g_from : nat;             (* length of s_wire when the exchange was registered *)
  g_to : option nat;        (* length of s_wire when it left the exchanges map *)
  g_arrived : list frame;   (* frames for which the reader's lookup returned this exchange *)
  g_delivered : list frame; (* frames put on recvCh *)
  g_received : list frame   (* frames returned by recvPeerFrame *)
}.

Record mex := mkMex {
  m_id : Z;
  m_cap : Z;            (* cap(recvCh) *)
  m_queue : list frame; (* recvCh *)
  m_ctx : Z;            (* ctx.Err(): 0 nil | 1 DeadlineExceeded | 2 Canceled *)
  m_err : Z;            (* errCh: 0 = not notified, else the notified error *)
  m_notified : bool;    (* errChNotified *)
  m_shut : bool;        (* shutdownAtomic *)
  m_dropped : bool;     (* frameDropped (repaired code only) *)
  m_spc : Z;            (* the elected shutdown() caller: 0 not started | 1 notify next | 2 remove next | 3 done *)
  m_cpc : bool;         (* consumer inside recvPeerFrame, past the context check *)
  m_g : ghost
}.

Inductive rpc := RIdle | RLooked (f : frame) (m : option nat) | RSelect (f : frame) (r : nat).

Record st := mkSt {
  s_exch : list (Z * nat);   (* exchanges        map[uint32]*messageExchange *)
  s_expired : list Z;        (* expiredExchanges map[uint32]struct{} *)
  s_shutdown : bool;
  s_mexes : list mex;        (* every exchange ever registered; index = reference *)
  s_reader : rpc;
  s_stop : list (nat * Z);   (* exchanges copied by running stopExchanges calls, not yet notified *)
  s_added : Z;               (* onAdded calls *)
  s_removed : Z;             (* onRemoved calls *)
  s_wire : list frame        (* ghost: every frame the reader looked up, in order *)
}.

Definition init : st := mkSt [] [] false [] RIdle [] 0 0 [].

Inductive label :=
| LNew (id cap : Z)
| LLookup (f : frame)
| LFwdNil
| LFwdCheck
| LFwdSend
| LFwdCtxDone
| LFwdErr
| LRecvCheck (r : nat)
| LRecvFrame (r : nat)
| LRecvCtxDone (r : nat)
| LRecvErr (r : nat)
| LCtx (r : nat) (k : Z)
| LShutCAS (r : nat)
| LShutNotify (r : nat)
| LShutRemove (r : nat)
| LExpire (r : nat)
| LRemoveId (id : Z)
| LStopCopy (err : Z)
| LStopNotify (k : nat).

(* ---- record updates ---- *)
Definition set_g (g : ghost) (e : mex) : mex :=
  mkMex (m_id e) (m_cap e) (m_queue e) (m_ctx e) (m_err e) (m_notified e) (m_shut e) (m_dropped e) (m_spc e) (m_cpc e) g.
Definition set_queue (q : list frame) (e : mex) : mex :=
  mkMex (m_id e) (m_cap e) q (m_ctx e) (m_err e) (m_notified e) (m_shut e) (m_dropped e) (m_spc e) (m_cpc e) (m_g e).
Definition set_ctx (k : Z) (e : mex) : mex :=
  mkMex (m_id e) (m_cap e) (m_queue e) k (m_err e) (m_notified e) (m_shut e) (m_dropped e) (m_spc e) (m_cpc e) (m_g e).
Definition set_dropped (b : bool) (e : mex) : mex :=
  mkMex (m_id e) (m_cap e) (m_queue e) (m_ctx e) (m_err e) (m_notified e) (m_shut e) b (m_spc e) (m_cpc e) (m_g e).
Definition set_cpc (b : bool) (e : mex) : mex :=
  mkMex (m_id e) (m_cap e) (m_queue e) (m_ctx e) (m_err e) (m_notified e) (m_shut e) (m_dropped e) (m_spc e) b (m_g e).
Definition set_spc (p : Z) (e : mex) : mex :=
  mkMex (m_id e) (m_cap e) (m_queue e) (m_ctx e) (m_err e) (m_notified e) (m_shut e) (m_dropped e) p (m_cpc e) (m_g e).
Definition set_shut (e : mex) : mex :=
  mkMex (m_id e) (m_cap e) (m_queue e) (m_ctx e) (m_err e) (m_notified e) true (m_dropped e) 1 (m_cpc e) (m_g e).
(* if mex.errChNotified.CAS(false, true) { mex.errCh.Notify(err) } ; Notify keeps the first error *)
Definition notify (err : Z) (e : mex) : mex :=
  if m_notified e then e
  else mkMex (m_id e) (m_cap e) (m_queue e) (m_ctx e) (if m_err e =? 0 then err else m_err e) true (m_shut e)
             (m_dropped e) (m_spc e) (m_cpc e) (m_g e).

Definition g_arrive (f : frame) (e : mex) : mex :=
  let g := m_g e in set_g (mkG (g_from g) (g_to g) (g_arrived g ++ [f]) (g_delivered g) (g_received g)) e.
Definition g_close (n : nat) (e : mex) : mex :=
  let g := m_g e in
  set_g (mkG (g_from g) (match g_to g with None => Some n | t => t end) (g_arrived g) (g_delivered g) (g_received g)) e.
(* recvCh <- frame *)
Definition enqueue (f : frame) (e : mex) : mex :=
  let g := m_g e in
  set_g (mkG (g_from g) (g_to g) (g_arrived g) (g_delivered g ++ [f]) (g_received g)) (set_queue (m_queue e ++ [f]) e).
Definition g_receive (f : frame) (e : mex) : mex :=
  let g := m_g e in set_g (mkG (g_from g) (g_to g) (g_arrived g) (g_delivered g) (g_received g ++ [f])) e.

Fixpoint upd {A} (n : nat) (f : A -> A) (l : list A) : list A :=
  match l, n with
  | [], _ => []
  | x :: r, O => f x :: r
  | x :: r, S n' => x :: upd n' f r
  end.

Definition set_mexes (m : list mex) (s : st) : st :=
  mkSt (s_exch s) (s_expired s) (s_shutdown s) m (s_reader s) (s_stop s) (s_added s) (s_removed s) (s_wire s).
Definition set_reader (p : rpc) (s : st) : st :=
  mkSt (s_exch s) (s_expired s) (s_shutdown s) (s_mexes s) p (s_stop s) (s_added s) (s_removed s) (s_wire s).
Definition set_exch (x : list (Z * nat)) (s : st) : st :=
  mkSt x (s_expired s) (s_shutdown s) (s_mexes s) (s_reader s) (s_stop s) (s_added s) (s_removed s) (s_wire s).
Definition set_expired (x : list Z) (s : st) : st :=
  mkSt (s_exch s) x (s_shutdown s) (s_mexes s) (s_reader s) (s_stop s) (s_added s) (s_removed s) (s_wire s).
Definition set_stop (x : list (nat * Z)) (s : st) : st :=
  mkSt (s_exch s) (s_expired s) (s_shutdown s) (s_mexes s) (s_reader s) x (s_added s) (s_removed s) (s_wire s).
Definition on_removed (s : st) : st :=
  mkSt (s_exch s) (s_expired s) (s_shutdown s) (s_mexes s) (s_reader s) (s_stop s) (s_added s) (s_removed s + 1) (s_wire s).
Definition upd_mex (r : nat) (f : mex -> mex) (s : st) : st := set_mexes (upd r f (s_mexes s)) s.

(* ---- the exchanges map ---- *)
Fixpoint lookup (id : Z) (m : list (Z * nat)) : option nat :=
  match m with
  | [] => None
  | (k, r) :: rest => if k =? id then Some r else lookup id rest
  end.
Definition remove_key (id : Z) (m : list (Z * nat)) : list (Z * nat) :=
  filter (fun p => negb (fst p =? id)) m.

(* deleteExchange (with the mexset lock held): (state, found, timedOut) *)
Definition delete_exchange (id : Z) (s : st) : st * bool * bool :=
  match lookup id (s_exch s) with
  | Some r => (set_exch (remove_key id (s_exch s)) (upd_mex r (g_close (length (s_wire s))) s), true, false)
  | None =>
      if existsb (Z.eqb id) (s_expired s)
      then (set_expired (filter (fun x => negb (x =? id)) (s_expired s)) s, false, true)
      else (s, false, false)
  end.

(* removeExchange: Lock; deleteExchange; Unlock; if found || expired { onRemoved() } *)
Definition remove_exchange (id : Z) (s : st) : st :=
  let '(s', found, expired) := delete_exchange id s in
  if found || expired then on_removed s' else s'.

(* expireExchange: Lock; deleteExchange; if found || expired { expiredExchanges[id] = {} }; Unlock; onRemoved() *)
Definition set_add (id : Z) (l : list Z) : list Z := if existsb (Z.eqb id) l then l else id :: l.
Definition expire_exchange (id : Z) (s : st) : st :=
  let '(s', found, expired) := delete_exchange id s in
  on_removed (if found || expired then set_expired (set_add id (s_expired s')) s' else s').

Definition new_mex (id cap : Z) (from : nat) : mex :=
  mkMex id cap [] 0 0 false false false 0 false (mkG from None [] [] []).

(* ---- one atomic step; the second component is what the acting goroutine observes ---- *)
Definition step_obs (fx : bool) (s : st) (l : label) : option (st * list Z) :=
  match l with
  | LNew id cap =>
      (* make(chan *Frame, bufferSize) panics for a negative size; size 0 is not modelled *)
      if cap <? 1 then None
      else if s_shutdown s then Some (s, [E_SETSHUTDOWN])
      else match lookup id (s_exch s) with
           | Some _ => Some (s, [E_DUPLICATE])
           | None =>
               let r := length (s_mexes s) in
               Some (mkSt ((id, r) :: s_exch s) (s_expired s) (s_shutdown s)
                          (s_mexes s ++ [new_mex id cap (length (s_wire s))])
                          (s_reader s) (s_stop s) (s_added s + 1) (s_removed s) (s_wire s),
                     [0; Z.of_nat r])
           end
  | LLookup f =>
      match s_reader s with
      | RIdle =>
          let m := lookup (f_id f) (s_exch s) in
          let s1 := match m with Some r => upd_mex r (g_arrive f) s | None => s end in
          Some (mkSt (s_exch s1) (s_expired s1) (s_shutdown s1) (s_mexes s1) (RLooked f m) (s_stop s1)
                     (s_added s1) (s_removed s1) (s_wire s1 ++ [f]), [])
      | _ => None
      end
  | LFwdNil =>
      match s_reader s with
      | RLooked f None => Some (set_reader RIdle s, [0])
      | _ => None
      end
  | LFwdCheck =>
      match s_reader s with
      | RLooked f (Some r) =>
          match nth_error (s_mexes s) r with
          | Some e =>
              if negb (m_ctx e =? 0) then Some (set_reader RIdle s, [ctx_err (m_ctx e)])
              else if m_dropped e then Some (set_reader RIdle s, [m_err e])
              else Some (set_reader (RSelect f r) s, [])
          | None => None
          end
      | _ => None
      end
  | LFwdSend =>
      match s_reader s with
      | RSelect f r =>
          match nth_error (s_mexes s) r with
          | Some e => if zlen (m_queue e) <? m_cap e
                      then Some (set_reader RIdle (upd_mex r (enqueue f) s), [0]) else None
          | None => None
          end
      | _ => None
      end
  | LFwdCtxDone =>
      match s_reader s with
      | RSelect f r =>
          match nth_error (s_mexes s) r with
          | Some e => if negb (m_ctx e =? 0) then Some (set_reader RIdle s, [ctx_err (m_ctx e)]) else None
          | None => None
          end
      | _ => None
      end
  | LFwdErr =>
      match s_reader s with
      | RSelect f r =>
          match nth_error (s_mexes s) r with
          | Some e =>
              if m_err e =? 0 then None
              else if zlen (m_queue e) <? m_cap e
                   then Some (set_reader RIdle (upd_mex r (enqueue f) s), [0])
                   else Some (set_reader RIdle (upd_mex r (set_dropped fx) s), [m_err e])
          | None => None
          end
      | _ => None
      end
  | LRecvCheck r =>
      match nth_error (s_mexes s) r with
      | Some e =>
          if m_cpc e then None
          else if negb (m_ctx e =? 0) then Some (s, [ctx_err (m_ctx e)])
          else Some (upd_mex r (set_cpc true) s, [])
      | None => None
      end
  | LRecvFrame r =>
      match nth_error (s_mexes s) r with
      | Some e =>
          if m_cpc e then
            match m_queue e with
            | f :: q =>
                if mexCheckFrame (f_id f) (m_id e) =? 0
                then Some (upd_mex r (fun e => g_receive f (set_cpc false (set_queue q e))) s, [0; f_tag f])
                else Some (upd_mex r (fun e => set_cpc false (set_queue q e)) s, [E_UNEXPECTED])
            | [] => None
            end
          else None
      | None => None
      end
  | LRecvCtxDone r =>
      match nth_error (s_mexes s) r with
      | Some e =>
          if m_cpc e && negb (m_ctx e =? 0) then Some (upd_mex r (set_cpc false) s, [ctx_err (m_ctx e)]) else None
      | None => None
      end
  | LRecvErr r =>
      match nth_error (s_mexes s) r with
      | Some e =>
          if m_cpc e && negb (m_err e =? 0) then
            match m_queue e with
            | f :: q =>
                if mexCheckFrame (f_id f) (m_id e) =? 0
                then Some (upd_mex r (fun e => g_receive f (set_cpc false (set_queue q e))) s, [0; f_tag f])
                else Some (upd_mex r (fun e => set_cpc false (set_queue q e)) s, [E_UNEXPECTED])
            | [] => Some (upd_mex r (set_cpc false) s, [m_err e])
            end
          else None
      | None => None
      end
  | LCtx r k =>
      match nth_error (s_mexes s) r with
      | Some e => if (k =? 1) || (k =? 2)
                  then Some (if m_ctx e =? 0 then upd_mex r (set_ctx k) s else s, []) else None
      | None => None
      end
  | LShutCAS r =>
      match nth_error (s_mexes s) r with
      | Some e => if m_shut e then Some (s, [0]) else Some (upd_mex r set_shut s, [1])
      | None => None
      end
  | LShutNotify r =>
      match nth_error (s_mexes s) r with
      | Some e => if m_spc e =? 1 then Some (upd_mex r (fun e => set_spc 2 (notify E_MEXSHUTDOWN e)) s, []) else None
      | None => None
      end
  | LShutRemove r =>
      match nth_error (s_mexes s) r with
      | Some e => if m_spc e =? 2 then Some (remove_exchange (m_id e) (upd_mex r (set_spc 3) s), []) else None
      | None => None
      end
  | LExpire r =>
      match nth_error (s_mexes s) r with
      | Some e => Some (expire_exchange (m_id e) s, [])
      | None => None
      end
  | LRemoveId id => Some (remove_exchange id s, [])
  | LStopCopy err =>
      (* Notify(nil) panics; the connection always passes an error *)
      if err =? 0 then None
      else if s_shutdown s then Some (s, [1])
      else Some (mkSt (s_exch s) (s_expired s) true (s_mexes s) (s_reader s)
                      (s_stop s ++ map (fun p => (snd p, err)) (s_exch s)) (s_added s) (s_removed s) (s_wire s), [0])
  | LStopNotify k =>
      match nth_error (s_stop s) k with
      | Some (r, err) =>
          Some (set_stop (firstn k (s_stop s) ++ skipn (S k) (s_stop s)) (upd_mex r (notify err) s), [])
      | None => None
      end
  end.

(* the system the theorems are about: the repaired code *)
Definition step (s : st) (l : label) : option st := option_map fst (step_obs true s l).
Definition step_pinned (s : st) (l : label) : option st := option_map fst (step_obs false s l).

Fixpoint run_from (stp : st -> label -> option st) (s : st) (ls : list label) : option st :=
  match ls with
  | [] => Some s
  | l :: r => match stp s l with Some s' => run_from stp s' r | None => None end
  end.
Definition run (ls : list label) : option st := run_from step init ls.
Definition run_pinned (ls : list label) : option st := run_from step_pinned init ls.

(* ---- Connection.NextMessageID: c.nextMessageID.Inc() on an atomic uint32 ---- *)
Definition next_id (cur : Z) : Z := wrapU 32 (cur + 1).
Fixpoint alloc_ids (n : nat) (cur : Z) : list Z :=
  match n with
  | O => []
  | S n' => next_id cur :: alloc_ids n' (next_id cur)
  end.

(* ==== harness entry points ===================================================== *)

(* Script semantics used by the correspondence engine: a controller issues one operation
   at a time; Forward and Recv start a goroutine that runs until it returns or blocks;
   after every operation all goroutines that can move run until they return or block
   (forwarder first, then consumers by reference; completions are reported in that order).
   Every state change goes through [step_obs]. *)
Record ctl := mkCtl {
  c_st : st;
  c_parked : bool;        (* the forwarder is held at mex.forward.afterLookup *)
  c_pend : list nat       (* exchanges with a consumer inside recvPeerFrame *)
}.

Definition try_labels (fx : bool) (s : st) (ls : list label) : option (st * list Z) :=
  fold_left (fun acc l => match acc with Some _ => acc | None => step_obs fx s l end) ls None.

(* advance the forwarder: Some (state, Some code) = returned code, Some (state, None) = blocked/idle *)
Definition fwd_advance (fx : bool) (s : st) : st * option Z :=
  match s_reader s with
  | RIdle => (s, None)
  | RLooked _ None =>
      match step_obs fx s LFwdNil with Some (s', o) => (s', Some (hd 0 o)) | None => (s, None) end
  | RLooked _ (Some _) =>
      match step_obs fx s LFwdCheck with
      | Some (s', c :: _) => (s', Some c)
      | Some (s', []) =>
          match try_labels fx s' [LFwdSend; LFwdCtxDone; LFwdErr] with
          | Some (s'', o) => (s'', Some (hd 0 o))
          | None => (s', None)
          end
      | None => (s, None)
      end
  | RSelect _ _ =>
      match try_labels fx s [LFwdSend; LFwdCtxDone; LFwdErr] with
      | Some (s'', o) => (s'', Some (hd 0 o))
      | None => (s, None)
      end
  end.

(* advance the consumer of r: result = list of ints (code, or 0 tag) when it returned *)
Definition cons_advance (fx : bool) (s : st) (r : nat) : st * option (list Z) :=
  let sel s := match try_labels fx s [LRecvFrame r; LRecvCtxDone r; LRecvErr r] with
               | Some (s', o) => (s', Some o)
               | None => (s, None)
               end in
  match nth_error (s_mexes s) r with
  | Some e =>
      if m_cpc e then sel s
      else match step_obs fx s (LRecvCheck r) with
           | Some (s', []) => sel s'
           | Some (s', o) => (s', Some o)
           | None => (s, None)
           end
  | None => (s, None)
  end.

Fixpoint insert_nat (x : nat) (l : list nat) : list nat :=
  match l with
  | [] => [x]
  | y :: r => if Nat.leb x y then x :: l else y :: insert_nat x r
  end.

(* one pass over the pending consumers (ascending); returns still-pending and completions *)
Fixpoint cons_pass (fx : bool) (s : st) (pend : list nat) : st * list nat * list (nat * list Z) :=
  match pend with
  | [] => (s, [], [])
  | r :: rest =>
      let '(s1, o) := cons_advance fx s r in
      let '(s2, p2, done) := cons_pass fx s1 rest in
      match o with
      | Some res => (s2, p2, (r, res) :: done)
      | None => (s2, r :: p2, done)
      end
  end.

Fixpoint ins_done (x : nat * list Z) (l : list (nat * list Z)) : list (nat * list Z) :=
  match l with
  | [] => [x]
  | y :: r => if Nat.leb (fst x) (fst y) then x :: l else y :: ins_done x r
  end.
Definition merge_done (a b : list (nat * list Z)) : list (nat * list Z) :=
  fold_left (fun acc x => ins_done x acc) b a.

(* settle: repeat passes (forwarder, consumers) while something moves *)
Fixpoint settle (fx : bool) (fuel : nat) (c : ctl) (fdone : option Z) (cdone : list (nat * list Z))
  : ctl * option Z * list (nat * list Z) :=
  match fuel with
  | O => (c, fdone, cdone)
  | S fuel' =>
      let '(s1, fo) := if c_parked c then (c_st c, None) else fwd_advance fx (c_st c) in
      let '(s2, pend, done) := cons_pass fx s1 (c_pend c) in
      let c' := mkCtl s2 (c_parked c) pend in
      let fdone' := match fo with Some x => Some x | None => fdone end in
      let cdone' := merge_done cdone done in
      match fo, done with
      | None, [] => (c', fdone', cdone')
      | _, _ => settle fx fuel' c' fdone' cdone'
      end
  end.

Definition put_completions (fdone : option Z) (cdone : list (nat * list Z)) : list Z :=
  (match fdone with Some x => [1; x] | None => [0] end) ++
  put_list (fun p => Z.of_nat (fst p) :: put_list (fun z => [z]) (snd p)) cdone.

Definition all_labels (fx : bool) (s : st) (ls : list label) : st :=
  fold_left (fun s l => match step_obs fx s l with Some (s', _) => s' | None => s end) ls s.

(* one scripted operation: immediate observation ++ completions after settling *)
Definition do_op (fx : bool) (c : ctl) (op : Z * Z * Z * Z) : ctl * list Z :=
  let '(k, a, b, d) := op in
  let s := c_st c in
  let fin (c1 : ctl) (imm : list Z) :=
    let '(c2, fdone, cdone) := settle fx 6 c1 None [] in
    (c2, imm ++ put_completions fdone cdone) in
  if k =? 0 then
    match step_obs fx s (LNew a b) with
    | Some (s', o) => fin (mkCtl s' (c_parked c) (c_pend c)) o
    | None => fin c [-1]
    end
  else if k =? 1 then
    match step_obs fx s (LLookup (mkF a b)) with
    | Some (s', _) => fin (mkCtl s' (negb (d =? 0)) (c_pend c)) [if d =? 0 then 0 else 1]
    | None => fin c [-2]
    end
  else if k =? 2 then fin (mkCtl s false (c_pend c)) [zb (c_parked c)]
  else if k =? 3 then
    let r := Z.to_nat a in
    match nth_error (s_mexes s) r with
    | Some e => if existsb (Nat.eqb r) (c_pend c) then fin c [-2]
                else fin (mkCtl s (c_parked c) (insert_nat r (c_pend c))) [0]
    | None => fin c [-1]
    end
  else if k =? 4 then
    match step_obs fx s (LCtx (Z.to_nat a) b) with
    | Some (s', _) => fin (mkCtl s' (c_parked c) (c_pend c)) [0]
    | None => fin c [-1]
    end
  else if k =? 5 then
    let r := Z.to_nat a in
    match step_obs fx s (LShutCAS r) with
    | Some (s', o) => fin (mkCtl (all_labels fx s' [LShutNotify r; LShutRemove r]) (c_parked c) (c_pend c)) o
    | None => fin c [-1]
    end
  else if k =? 6 then
    match step_obs fx s (LExpire (Z.to_nat a)) with
    | Some (s', _) => fin (mkCtl s' (c_parked c) (c_pend c)) [0]
    | None => fin c [-1]
    end
  else if k =? 7 then
    match step_obs fx s (LRemoveId a) with
    | Some (s', _) => fin (mkCtl s' (c_parked c) (c_pend c)) [0]
    | None => fin c [-1]
    end
  else if k =? 8 then
    match step_obs fx s (LStopCopy a) with
    | Some (s', o) =>
        (* the loop over the copied exchanges: always notify entry 0 until none is left *)
        let s'' := fold_left (fun s _ => match step_obs fx s (LStopNotify 0) with Some (x, _) => x | None => s end)
                             (s_stop s') s' in
        fin (mkCtl s'' (c_parked c) (c_pend c)) o
    | None => fin c [-1]
    end
  else if k =? 9 then fin c [zlen (s_exch s)]
  else fin c [-1].

Definition take_op (l : list Z) : (Z * Z * Z * Z) * list Z :=
  match l with
  | k :: a :: b :: d :: r => ((k, a, b, d), r)
  | _ => ((-1, 0, 0, 0), [])
  end.

Fixpoint insert_z (x : Z) (l : list Z) : list Z :=
  match l with
  | [] => [x]
  | y :: r => if x <=? y then x :: l else y :: insert_z x r
  end.
Definition sort_z (l : list Z) : list Z := fold_right insert_z [] l.

(* final dump: set-level state, then per exchange its flags and the tags left on recvCh *)
Definition dump (c : ctl) : list Z :=
  let s := c_st c in
  put_list (fun z => [z]) (sort_z (map fst (s_exch s))) ++
  put_list (fun z => [z]) (sort_z (s_expired s)) ++
  [zb (s_shutdown s); s_added s; s_removed s] ++
  put_list (fun e => [m_id e; m_ctx e; m_err e; zb (m_shut e)] ++ put_list (fun f => [f_tag f]) (m_queue e)) (s_mexes s).

Definition run_script (fx : bool) (ops : list (Z * Z * Z * Z)) : list Z :=
  let '(c, out) := fold_left (fun acc op => let '(c, out) := acc in
                                           let '(c', o) := do_op fx c op in (c', out ++ o))
                             ops (mkCtl init false [], []) in
  out ++ dump c.

(* case: nops (kind a b d)* *)
Definition run_mex (c : list Z) : list Z :=
  let '(ops, _) := take_list take_op c in run_script true ops.

(* case: start n  ->  the n ids handed out, in allocation order *)
Definition run_mexids (c : list Z) : list Z :=
  match c with
  | s :: n :: _ => alloc_ids (Z.to_nat n) s
  | _ => [-1]
  end.
