(* Hand model of the parts of connection.go / idle_sweep.go / channel.go that decide which
   connections an idle sweep closes:
     Connection.updateLastActivityRead/Write, getLastActivity*Time, hasPendingCalls,
     checkExchanges, close, connectionError, Channel.removeClosedConn,
     idleSweep.checkIdleConnections, idleSweep.start (enabled test).
   isMessageTypeCall, validateIdleCheck and the connection-state constants are regenerated
   from source (Gen/GenFrame.v, Gen/GenHealthIdle.v, Gen/GenConsts.v). *)
From Coq Require Import ZArith List Bool.
From Verif Require Import Base.Wrap Base.Wire Gen.GenConsts Gen.GenFrame Gen.GenHealthIdle Model.Health.
Import ListNotations.
Local Open Scope Z_scope.

(* ---- time ------------------------------------------------------------------------------
   A time.Time is its number of nanoseconds since the Unix epoch (unbounded).
   t.UnixNano() wraps to int64; time.Unix(0, n) is exact; t.Sub(u) saturates at the
   minimum / maximum Duration. *)
Definition unix_nano (t : Z) : Z := wrapS 64 t.
Definition min_duration : Z := - 2 ^ 63.
Definition max_duration : Z := 2 ^ 63 - 1.
Definition time_sub (t u : Z) : Z :=
  let d := t - u in
  if d <? min_duration then min_duration else if max_duration <? d then max_duration else d.

(* ---- one connection -------------------------------------------------------------------- *)
Record conn := {
  k_state : Z;            (* c.state: connectionActive .. connectionClosed *)
  k_lr : Z;               (* lastActivityRead  (unix nanoseconds) *)
  k_lw : Z;               (* lastActivityWrite *)
  k_inb : Z;              (* inbound exchanges (calls) *)
  k_outb : Z;             (* outbound exchanges that are calls *)
  k_pings : Z;            (* outbound exchanges that are pings *)
  k_relay : option Z;     (* None: c.relay == nil; Some n: relay.pending *)
  k_stopped : bool;       (* stoppedExchanges *)
  k_tracked : bool;       (* member of ch.mutable.conns *)
  k_hstatus : Z;          (* health goroutine: 0 none, 1 waiting for a tick, 2 ping in flight, 3 exited *)
  k_health : hloop        (* consecutiveFailures and healthCheckHistory *)
}.

Definition set_state (s : Z) (c : conn) : conn :=
  {| k_state := s; k_lr := k_lr c; k_lw := k_lw c; k_inb := k_inb c; k_outb := k_outb c; k_pings := k_pings c;
     k_relay := k_relay c; k_stopped := k_stopped c; k_tracked := k_tracked c; k_hstatus := k_hstatus c;
     k_health := k_health c |}.
Definition set_stamps (lr lw : Z) (c : conn) : conn :=
  {| k_state := k_state c; k_lr := lr; k_lw := lw; k_inb := k_inb c; k_outb := k_outb c; k_pings := k_pings c;
     k_relay := k_relay c; k_stopped := k_stopped c; k_tracked := k_tracked c; k_hstatus := k_hstatus c;
     k_health := k_health c |}.
Definition set_counts (inb outb pings : Z) (relay : option Z) (c : conn) : conn :=
  {| k_state := k_state c; k_lr := k_lr c; k_lw := k_lw c; k_inb := inb; k_outb := outb; k_pings := pings;
     k_relay := relay; k_stopped := k_stopped c; k_tracked := k_tracked c; k_hstatus := k_hstatus c;
     k_health := k_health c |}.
Definition set_stopped (b : bool) (c : conn) : conn :=
  {| k_state := k_state c; k_lr := k_lr c; k_lw := k_lw c; k_inb := k_inb c; k_outb := k_outb c; k_pings := k_pings c;
     k_relay := k_relay c; k_stopped := b; k_tracked := k_tracked c; k_hstatus := k_hstatus c;
     k_health := k_health c |}.
Definition set_tracked_h (tr : bool) (hs : Z) (c : conn) : conn :=
  {| k_state := k_state c; k_lr := k_lr c; k_lw := k_lw c; k_inb := k_inb c; k_outb := k_outb c; k_pings := k_pings c;
     k_relay := k_relay c; k_stopped := k_stopped c; k_tracked := tr; k_hstatus := hs;
     k_health := k_health c |}.
Definition set_health (hs : Z) (l : hloop) (c : conn) : conn :=
  {| k_state := k_state c; k_lr := k_lr c; k_lw := k_lw c; k_inb := k_inb c; k_outb := k_outb c; k_pings := k_pings c;
     k_relay := k_relay c; k_stopped := k_stopped c; k_tracked := k_tracked c; k_hstatus := hs;
     k_health := l |}.

(* newConnection: state Active, both stamps = ch.timeNow().UnixNano(); callOnActive starts the
   health goroutine when health checks are enabled; Channel.addConnection tracks it. *)
Definition new_conn (now : Z) (relay : bool) (health_on : bool) : conn :=
  {| k_state := c_connectionActive; k_lr := unix_nano now; k_lw := unix_nano now;
     k_inb := 0; k_outb := 0; k_pings := 0; k_relay := if relay then Some 0 else None;
     k_stopped := false; k_tracked := true; k_hstatus := if health_on then 1 else 0; k_health := hl_init |}.

(* updateLastActivityRead / updateLastActivityWrite *)
Definition update_read (now mt : Z) (c : conn) : conn :=
  if isMessageTypeCall mt then set_stamps (unix_nano now) (k_lw c) c else c.
Definition update_write (now mt : Z) (c : conn) : conn :=
  if isMessageTypeCall mt then set_stamps (k_lr c) (unix_nano now) c else c.

Definition is_active (c : conn) : bool := k_state c =? c_connectionActive.

(* Relayer.canClose (nil receiver => true) *)
Definition relay_can_close (c : conn) : bool :=
  match k_relay c with None => true | Some n => n =? 0 end.

(* messageExchangeSet.count() of the two sets; countCalls() leaves ping exchanges out *)
Definition inb_count (c : conn) : Z := k_inb c.
Definition outb_count (c : conn) : Z := k_outb c + k_pings c.

(* hasPendingCalls *)
Definition has_pending_calls (c : conn) : bool :=
  if (k_inb c >? 0) || (k_outb c >? 0) then true
  else if negb (relay_can_close c) then true
  else false.

(* checkExchanges: the state it leaves the connection in *)
Definition check_exchanges_state (c : conn) : Z :=
  let s0 := k_state c in
  let s1 := if negb (s0 =? c_connectionClosed) && k_stopped c then c_connectionClosed else s0 in
  if (s1 =? c_connectionStartClose) && negb (relay_can_close c) then s1 else
  let s2 := if (s1 =? c_connectionStartClose) && (inb_count c =? 0) then c_connectionInboundClosed else s1 in
  if (s2 =? c_connectionInboundClosed) && negb (relay_can_close c) then s2 else
  let s3 := if (s2 =? c_connectionInboundClosed) && (outb_count c =? 0) then c_connectionClosed else s2 in
  s3.

(* checkExchanges + its consequences when the state becomes Closed: callOnCloseStateChange ->
   Channel.removeClosedConn (untracked); close(stopCh) -> writeFrames -> closeNetwork ->
   stopHealthCheck (the health goroutine, if any, exits). *)
Definition check_exchanges (c : conn) : conn :=
  let s := check_exchanges_state c in
  let c' := set_state s c in
  if (s =? c_connectionClosed) && negb (k_state c =? c_connectionClosed)
  then set_tracked_h false (if k_hstatus c =? 0 then 0 else 3) c'
  else c'.

(* Connection.close: only an Active connection moves (to StartClose), then checkExchanges *)
Definition conn_close (c : conn) : conn :=
  if k_state c =? c_connectionActive then check_exchanges (set_state c_connectionStartClose c) else c.

(* connectionError (as run by the health goroutine through healthCheckConnectionError):
   health checks are marked stopped, close, stoppedExchanges := true (+ stopExchanges),
   checkExchanges *)
Definition conn_error (c : conn) : conn :=
  check_exchanges (set_stopped true (conn_close c)).

(* ---- the channel ----------------------------------------------------------------------- *)
Record config := {
  cf_idle_interval : Z;   (* ChannelOptions.IdleCheckInterval *)
  cf_max_idle : Z;        (* ChannelOptions.MaxIdleTime *)
  cf_health : hopts       (* ConnectionOptions.HealthChecks, after withDefaults *)
}.

Record chan := { ch_now : Z; ch_conns : list (Z * conn) }.

Fixpoint lookup (id : Z) (l : list (Z * conn)) : option conn :=
  match l with
  | [] => None
  | (i, c) :: r => if i =? id then Some c else lookup id r
  end.
Fixpoint update (id : Z) (c : conn) (l : list (Z * conn)) : list (Z * conn) :=
  match l with
  | [] => []
  | (i, c0) :: r => if i =? id then (i, c) :: r else (i, c0) :: update id c r
  end.

(* idleSweep.start: the poller runs only when idleCheckInterval > 0 *)
Definition sweep_enabled (cf : config) : bool := negb (cf_idle_interval cf <=? 0).

(* checkIdleConnections, first loop (under the read lock, over ch.mutable.conns in map order):
   lastActivityTime := read stamp, replaced by the write stamp when Before it;
   candidate when now.Sub(lastActivityTime) >= maxIdleTime *)
Definition last_activity (c : conn) : Z := if k_lr c <? k_lw c then k_lw c else k_lr c.
Definition idle_candidate (now max_idle : Z) (c : conn) : bool :=
  time_sub now (last_activity c) >=? max_idle.
Definition sweep_candidates (max_idle : Z) (s : chan) : list Z :=
  map fst (filter (fun ic => k_tracked (snd ic) && idle_candidate (ch_now s) max_idle (snd ic)) (ch_conns s)).

(* second loop: skip when not active, skip when it has pending calls, else close *)
Definition sweep_close_one (l : list (Z * conn)) (id : Z) : list (Z * conn) :=
  match lookup id l with
  | None => l
  | Some c =>
      if negb (is_active c) then l
      else if has_pending_calls c then l
      else update id (conn_close c) l
  end.

Definition sweep (max_idle : Z) (s : chan) : chan :=
  {| ch_now := ch_now s; ch_conns := fold_left sweep_close_one (sweep_candidates max_idle s) (ch_conns s) |}.

(* ids whose connection left the Active state between two channel states *)
Definition closed_between (l l' : list (Z * conn)) : list Z :=
  map fst (filter (fun ic => is_active (snd ic) &&
                            match lookup (fst ic) l' with Some c' => negb (is_active c') | None => false end) l).

(* ---- harness entry point for the option checks ---------------------------------------- *)
(* idleopts: interval maxIdle -> NewChannel accepts the options?  sweep poller started? *)
Definition run_idleopts (c : list Z) : list Z :=
  match c with
  | i :: m :: _ =>
      let ok := idleCheckOk i m in
      [zb ok; zb (ok && sweep_enabled {| cf_idle_interval := i; cf_max_idle := m; cf_health := {| ho_interval := 0; ho_timeout := 0; ho_failures := 0 |} |})]
  | _ => [-1]
  end.
