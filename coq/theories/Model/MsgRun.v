(* Harness entry points for the message/frame codec models (engine "msg"). *)
From Coq Require Import ZArith List Bool.
From Verif Require Import Base.Wrap Base.Wire Base.Bytes Gen.GenConsts Gen.GenFrame Model.TypedBuf Model.Messages.
Import ListNotations.
Local Open Scope Z_scope.

Definition take_span (l : list Z) : span * list Z :=
  match l with
  | a :: b :: c :: d :: r => (mkSpan a b c d, r)
  | _ => (mkSpan 0 0 0 0, [])
  end.
Definition put_span (s : span) : list Z := [sp_span s; sp_parent s; sp_trace s; sp_flags s].

(* kind cap id fields... -> status [frame bytes] *)
Definition run_msg_enc (c : list Z) : list Z :=
  match c with
  | kind :: cap :: id :: r =>
      let body_type : (wbuf -> wbuf) * Z :=
        if kind <=? 1 then
          let '(v, r1) := take1 r in
          let '(p, _) := take_list take_kv r1 in
          (w_init (mkInit v p), if kind =? 0 then c_messageTypeInitReq else c_messageTypeInitRes)
        else if kind =? 2 then
          let '(ttl, r1) := take1 r in
          let '(s, r2) := take_span r1 in
          let '(svc, r3) := take_bytes r2 in
          let '(h, _) := take_list take_kv r3 in
          (w_callreq (mkCallReq ttl s svc h), c_messageTypeCallReq)
        else if kind =? 3 then
          let '(code, r1) := take1 r in
          let '(s, r2) := take_span r1 in
          let '(h, _) := take_list take_kv r2 in
          (w_callres (mkCallRes code s h), c_messageTypeCallRes)
        else if kind =? 4 then
          let '(code, r1) := take1 r in
          let '(s, r2) := take_span r1 in
          let '(m, _) := take_bytes r2 in
          (w_error (mkErr code s m), c_messageTypeError)
        else if kind =? 5 then
          let '(ttl, r1) := take1 r in
          let '(s, r2) := take_span r1 in
          let '(m, _) := take_bytes r2 in
          (w_cancel (mkCancel ttl s m), c_messageTypeCancel)
        else if kind =? 6 then (w_nop, c_messageTypePingReq)
        else if kind =? 7 then (w_nop, c_messageTypePingRes)
        else if kind =? 8 then (w_nop, c_messageTypeCallReqContinue)
        else (w_nop, c_messageTypeCallResContinue) in
      let w := fst body_type (wb cap) in
      if werr w =? 0 then
        match frame_write cap (fst body_type) (snd body_type) id with
        | Some (h, payload) => 0 :: put_bytes (frame_out h payload)
        | None => [werr w]
        end
      else [werr w]
  | _ => [-1]
  end.

Definition put_kvs (h : kvs) : list Z := put_list put_kv (canon_map h).

(* kind payload -> err fields *)
Definition run_msg_dec (c : list Z) : list Z :=
  match c with
  | kind :: payload =>
      if kind <=? 1 then
        let '(m, r) := r_init (rb payload) in
        if rerr r then [1] else 0 :: im_version m :: put_kvs (im_params m)
      else if kind =? 2 then
        let '(m, r) := r_callreq (rb payload) in
        if rerr r then [1] else 0 :: cq_ttl_ns m :: put_span (cq_span m) ++ put_bytes (cq_service m) ++ put_kvs (cq_headers m) ++ [zlen (rrem r)]
      else if kind =? 3 then
        let '(m, r) := r_callres (rb payload) in
        if rerr r then [1] else 0 :: cs_code m :: put_span (cs_span m) ++ put_kvs (cs_headers m) ++ [zlen (rrem r)]
      else if kind =? 4 then
        let '(m, r) := r_error (rb payload) in
        if rerr r then [1] else 0 :: em_code m :: put_span (em_span m) ++ put_bytes (em_msg m)
      else if kind =? 5 then
        let '(m, r) := r_cancel (rb payload) in
        if rerr r then [1] else 0 :: cm_ttl m :: put_span (cm_span m) ++ put_bytes (cm_msg m)
      else [0]
  | _ => [-1]
  end.

(* stream -> code size type res1 id payload restlen *)
Definition run_frame_in (c : list Z) : list Z :=
  let '(code, h, payload, rest) := frame_read_in c in
  if code =? 0 then [0; fh_size h; fh_type h; fh_res1 h; fh_id h] ++ put_bytes payload ++ [zlen rest]
  else [code].

(* Frame.ReadIn followed by Frame.read(msg) (init / error / cancel messages):
   kind stream -> framecode [err fields] *)
Definition run_frame_dec (c : list Z) : list Z :=
  match c with
  | kind :: stream =>
      let '(code, h, payload, rest) := frame_read_in stream in
      if code =? 0 then 0 :: run_msg_dec (kind :: payload) else [code]
  | _ => [-1]
  end.

(* ---- reply headers (engine "msgreply"): the (message type, id) of the frames the library
   sends in answer to a request frame carrying [id].  One function per kind of request; the
   code behind each: preinit_connection.go inboundHandshake / initError, connection.go
   handlePingReq / SendSystemError / protocolError, inbound.go handleCallReq + reqres.go
   newFragment (first fragment call res, every further one call res continue). ---- *)
Definition reply_init (id : Z) : list (Z * Z) := [(c_messageTypeInitRes, id)].
Definition reply_init_refused (id : Z) : list (Z * Z) := [(c_messageTypeError, id)].
Definition reply_ping (id : Z) : list (Z * Z) := [(c_messageTypePingRes, id)].
Definition reply_call (fragmented : bool) (id : Z) : list (Z * Z) :=
  (c_messageTypeCallRes, id) :: (if fragmented then [(c_messageTypeCallResContinue, id)] else []).
Definition reply_error (id : Z) : list (Z * Z) := [(c_messageTypeError, id)].

(* one scripted request: kind a b.  0 ping a; 1 call a answered in one frame; 2 call a answered
   in several frames (consecutive equal headers are collapsed by the harness); 3 call a answered
   by an error frame; 4 calls a and b in flight, answered b then a; 5 (closing) b refused, then a
   answered; 6 a second call req with the id a of a call in flight: protocol error for a *)
Definition reply_step (kind a b : Z) : list (Z * Z) :=
  if kind =? 0 then reply_ping a
  else if kind =? 1 then reply_call false a
  else if kind =? 2 then reply_call true a
  else if kind =? 3 then reply_error a
  else if kind =? 4 then reply_call false b ++ reply_call false a
  else if kind =? 5 then reply_error b ++ reply_call false a
  else reply_error a.

Fixpoint reply_script (l : list Z) : list (Z * Z) :=
  match l with
  | kind :: a :: b :: r => reply_step kind a b ++ reply_script r
  | _ => []
  end.

Definition put_hdrs (l : list (Z * Z)) : list Z := flat_map (fun p => [fst p; snd p]) l.

(* init_kind init_id (kind a b)* -> (type id)*   init_kind 0 = accepted, otherwise refused
   (unsupported version, first frame not an init req): an error frame with the id read, and nothing else *)
Definition run_replyhdr (c : list Z) : list Z :=
  match c with
  | ik :: iid :: script =>
      if ik =? 0 then put_hdrs (reply_init iid ++ reply_script script) else put_hdrs (reply_init_refused iid)
  | _ => [-1]
  end.

(* the connecting side (preinit_connection.go outboundHandshake, connection.go onCancel): the
   init req it sends carries [out_init_id]; an init res is accepted iff it carries that id; a
   refused one is answered by an error frame with that id; the cancel frame for a call carries
   the id of the call req.   delta call_id -> init_type init_id accepted (type id) *)
Definition out_init_id : Z := 1.
Definition out_accepts (res_id : Z) : bool := res_id =? out_init_id.
Definition run_replyhdr_out (c : list Z) : list Z :=
  match c with
  | delta :: call_id :: _ =>
      [c_messageTypeInitReq; out_init_id] ++
      (if out_accepts (wrapU 32 (out_init_id + delta)) then [1; c_messageTypeCancel; call_id]
       else [0; c_messageTypeError; out_init_id])
  | _ => [-1]
  end.
