(* Hand model of peer.go PeerList (Add / Remove / Get / GetNew / choosePeer / onPeerChange /
   updatePeer / SetStrategy / Len / Copy / IntrospectList), of Channel.updatePeer
   (channel.go) and of the isolated sub-channel lists of subchannel.go.

   Level 1 ([plist]): one PeerList.  Scores are inputs (the caller evaluates the list's
   ScoreCalculator); the map peersByHostPort is the key list [pl_keys], a map value
   (a pointer to a peerScore) is the object of that host:port in the heap array.
   Level 2 ([chan]): the Peer objects of the root list with the load that the score
   calculators read ([attrs]), the channel's list and its isolated siblings, each with a
   strategy; the calculators are the definitions generated from peer_strategies.go.

   getHost and the previously-selected set are those of Model/Retry.v.  No proofs here. *)
From Coq Require Import ZArith List Bool Arith.
From Verif Require Import Base.Wrap Base.Wire Gen.GenConsts Gen.GenPeers Model.Retry Model.PeerHeap.
Import ListNotations.
Local Open Scope Z_scope.

Definition hostport := list Z.

Record plist := mkPL { pl_keys : list hostport; pl_arr : list pscore; pl_ctr : Z }.

Definition pl_empty : plist := mkPL [] [] 0.

Definition mem (hp : hostport) (s : list hostport) : bool := existsb (bytes_eqb hp) s.
Fixpoint del (hp : hostport) (s : list hostport) : list hostport :=
  match s with
  | [] => []
  | k :: r => if bytes_eqb hp k then del hp r else k :: del hp r
  end.

(* results of the selection API *)
Inductive sel :=
| SelOk (hp : hostport)
| SelNoPeers          (* ErrNoPeers *)
| SelNoNewPeers.      (* ErrNoNewPeers *)

(* PeerList.Len = peerHeap.Len *)
Definition pl_len (l : plist) : Z := Z.of_nat (length (pl_arr l)).

(* PeerList.Add: existing key => no change.  Otherwise peersByHostPort[hp] = newPeerScore(p, score);
   peerHeap.addPeer.  Result: the list and the number of rng draws consumed. *)
Definition pl_add (l : plist) (hp : hostport) (score d1 d2 : Z) : option (plist * Z) :=
  if mem hp (pl_keys l) then Some (l, 0)
  else
    match add_peer (pl_arr l) (pl_ctr l) (mkPS hp score 0 (-1)) d1 d2 with
    | Some (arr, ctr) => Some (mkPL (pl_keys l ++ [hp]) arr ctr, 2)
    | None => None
    end.

(* PeerList.Remove: false = ErrPeerNotFound *)
Definition pl_remove (l : plist) (hp : hostport) : option (plist * bool) :=
  if mem hp (pl_keys l) then
    match remove_peer (pl_arr l) hp with
    | Some arr => Some (mkPL (del hp (pl_keys l)) arr (pl_ctr l), true)
    | None => None
    end
  else Some (l, false).

(* canChoosePeer of choosePeer *)
Definition can_choose (prev : list hostport) (avoid_host : bool) (hp : hostport) : bool :=
  if mem hp prev then false
  else if avoid_host then (if mem (get_host hp) prev then false else true)
  else true.

(* the pop loop of choosePeer: at most [fuel] = size pops; stops at the first eligible one *)
Fixpoint choose_loop (fuel : nat) (h : list pscore) (popped : list pscore) (can : hostport -> bool)
  : option (list pscore * list pscore * option pscore) :=
  match fuel with
  | O => Some (h, popped, None)
  | S f =>
      match heap_pop h with
      | None => None
      | Some (h', x) =>
          if can (ps_hp x) then Some (h', popped, Some x)
          else choose_loop f h' (popped ++ [x]) can
      end
  end.

(* PeerList.choosePeer: pop until eligible, push the others back unchanged (heap.Push),
   push the chosen one with a fresh order stamp (pushPeer).  Returns list, chosen, draws used. *)
Definition choose_peer (l : plist) (prev : list hostport) (avoid_host : bool) (d : Z)
  : option (plist * option hostport * Z) :=
  match choose_loop (length (pl_arr l)) (pl_arr l) [] (can_choose prev avoid_host) with
  | None => None
  | Some (h, popped, chosen) =>
      let h1 := fold_left heap_push popped h in
      match chosen with
      | None => Some (mkPL (pl_keys l) h1 (pl_ctr l), None, 0)
      | Some x =>
          let '(h2, ctr) := push_peer h1 (pl_ctr l) x d in
          Some (mkPL (pl_keys l) h2 ctr, Some (ps_hp x), 1)
      end
  end.

(* PeerList.GetNew *)
Definition pl_getnew (l : plist) (prev : list hostport) (d : Z) : option (plist * sel * Z) :=
  if pl_len l =? 0 then Some (l, SelNoPeers, 0)
  else
    match choose_peer l prev true d with
    | None => None
    | Some (l1, Some hp, n) => Some (l1, SelOk hp, n)
    | Some (l1, None, _) =>
        match choose_peer l1 prev false d with
        | None => None
        | Some (l2, Some hp, n) => Some (l2, SelOk hp, n)
        | Some (l2, None, _) => Some (l2, SelNoNewPeers, 0)
        end
    end.

(* PeerList.Get *)
Definition pl_get (l : plist) (prev : list hostport) (d : Z) : option (plist * sel * Z) :=
  match pl_getnew l prev d with
  | None => None
  | Some (l1, SelNoNewPeers, _) =>
      match choose_peer l1 [] false d with
      | None => None
      | Some (l2, Some hp, n) => Some (l2, SelOk hp, n)
      | Some (l2, None, _) => Some (l2, SelNoPeers, 0)
      end
  | Some (l1, SelNoPeers, n) => Some (l1, SelNoPeers, n)
  | Some (l1, SelOk hp, n) => Some (l1, SelOk hp, n)
  end.

(* PeerList.onPeerChange(p) with newScore = scoreCalculator.GetScore(p):
   unknown host:port => return; equal score => return; else updatePeer *)
Definition pl_update (l : plist) (hp : hostport) (score : Z) : option plist :=
  if mem hp (pl_keys l) then
    match find_pos (pl_arr l) hp with
    | None => None
    | Some p =>
        if ps_score (hget (pl_arr l) p) =? score then Some l
        else match update_score (pl_arr l) hp score with
             | Some arr => Some (mkPL (pl_keys l) arr (pl_ctr l))
             | None => None
             end
    end
  else Some l.

(* PeerList.SetStrategy: for every map entry, in the map's iteration order, updatePeer(ps, newScore).
   [order] is the iteration order (oracle); made into a permutation of the keys:
   the listed keys first (each once), then the unlisted ones. *)
Fixpoint nodup_hp (l : list hostport) : list hostport :=
  match l with
  | [] => []
  | x :: r => if mem x r then nodup_hp r else x :: nodup_hp r
  end.
Definition iteration_order (keys order : list hostport) : list hostport :=
  let listed := filter (fun k => mem k keys) (nodup_hp order) in
  listed ++ filter (fun k => negb (mem k listed)) keys.

Fixpoint pl_update_all (l : plist) (score_of : hostport -> Z) (order : list hostport) : option plist :=
  match order with
  | [] => Some l
  | hp :: r =>
      match pl_update l hp (score_of hp) with
      | Some l' => pl_update_all l' score_of r
      | None => None
      end
  end.

Definition pl_set_strategy (l : plist) (score_of : hostport -> Z) (order : list hostport) : option plist :=
  pl_update_all l score_of (iteration_order (pl_keys l) order).

(* consecutive Get(nil) selections with the given draws; the host:ports selected, in order *)
Fixpoint get_nils (l : plist) (ds : list Z) : option (plist * list hostport) :=
  match ds with
  | [] => Some (l, [])
  | d :: r =>
      match pl_get l [] d with
      | Some (l', SelOk hp, _) =>
          match get_nils l' r with
          | Some (l'', sel) => Some (l'', hp :: sel)
          | None => None
          end
      | _ => None
      end
  end.

(* ---------------------------------------------------------------- level 2: the channel *)

(* what the score calculators read of a Peer, plus Peer.chosenCount.
   a_custom is the value a harness-supplied ScoreCalculatorFunc returns for the peer. *)
Record attrs := mkAttrs { a_in : Z; a_out : Z; a_pend : Z; a_custom : Z; a_chosen : Z }.
Definition attrs0 : attrs := mkAttrs 0 0 0 0 0.

Definition world := list (hostport * attrs).
Fixpoint w_get (w : world) (hp : hostport) : attrs :=
  match w with
  | [] => attrs0
  | (k, a) :: r => if bytes_eqb k hp then a else w_get r hp
  end.
Fixpoint w_set (w : world) (hp : hostport) (a : attrs) : world :=
  match w with
  | [] => [(hp, a)]
  | (k, b) :: r => if bytes_eqb k hp then (k, a) :: r else (k, b) :: w_set r hp a
  end.

(* strategy codes: 0 preferIncoming (newPeerList default), 1 leastPending (Isolated),
   2 zero, other = custom ScoreCalculatorFunc *)
Definition calc (strat : Z) (a : attrs) : Z :=
  if strat =? 0 then preferIncomingScore (a_in a) (a_out a) (a_pend a)
  else if strat =? 1 then leastPendingScore (a_in a) (a_out a) (a_pend a)
  else if strat =? 2 then zeroScore (a_in a) (a_out a) (a_pend a)
  else a_custom a.

Record clist := mkCL { cl_pl : plist; cl_strat : Z }.
Record chan := mkChan { ch_world : world; ch_lists : list clist }.

(* a channel with its own list and [n] isolated sub-channel lists (subchannel.go Isolated:
   newSibling + SetStrategy(leastPending) on the empty list) *)
Definition chan_init (n : nat) : chan :=
  mkChan [] (mkCL pl_empty 0 :: repeat (mkCL pl_empty 1) n).

Fixpoint set_list (ls : list clist) (j : nat) (c : clist) : list clist :=
  match ls, j with
  | [], _ => []
  | _ :: r, O => c :: r
  | x :: r, S j' => x :: set_list r j' c
  end.

Inductive cop :=
| CAdd (j : nat) (hp : hostport) (d1 d2 : Z)
| CRemove (j : nat) (hp : hostport)
| CGet (j : nat) (prev : list hostport) (d : Z)
| CGetNew (j : nat) (prev : list hostport) (d : Z)
| CSetAttrs (hp : hostport) (inb outb pend custom : Z)   (* load change, then Channel.updatePeer(p) *)
| CSetStrategy (j : nat) (strat : Z) (order : list hostport).

(* observable result of one operation: code (0 ok, 1 ErrNoPeers, 2 ErrNoNewPeers, 3 ErrPeerNotFound),
   the host:port returned, rng draws consumed *)
Record cres := mkRes { r_code : Z; r_hp : hostport; r_draws : Z }.

Definition sel_res (s : sel) (n : Z) : cres :=
  match s with
  | SelOk hp => mkRes 0 hp n
  | SelNoPeers => mkRes 1 [] n
  | SelNoNewPeers => mkRes 2 [] n
  end.

Definition bump_chosen (w : world) (s : sel) : world :=
  match s with
  | SelOk hp => let a := w_get w hp in
                w_set w hp (mkAttrs (a_in a) (a_out a) (a_pend a) (a_custom a) (a_chosen a + 1))
  | _ => w
  end.

(* Channel.updatePeer(p): onPeerChange on the channel's list and on every sub-channel's list *)
Fixpoint update_lists (ls : list clist) (w : world) (hp : hostport) : option (list clist) :=
  match ls with
  | [] => Some []
  | c :: r =>
      match pl_update (cl_pl c) hp (calc (cl_strat c) (w_get w hp)), update_lists r w hp with
      | Some l', Some r' => Some (mkCL l' (cl_strat c) :: r')
      | _, _ => None
      end
  end.

Definition chan_step (c : chan) (op : cop) : option (chan * cres) :=
  let w := ch_world c in
  let ls := ch_lists c in
  match op with
  | CAdd j hp d1 d2 =>
      match nth_error ls j with
      | None => Some (c, mkRes 8 [] 0)
      | Some cl =>
          match pl_add (cl_pl cl) hp (calc (cl_strat cl) (w_get w hp)) d1 d2 with
          | None => None
          | Some (l', n) => Some (mkChan w (set_list ls j (mkCL l' (cl_strat cl))), mkRes 0 hp n)
          end
      end
  | CRemove j hp =>
      match nth_error ls j with
      | None => Some (c, mkRes 8 [] 0)
      | Some cl =>
          match pl_remove (cl_pl cl) hp with
          | None => None
          | Some (l', ok) => Some (mkChan w (set_list ls j (mkCL l' (cl_strat cl))), mkRes (if ok then 0 else 3) [] 0)
          end
      end
  | CGet j prev d =>
      match nth_error ls j with
      | None => Some (c, mkRes 8 [] 0)
      | Some cl =>
          match pl_get (cl_pl cl) prev d with
          | None => None
          | Some (l', s, n) => Some (mkChan (bump_chosen w s) (set_list ls j (mkCL l' (cl_strat cl))), sel_res s n)
          end
      end
  | CGetNew j prev d =>
      match nth_error ls j with
      | None => Some (c, mkRes 8 [] 0)
      | Some cl =>
          match pl_getnew (cl_pl cl) prev d with
          | None => None
          | Some (l', s, n) => Some (mkChan (bump_chosen w s) (set_list ls j (mkCL l' (cl_strat cl))), sel_res s n)
          end
      end
  | CSetAttrs hp inb outb pend custom =>
      let a := w_get w hp in
      let w' := w_set w hp (mkAttrs inb outb pend custom (a_chosen a)) in
      match update_lists ls w' hp with
      | None => None
      | Some ls' => Some (mkChan w' ls', mkRes 0 [] 0)
      end
  | CSetStrategy j strat order =>
      match nth_error ls j with
      | None => Some (c, mkRes 8 [] 0)
      | Some cl =>
          match pl_set_strategy (cl_pl cl) (fun hp => calc strat (w_get w hp)) order with
          | None => None
          | Some l' => Some (mkChan w (set_list ls j (mkCL l' strat)), mkRes 0 [] 0)
          end
      end
  end.

Fixpoint chan_run (c : chan) (ops : list cop) : option chan :=
  match ops with
  | [] => Some c
  | op :: r => match chan_step c op with
               | Some (c', _) => chan_run c' r
               | None => None
               end
  end.

(* ---------------------------------------------------------------- harness entry point
   case:  nIsolated  nOps  op*
     op 0 Add          j hp d1 d2
     op 1 Remove       j hp
     op 2 Get          j nPrev hp* d
     op 3 GetNew       j nPrev hp* d
     op 4 SetAttrs     hp inbound outbound pending custom(int64 bit pattern)
     op 5 SetStrategy  j strat nOrder hp*
   observable, per op:  code hp nDraws chosenCount(hp)  nDumps (dump of list j | of every list for op 4)
     dump = n (hp score(int64 bit pattern) order(idem) index)*  counter  nKeys (sorted keys)*
   a model panic ends the output with 99 *)
Definition take_op (l : list Z) : cop * list Z :=
  let '(k, r) := take1 l in
  if k =? 0 then
    let '(j, r) := take1 r in let '(hp, r) := take_bytes r in
    let '(d1, r) := take1 r in let '(d2, r) := take1 r in (CAdd (Z.to_nat j) hp d1 d2, r)
  else if k =? 1 then
    let '(j, r) := take1 r in let '(hp, r) := take_bytes r in (CRemove (Z.to_nat j) hp, r)
  else if k =? 2 then
    let '(j, r) := take1 r in let '(prev, r) := take_list take_bytes r in
    let '(d, r) := take1 r in (CGet (Z.to_nat j) prev d, r)
  else if k =? 3 then
    let '(j, r) := take1 r in let '(prev, r) := take_list take_bytes r in
    let '(d, r) := take1 r in (CGetNew (Z.to_nat j) prev d, r)
  else if k =? 4 then
    let '(hp, r) := take_bytes r in
    let '(a, r) := take1 r in let '(b, r) := take1 r in let '(p, r) := take1 r in
    let '(cu, r) := take1 r in (CSetAttrs hp a b p (wrapU 64 cu), r)
  else
    let '(j, r) := take1 r in let '(s, r) := take1 r in
    let '(order, r) := take_list take_bytes r in (CSetStrategy (Z.to_nat j) s order, r).

Definition put_ps (x : pscore) : list Z :=
  put_bytes (ps_hp x) ++ [wrapS 64 (ps_score x); wrapS 64 (ps_order x); ps_index x].

Definition dump_list (c : clist) : list Z :=
  let l := cl_pl c in
  put_list put_ps (pl_arr l) ++ [wrapS 64 (pl_ctr l)] ++ put_list put_bytes (canon_set (pl_keys l)).

Definition op_dumps (c : chan) (op : cop) : list Z :=
  let one j := match nth_error (ch_lists c) j with Some cl => 1 :: dump_list cl | None => [0] end in
  match op with
  | CAdd j _ _ _ | CRemove j _ | CGet j _ _ | CGetNew j _ _ | CSetStrategy j _ _ => one j
  | CSetAttrs _ _ _ _ _ => put_list dump_list (ch_lists c)
  end.

Fixpoint run_ops (c : chan) (ops : list cop) : list Z :=
  match ops with
  | [] => []
  | op :: r =>
      match chan_step c op with
      | None => [99]
      | Some (c', res) =>
          [r_code res] ++ put_bytes (r_hp res) ++ [r_draws res; a_chosen (w_get (ch_world c') (r_hp res))]
          ++ op_dumps c' op ++ run_ops c' r
      end
  end.

Definition run_peers (cs : list Z) : list Z :=
  match cs with
  | niso :: r =>
      let '(ops, _) := take_list take_op r in
      run_ops (chan_init (Z.to_nat niso)) ops
  | _ => [-1]
  end.
