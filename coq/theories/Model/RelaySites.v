(* The model's copy of the relay SITE TABLES of property C09 (generated: Gen/GenRelaySites.v by
   go2v/relaysites.go; proved equal in Proofs/RelaySitesP.v), and what a row MEANS for the model
   Model/RelayItems.v.

   relay_get_sites: every call of relayItems.Get with its stopTimeout argument.  Each row is
   one lookup instruction of the model; [stop_arg] reads the argument as the boolean the model's
   [items_get] is called with ([fin] = finishesCall of the frame being handled):
       Relayer.Receive           IRcvGet   items_get .. (fin_of frame)
       Relayer.getDestination    IGetDest  the duplicate-id lookup: NEVER stops the timer of the item it finds
       Relayer.handleNonCallReq  INcGet    items_get .. (fin_of frame)
       Relayer.failRelayItem     IFailGet  items_get .. true
   relay_stop_sites: relayTimer.Stop is called by relayItems.Get only (so a row of the first
   table is the only way a frame path stops a timer).
   relay_pending_sites / relay_decpending_body / relay_decpending_calls: Relayer.pending is
   incremented in canHandleNewCall (ICanHandle / IRemoteCan), read in countPending (canClose,
   LDrained / ICheck) and decremented ONLY inside decrementPending, whose body is the decrement
   followed by conn.checkExchanges() (model: IDec pushes ICheck for the same goroutine); the four
   callers of decrementPending are the rejection branch of handleCallReq (IGetDest / IRemoteCan
   rejections), timeoutRelayItem and failRelayItem (IEntomb) and finishRelayItem (IDelete).
   No proofs in this file. *)
From Coq Require Import ZArith List Bool String Ascii.
From Verif Require Import Base.Wrap Base.Wire.
Import ListNotations.
Local Open Scope Z_scope.

Definition rs_s2z (s : string) : list Z := map (fun a => Z.of_nat (nat_of_ascii a)) (list_ascii_of_string s).

Definition rs_get_rows : list (list Z * list Z * list Z) :=
  [ (rs_s2z "Relayer.Receive", rs_s2z "items", rs_s2z "finished=finishesCall(f)");
    (rs_s2z "Relayer.getDestination", rs_s2z "r.outbound", rs_s2z "false");
    (rs_s2z "Relayer.handleNonCallReq", rs_s2z "items", rs_s2z "finished=finishesCall(f)");
    (rs_s2z "Relayer.failRelayItem", rs_s2z "items", rs_s2z "true") ].

Definition rs_stop_rows : list (list Z * list Z) :=
  [ (rs_s2z "relayItems.Get", rs_s2z "item.timeout") ].

Definition rs_pending_rows : list (list Z * list Z * list Z) :=
  [ (rs_s2z "Relayer.canHandleNewCall", rs_s2z "Inc", rs_s2z "func && canHandle");
    (rs_s2z "Relayer.decrementPending", rs_s2z "Dec", rs_s2z "");
    (rs_s2z "Relayer.countPending", rs_s2z "Load", rs_s2z "") ].

Definition rs_decbody_rows : list (list Z) :=
  [ rs_s2z "r.pending.Dec()"; rs_s2z "r.conn.checkExchanges()" ].

Definition rs_deccall_rows : list (list Z * list Z) :=
  [ (rs_s2z "Relayer.handleCallReq", rs_s2z "err != nil || !ok");
    (rs_s2z "Relayer.timeoutRelayItem", rs_s2z "");
    (rs_s2z "Relayer.failRelayItem", rs_s2z "");
    (rs_s2z "Relayer.finishRelayItem", rs_s2z "") ].

Definition rs_checkex_rows : list (list Z * list Z) :=
  [ (rs_s2z "Relayer.decrementPending", rs_s2z "") ].

(* (statements that only take / release the items lock are not rows: one lock region is one
   atomic action of the model, whatever the kind of lock)
   relayItems.Get, statement by statement (= the model's [items_get]: nothing found -> no timer
   touched; found and stopTimeout false -> the item, no timer touched; else the item and the
   result of its timer's Stop) *)
Definition rs_getbody_rows : list (list Z) :=
  [ rs_s2z "item, ok := r.items[id]";
    rs_s2z "if !ok { return relayItem{}, false, false }";
    rs_s2z "if !stopTimeout { return item, false, true }";
    rs_s2z "return item, item.timeout.Stop(), true" ].

(* relayItems.deleteTomb, statement by statement (= the model's [items_delete_tomb]: nothing
   there -> nothing; a non-tombstone -> nothing; a tombstone -> deleted, its timer released) *)
Definition rs_tombbody_rows : list (list Z) :=
  [ rs_s2z "item, ok := r.items[id]";
    rs_s2z "if !ok { r.Unlock() r.logger.WithFields(LogField{""id"", id}).Warn(""Attempted to delete non-existent relay item."") return }";
    rs_s2z "if !item.tomb { r.Unlock() return }";
    rs_s2z "delete(r.items, id)";
    rs_s2z "r.tombs--";
    rs_s2z "item.timeout.Release()" ].

(* the only scheduled collection of relay.go: Entomb schedules deleteTomb (label LGc) *)
Definition rs_gc_rows : list (list Z * list Z) :=
  [ (rs_s2z "relayItems.Entomb", rs_s2z "func() { r.deleteTomb(id) }") ].

(* relayItems.deleteCall, statement by statement (= the model's [items_delete_call]: nothing there
   -> nothing; an item with another destination relayer or destination-side id than the looked-up
   one -> nothing; else deleted, its timer released); finishRelayItem is called by Receive and
   handleNonCallReq with the item THEY looked up (model: IRcvEnq carries the identity of the item
   IRcvChk holds, after_sent the identity of the caller's own item); the callers of the three
   delete operations: Entomb's too-many-tombstones Delete(id) and its scheduled deleteTomb(id),
   finishRelayItem's deleteCall(id, lookedUp) *)
Definition rs_dcbody_rows : list (list Z) :=
  [ rs_s2z "item, ok := r.items[id]";
    rs_s2z "if !ok { r.Unlock() r.logger.WithFields(LogField{""id"", id}).Warn(""Attempted to delete non-existent relay item."") return item, false }";
    rs_s2z "if item.remapID != lookedUp.remapID || item.destination != lookedUp.destination { r.Unlock() return relayItem{}, false }";
    rs_s2z "delete(r.items, id)";
    rs_s2z "if item.tomb { r.tombs-- }";
    rs_s2z "item.timeout.Release()";
    rs_s2z "return item, !item.tomb" ].

Definition rs_finish_rows : list (list Z * list Z) :=
  [ (rs_s2z "Relayer.Receive", rs_s2z "items, id, item");
    (rs_s2z "Relayer.handleNonCallReq", rs_s2z "items, originalID, item") ].

Definition rs_delete_rows : list (list Z * list Z * list Z) :=
  [ (rs_s2z "relayItems.Entomb", rs_s2z "Delete", rs_s2z "id");
    (rs_s2z "relayItems.Entomb", rs_s2z "deleteTomb", rs_s2z "id");
    (rs_s2z "Relayer.finishRelayItem", rs_s2z "deleteCall", rs_s2z "id, lookedUp") ].

(* ---- meaning of a row of relay_get_sites ---- *)

(* the stopTimeout argument as the boolean passed to items_get; None = not understood *)
Definition stop_arg (arg : list Z) (fin : bool) : option bool :=
  if bytes_eqb arg (rs_s2z "false") then Some false
  else if bytes_eqb arg (rs_s2z "true") then Some true
  else if bytes_eqb arg (rs_s2z "finished=finishesCall(f)") then Some fin
  else None.

Definition site_stop (tbl : list (list Z * list Z * list Z)) (fn : list Z) (fin : bool) : option bool :=
  match find (fun r => bytes_eqb (fst (fst r)) fn) tbl with
  | Some r => stop_arg (snd r) fin
  | None => None
  end.

(* ---- the obligation on the uses of Relayer.pending ---- *)

(* an operation on the counter that is neither the increment nor a read *)
Definition pending_mutates (op : list Z) : bool :=
  negb (bytes_eqb op (rs_s2z "Inc") || bytes_eqb op (rs_s2z "Load")).

(* every use of the counter other than Inc / Load sits in decrementPending (so the close check
   follows it), Inc sits in canHandleNewCall under the connection-state read lock *)
Definition pending_discipline (tbl : list (list Z * list Z * list Z)) : bool :=
  forallb (fun r =>
    let fn := fst (fst r) in let op := snd (fst r) in
    (if pending_mutates op then bytes_eqb fn (rs_s2z "Relayer.decrementPending") else true) &&
    (if bytes_eqb op (rs_s2z "Inc") then bytes_eqb fn (rs_s2z "Relayer.canHandleNewCall") else true)) tbl.

(* decrementPending = the decrement, then the close check, nothing else *)
Definition decbody_ok (body : list (list Z)) : bool :=
  match body with
  | [a; b] => bytes_eqb a (rs_s2z "r.pending.Dec()") && bytes_eqb b (rs_s2z "r.conn.checkExchanges()")
  | _ => false
  end.
