(* The channel as a transition system over the events of Spec/IdleHealthSpec.v: several
   connections, a stub clock, the idle sweep (Model/Idle.v) and one health-check goroutine per
   connection (Model/Health.v).  One event = one step that the harness can force on the real
   implementation and wait for (each sweep, each ping start and each ping end is atomic with
   respect to the other events, which is what the stub ticker gives). *)
From Coq Require Import ZArith List Bool.
From Verif Require Import Base.Wrap Base.Wire Gen.GenConsts Gen.GenFrame Gen.GenHealthIdle
  Spec.IdleHealthSpec Model.Health Model.Idle.
Import ListNotations.
Local Open Scope Z_scope.

Definition on_conn (id : Z) (f : conn -> conn) (s : chan) : chan :=
  match lookup id (ch_conns s) with
  | None => s
  | Some c => {| ch_now := ch_now s; ch_conns := update id (f c) (ch_conns s) |}
  end.

(* an exchange / relay item is added or removed.  Removal runs checkExchanges
   (mexset.onRemoved, Relayer.decrementPending).  Removing from an empty set is not an
   event the implementation can produce: it is ignored. *)
Definition pend (w d : Z) (c : conn) : conn :=
  let add := d >? 0 in
  if w =? 0 then
    if add then set_counts (k_inb c + 1) (k_outb c) (k_pings c) (k_relay c) c
    else if k_inb c <=? 0 then c
    else check_exchanges (set_counts (k_inb c - 1) (k_outb c) (k_pings c) (k_relay c) c)
  else if w =? 1 then
    if add then set_counts (k_inb c) (k_outb c + 1) (k_pings c) (k_relay c) c
    else if k_outb c <=? 0 then c
    else check_exchanges (set_counts (k_inb c) (k_outb c - 1) (k_pings c) (k_relay c) c)
  else
    match k_relay c with
    | None => c
    | Some n =>
        if add then set_counts (k_inb c) (k_outb c) (k_pings c) (Some (n + 1)) c
        else if n <=? 0 then c
        else check_exchanges (set_counts (k_inb c) (k_outb c) (k_pings c) (Some (n - 1)) c)
    end.

(* the rest of a healthCheck iteration once ping has returned with outcome o
   (the deferred removeExchange of ping has already run) *)
Definition after_ping (F : Z) (o : outcome) (c : conn) : conn :=
  let '(l, closed) := health_iter F o (k_health c) in
  let c1 := set_health (if hl_running l then 1 else 3) l c in
  let c2 := if closed then conn_close c1 else c1 in
  (* a connection that is Closed has had closeNetwork -> stopHealthCheck: the goroutine exits *)
  if k_state c2 =? c_connectionClosed then set_health 3 (k_health c2) c2 else c2.

(* health tick: ping() creates its exchange and queues the ping request.
   sent = false: sendMessage found the send buffer full: ping runs the connection-error
   handler (healthCheckConnectionError), then its deferred removeExchange, and the loop body
   sees a failure; the health context is cancelled, so the loop exits at its next select.
   (newExchange failing on a shut-down exchange set takes the same handler; it needs
   stoppedExchanges without a Closed state, i.e. a protocol error, which is not an event here.) *)
Definition ping_start (F : Z) (sent : bool) (c : conn) : conn :=
  if negb (k_hstatus c =? 1) then c
  else if sent then set_health 2 (k_health c) (set_counts (k_inb c) (k_outb c) (k_pings c + 1) (k_relay c) c)
  else
    let c1 := conn_error (set_counts (k_inb c) (k_outb c) (k_pings c + 1) (k_relay c) c) in
    let c2 := check_exchanges (set_counts (k_inb c1) (k_outb c1) (k_pings c1 - 1) (k_relay c1) c1) in
    let c3 := after_ping F PFail c2 in set_health 3 (k_health c3) c3.

(* the ping in flight returns: deferred removeExchange (+ checkExchanges), then the loop body *)
Definition ping_end (F : Z) (o : outcome) (c : conn) : conn :=
  if negb (k_hstatus c =? 2) then c
  else
    let c1 := check_exchanges (set_counts (k_inb c) (k_outb c) (k_pings c - 1) (k_relay c) c) in
    after_ping F o c1.

Definition step (cf : config) (s : chan) (e : ev) : chan :=
  match e with
  | EAdvance dt => {| ch_now := ch_now s + dt; ch_conns := ch_conns s |}
  | ENewConn id relay =>
      match lookup id (ch_conns s) with
      | Some _ => s
      | None => {| ch_now := ch_now s;
                   ch_conns := ch_conns s ++ [(id, new_conn (ch_now s) relay (ho_enabled (cf_health cf)))] |}
      end
  | ERead id mt => on_conn id (update_read (ch_now s) mt) s
  | EWrite id mt => on_conn id (update_write (ch_now s) mt) s
  | EPend id w d => on_conn id (pend w d) s
  | EClose id => on_conn id conn_close s
  | ETick => if sweep_enabled cf then sweep (cf_max_idle cf) s else s
  | EPingStart id sent => on_conn id (ping_start (ho_failures (cf_health cf)) sent) s
  | EPingEnd id o => on_conn id (ping_end (ho_failures (cf_health cf)) o) s
  end.

Definition init_chan (t0 : Z) : chan := {| ch_now := t0; ch_conns := [] |}.
Definition run (cf : config) (t0 : Z) (h : list ev) : chan := fold_left (step cf) h (init_chan t0).

(* ---- harness entry point ---------------------------------------------------------------
   case:  idleInterval maxIdle hInterval hTimeout hFailures t0  nEvents event*
   event: 0 dt | 1 id relay | 2 id mt | 3 id mt | 4 id w d | 5 id | 6 | 7 id sent
          | 8 id nil sys code net invalidState
   (health options are the RAW options: withDefaults is applied here as newConnection does)
   observable: -2 when NewChannel rejects the options, else per event
     tick:            n, ids closed by the sweep (increasing list order of creation)
     ping start/end:  state hstatus fails
     read/write:      lr lw
     call start/finish: state
     other events on a connection: state lr lw
   then per connection at the end: id state lr lw inb outb pings relay(-1 none) tracked hstatus fails
   total k hist*                                                                           *)
Definition take_ev (l : list Z) : ev * list Z :=
  match l with
  | 0 :: dt :: r => (EAdvance dt, r)
  | 1 :: id :: rl :: r => (ENewConn id (bz rl), r)
  | 2 :: id :: mt :: r => (ERead id mt, r)
  | 3 :: id :: mt :: r => (EWrite id mt, r)
  | 4 :: id :: w :: d :: r => (EPend id w d, r)
  | 5 :: id :: r => (EClose id, r)
  | 6 :: r => (ETick, r)
  | 7 :: id :: sent :: r => (EPingStart id (bz sent), r)
  | 8 :: id :: r => let '(o, r') := take_perr r in (EPingEnd id o, r')
  | _ => (EAdvance 0, [])
  end.

Definition ev_conn (e : ev) : option Z :=
  match e with
  | ENewConn id _ | ERead id _ | EWrite id _ | EPend id _ _ | EClose id | EPingStart id _ | EPingEnd id _ => Some id
  | _ => None
  end.

Definition obs_conn_short (e : ev) (c : conn) : list Z :=
  match e with
  | EPingStart _ _ | EPingEnd _ _ => [k_state c; k_hstatus c; hl_fails (k_health c)]
  | ERead _ _ | EWrite _ _ => [k_lr c; k_lw c]
  | EPend _ _ _ => [k_state c]
  | _ => [k_state c; k_lr c; k_lw c]
  end.

Definition obs_step (s s' : chan) (e : ev) : list Z :=
  match e with
  | ETick => put_list (fun i => [i]) (closed_between (ch_conns s) (ch_conns s'))
  | _ => match ev_conn e with
         | Some id => match lookup id (ch_conns s') with Some c => obs_conn_short e c | None => [-1] end
         | None => []
         end
  end.

Fixpoint run_obs (cf : config) (s : chan) (h : list ev) : list Z * chan :=
  match h with
  | [] => ([], s)
  | e :: r => let s' := step cf s e in
              let '(o, sf) := run_obs cf s' r in (obs_step s s' e ++ o, sf)
  end.

Definition obs_final (ic : Z * conn) : list Z :=
  let c := snd ic in
  [fst ic; k_state c; k_lr c; k_lw c; k_inb c; k_outb c; k_pings c;
   (match k_relay c with None => -1 | Some n => n end); zb (k_tracked c); k_hstatus c;
   hl_fails (k_health c); hh_total (hl_hist (k_health c))]
  ++ put_list (fun b => [zb b]) (hh_as_bools (hl_hist (k_health c))).

Definition run_tl (c : list Z) : list Z :=
  match c with
  | ii :: mi :: hi :: ht :: hf :: t0 :: r =>
      if negb (idleCheckOk ii mi) then [-2]
      else
        let cf := {| cf_idle_interval := ii; cf_max_idle := mi;
                     cf_health := ho_with_defaults {| ho_interval := hi; ho_timeout := ht; ho_failures := hf |} |} in
        let '(evs, _) := take_list take_ev r in
        let '(o, s) := run_obs cf (init_chan t0) evs in
        o ++ flat_map obs_final (ch_conns s)
  | _ => [-1]
  end.
