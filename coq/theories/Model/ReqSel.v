(* What peer selection is FED with (property C15), on top of Model/PeerList.v.

   1. A retried request.  SubChannel.BeginCall (subchannel.go:74-96) does
        peer, err := c.peers.Get(callOptions.RequestState.PrevSelectedPeers())
      and Peer.BeginCall (peer.go:585-589) starts with
        callOptions.RequestState.AddSelectedPeer(p.HostPort())
      so the set handed to attempt k+1 is what AddSelectedPeer accumulated over attempts 1..k.
      The hand model of that set is Model/Retry.v ([add_selected]: the set gains hostPort and
      getHost hostPort); the functions regenerated from retry.go are Gen/GenPeerSel.v and
      Proofs/GenPeerSelP.v proves that they compute this model.
   2. The load of a peer as the score calculators read it: Peer.NumConnections and
      Peer.NumPendingOutbound over the peer's two connection lists.  A connection is seen as the
      sizes of its two exchange sets ([cn_in]: calls the peer makes to us, [cn_out]: calls WE make
      over it); the direction of a connection (who dialled) and the direction of a call are
      independent.  [pending_calls] is the specification: our calls in flight over ANY connection
      of the peer.

   No proofs here. *)
From Coq Require Import ZArith List Bool.
From Verif Require Import Base.Wrap Base.Wire Gen.GenConsts Gen.GenPeers Model.Retry Model.PeerHeap Model.PeerList.
Import ListNotations.
Local Open Scope Z_scope.

(* ---------------------------------------------------------------- 1. retried requests *)

(* one attempt on list j of the channel: Get (or GetNew) with the request's set, then
   AddSelectedPeer of the peer obtained *)
Definition req_attempt (c : chan) (sel : list hostport) (j : nat) (getnew : bool) (d : Z)
  : option (chan * cres * list hostport) :=
  match chan_step c (if getnew then CGetNew j sel d else CGet j sel d) with
  | None => None
  | Some (c', res) =>
      Some (c', res, if r_code res =? 0 then add_selected sel (r_hp res) else sel)
  end.

Inductive rop :=
| RCop (op : cop)                         (* other activity on the channel's lists *)
| RAttempt (j : nat) (getnew : bool) (d : Z)
| RNewRequest.                            (* a fresh RequestState *)

(* ---------------------------------------------------------------- 2. load of a peer *)

Record conn := mkConn { cn_in : Z; cn_out : Z }.
Record peerconns := mkPC { pc_inbound : list conn; pc_outbound : list conn }.

Definition zsum (l : list Z) : Z := fold_right Z.add 0 l.

(* our calls in flight to the peer: outbound exchanges of every connection, whoever dialled it *)
Definition pending_calls (p : peerconns) : Z :=
  zsum (map cn_out (pc_outbound p)) + zsum (map cn_out (pc_inbound p)).

Definition attrs_of (p : peerconns) (custom chosen : Z) : attrs :=
  mkAttrs (zlen (pc_inbound p)) (zlen (pc_outbound p)) (pending_calls p) custom chosen.

(* ---------------------------------------------------------------- harness entry points

   reqsel case:  nIsolated  nOps  op*
     ops 0..5 as in run_peers (Model/PeerList.v)
     op 6 Attempt     j getnew d
     op 7 NewRequest
   observable per op: as run_peers for ops 0..5; for op 6 the same as for Get/GetNew followed by
   the request's set after AddSelectedPeer (count, sorted strings); for op 7: 0 *)
Definition take_rop (l : list Z) : rop * list Z :=
  let '(k, r) := take1 l in
  if k =? 6 then
    let '(j, r) := take1 r in let '(g, r) := take1 r in let '(d, r) := take1 r in
    (RAttempt (Z.to_nat j) (negb (g =? 0)) d, r)
  else if k =? 7 then (RNewRequest, r)
  else let '(op, r') := take_op l in (RCop op, r').

Fixpoint run_rops (c : chan) (sel : list hostport) (ops : list rop) : list Z :=
  match ops with
  | [] => []
  | RCop op :: r =>
      match chan_step c op with
      | None => [99]
      | Some (c', res) =>
          [r_code res] ++ put_bytes (r_hp res) ++ [r_draws res; a_chosen (w_get (ch_world c') (r_hp res))]
          ++ op_dumps c' op ++ run_rops c' sel r
      end
  | RAttempt j g d :: r =>
      match req_attempt c sel j g d with
      | None => [99]
      | Some (c', res, sel') =>
          [r_code res] ++ put_bytes (r_hp res) ++ [r_draws res; a_chosen (w_get (ch_world c') (r_hp res))]
          ++ op_dumps c' (CGet j [] 0) ++ put_list put_bytes (canon_set sel') ++ run_rops c' sel' r
      end
  | RNewRequest :: r => 0 :: run_rops c [] r
  end.

Definition run_reqsel (cs : list Z) : list Z :=
  match cs with
  | niso :: r =>
      let '(ops, _) := take_list take_rop r in
      run_rops (chan_init (Z.to_nat niso)) [] ops
  | _ => [-1]
  end.

(* peerload case:  strat  nInbound (in out)*  nOutbound (in out)*
   observable: NumConnections (inbound outbound)  NumPendingOutbound  score (int64 bit pattern) *)
Definition take_conn (l : list Z) : conn * list Z :=
  let '(a, r) := take1 l in let '(b, r) := take1 r in (mkConn a b, r).

Definition run_peerload (cs : list Z) : list Z :=
  match cs with
  | strat :: r =>
      let '(inb, r) := take_list take_conn r in
      let '(outb, _) := take_list take_conn r in
      let p := mkPC inb outb in
      [zlen inb; zlen outb; pending_calls p; wrapS 64 (calc strat (attrs_of p 0 0))]
  | _ => [-1]
  end.
