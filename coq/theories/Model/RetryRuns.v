(* Hand model of SEVERAL RunWithRetry runs that overlap in time and share requestStatePool
   (property C17, clause "each attempt sees its attempt number and the peers already tried":
   the RequestState handed to the attempts of one run belongs to that run alone for as long
   as the run lasts).

   Go code modelled (retry.go):
     requestStatePool       a sync.Pool of *RequestState: Get hands out ANY element that is in
                            the pool, or a new zero one; Put adds an element
     Channel.getRequestState   rs := requestStatePool.Get(); *rs = RequestState{Start, retryOpts}
     Channel.RunWithRetry   opts := getRetryOptions(ctx); rs := ch.getRequestState(opts);
                            defer requestStatePool.Put(rs); the loop of Model/Retry.v [attempts]
                            with rs.Attempt++ / f(ctx, rs) / the stop rule
     RequestState.AddSelectedPeer   (Model/Retry.v [add_selected]) called by the retried function
                            (peer.go Peer.BeginCall, or the caller directly) on the rs it was given

   Two machines over the same labels, one label = one action of one run:
     LStart r o k   run r begins: options lookup, Get returns the element named k, reset
     LEnter r k     loop head of r: rs.Attempt++, f is called with element k; the attempt
                    looks at rs.Attempt and rs.PrevSelectedPeers() (an observation)
     LMark r hp     the attempt in progress of r calls rs.AddSelectedPeer(hp)
     LExit r e      the attempt looks once more (second observation) and returns e; stop rule;
                    on the way out of RunWithRetry the deferred Put runs
   A nested run (the retried function of r makes a retried call r') is the interleaving in
   which all labels of r' lie between an LEnter and the LExit of r; a concurrent run is any
   other interleaving.

   [step] is the code: a HEAP of elements shared by everybody, the POOL, and per run the
   name of its element and the locals of RunWithRetry.  The discipline is a parameter
   ([pool_cfg]): where the Put happens and which fields the getter resets -- the values of
   the tree are computed from the tables that go2v regenerates from retry.go
   ([cfg_of_tables], Gen/GenReqStatePool.v); Proofs/RetryRunsP.v proves them equal to
   [private_cfg] and proves, for [private_cfg], that [step] refines [iso_step], the
   specification in which every run simply owns a private RequestState.

   No proofs in this file. *)
From Coq Require Import ZArith List Bool String Ascii.
From Verif Require Import Base.Wrap Base.Wire Gen.GenConsts Gen.GenRetry Model.Retry.
Import ListNotations.
Local Open Scope Z_scope.

(* ------------------------------------------------------------------ the RequestState, the locals *)

(* the two fields of a RequestState the attempts look at *)
Record rs_obj := mkObj { ro_attempt : Z; ro_sel : list (list Z) }.
Definition obj0 : rs_obj := mkObj 0 [].

Definition obj_inc (ob : rs_obj) : rs_obj := mkObj (ro_attempt ob + 1) (ro_sel ob).
Definition obj_mark (ob : rs_obj) (hp : list Z) : rs_obj := mkObj (ro_attempt ob) (add_selected (ro_sel ob) hp).
Definition obs_of (ob : rs_obj) : attempt_obs := {| ao_attempt := ro_attempt ob; ao_seen := ro_sel ob |}.

(* locals of one RunWithRetry: iterations left (MaxAttempts - i), the policy, err, whether the
   retried function is executing, whether the run has returned (then [rc_last] is what it
   returned), and what its attempts have seen *)
Record run_ctl := mkCtl { rc_left : nat; rc_ron : Z; rc_last : goerr; rc_in : bool; rc_done : bool;
                          rc_log : list attempt_obs }.

Definition ctl_start (o : option retry_opts) : run_ctl :=
  let o := get_retry_options o in
  let n := Z.to_nat (max_attempts o) in
  mkCtl n (retry_on o) nil_err false (match n with O => true | _ => false end) [].

(* loop head + call of f: [ob] is the RequestState as the attempt finds it *)
Definition ctl_enter (c : run_ctl) (ob : rs_obj) : option run_ctl :=
  if rc_done c || rc_in c then None
  else Some (mkCtl (rc_left c) (rc_ron c) (rc_last c) true false (rc_log c ++ [obs_of ob])).

(* return of f with [e] + the stop rule of RunWithRetry *)
Definition ctl_exit (c : run_ctl) (ob : rs_obj) (e : goerr) : option run_ctl :=
  if rc_done c || negb (rc_in c) then None
  else
    let log := rc_log c ++ [obs_of ob] in
    if e_nil e then Some (mkCtl (rc_left c) (rc_ron c) nil_err false true log)
    else if negb (CanRetry (rc_ron c) e) then Some (mkCtl (rc_left c) (rc_ron c) e false true log)
    else match rc_left c with
         | S (S n) => Some (mkCtl (S n) (rc_ron c) e false false log)
         | _ => Some (mkCtl O (rc_ron c) e false true log)
         end.

Definition ctl_can_mark (c : run_ctl) : bool := rc_in c && negb (rc_done c).

(* ------------------------------------------------------------------ labels *)

Inductive label :=
| LStart (r : Z) (o : option retry_opts) (k : Z)
| LEnter (r k : Z)
| LMark (r : Z) (hp : list Z)
| LExit (r : Z) (e : goerr).

Definition lab_run (l : label) : Z :=
  match l with LStart r _ _ => r | LEnter r _ => r | LMark r _ => r | LExit r _ => r end.

(* ------------------------------------------------------------------ the specification: private states *)

Record iso_run := mkIso { ir_obj : rs_obj; ir_ctl : run_ctl }.

(* one run on its own: its RequestState is a value inside the run (None = not started) *)
Definition iso_step (s : option iso_run) (l : label) : option (option iso_run) :=
  match l, s with
  | LStart _ o _, None => Some (Some (mkIso obj0 (ctl_start o)))
  | LStart _ _ _, Some _ => None
  | _, None => None
  | LEnter _ _, Some ir =>
      let ob := obj_inc (ir_obj ir) in
      match ctl_enter (ir_ctl ir) ob with Some c => Some (Some (mkIso ob c)) | None => None end
  | LMark _ hp, Some ir =>
      if ctl_can_mark (ir_ctl ir) then Some (Some (mkIso (obj_mark (ir_obj ir) hp) (ir_ctl ir))) else None
  | LExit _ e, Some ir =>
      match ctl_exit (ir_ctl ir) (ir_obj ir) e with Some c => Some (Some (mkIso (ir_obj ir) c)) | None => None end
  end.

Fixpoint iso_exec (s : option iso_run) (ls : list label) : option (option iso_run) :=
  match ls with
  | [] => Some s
  | l :: r => match iso_step s l with Some s' => iso_exec s' r | None => None end
  end.

(* the labels of run r *)
Definition proj (r : Z) (ls : list label) : list label := filter (fun l => lab_run l =? r) ls.

(* ------------------------------------------------------------------ the code: heap + pool *)

Record pool_cfg := mkCfg {
  pc_put_at_exit : bool;     (* the only Put is the deferred one of RunWithRetry *)
  pc_reset_attempt : bool;   (* getRequestState resets Attempt *)
  pc_reset_sel : bool        (* getRequestState resets SelectedPeers *)
}.
Definition private_cfg : pool_cfg := mkCfg true true true.

Definition obj_reset (cfg : pool_cfg) (ob : rs_obj) : rs_obj :=
  mkObj (if pc_reset_attempt cfg then 0 else ro_attempt ob) (if pc_reset_sel cfg then [] else ro_sel ob).

Fixpoint lookup {A} (k : Z) (l : list (Z * A)) : option A :=
  match l with
  | [] => None
  | (k', v) :: r => if k =? k' then Some v else lookup k r
  end.
Fixpoint upd {A} (k : Z) (v : A) (l : list (Z * A)) : list (Z * A) :=
  match l with
  | [] => [(k, v)]
  | (k', v') :: r => if k =? k' then (k, v) :: r else (k', v') :: upd k v r
  end.
Fixpoint zmem (k : Z) (l : list Z) : bool :=
  match l with [] => false | x :: r => (k =? x) || zmem k r end.
Fixpoint zremove1 (k : Z) (l : list Z) : list Z :=
  match l with [] => [] | x :: r => if k =? x then r else x :: zremove1 k r end.

Record run_st := mkRun { rn_obj : Z; rn_ctl : run_ctl }.
Record st := mkSt { s_heap : list (Z * rs_obj); s_pool : list Z; s_runs : list (Z * run_st) }.
Definition st0 : st := mkSt [] [] [].

(* requestStatePool.Get() returning the element named k: an element that exists must be in
   the pool (it leaves it); a name never seen is a new zero element *)
Definition pool_get (s : st) (k : Z) : option (rs_obj * list Z) :=
  match lookup k (s_heap s) with
  | Some ob => if zmem k (s_pool s) then Some (ob, zremove1 k (s_pool s)) else None
  | None => Some (obj0, s_pool s)
  end.

Definition step (cfg : pool_cfg) (s : st) (l : label) : option st :=
  match l with
  | LStart r o k =>
      match lookup r (s_runs s) with
      | Some _ => None
      | None =>
          match pool_get s k with
          | None => None
          | Some (ob, pool) =>
              let c := ctl_start o in
              (* not deferred: the element is back in the pool before the first attempt;
                 deferred: it goes back when the run returns (at once when it makes no attempt) *)
              let pool := if pc_put_at_exit cfg then (if rc_done c then k :: pool else pool) else k :: pool in
              Some (mkSt (upd k (obj_reset cfg ob) (s_heap s)) pool (upd r (mkRun k c) (s_runs s)))
          end
      end
  | LEnter r k =>
      match lookup r (s_runs s) with
      | None => None
      | Some rn =>
          if negb (k =? rn_obj rn) then None else
          match lookup k (s_heap s) with
          | None => None
          | Some ob =>
              let ob := obj_inc ob in
              match ctl_enter (rn_ctl rn) ob with
              | None => None
              | Some c => Some (mkSt (upd k ob (s_heap s)) (s_pool s) (upd r (mkRun k c) (s_runs s)))
              end
          end
      end
  | LMark r hp =>
      match lookup r (s_runs s) with
      | None => None
      | Some rn =>
          if negb (ctl_can_mark (rn_ctl rn)) then None else
          match lookup (rn_obj rn) (s_heap s) with
          | None => None
          | Some ob => Some (mkSt (upd (rn_obj rn) (obj_mark ob hp) (s_heap s)) (s_pool s) (s_runs s))
          end
      end
  | LExit r e =>
      match lookup r (s_runs s) with
      | None => None
      | Some rn =>
          match lookup (rn_obj rn) (s_heap s) with
          | None => None
          | Some ob =>
              match ctl_exit (rn_ctl rn) ob e with
              | None => None
              | Some c =>
                  let pool := if pc_put_at_exit cfg && rc_done c then rn_obj rn :: s_pool s else s_pool s in
                  Some (mkSt (s_heap s) pool (upd r (mkRun (rn_obj rn) c) (s_runs s)))
              end
          end
      end
  end.

Fixpoint exec (cfg : pool_cfg) (s : st) (ls : list label) : option st :=
  match ls with
  | [] => Some s
  | l :: r => match step cfg s l with Some s' => exec cfg s' r | None => None end
  end.

(* index of the first label that is not enabled (for the harness) *)
Fixpoint exec_idx (cfg : pool_cfg) (s : st) (ls : list label) (i : Z) : st + Z :=
  match ls with
  | [] => inl s
  | l :: r => match step cfg s l with Some s' => exec_idx cfg s' r (i + 1) | None => inr i end
  end.

(* ------------------------------------------------------------------ one run from a script *)

(* the labels a run r emits when nobody else runs: the loop of Model/Retry.v [attempts] on the
   scripted outcomes (attempt k returns outcome k and marks its host:ports) *)
Fixpoint script_labels (r k : Z) (n : nat) (ron : Z) (attempt : Z) (outs : list (goerr * list (list Z))) : list label :=
  match n with
  | O => []
  | S n' =>
      let attempt := attempt + 1 in
      let '(e, added) := nth (Z.to_nat (attempt - 1)) outs (last outs (nil_err, [])) in
      LEnter r k :: map (LMark r) added ++ LExit r e ::
      (if e_nil e then [] else if negb (CanRetry ron e) then [] else script_labels r k n' ron attempt outs)
  end.
Definition run_labels (r k : Z) (o : option retry_opts) (outs : list (goerr * list (list Z))) : list label :=
  let o' := get_retry_options o in
  LStart r o k :: script_labels r k (Z.to_nat (max_attempts o')) (retry_on o') 0 outs.

(* entry observations = every other element of the log *)
Fixpoint evens {A} (l : list A) : list A :=
  match l with
  | a :: _ :: r => a :: evens r
  | [a] => [a]
  | [] => []
  end.

(* ------------------------------------------------------------------ the tree's discipline, from the generated tables *)

Definition rr_s2z (s : string) : list Z := map (fun a => Z.of_nat (nat_of_ascii a)) (list_ascii_of_string s).

Definition rr_row := (list Z * list Z * list Z * list Z)%type.
Definition rrw (fn kind detail grd : string) : rr_row := (rr_s2z fn, rr_s2z kind, rr_s2z detail, rr_s2z grd).

(* the model's copy of Gen/GenReqStatePool.rsp_sites: every mention of requestStatePool *)
Definition rsp_sites_model : list rr_row :=
  [ rrw "var" "Decl" "New returns &RequestState{}" "";
    rrw "Channel.RunWithRetry" "Put" "rs" "defer";
    rrw "Channel.getRequestState" "Get" "rs" "" ].

(* the model's copy of Gen/GenReqStatePool.rsp_uses: every occurrence of a variable holding an
   element of the pool *)
Definition rsp_uses_model : list rr_row :=
  [ rrw "Channel.RunWithRetry" "Def" "ch.getRequestState(opts)" "";
    rrw "Channel.RunWithRetry" "Put" "requestStatePool" "defer";
    rrw "Channel.RunWithRetry" "IncField" "Attempt++" "for";
    rrw "Channel.RunWithRetry" "Pass" "f(runCtx, rs)" "for && opts.TimeoutPerAttempt == 0";
    rrw "Channel.RunWithRetry" "Pass" "f(attemptCtx, rs)" "for && !(opts.TimeoutPerAttempt == 0)";
    rrw "Channel.RunWithRetry" "Read" "rs.Attempt" "for";
    rrw "Channel.getRequestState" "Def" "requestStatePool.Get().(*RequestState)" "";
    rrw "Channel.getRequestState" "Reset" "RequestState{ Start: ch.timeNow(), retryOpts: retryOpts, }" "";
    rrw "Channel.getRequestState" "Return" "rs" "" ].

Fixpoint zlist_eqb (a b : list Z) : bool :=
  match a, b with
  | [], [] => true
  | x :: a', y :: b' => (x =? y) && zlist_eqb a' b'
  | _, _ => false
  end.
Fixpoint zlist_prefix (p l : list Z) : bool :=
  match p, l with
  | [], _ => true
  | x :: p', y :: l' => (x =? y) && zlist_prefix p' l'
  | _, _ => false
  end.
Definition row_eqb (a b : rr_row) : bool :=
  let '(a1, a2, a3, a4) := a in let '(b1, b2, b3, b4) := b in
  zlist_eqb a1 b1 && zlist_eqb a2 b2 && zlist_eqb a3 b3 && zlist_eqb a4 b4.
Fixpoint rows_eqb (a b : list rr_row) : bool :=
  match a, b with
  | [], [] => true
  | x :: a', y :: b' => row_eqb x y && rows_eqb a' b'
  | _, _ => false
  end.
Fixpoint field_lookup (f : list Z) (l : list (list Z * list Z)) : option (list Z) :=
  match l with
  | [] => None
  | (k, v) :: r => if zlist_eqb f k then Some v else field_lookup f r
  end.
Definition is_zero_reset (v : option (list Z)) : bool :=
  match v with Some v => zlist_eqb v (rr_s2z "zero") | None => false end.

(* every field of the struct is written on the way from Get to the getter's return *)
Definition reset_complete (fields : list (list Z)) (reset : list (list Z * list Z)) : bool :=
  forallb (fun f => match field_lookup f reset with
                    | Some v => negb (zlist_eqb v (rr_s2z "kept")) && negb (zlist_prefix (rr_s2z "cond:") v)
                    | None => false
                    end) fields.

Definition row_kind_is (k : string) (r : rr_row) : bool := let '(_, kind, _, _) := r in zlist_eqb kind (rr_s2z k).

(* the discipline the tables describe:
   put at exit  <->  the Put rows of the site table are exactly ONE deferred Put of the variable
                     bound to the getter's result in RunWithRetry, and that variable's Put row in
                     the use table is the same deferred statement; no other mention of the pool
                     than its declaration, that Put and one Get;
   resets       <->  the getter leaves "zero" in the field *)
Definition cfg_of_tables (sites uses : list rr_row) (reset : list (list Z * list Z)) : pool_cfg :=
  mkCfg
    (rows_eqb (filter (row_kind_is "Put") sites) [rrw "Channel.RunWithRetry" "Put" "rs" "defer"]
     && rows_eqb (filter (row_kind_is "Put") uses) [rrw "Channel.RunWithRetry" "Put" "requestStatePool" "defer"]
     && rows_eqb (filter (row_kind_is "Ref") sites) []
     && (List.length (filter (row_kind_is "Get") sites) =? 1)%nat)
    (is_zero_reset (field_lookup (rr_s2z "Attempt") reset))
    (is_zero_reset (field_lookup (rr_s2z "SelectedPeers") reset)).

(* ------------------------------------------------------------------ harness entry point
   case:  nLabels (label)*
     label:  0 r has maxAttempts retryOn k   LStart
             1 r k                           LEnter
             2 r len (bytes)                 LMark
             3 r nil sys code net            LExit
   observable: nRuns ( r done err(nil sys code net) nObs (attempt nSeen (bytes)* )* )*   runs by name
               or  -1 i   when label i is not enabled (a state handed out while another run holds it,
               a call after the run returned, ...)                                            *)
Definition take_label (l : list Z) : label * list Z :=
  match l with
  | 0 :: r :: has :: ma :: ron :: k :: rest =>
      (LStart r (if bz has then Some {| max_attempts := ma; retry_on := ron |} else None) k, rest)
  | 1 :: r :: k :: rest => (LEnter r k, rest)
  | 2 :: r :: rest => let '(hp, rest') := take_bytes rest in (LMark r hp, rest')
  | 3 :: r :: rest => let '(e, rest') := take_err rest in (LExit r e, rest')
  | _ => (LEnter (-1) (-1), [])
  end.

Fixpoint insert_run (x : Z * run_st) (l : list (Z * run_st)) : list (Z * run_st) :=
  match l with
  | [] => [x]
  | y :: r => if fst x <=? fst y then x :: l else y :: insert_run x r
  end.
Definition sort_runs (l : list (Z * run_st)) : list (Z * run_st) := fold_right insert_run [] l.

Definition put_run (x : Z * run_st) : list Z :=
  let c := rn_ctl (snd x) in
  fst x :: zb (rc_done c) :: put_err (rc_last c)
  ++ put_list (fun a => ao_attempt a :: put_list put_bytes (canon_set (ao_seen a))) (rc_log c).

Definition run_retryruns (c : list Z) : list Z :=
  let '(ls, _) := take_list take_label c in
  match exec_idx private_cfg st0 ls 0 with
  | inl s => put_list put_run (sort_runs (s_runs s))
  | inr i => [-1; i]
  end.
