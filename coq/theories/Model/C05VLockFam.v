(* Property C05 (b): two further scenario families of engine cutbegin (sub c05vlock) as paths of
   the time-abstract model (Model/CallPath.v run_path) over the generated wait-site table
   (Gen/GenWaitSites.v) AND the generated lock-site table (Gen/GenLockProgs.v), in the style of
   Model/CutBegin.v: a lock acquisition takes no time iff its site is in the table and every
   lock program of the package passes the checker (lock_in); otherwise the goroutine may be
   blocked for ever.

   Family 3 -- A CALLER GIVES UP ON A STALLED CONNECTION.  The connection is stalled in the send
   direction (the frame writer is blocked in Write, the send buffer of 1-4 frames is full).
   X is blocked in reqResWriter.flushFragment on a multi-frame argument; W (optional) has sent
   its request before the stall and waits in messageExchange.recvPeerFrame for a response that
   is withheld.  One of them (who) cancels its context at tc (mode 0) or lets its deadline
   expire (mode 1, the control).  With SendCancelOnContextCanceled the cancelling caller's own
   goroutine runs Connection.onCancel: the cancel frame does not fit into the full buffer, so
   THE SAME GOROUTINE runs the connection's failure path -- connectionError: close
   (Connection.withStateLock), stopExchanges on both exchange sets, checkExchanges
   (Connection.readState) -- and then removes its exchange; the other call on the connection
   is woken by the error latch.  Z begins a call to the same host:port afterwards: over a new
   connection if the old one failed, else queued behind the full buffer until its deadline.

   Family 4 -- THE CONNECTION DIES WHILE IT IS BEING REGISTERED WITH ITS PEER.  The goroutine
   that establishes the connection (the first caller, inside Channel.Connect; or the listener's
   goroutine for an inbound connection) is between the unlocked and the locked state check of
   Peer.addConnection when the connection leaves the active state (local Close, or the frame
   reader sees a cut); it then takes the peer's lock, finds the connection inactive and
   returns.  The first call fails on the dead connection; follow-up calls to the same
   host:port take the same peer's lock (Peer.getActiveConn), connect anew and register the new
   connection (Peer.addConnection again).

   Prediction per call: [class; control back by its bound] with class 1 = fails, 0 = any valid
   outcome (exactly its response, or an error); the bound is the call's deadline, for a
   cancelling caller the moment of the cancellation.  No proofs here. *)
From Coq Require Import ZArith List Bool.
From Verif Require Import Base.Wrap Base.Bytes Base.Wire Gen.GenConsts Gen.GenWaitSites Gen.GenLockProgs
  Spec.WaitSpec Spec.LockProgSpec Model.CallPath Model.CallScen Model.LockProg Model.CutBegin.
Import ListNotations.
Local Open Scope Z_scope.

Definition n_c05v_addconn : list Z := [80; 101; 101; 114; 46; 97; 100; 100; 67; 111; 110; 110; 101; 99; 116; 105; 111; 110].   (* "Peer.addConnection" *)
Definition n_c05v_statelock : list Z := [67; 111; 110; 110; 101; 99; 116; 105; 111; 110; 46; 119; 105; 116; 104; 83; 116; 97; 116; 101; 76; 111; 99; 107].   (* "Connection.withStateLock" *)
Definition n_c05v_stopex : list Z := [109; 101; 115; 115; 97; 103; 101; 69; 120; 99; 104; 97; 110; 103; 101; 83; 101; 116; 46; 115; 116; 111; 112; 69; 120; 99; 104; 97; 110; 103; 101; 115].   (* "messageExchangeSet.stopExchanges" *)

(* a wait that only the context (or the error latch, at [err]) ends: the awaited data never comes *)
Definition c05v_wait (name : list Z) (err : option Z) : pstep := mkStep (site_named name) (mkEv None err None) false.

(* Connection.onCancel -> sendMessage fails (ErrSendBufferFull) -> connectionError, all in the
   cancelling caller's goroutine *)
Definition c05v_fail_path : list pstep :=
  [lock_in n_c05v_statelock; lock_in n_c05v_stopex; lock_in n_c05v_stopex; lock_in n_readstate].

(* [t <= bound] of the path run with the context done at dc *)
Definition c05v_back (class dc bound : Z) (path : list pstep) : list Z :=
  match run_path dc dc path 0 with
  | None => [class; 0]
  | Some t => [class; zb (t <=? bound)]
  end.

(* the caller that gives up: [site] is where it is blocked *)
Definition c05v_giver (site : list Z) (registered : bool) (sendcancel mode d tc : Z) : list Z :=
  let dc := if mode =? 0 then Z.min tc d else d in
  let path := (if registered then [] else [lock_in n_newex]) ++ [c05v_wait site None] ++
              (if (mode =? 0) && (sendcancel =? 1) then c05v_fail_path else []) ++ [lock_in n_rmex] in
  c05v_back 1 dc dc path.

(* the other call on the connection: woken by the error latch at tc if the connection failed *)
Definition c05v_other (site : list Z) (registered : bool) (sendcancel mode d tc : Z) : list Z :=
  let err := if (mode =? 0) && (sendcancel =? 1) then Some tc else None in
  c05v_back 1 d d ((if registered then [] else [lock_in n_newex]) ++ [c05v_wait site err; lock_in n_rmex]).

(* a new connection is made and registered with its peer *)
Definition c05v_connect : list pstep :=
  [w_ready n_lock; w_ready n_dial; w_ready n_hs_write; w_ready n_hs_read; lock_in n_c05v_addconn].

(* Z: a call to the same host:port afterwards *)
Definition c05v_after (failed : bool) (d : Z) : list Z :=
  let path := if failed
    then [lock_in n_getconn; lock_in n_readstate] ++ c05v_connect ++
         [lock_in n_newex; w_ready n_flush; w_wait n_recv (Some 0); lock_in n_rmex]
    else [lock_in n_getconn; lock_in n_readstate; lock_in n_newex; c05v_wait n_flush None; lock_in n_rmex] in
  c05v_back 0 d d path.

(* family 3: sendcancel sb who mode hasW dX dW dZ tc *)
Definition c05v_stall (sendcancel who mode hasw dx dw dz tc : Z) : list (list Z) :=
  let failed := (mode =? 0) && (sendcancel =? 1) in
  (if who =? 0 then c05v_giver n_flush false sendcancel mode dx tc else c05v_other n_flush false sendcancel mode dx tc) ::
  (if hasw =? 1
   then [if who =? 1 then c05v_giver n_recv true sendcancel mode dw tc else c05v_other n_recv true sendcancel mode dw tc]
   else []) ++
  [c05v_after failed dz].

(* family 4: the first call (connects, registers, meets the dead connection), the follow-ups *)
Definition c05v_first (d : Z) : list Z :=
  c05v_back 0 d d ([lock_in n_getconn] ++ c05v_connect ++ [lock_in n_c05v_addconn; lock_in n_readstate]).

Definition c05v_reg (d0 : Z) (dzs : list Z) : list (list Z) :=
  c05v_first d0 :: map (c05v_after true) dzs.

Definition c05v_results (c : list Z) : list (list Z) :=
  match c with
  | [3; sendcancel; _; who; mode; hasw; dx; dw; dz; tc] => c05v_stall sendcancel who mode hasw dx dw dz tc
  | 4 :: _ :: _ :: _ :: _ :: d0 :: dzs => c05v_reg d0 dzs
  | _ => [[-1]]
  end.

Definition run_c05vlock (c : list Z) : list Z := concat (c05v_results c).
