(* Texts of the errors raised during the connection handshake (preinit_connection.go,
   errors.go, frame.go, typed/buffer.go, the two stringer files), as byte lists.
   Kept in a file of its own because it imports Coq's String library. *)
From Coq Require Import ZArith List Bool.
From Coq Require Import String Ascii.
Import ListNotations.
Local Open Scope Z_scope.

Definition str (s : string) : list Z :=
  List.map (fun a => Z.of_N (N_of_ascii a)) (list_ascii_of_string s).

(* the literal texts, evaluated here so that no Coq [string] is left in the definitions
   (and none is extracted) *)
Definition L0 : list Z := Eval vm_compute in str "ErrCodeInvalid".
Definition L1 : list Z := Eval vm_compute in str "ErrCodeTimeout".
Definition L2 : list Z := Eval vm_compute in str "ErrCodeCancelled".
Definition L3 : list Z := Eval vm_compute in str "ErrCodeBusy".
Definition L4 : list Z := Eval vm_compute in str "ErrCodeDeclined".
Definition L5 : list Z := Eval vm_compute in str "ErrCodeUnexpected".
Definition L6 : list Z := Eval vm_compute in str "ErrCodeBadRequest".
Definition L7 : list Z := Eval vm_compute in str "ErrCodeNetwork".
Definition L8 : list Z := Eval vm_compute in str "ErrCodeProtocol".
Definition L9 : list Z := Eval vm_compute in str "SystemErrCode(".
Definition L10 : list Z := Eval vm_compute in str ")".
Definition L11 : list Z := Eval vm_compute in str "messageTypeInitReq".
Definition L12 : list Z := Eval vm_compute in str "messageTypeInitRes".
Definition L13 : list Z := Eval vm_compute in str "messageTypeCallReq".
Definition L14 : list Z := Eval vm_compute in str "messageTypeCallRes".
Definition L15 : list Z := Eval vm_compute in str "messageTypeCallReqContinue".
Definition L16 : list Z := Eval vm_compute in str "messageTypeCallResContinue".
Definition L17 : list Z := Eval vm_compute in str "messageTypeCancel".
Definition L18 : list Z := Eval vm_compute in str "messageTypePingReq".
Definition L19 : list Z := Eval vm_compute in str "messageTypePingRes".
Definition L20 : list Z := Eval vm_compute in str "messageTypeError".
Definition L21 : list Z := Eval vm_compute in str "messageType(".
Definition L22 : list Z := Eval vm_compute in str "tchannel error ".
Definition L23 : list Z := Eval vm_compute in str ": ".
Definition L24 : list Z := Eval vm_compute in str "timeout".
Definition L25 : list Z := Eval vm_compute in str "EOF".
Definition L26 : list Z := Eval vm_compute in str "unexpected EOF".
Definition L27 : list Z := Eval vm_compute in str "buffer is too small".
Definition L28 : list Z := Eval vm_compute in str "no more room in buffer".
Definition L29 : list Z := Eval vm_compute in str "string is too long".
Definition L30 : list Z := Eval vm_compute in str "invalid frame size ".
Definition L31 : list Z := Eval vm_compute in str "expected message type ".
Definition L32 : list Z := Eval vm_compute in str ", got ".
Definition L33 : list Z := Eval vm_compute in str "unsupported protocol version ".
Definition L34 : list Z := Eval vm_compute in str " from peer, expected ".
Definition L35 : list Z := Eval vm_compute in str "header ".
Definition L36 : list Z := Eval vm_compute in str " is required".
Definition L37 : list Z := Eval vm_compute in str "received initRes with invalid ID, wanted ".
Definition L38 : list Z := Eval vm_compute in str "i/o timeout".
Definition L39 : list Z := Eval vm_compute in str ":0".

(* strconv / %d of a non-negative integer (every number printed by the handshake errors
   is a uint16, uint32 or byte) *)
Fixpoint dec_aux (fuel : nat) (n : Z) (acc : list Z) : list Z :=
  match fuel with
  | O => acc
  | S f => let acc' := (48 + n mod 10) :: acc in
           if n / 10 =? 0 then acc' else dec_aux f (n / 10) acc'
  end.
Definition dec (n : Z) : list Z := dec_aux 20 n [].

(* systemerrcode_string.go: SystemErrCode.String *)
Definition syscode_string (c : Z) : list Z :=
  if c =? 0 then L0
  else if c =? 1 then L1
  else if c =? 2 then L2
  else if c =? 3 then L3
  else if c =? 4 then L4
  else if c =? 5 then L5
  else if c =? 6 then L6
  else if c =? 7 then L7
  else if c =? 255 then L8
  else (L9 ++ dec c ++ L10)%list.

(* messagetype_string.go: messageType.String *)
Definition msgtype_string (t : Z) : list Z :=
  if t =? 1 then L11
  else if t =? 2 then L12
  else if t =? 3 then L13
  else if t =? 4 then L14
  else if t =? 19 then L15
  else if t =? 20 then L16
  else if t =? 192 then L17
  else if t =? 208 then L18
  else if t =? 209 then L19
  else if t =? 255 then L20
  else (L21 ++ dec t ++ L10)%list.

(* SystemError.Error(): "tchannel error %v: %s" *)
Definition syserr_text (code : Z) (msg : list Z) : list Z :=
  (L22 ++ syscode_string code ++ L23 ++ msg)%list.

Definition t_timeout : list Z := L24.                       (* ErrTimeout *)
Definition t_EOF : list Z := L25.                               (* io.EOF *)
Definition t_unexpected_EOF : list Z := L26.         (* io.ErrUnexpectedEOF *)
Definition t_buffer_too_small : list Z := L27.  (* typed.ErrEOF *)
Definition t_buffer_full : list Z := L28.    (* typed.ErrBufferFull *)
Definition t_string_too_long : list Z := L29.    (* typed.errStringTooLong *)
Definition t_invalid_frame_size (size : Z) : list Z := (L30 ++ dec size)%list.
Definition t_expected_type (want got : Z) : list Z :=
  (L31 ++ msgtype_string want ++ L32 ++ msgtype_string got)%list.
Definition t_unsupported_version (got expected : Z) : list Z :=
  (L33 ++ dec got ++ L34 ++ dec expected)%list.
Definition t_header_required (key : list Z) : list Z := (L35 ++ key ++ L36)%list.
Definition t_invalid_id (wanted got : Z) : list Z :=
  (L37 ++ dec wanted ++ L32 ++ dec got)%list.
Definition t_io_timeout : list Z := L38.
Definition t_colon0 : list Z := L39.
