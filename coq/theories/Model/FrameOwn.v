(* Hand model of the frame-pool discipline of tchannel-go (property C12): every
   FramePool.Get / FramePool.Release call site and every hand-over of a *Frame between
   goroutines, as an interleaving transition system.

   Go code modelled (as repaired by fix commit 4433c97 "dispatchInbound releases the fragment
   the reader still holds when the method cannot be read"; [step true] keeps the pinned
   behaviour of that one site):
     connection.go   readFrames / handleFrameNoRelay / handleFrameRelay, writeFrames,
                     sendMessage, SendSystemError, recvMessage
     inbound.go      handleCallReq, handleCallReqContinue, dispatchInbound (readMethod failure),
                     InboundCallResponse.SendSystemError, Response()
     outbound.go     handleCallRes(Continue), handleError, doneReading
     reqres.go       recvNextFragment, releasePreviousFragment, parseInboundFragment (onDone),
                     reqResWriter.newFragment / flushFragment, failed
     fragmenting_reader.go  readableFragment.done, recvAndParseNextFragment, Read (copy out of
                     the current chunk), Close of the last argument
     fragmenting_writer.go  Flush / Close (flushFragment then newFragment), writes into the chunk
     mex.go          forwardPeerFrame (both), recvPeerFrame(OfType), shutdown, expire, stopExchanges
     relay.go        Relay / handleNonCallReq / handleCallReq / Receive release contract,
                     handleLocalCallReq, relayFragmentSender.newFragment / flushFragment
     preinit_connection.go  readMessage / writeMessage

   forwardPeerFrame (tree with fix 6451431 "refuse later frames of an exchange once one was
   dropped"): context error first, then frameDropped, then "recvCh has room" BEFORE "errCh is
   notified" -- a frame that arrives after the exchange's error was latched (LErrN: stopExchanges
   after a connection or protocol error, the exchange still registered) is queued while recvCh
   has room and then belongs to the call: both branches of the select (case recvCh <- frame, and
   case <-errCh.c followed by the non-blocking send) return nil, so the reader loop keeps its
   hands off and the only release is the fragment's done().  [LReadFwd] has exactly one rule for
   that hand-over (x_errn is not consulted while mex_room holds).

   Granularity: one label = one atomic action (a channel operation, or a stretch of code that
   only touches a frame the acting goroutine holds in a local variable).  Results of racy
   reads that do not concern frames (connection state, relay item lookups, parse results)
   are supplied by the label, i.e. universally quantified.  Frame CONTENTS are not modelled;
   a frame is a token.  Queues are FIFO lists with their Go capacities.

   Deliberate abstractions (all over-approximations: more behaviours than the code):
     * the argument state machines of fragmentingReader / fragmentingWriter are reduced to
       "err / complete" flags: fetch, access and close-last may come in any order while
       err = nil and the state is not complete (C01 models those machines in detail);
     * exchange keys [k] name exchange INSTANCES (fresh per call), the label says which
       instance a frame's id resolves to;
     * relay item bookkeeping (found / tomb / timer stopped) is label-supplied.

   No proofs in this file. *)
From Coq Require Import ZArith List Bool String Ascii.
From Verif Require Import Base.Wrap Base.Wire Gen.GenConsts Spec.FrameOwnSpec.
Import ListNotations.
Local Open Scope Z_scope.

(* ------------------------------------------------------------------ call sites *)

(* Every Get/Release call site of the library, in the order go2v lists them
   (file, function, kind).  The numbers are the [site] field of EGet / ERel. *)
Definition S_sse_get := 1.     (* connection.go Connection.SendSystemError: Get *)
Definition S_sse_rel := 2.     (* connection.go Connection.SendSystemError: Release (deferred, on send error) *)
Definition S_rf_get := 3.      (* connection.go Connection.readFrames: Get *)
Definition S_rf_rel_body := 4. (* connection.go Connection.readFrames: Release after ReadBody failed *)
Definition S_rf_rel := 5.      (* connection.go Connection.readFrames: Release when the handler returned true *)
Definition S_rm_rel := 6.      (* connection.go Connection.recvMessage: Release *)
Definition S_sm_get := 7.      (* connection.go Connection.sendMessage: Get *)
Definition S_sm_rel := 8.      (* connection.go Connection.sendMessage: Release (frame.write failed) *)
Definition S_wf_drain := 9.    (* connection.go Connection.writeFrames: Release in the deferred drain loop *)
Definition S_wf_rel := 10.     (* connection.go Connection.writeFrames: Release after WriteOut *)
Definition S_rpf_rel := 11.    (* mex.go messageExchange.recvPeerFrameOfType: Release of an error frame *)
Definition S_pr_get := 12.     (* preinit_connection.go Channel.readMessage: Get *)
Definition S_pr_rel := 13.     (* preinit_connection.go Channel.readMessage: Release *)
Definition S_pw_get := 14.     (* preinit_connection.go Channel.writeMessage: Get *)
Definition S_pw_rel := 15.     (* preinit_connection.go Channel.writeMessage: Release *)
Definition S_local_rel := 16.  (* relay.go Relayer.handleLocalCallReq: Release *)
Definition S_rfs_rel := 17.    (* relay.go relayFragmentSender.flushFragment: Release *)
Definition S_rfs_get := 18.    (* relay.go relayFragmentSender.newFragment: Get *)
Definition S_pif_rel := 19.    (* reqres.go parseInboundFragment: Release (the onDone closure of a readableFragment) *)
Definition S_rrw_get := 20.    (* reqres.go reqResWriter.newFragment: Get *)
Definition S_pinned_dispatch := 99. (* inbound.go dispatchInbound: Release(frame) -- exists on the pinned tree only *)

Definition s2z (s : string) : list Z := map (fun a => Z.of_nat (nat_of_ascii a)) (list_ascii_of_string s).

(* (site number, function, kind) -- the model's site table *)
Definition site_table : list (Z * (list Z * list Z)) := [
  (S_sse_get,     (s2z "Connection.SendSystemError", s2z "Get"));
  (S_sse_rel,     (s2z "Connection.SendSystemError", s2z "Release"));
  (S_rf_get,      (s2z "Connection.readFrames", s2z "Get"));
  (S_rf_rel_body, (s2z "Connection.readFrames", s2z "Release"));
  (S_rf_rel,      (s2z "Connection.readFrames", s2z "Release"));
  (S_rm_rel,      (s2z "Connection.recvMessage", s2z "Release"));
  (S_sm_get,      (s2z "Connection.sendMessage", s2z "Get"));
  (S_sm_rel,      (s2z "Connection.sendMessage", s2z "Release"));
  (S_wf_drain,    (s2z "Connection.writeFrames", s2z "Release"));
  (S_wf_rel,      (s2z "Connection.writeFrames", s2z "Release"));
  (S_rpf_rel,     (s2z "messageExchange.recvPeerFrameOfType", s2z "Release"));
  (S_pr_get,      (s2z "Channel.readMessage", s2z "Get"));
  (S_pr_rel,      (s2z "Channel.readMessage", s2z "Release"));
  (S_pw_get,      (s2z "Channel.writeMessage", s2z "Get"));
  (S_pw_rel,      (s2z "Channel.writeMessage", s2z "Release"));
  (S_local_rel,   (s2z "Relayer.handleLocalCallReq", s2z "Release"));
  (S_rfs_rel,     (s2z "relayFragmentSender.flushFragment", s2z "Release"));
  (S_rfs_get,     (s2z "relayFragmentSender.newFragment", s2z "Get"));
  (S_pif_rel,     (s2z "parseInboundFragment", s2z "Release"));
  (S_rrw_get,     (s2z "reqResWriter.newFragment", s2z "Get"))
].

(* ------------------------------------------------------------------ state *)

(* messageExchange *)
Record mexst := {
  x_used : bool;      (* this exchange instance has been created *)
  x_conn : Z;         (* its connection *)
  x_cap : Z;          (* cap(recvCh) *)
  x_live : bool;      (* present in messageExchangeSet.exchanges *)
  x_q : list Z;       (* recvCh *)
  x_ctx : bool;       (* mex.ctx.Err() != nil *)
  x_errn : bool;      (* errCh notified (stopExchanges or shutdown) *)
  x_dropped : bool    (* frameDropped: a frame was refused because errCh was notified while recvCh was full *)
}.

(* reqResReader + fragmentingReader of a call *)
Record rdr := {
  r_init : option Z;     (* reqResReader.initialFragment *)
  r_prev : option Z;     (* reqResReader.previousFragment *)
  r_cur : option Z;      (* fragmentingReader.curFragment *)
  r_err : bool;          (* fragmentingReader.err != nil *)
  r_complete : bool;     (* fragmentingReader.state = fragmentingReadComplete *)
  r_inbound : bool;      (* InboundCall (doneReading is a no-op) / OutboundCallResponse (shuts the mex down) *)
  r_quit : bool;         (* the handler is done with the request arguments: it called
                            InboundCallResponse.SendSystemError, or it never ran (dispatch failed) *)
  r_frame0 : option Z    (* parameter frame of the dispatchInbound goroutine *)
}.

(* reqResWriter + fragmentingWriter of a call *)
Record wr := {
  w_cur : option Z;      (* fragmentingWriter.curFragment (its frame) *)
  w_sent : bool;         (* that fragment has been flushed (the pointer is stale) *)
  w_err : bool;          (* writer error (reqResWriter.err / fragmentingWriter.err) *)
  w_complete : bool;     (* fragmentingWriteComplete / reqResWriterComplete *)
  w_inbound : bool       (* InboundCallResponse (doneSending shuts the mex down) / OutboundCall *)
}.

Record st := {
  s_next : Z;                (* next token of the checking pool (never reuses) *)
  s_mex : Z -> mexst;
  s_rdr : Z -> rdr;
  s_wr : Z -> wr;
  s_send : Z -> list Z;      (* sendCh per connection *)
  s_cap : Z;                 (* cap(sendCh) (ConnectionOptions.SendBufferSize) *)
  s_stop : Z -> bool;        (* stopCh closed *)
  s_wexit : Z -> bool;       (* writeFrames left its loop *)
  s_fdone : Z -> bool;       (* readableFragment.isDone, the fragment being identified by its frame *)
  s_ty : Z -> Z;             (* kind of a received frame: 0 the type the exchange expects, 1 error frame, other: unexpected *)
  s_trace : list ev          (* ghost: history, newest first; never read by [step] *)
}.

Definition mex0 : mexst := {| x_used := false; x_conn := 0; x_cap := 0; x_live := false; x_q := []; x_ctx := false; x_errn := false; x_dropped := false |}.
Definition rdr0 : rdr := {| r_init := None; r_prev := None; r_cur := None; r_err := false; r_complete := false;
                            r_inbound := false; r_quit := false; r_frame0 := None |}.
Definition wr0 : wr := {| w_cur := None; w_sent := false; w_err := false; w_complete := false; w_inbound := false |}.

Definition init (cap : Z) : st :=
  {| s_next := 0; s_mex := fun _ => mex0; s_rdr := fun _ => rdr0; s_wr := fun _ => wr0;
     s_send := fun _ => []; s_cap := cap; s_stop := fun _ => false; s_wexit := fun _ => false;
     s_fdone := fun _ => false; s_ty := fun _ => 0; s_trace := [] |}.

Definition fupd {A} (f : Z -> A) (k : Z) (v : A) : Z -> A := fun x => if x =? k then v else f x.

(* field setters *)
Definition set_mex (s : st) (k : Z) (m : mexst) : st :=
  {| s_next := s_next s; s_mex := fupd (s_mex s) k m; s_rdr := s_rdr s; s_wr := s_wr s; s_send := s_send s;
     s_cap := s_cap s; s_stop := s_stop s; s_wexit := s_wexit s; s_fdone := s_fdone s; s_ty := s_ty s; s_trace := s_trace s |}.
Definition set_rdr (s : st) (k : Z) (r : rdr) : st :=
  {| s_next := s_next s; s_mex := s_mex s; s_rdr := fupd (s_rdr s) k r; s_wr := s_wr s; s_send := s_send s;
     s_cap := s_cap s; s_stop := s_stop s; s_wexit := s_wexit s; s_fdone := s_fdone s; s_ty := s_ty s; s_trace := s_trace s |}.
Definition set_wr (s : st) (k : Z) (w : wr) : st :=
  {| s_next := s_next s; s_mex := s_mex s; s_rdr := s_rdr s; s_wr := fupd (s_wr s) k w; s_send := s_send s;
     s_cap := s_cap s; s_stop := s_stop s; s_wexit := s_wexit s; s_fdone := s_fdone s; s_ty := s_ty s; s_trace := s_trace s |}.
Definition set_send (s : st) (c : Z) (q : list Z) : st :=
  {| s_next := s_next s; s_mex := s_mex s; s_rdr := s_rdr s; s_wr := s_wr s; s_send := fupd (s_send s) c q;
     s_cap := s_cap s; s_stop := s_stop s; s_wexit := s_wexit s; s_fdone := s_fdone s; s_ty := s_ty s; s_trace := s_trace s |}.
Definition set_stop (s : st) (c : Z) : st :=
  {| s_next := s_next s; s_mex := s_mex s; s_rdr := s_rdr s; s_wr := s_wr s; s_send := s_send s;
     s_cap := s_cap s; s_stop := fupd (s_stop s) c true; s_wexit := s_wexit s; s_fdone := s_fdone s; s_ty := s_ty s; s_trace := s_trace s |}.
Definition set_wexit (s : st) (c : Z) : st :=
  {| s_next := s_next s; s_mex := s_mex s; s_rdr := s_rdr s; s_wr := s_wr s; s_send := s_send s;
     s_cap := s_cap s; s_stop := s_stop s; s_wexit := fupd (s_wexit s) c true; s_fdone := s_fdone s; s_ty := s_ty s; s_trace := s_trace s |}.
Definition set_fdone (s : st) (t : Z) : st :=
  {| s_next := s_next s; s_mex := s_mex s; s_rdr := s_rdr s; s_wr := s_wr s; s_send := s_send s;
     s_cap := s_cap s; s_stop := s_stop s; s_wexit := s_wexit s; s_fdone := fupd (s_fdone s) t true; s_ty := s_ty s; s_trace := s_trace s |}.
Definition set_ty (s : st) (t ty : Z) : st :=
  {| s_next := s_next s; s_mex := s_mex s; s_rdr := s_rdr s; s_wr := s_wr s; s_send := s_send s;
     s_cap := s_cap s; s_stop := s_stop s; s_wexit := s_wexit s; s_fdone := s_fdone s; s_ty := fupd (s_ty s) t ty; s_trace := s_trace s |}.
Definition emit (e : ev) (s : st) : st :=
  {| s_next := s_next s; s_mex := s_mex s; s_rdr := s_rdr s; s_wr := s_wr s; s_send := s_send s;
     s_cap := s_cap s; s_stop := s_stop s; s_wexit := s_wexit s; s_fdone := s_fdone s; s_ty := s_ty s; s_trace := e :: s_trace s |}.
Definition bump (s : st) : st :=
  {| s_next := s_next s + 1; s_mex := s_mex s; s_rdr := s_rdr s; s_wr := s_wr s; s_send := s_send s;
     s_cap := s_cap s; s_stop := s_stop s; s_wexit := s_wexit s; s_fdone := s_fdone s; s_ty := s_ty s; s_trace := s_trace s |}.

Definition mx_q (m : mexst) (q : list Z) : mexst :=
  {| x_used := x_used m; x_conn := x_conn m; x_cap := x_cap m; x_live := x_live m; x_q := q; x_ctx := x_ctx m; x_errn := x_errn m; x_dropped := x_dropped m |}.
Definition mx_ctx (m : mexst) : mexst :=
  {| x_used := x_used m; x_conn := x_conn m; x_cap := x_cap m; x_live := x_live m; x_q := x_q m; x_ctx := true; x_errn := x_errn m; x_dropped := x_dropped m |}.
Definition mx_errn (m : mexst) : mexst :=
  {| x_used := x_used m; x_conn := x_conn m; x_cap := x_cap m; x_live := x_live m; x_q := x_q m; x_ctx := x_ctx m; x_errn := true; x_dropped := x_dropped m |}.
Definition mx_dropped (m : mexst) : mexst :=
  {| x_used := x_used m; x_conn := x_conn m; x_cap := x_cap m; x_live := x_live m; x_q := x_q m; x_ctx := x_ctx m; x_errn := x_errn m; x_dropped := true |}.
Definition mx_dead (m : mexst) : mexst :=
  {| x_used := x_used m; x_conn := x_conn m; x_cap := x_cap m; x_live := false; x_q := x_q m; x_ctx := x_ctx m; x_errn := x_errn m; x_dropped := x_dropped m |}.

Definition rd_set (r : rdr) (i p c : option Z) (e cpl q : bool) : rdr :=
  {| r_init := i; r_prev := p; r_cur := c; r_err := e; r_complete := cpl; r_inbound := r_inbound r;
     r_quit := q; r_frame0 := r_frame0 r |}.
Definition wr_set (w : wr) (c : option Z) (sent e cpl : bool) : wr :=
  {| w_cur := c; w_sent := sent; w_err := e; w_complete := cpl; w_inbound := w_inbound w |}.

(* ------------------------------------------------------------------ primitives *)

(* FramePool.Get by a goroutine that keeps the frame in a local variable [p] *)
Definition p_get (site : Z) (p : place) (s : st) : st := emit (EGet site (s_next s) p) (bump s).
Definition p_acc (t : Z) (s : st) : st := emit (EAcc t) s.
Definition p_rel (site t : Z) (s : st) : st := emit (ERel site t) s.

Definition send_room (s : st) (c : Z) : bool := zlen (s_send s c) <? s_cap s.
Definition mex_room (m : mexst) : bool := zlen (x_q m) <? x_cap m.

(* ch <- frame *)
Definition push_mex (k t : Z) (s : st) : st :=
  emit (EMov t (PMex k)) (set_mex s k (mx_q (s_mex s k) (x_q (s_mex s k) ++ [t]))).
Definition push_send (c t : Z) (s : st) : st :=
  emit (EMov t (PSend c)) (set_send s c (s_send s c ++ [t])).
(* frame := <-ch (the caller has matched the queue as t :: q) *)
Definition pop_mex (k t : Z) (q : list Z) (p : place) (s : st) : st :=
  emit (EMov t p) (set_mex s k (mx_q (s_mex s k) q)).
Definition pop_send (c t : Z) (q : list Z) (p : place) (s : st) : st :=
  emit (EMov t p) (set_send s c q).

(* messageExchange.shutdown: errCh notified, removed from the exchange set *)
Definition mex_shutdown (k : Z) (s : st) : st := set_mex s k (mx_dead (mx_errn (s_mex s k))).

(* readableFragment.done(): idempotent; onDone = framePool.Release(frame) (parseInboundFragment) *)
Definition frag_done (t : Z) (s : st) : st :=
  if s_fdone s t then s else set_fdone (p_rel S_pif_rel t s) t.

(* reqResReader.failed + the error reaching fragmentingReader.err; curFragment = nil *)
Definition fail_reader (k : Z) (s : st) : st :=
  let s := mex_shutdown k s in
  let r := s_rdr s k in
  set_rdr s k (rd_set r (r_init r) (r_prev r) None true (r_complete r) (r_quit r)).

(* reqResReader.releasePreviousFragment *)
Definition release_prev (k : Z) (quit : bool) (s : st) : st :=
  let r := s_rdr s k in
  let s1 := set_rdr s k (rd_set r (r_init r) None (r_cur r) (r_err r) (r_complete r) quit) in
  match r_prev r with Some t => frag_done t s1 | None => s1 end.

(* recvAndParseNextFragment, first part: if r.curFragment != nil { r.curFragment.done() };
   the pointer is reassigned by the second part in every case *)
Definition fetch_done (k : Z) (s : st) : st :=
  match r_cur (s_rdr s k) with
  | Some t0 =>
      frag_done t0 (set_rdr s k (rd_set (s_rdr s k) (r_init (s_rdr s k)) (r_prev (s_rdr s k)) None
                                   (r_err (s_rdr s k)) (r_complete (s_rdr s k)) (r_quit (s_rdr s k))))
  | None => s
  end.

(* recvAndParseNextFragment, last part: chunk splitting and checksum check of the new fragment *)
Definition parse_chunks (k : Z) (pok : bool) (t : Z) (s : st) : st :=
  let s1 := p_acc t s in
  if pok then s1
  else set_rdr s1 k (rd_set (s_rdr s1 k) (r_init (s_rdr s1 k)) (r_prev (s_rdr s1 k)) (r_cur (s_rdr s1 k)) true
                       (r_complete (s_rdr s1 k)) (r_quit (s_rdr s1 k))).

(* ------------------------------------------------------------------ labels *)

Inductive label :=
| LLocal (c which : Z)                   (* preinit readMessage (which = 0) / writeMessage: Get, use, deferred Release *)
| LReadFail (c : Z)                      (* readFrames: ReadBody fails *)
| LReadRel (c : Z) (loc : bool)          (* readFrames: the handler returned true (loc: through handleLocalCallReq) *)
| LReadLeak (c : Z)                      (* readFrames: the handler returned false without handing the frame on *)
| LReadFwd (c : Z) (ko : option Z) (ty : Z)  (* a frame for an exchange: forwardPeerFrame *)
| LReadCallReq (c k : Z)                 (* handleCallReq accepts the call: new exchange instance k *)
| LRelaySend (c d : Z)                   (* relay: the frame reaches Receive's select on connection d *)
| LRfsFrag (c d : Z) (swallowed : bool)  (* relay with arg2 appends: one fragment of relayFragmentSender *)
| LConnSysErr (c : Z) (wok closed : bool)(* Connection.SendSystemError *)
| LSendMsg (c : Z) (wok : bool)          (* Connection.sendMessage (ping req/res, cancel) *)
| LNewMex (k c cap : Z)                  (* outbound call / ping: newExchange *)
| LCtx (k : Z)                           (* deadline or cancellation of the exchange's context *)
| LErrN (k : Z)                          (* stopExchanges notifies the exchange *)
| LExpire (k : Z)                        (* expireExchange / removeExchange *)
| LShutdown (k : Z)                      (* mex.shutdown from outside reader/writer (handleCallReq re-check) *)
| LFetch (k : Z) (pif_ok pok errok : bool)   (* fragmentingReader.recvAndParseNextFragment *)
| LAcc (k : Z)                           (* fragmentingReader.Read copies out of the current chunk *)
| LCloseLast (k : Z)                     (* fragmentingReader.Close of the last argument *)
| LRespErr (k : Z)                       (* InboundCall.Response() copies the call's error to the response *)
| LRespSysErr (k : Z)                    (* InboundCallResponse.SendSystemError without conn.SendSystemError (= LConnSysErr, which
                                            comes FIRST since fix 1893de8 "a handler's system error is queued before its exchange is
                                            shut down"): state complete, doneSending, releasePreviousFragment *)
| LDispatchFail (k : Z)                  (* dispatchInbound: readMethod failed *)
| LRecvMsg (k : Z)                       (* Connection.recvMessage (ping) *)
| LWNew (k : Z) (wok : bool)             (* reqResWriter.newFragment *)
| LWAcc (k : Z)                          (* argument bytes written into the current fragment *)
| LWFlush (k : Z) (last : bool)          (* fragment finished and reqResWriter.flushFragment *)
| LWrite (c : Z) (werr : bool)           (* writeFrames: one iteration of case f := <-sendCh *)
| LStop (c : Z)                          (* close(stopCh) *)
| LWExit (c : Z)                         (* writeFrames: stopCh case with an empty sendCh *)
| LDrain (c : Z).                        (* writeFrames' deferred drain loop, one iteration *)

(* ------------------------------------------------------------------ step *)

(* [pinned] = true describes dispatchInbound as on the pinned tree (Release(frame)). *)
Definition step (pinned : bool) (s : st) (l : label) : option st :=
  match l with
  | LLocal c which =>
      let t := s_next s in
      if which =? 0
      then Some (p_rel S_pr_rel t (p_acc t (p_get S_pr_get (PLocal c) s)))
      else Some (p_rel S_pw_rel t (p_acc t (p_get S_pw_get (PLocal c) s)))
  | LReadFail c =>
      (* frame := Get(); ReadBody fails; Release(frame); return *)
      let t := s_next s in
      Some (p_rel S_rf_rel_body t (p_acc t (p_get S_rf_get (PReader c) s)))
  | LReadRel c loc =>
      (* frame read; the handler looks at it and returns true *)
      let t := s_next s in
      Some (p_rel (if loc then S_local_rel else S_rf_rel) t (p_acc t (p_get S_rf_get (PReader c) s)))
  | LReadLeak c =>
      let t := s_next s in
      Some (p_acc t (p_get S_rf_get (PReader c) s))
  | LReadFwd c ko ty =>
      let t := s_next s in
      let s1 := set_ty (p_acc t (p_get S_rf_get (PReader c) s)) t ty in
      match ko with
      | None => Some s1                       (* mex == nil: forwardPeerFrame returns nil, handler returns false *)
      | Some k =>
          let m := s_mex s k in
          if negb (x_live m) then Some s1     (* not in the exchanges map: same *)
          else if x_ctx m then Some (p_rel S_rf_rel t s1)
          else if x_dropped m then Some (p_rel S_rf_rel t s1)   (* frameDropped: refused, the reader loop releases *)
          else if mex_room m then Some (push_mex k t s1)        (* queued -- ALSO when errCh is already notified: the
                                                                   frame then belongs to the call, forwardPeerFrame returns
                                                                   nil from either select branch and nobody else releases *)
          else if x_errn m then Some (p_rel S_rf_rel t (set_mex s1 k (mx_dropped m)))
                                                                (* full and failed: refused now and from now on *)
          else None                           (* blocked in the select *)
      end
  | LReadCallReq c k =>
      if x_used (s_mex s k) then None
      else
        let t := s_next s in
        let s1 := p_acc t (p_get S_rf_get (PReader c) s) in
        let s2 := set_mex s1 k {| x_used := true; x_conn := c; x_cap := c_mexChannelBufferSize; x_live := true;
                                  x_q := []; x_ctx := false; x_errn := false; x_dropped := false |} in
        let s3 := set_wr s2 k {| w_cur := None; w_sent := false; w_err := false; w_complete := false; w_inbound := true |} in
        let s4 := set_rdr s3 k {| r_init := Some t; r_prev := None; r_cur := None; r_err := false; r_complete := false;
                                  r_inbound := true; r_quit := false; r_frame0 := Some t |} in
        Some (emit (EMov t (PFrag k)) s4)
  | LRelaySend c d =>
      let t := s_next s in
      let s1 := p_acc t (p_get S_rf_get (PReader c) s) in
      if send_room s d then Some (push_send d t s1) else Some (p_rel S_rf_rel t s1)
  | LRfsFrag c d swallowed =>
      let t := s_next s in
      let s1 := p_acc t (p_get S_rfs_get (PLocal c) s) in
      if swallowed then Some s1
      else if send_room s d then Some (push_send d t s1) else Some (p_rel S_rfs_rel t s1)
  | LConnSysErr c wok closed =>
      let t := s_next s in
      let s1 := p_acc t (p_get S_sse_get (PLocal c) s) in
      if wok && negb closed && send_room s c then Some (push_send c t s1) else Some (p_rel S_sse_rel t s1)
  | LSendMsg c wok =>
      let t := s_next s in
      let s1 := p_acc t (p_get S_sm_get (PLocal c) s) in
      if negb wok then Some (p_rel S_sm_rel t s1)
      else if send_room s c then Some (push_send c t s1)
      else Some s1                            (* ErrSendBufferFull: the frame is dropped, not released *)
  | LNewMex k c cap =>
      if x_used (s_mex s k) then None
      else
        let s2 := set_mex s k {| x_used := true; x_conn := c; x_cap := cap; x_live := true;
                                 x_q := []; x_ctx := false; x_errn := false; x_dropped := false |} in
        let s3 := set_rdr s2 k rdr0 in
        Some (set_wr s3 k wr0)
  | LCtx k => Some (set_mex s k (mx_ctx (s_mex s k)))
  | LErrN k => Some (set_mex s k (mx_errn (s_mex s k)))
  | LExpire k => Some (set_mex s k (mx_dead (s_mex s k)))
  | LShutdown k => Some (mex_shutdown k s)
  | LFetch k pif_ok pok errok =>
      let r := s_rdr s k in
      if r_err r || r_complete r then None
      else
        let s1 := fetch_done k s in
        let r1 := s_rdr s1 k in
        let parse := parse_chunks k pok in
        match r_init r1 with
        | Some t =>
            (* recvNextFragment: the initial fragment *)
            Some (parse t (set_rdr s1 k (rd_set r1 None (Some t) (Some t) (r_err r1) (r_complete r1) (r_quit r1))))
        | None =>
            let m := s_mex s1 k in
            if x_ctx m then Some (fail_reader k s1)
            else match x_q m with
                 | t :: q =>
                     let s2 := pop_mex k t q (PLocal k) s1 in
                     if s_ty s t =? 0 then
                       (* parseInboundFragment *)
                       let s3 := p_acc t s2 in
                       if pif_ok then
                         let r3 := s_rdr s3 k in
                         Some (parse t (emit (EMov t (PFrag k))
                                 (set_rdr s3 k (rd_set r3 None (Some t) (Some t) (r_err r3) (r_complete r3) (r_quit r3)))))
                       else Some (fail_reader k s3)      (* the frame is dropped *)
                     else if s_ty s t =? 1 then
                       (* error frame: deserialised, then released by the deferred Release *)
                       let s3 := p_rel S_rpf_rel t (p_acc t s2) in
                       let s4 := if r_inbound r && errok then s3 else mex_shutdown k s3 in
                       let r4 := s_rdr s4 k in
                       Some (set_rdr s4 k (rd_set r4 (r_init r4) (r_prev r4) None true (r_complete r4) (r_quit r4)))
                     else Some (fail_reader k s2)        (* unexpected type: dropped *)
                 | [] => if x_errn m then Some (fail_reader k s1) else None
                 end
        end
  | LAcc k =>
      let r := s_rdr s k in
      if r_err r || r_complete r then None
      else match r_cur r with Some t => Some (p_acc t s) | None => None end
  | LCloseLast k =>
      let r := s_rdr s k in
      if r_err r || r_complete r then None
      else match r_cur r with
           | Some t =>
               let s1 := if r_inbound r then s else mex_shutdown k s in      (* doneReading *)
               let r1 := s_rdr s1 k in
               Some (frag_done t (set_rdr s1 k (rd_set r1 (r_init r1) (r_prev r1) (r_cur r1) (r_err r1) true (r_quit r1))))
           | None => None
           end
  | LRespErr k =>
      let w := s_wr s k in
      Some (set_wr s k (wr_set w (w_cur w) (w_sent w) true (w_complete w)))
  | LRespSysErr k =>
      let w := s_wr s k in
      if w_err w then Some s
      else
        let s1 := set_wr s k (wr_set w (w_cur w) (w_sent w) (w_err w) true) in
        Some (release_prev k true (mex_shutdown k s1))
  | LDispatchFail k =>
      if pinned then
        match r_frame0 (s_rdr s k) with
        | Some t => let r := s_rdr s k in
                    Some (p_rel S_pinned_dispatch t
                            (set_rdr s k (rd_set r (r_init r) (r_prev r) (r_cur r) (r_err r) (r_complete r) true)))
        | None => None
        end
      else Some (release_prev k true s)
  | LRecvMsg k =>
      let m := s_mex s k in
      if x_ctx m then Some s
      else match x_q m with
           | t :: q =>
               let s2 := pop_mex k t q (PLocal k) s in
               if s_ty s t =? 0 then Some (p_rel S_rm_rel t (p_acc t s2))
               else if s_ty s t =? 1 then Some (p_rel S_rpf_rel t (p_acc t s2))
               else Some s2
           | [] => if x_errn m then Some s else None
           end
  | LWNew k wok =>
      let w := s_wr s k in
      if negb (x_used (s_mex s k)) then None       (* a writer exists only for a created call *)
      else if w_err w || w_complete w then None
      else if match w_cur w with Some _ => negb (w_sent w) | None => false end then None
      else
        let m := s_mex s k in
        if x_ctx m || x_errn m
        then let s1 := mex_shutdown k s in
             Some (set_wr s1 k (wr_set w (w_cur w) (w_sent w) true (w_complete w)))
        else
          let t := s_next s in
          let s1 := p_acc t (p_get S_rrw_get (PLocal k) s) in
          if wok then Some (emit (EMov t (PWFrag k)) (set_wr s1 k (wr_set w (Some t) false false (w_complete w))))
          else Some (mex_shutdown k (set_wr s1 k (wr_set w None false true (w_complete w))))
  | LWAcc k =>
      let w := s_wr s k in
      if w_err w || w_complete w || w_sent w then None
      else match w_cur w with Some t => Some (p_acc t s) | None => None end
  | LWFlush k last =>
      let w := s_wr s k in
      if w_err w || w_complete w || w_sent w then None
      else match w_cur w with
           | Some t =>
               let m := s_mex s k in
               let s1 := p_acc t s in
               if x_ctx m || x_errn m
               then Some (mex_shutdown k (set_wr s1 k (wr_set w (Some t) false true last)))
               else if send_room s (x_conn m)
               then let s2 := push_send (x_conn m) t (set_wr s1 k (wr_set w (Some t) true false last)) in
                    Some (if last && w_inbound w then mex_shutdown k s2 else s2)
               else None
           | None => None
           end
  | LWrite c werr =>
      if s_wexit s c then None
      else match s_send s c with
           | t :: q =>
               let s1 := p_rel S_wf_rel t (p_acc t (pop_send c t q (PWriter c) s)) in
               Some (if werr then set_wexit s1 c else s1)
           | [] => None
           end
  | LStop c => Some (set_stop s c)
  | LWExit c =>
      if s_stop s c && negb (s_wexit s c) && match s_send s c with [] => true | _ => false end
      then Some (set_wexit s c) else None
  | LDrain c =>
      if s_stop s c && s_wexit s c
      then match s_send s c with
           | t :: q => Some (p_rel S_wf_drain t (pop_send c t q (PWriter c) s))
           | [] => None
           end
      else None
  end.

(* What the library may assume of the application (handler): once it has called
   InboundCallResponse.SendSystemError ("the call is considered complete after this method
   is called") it does not go on reading the request's arguments. *)
Definition app_ok (s : st) (l : label) : bool :=
  match l with
  | LFetch k _ _ _ | LAcc k | LCloseLast k => negb (r_quit (s_rdr s k))
  | _ => true
  end.

(* Steps on which the code itself drops a frame without releasing it (all on fault paths):
   a frame for an unknown/finished exchange or swallowed by the relay, an unparsable or
   unexpected frame taken from an exchange, a failed message.write into a fresh frame,
   a control message for a full send buffer. *)
Definition loses (s : st) (l : label) : bool :=
  match l with
  | LReadLeak _ => true
  | LReadFwd _ None _ => true
  | LReadFwd _ (Some k) _ => negb (x_live (s_mex s k))
  | LRfsFrag _ _ swallowed => swallowed
  | LSendMsg c wok => wok && negb (send_room s c)
  | LFetch k pif_ok _ _ =>
      match r_init (s_rdr s k), x_q (s_mex s k) with
      | None, t :: _ => negb (x_ctx (s_mex s k)) && (if s_ty s t =? 0 then negb pif_ok else negb (s_ty s t =? 1))
      | _, _ => false
      end
  | LRecvMsg k =>
      match x_q (s_mex s k) with
      | t :: _ => negb (x_ctx (s_mex s k)) && negb (s_ty s t =? 0) && negb (s_ty s t =? 1)
      | [] => false
      end
  | LWNew k wok => negb wok && negb (x_ctx (s_mex s k) || x_errn (s_mex s k))
  | _ => false
  end.

Fixpoint run (pinned : bool) (s : st) (ls : list label) : option st :=
  match ls with
  | [] => Some s
  | l :: r => if app_ok s l then match step pinned s l with Some s' => run pinned s' r | None => None end else None
  end.

(* runs in which the application is not assumed to keep its contract *)
Fixpoint run_any (pinned : bool) (s : st) (ls : list label) : option st :=
  match ls with
  | [] => Some s
  | l :: r => match step pinned s l with Some s' => run_any pinned s' r | None => None end
  end.

(* runs on which no step drops a frame *)
Fixpoint run_noloss (s : st) (ls : list label) : option st :=
  match ls with
  | [] => Some s
  | l :: r => if app_ok s l && negb (loses s l)
              then match step false s l with Some s' => run_noloss s' r | None => None end else None
  end.

Definition history (s : st) : list ev := rev (s_trace s).

(* which frames something still refers to *)
Definition rdr_holds (s : st) (k t : Z) : Prop :=
  r_init (s_rdr s k) = Some t \/ (r_prev (s_rdr s k) = Some t /\ s_fdone s t = false).
Definition wr_holds (s : st) (k t : Z) : Prop :=
  w_cur (s_wr s k) = Some t /\ w_sent (s_wr s k) = false.
Definition held (s : st) (t : Z) : Prop :=
  (exists k, In t (x_q (s_mex s k)) \/ rdr_holds s k t \/ wr_holds s k t) \/ (exists c, In t (s_send s c)).

(* nothing in flight: no exchange queue, send queue, reader or writer refers to a frame *)
Definition quiescent (s : st) : Prop := forall t, ~ held s t.

(* ------------------------------------------------------------------ executable checks *)

Definition mem (t : Z) (l : list Z) : bool := existsb (Z.eqb t) l.

(* the three trace properties, decided on a newest-first trace *)
Fixpoint tr_okb (tr : list ev) : bool :=
  match tr with
  | [] => true
  | e :: r =>
      tr_okb r &&
      match e with
      | EGet _ t _ => negb (mem t (toks r))
      | EMov t _ | EAcc t | ERel _ t => mem t (gets r) && negb (mem t (rels r))
      end
  end.

(* ------------------------------------------------------------------ harness entry point *)

Definition dec_label (l : list Z) : option (label * list Z) :=
  match l with
  | 0 :: c :: w :: r => Some (LLocal c w, r)
  | 1 :: c :: r => Some (LReadFail c, r)
  | 2 :: c :: b :: r => Some (LReadRel c (bz b), r)
  | 3 :: c :: r => Some (LReadLeak c, r)
  | 4 :: c :: has :: k :: ty :: r => Some (LReadFwd c (if bz has then Some k else None) ty, r)
  | 5 :: c :: k :: r => Some (LReadCallReq c k, r)
  | 6 :: c :: d :: r => Some (LRelaySend c d, r)
  | 7 :: c :: d :: b :: r => Some (LRfsFrag c d (bz b), r)
  | 8 :: c :: a :: b :: r => Some (LConnSysErr c (bz a) (bz b), r)
  | 9 :: c :: a :: r => Some (LSendMsg c (bz a), r)
  | 10 :: k :: c :: cap :: r => Some (LNewMex k c cap, r)
  | 11 :: k :: r => Some (LCtx k, r)
  | 12 :: k :: r => Some (LErrN k, r)
  | 13 :: k :: r => Some (LExpire k, r)
  | 14 :: k :: r => Some (LShutdown k, r)
  | 15 :: k :: a :: b :: c :: r => Some (LFetch k (bz a) (bz b) (bz c), r)
  | 16 :: k :: r => Some (LAcc k, r)
  | 17 :: k :: r => Some (LCloseLast k, r)
  | 18 :: k :: r => Some (LRespSysErr k, r)
  | 19 :: k :: r => Some (LDispatchFail k, r)
  | 20 :: k :: r => Some (LRecvMsg k, r)
  | 21 :: k :: a :: r => Some (LWNew k (bz a), r)
  | 22 :: k :: r => Some (LWAcc k, r)
  | 23 :: k :: a :: r => Some (LWFlush k (bz a), r)
  | 24 :: c :: a :: r => Some (LWrite c (bz a), r)
  | 25 :: c :: r => Some (LStop c, r)
  | 26 :: c :: r => Some (LWExit c, r)
  | 27 :: c :: r => Some (LDrain c, r)
  | 28 :: k :: r => Some (LRespErr k, r)
  | _ => None
  end.

Fixpoint dec_labels (fuel : nat) (l : list Z) : list label :=
  match fuel with
  | O => []
  | S f => match l with
           | [] => []
           | _ => match dec_label l with Some (lb, r) => lb :: dec_labels f r | None => [] end
           end
  end.

(* replay: index (from 1) of the first label that is not enabled / violates app_ok, 0 if none *)
Fixpoint replay (pinned : bool) (i : Z) (s : st) (ls : list label) : Z * st :=
  match ls with
  | [] => (0, s)
  | l :: r => if app_ok s l
              then match step pinned s l with Some s' => replay pinned (i + 1) s' r | None => (i, s) end
              else (i, s)
  end.

(* sites with the same (function, kind) are indistinguishable for the harness: both
   Release sites of readFrames report as 4, both of writeFrames as 9 *)
Definition site_code (x : Z) : Z := if x =? S_rf_rel then S_rf_rel_body else if x =? S_wf_rel then S_wf_drain else x.

(* per token: get site * 10000 + first release site * 100 + second release site *)
Definition tok_code (h : list ev) (t : Z) : Z :=
  let g := flat_map (fun e => match e with EGet x t' _ => if t' =? t then [site_code x] else [] | _ => [] end) h in
  let r := flat_map (fun e => match e with ERel x t' => if t' =? t then [site_code x] else [] | _ => [] end) h in
  nth 0 g 0 * 10000 + nth 0 r 0 * 100 + nth 1 r 0.

Fixpoint zinsert (x : Z) (l : list Z) : list Z :=
  match l with [] => [x] | y :: r => if x <=? y then x :: l else y :: zinsert x r end.
Definition zsort (l : list Z) : list Z := fold_right zinsert [] l.

(* input: pinned, cap(sendCh), encoded labels.
   output: first disabled label (0 = none), trace check (1 = at most once / no use after
   release / pool frames only), then the sorted per-frame codes. *)
Definition run_frameown (c : list Z) : list Z :=
  match c with
  | pinned :: cap :: r =>
      let ls := dec_labels (List.length r) r in
      let '(bad, s) := replay (bz pinned) 1 (init cap) ls in
      let h := history s in
      bad :: zb (tr_okb (s_trace s)) :: zsort (map (tok_code h) (gets h))
  | _ => [-1]
  end.
