(* Hand model of the SECONDARY, in-place decoders / encoders of message fields: functions that
   read or overwrite one field at its offset in a frame's payload without parsing the message.

     messages.go        callReqSpan
     relay_messages.go  lazyCallReq.Span / TTL / SetTTL / Service / HasMoreFragments,
                        lazyError.Code, isCallResOK, lazyCallRes.OK, hasMoreFragments, finishesCall
     connection.go      SendSystemError's errorMessage for a span taken from callReqSpan
                        (inbound.go handleCallReq on a closing connection; relay.go getDestination /
                        handleCallReq / handleLocalCallReq / the relay item's span for timeouts)

   One definition per Go function, over the payload as a byte list; None = the Go code panics
   (slice / index out of range).  Offsets are the GENERATED constants of relay_messages.go
   (Gen/GenConsts.v); Proofs/C06InPlaceP.v equates them with the places the specification encoder
   puts the fields, Proofs/C06InPlaceGenP.v equates these definitions with the functions
   regenerated from the source (Gen/GenC06InPlace.v).  No proofs here. *)
From Coq Require Import ZArith List Bool.
From Verif Require Import Base.Wrap Base.Bytes Base.Wire Gen.GenConsts Model.TypedBuf Model.Messages
  Spec.C06InPlaceSpec.
Import ListNotations.
Local Open Scope Z_scope.
Local Open Scope bool_scope.

(* p[lo:hi] and p[i] with Go's bounds checks (capacity = length, as in Base/GoSem.v) *)
Definition ip_slice (p : list Z) (lo hi : Z) : option (list Z) :=
  if (lo <? 0) || (hi <? lo) || (zlen p <? hi) then None
  else Some (firstn (Z.to_nat (hi - lo)) (skipn (Z.to_nat lo) p)).
Definition ip_index (p : list Z) (i : Z) : option Z :=
  if (i <? 0) || (zlen p <=? i) then None else Some (nth (Z.to_nat i) p 0).

(* callReqSpan: rdr := NewReadBuffer(f.Payload[_spanIndex:_spanIndex+_spanLength]); s.read(rdr)
   (the read's error is dropped: the slice has exactly 25 bytes) *)
Definition ip_span (p : list Z) : option span :=
  match ip_slice p c_u_spanIndex (c_u_spanIndex + c_u_spanLength) with
  | None => None
  | Some b => Some (fst (r_span (rb b)))
  end.

(* TTL: time.Duration(BigEndian.Uint32(f.Payload[_ttlIndex:_ttlIndex+_ttlLen])) * time.Millisecond *)
Definition ip_ttl (p : list Z) : option Z :=
  match ip_slice p c_u_ttlIndex (c_u_ttlIndex + c_u_ttlLen) with
  | None => None
  | Some b => if zlen b <? 4 then None else Some (wrapS 64 (wrapS 64 (unbe (firstn 4 b)) * ms_ns))
  end.

(* SetTTL(d): BigEndian.PutUint32(f.Payload[_ttlIndex:_ttlIndex+_ttlLen], uint32(d / time.Millisecond)) *)
Definition ip_set_ttl (p : list Z) (d : Z) : option (list Z) :=
  match ip_slice p c_u_ttlIndex (c_u_ttlIndex + c_u_ttlLen) with
  | None => None
  | Some b => if zlen b <? 4 then None
              else Some (firstn (Z.to_nat c_u_ttlIndex) p ++ be 4 (wrapU 32 (wrapS 64 (Z.quot d ms_ns)))
                         ++ skipn (Z.to_nat c_u_ttlIndex + 4) p)
  end.

(* Service: l := f.Payload[_serviceLenIndex]; f.Payload[_serviceNameIndex : _serviceNameIndex+int(l)] *)
Definition ip_service (p : list Z) : option (list Z) :=
  match ip_index p c_u_serviceLenIndex with
  | None => None
  | Some l => ip_slice p c_u_serviceNameIndex (wrapS 64 (c_u_serviceNameIndex + wrapS 64 l))
  end.

(* hasMoreFragments / lazyCallReq.HasMoreFragments: f.Payload[_flagsIndex]&hasMoreFragmentsFlag != 0 *)
Definition ip_more (p : list Z) : option bool :=
  match ip_index p c_u_flagsIndex with
  | None => None
  | Some b => Some (negb (Z.land b c_hasMoreFragmentsFlag =? 0))
  end.

(* lazyError.Code: SystemErrCode(e.Payload[_errCodeIndex]) *)
Definition ip_err_code (p : list Z) : option Z :=
  match ip_index p c_u_errCodeIndex with None => None | Some b => Some (wrapU 8 b) end.

(* isCallResOK / lazyCallRes.OK: f.Payload[_resCodeIndex] == _resCodeOK *)
Definition ip_res_ok (p : list Z) : option bool :=
  match ip_index p c_u_resCodeIndex with None => None | Some b => Some (b =? c_u_resCodeOK) end.

(* finishesCall: switch f.messageType() *)
Definition ip_finishes (mtype : Z) (p : list Z) : option bool :=
  if (mtype =? c_messageTypeError) || (mtype =? c_messageTypeCancel) then Some true
  else if (mtype =? c_messageTypeCallRes) || (mtype =? c_messageTypeCallResContinue) then
    match ip_index p c_u_flagsIndex with
    | None => None
    | Some flags => Some (Z.land flags c_hasMoreFragmentsFlag =? 0)
    end
  else Some false.

(* the payload of the error frame SendSystemError(id, callReqSpan(frame), err) writes:
   errorMessage{errCode, tracing: span, message}.write into a frame with room for it *)
Definition ip_error_payload (p : list Z) (code : Z) (msg : list Z) : option (list Z) :=
  match ip_span p with
  | None => None
  | Some s => let w := w_error (mkErr code s msg) (wb 65519) in
              if werr w =? 0 then Some (wout w) else None
  end.

(* ---- harness entry point (engine c06inplace, sub c06inplace): the case carries the FIELDS
   (format: Spec/C06InPlaceSpec.v s_run_c06inplace); the payload is laid out by the specification
   encoder and every accessor is run on it ---- *)
Definition ip_halves (v : Z) : list Z := [v / 4294967296; v mod 4294967296].
Definition ip_opt {A} (f : A -> list Z) (o : option A) : list Z :=
  match o with None => [-1] | Some v => f v end.
Definition ip_put_span (s : span) : list Z :=
  ip_halves (sp_span s) ++ ip_halves (sp_parent s) ++ ip_halves (sp_trace s) ++ [sp_flags s].

(* the payload of a case, laid out by the specification encoder *)
Definition ip_case_payload (k : s_ip_case) : list Z :=
  match k with
  | IPReq flags ttl_ms sh sl ph pl th tl tflags _ _ service rest _ =>
      s_ip_callreq flags ttl_ms
        (Spec.Protocol.s_tracing (s_ip_id sh sl) (s_ip_id ph pl) (s_ip_id th tl) tflags) service rest
  | IPRes _ flags code rest => s_ip_callres flags code rest
  | IPErr code sh sl ph pl th tl tflags msg =>
      Spec.Protocol.s_error code
        (Spec.Protocol.s_tracing (s_ip_id sh sl) (s_ip_id ph pl) (s_ip_id th tl) tflags) msg
  | IPWire _ _ sh sl ph pl th tl tflags =>
      (* only the tracing field of the call req reaches the error frame *)
      s_ip_callreq 0 0 (Spec.Protocol.s_tracing (s_ip_id sh sl) (s_ip_id ph pl) (s_ip_id th tl) tflags) [] []
  end.

Definition ip_obs (k : s_ip_case) : list Z :=
  let p := ip_case_payload k in
  match k with
  | IPReq _ _ _ _ _ _ _ _ _ new_ttl code _ _ msg =>
      [0] ++ ip_opt ip_put_span (ip_span p) ++ ip_opt (fun v => [v]) (ip_ttl p)
      ++ ip_opt (fun b => [zb b]) (ip_more p) ++ ip_opt (fun b => [zb b]) (ip_finishes c_messageTypeCallReq p)
      ++ ip_opt put_bytes (ip_service p)
      ++ ip_opt put_bytes (ip_set_ttl p new_ttl)
      ++ ip_opt put_bytes (ip_error_payload p code msg)
  | IPRes mtype _ _ _ =>
      [1] ++ ip_opt (fun b => [zb b]) (ip_res_ok p) ++ ip_opt (fun b => [zb b]) (ip_more p)
      ++ ip_opt (fun b => [zb b]) (ip_finishes mtype p)
  | IPErr _ _ _ _ _ _ _ _ _ =>
      [2] ++ ip_opt (fun v => [v]) (ip_err_code p) ++ ip_opt (fun b => [zb b]) (ip_finishes c_messageTypeError p)
  | IPWire _ id _ _ _ _ _ _ _ =>
      (* SendSystemError(frame.Header.ID, callReqSpan(frame) / f.Span() / the relay item's span, err):
         an error frame with the call's id whose tracing field is Span.write of that span *)
      [3; c_messageTypeError; id]
      ++ ip_opt put_bytes (option_map (fun s => wout (w_span s (wb c_u_spanLength))) (ip_span p))
  end.

Definition run_c06inplace (c : list Z) : list Z :=
  match s_ip_parse c with None => [-2] | Some k => ip_obs k end.

(* the same entry point under the name of the end-to-end cases (sub c06ipwire) *)
Definition run_c06ipwire (c : list Z) : list Z := run_c06inplace c.
