(* Get-or-create under double-checked locking (property C16): an interleaving model of
     root_peer_list.go   RootPeerList.Get / Add / GetOrAdd
     peer.go             PeerList.Add / exists / Remove / GetOrAdd (= Add)
   with ONE STEP PER LOCK-PROTECTED REGION (Model/PeerBook.v merges RootPeerList.Add into one
   atomic get-or-create; here it is what the code is):
     RootPeerList.Add(hp)      step 1: lookup under l.RLock      (hit: return the stored object)
                               -- schedule point rootpeers.Add.afterMiss --
                               step 2: l.Lock; lookup AGAIN      (hit: return the stored object)
                                       newPeer; store; return the new object
     RootPeerList.GetOrAdd(hp) l.Get (one read-locked region), on a miss the two steps of Add
     PeerList.Add(hp)          step 1: l.exists under l.RLock    (hit: return the entry's object)
                               step 2: l.Lock; lookup AGAIN      (hit: return); the lock stays held
                               steps 3,4: l.parent.Add(hp) (the two steps above)
                               step 5: p.addSC(); store the entry; unlock; return p
     PeerList.Remove(hp)       one write-locked region: p.delSC() on the entry's object, delete
   Objects (pointers to Peer) are ALLOCATION NAMES 1,2,3,...: two callers hold the same pointer iff they hold
   the same name.  Any number of goroutines, host:ports and peer lists.  A step that needs a lock
   held by another goroutine is not enabled ([None]).  No deletion from the root list here (the
   collector onClosedConnRemoved and its unrepaired window are in Model/PeerBook.v).

   Every decision below is proved equal to the definition go2v regenerates from the Go source
   (Gen/GenPeerGoc.v, Proofs/PeerGocGenP.v). *)
From Coq Require Import ZArith List Bool.
From Verif Require Import Base.Wrap Base.Wire Base.GoMap Model.PeerBook.
Import ListNotations.
Local Open Scope Z_scope.

Inductive gpc :=
| GRGet (hp : Z)            (* RootPeerList.Get: before its read-locked lookup *)
| GRGoa (hp : Z)            (* RootPeerList.GetOrAdd: before l.Get *)
| GRAdd1 (hp : Z)           (* RootPeerList.Add: before the read-locked lookup *)
| GRAdd2 (hp : Z)           (* RootPeerList.Add after the miss (rootpeers.Add.afterMiss): before l.Lock *)
| GLAdd1 (lid hp : Z)       (* PeerList.Add: before l.exists *)
| GLAdd2 (lid hp : Z)       (* before l.Lock and the re-check *)
| GLAdd3 (lid hp : Z)       (* list lock held; inside l.parent.Add, before its read-locked lookup *)
| GLAdd4 (lid hp : Z)       (* list lock held; inside l.parent.Add after the miss *)
| GLAdd5 (lid hp p : Z)     (* list lock held; l.parent.Add returned p (peerlist.Add.afterRootAdd) *)
| GLRem (lid hp : Z).       (* PeerList.Remove: before l.Lock *)

Inductive glabel :=
| GCall (t : Z) (p : gpc)   (* idle goroutine t calls a function (p = its entry point) *)
| GStep (t : Z).            (* goroutine t performs its next region *)

Record gst := mkG {
  g_root : gmap;                    (* RootPeerList.peersByHostPort *)
  g_lists : list (Z * Z * Z);       (* entries (list, host:port, object) of all PeerLists *)
  g_lk : Z -> bool;                 (* write lock of list lid held (by a goroutine inside Add) *)
  g_sc : Z -> Z;                    (* scCount of each object *)
  g_hp : Z -> Z;                    (* ghost: the host:port an object was created for (0 = not allocated) *)
  g_next : Z;                       (* next allocation name *)
  g_thr : Z -> option gpc;
  g_ret : list (Z * Z * Z * Z)      (* ghost: completed calls (goroutine, host:port, code, object):
                                       1 = the call returned that object, 0 = it returned no object
                                       (Get miss, Remove of an unknown host:port),
                                       2 = Remove deleted the entry holding that object *)
}.

Definition ginit : gst :=
  mkG gmap_empty [] (fun _ => false) (fun _ => 0) (fun _ => 0) 1 (fun _ => None) [].

Definition gset_thr (s : gst) (t : Z) (p : option gpc) : gst :=
  mkG (g_root s) (g_lists s) (g_lk s) (g_sc s) (g_hp s) (g_next s) (upd (g_thr s) t p) (g_ret s).
Definition gset_lk (s : gst) (lid : Z) (b : bool) : gst :=
  mkG (g_root s) (g_lists s) (upd (g_lk s) lid b) (g_sc s) (g_hp s) (g_next s) (g_thr s) (g_ret s).
Definition gset_lists (s : gst) (l : list (Z * Z * Z)) : gst :=
  mkG (g_root s) l (g_lk s) (g_sc s) (g_hp s) (g_next s) (g_thr s) (g_ret s).
Definition gset_sc (s : gst) (sc : Z -> Z) : gst :=
  mkG (g_root s) (g_lists s) (g_lk s) sc (g_hp s) (g_next s) (g_thr s) (g_ret s).

(* the call of goroutine t is over *)
Definition g_done (s : gst) (t hp code q : Z) : gst :=
  mkG (g_root s) (g_lists s) (g_lk s) (g_sc s) (g_hp s) (g_next s) (upd (g_thr s) t None)
      (g_ret s ++ [(t, hp, code, q)]).

(* region 2 of RootPeerList.Add: the re-check, and only on a miss a new object, stored and returned *)
Definition g_root_insert (s : gst) (hp : Z) : gst * Z :=
  match g_root s hp with
  | Some q => (s, q)
  | None =>
      let q := g_next s in
      (mkG (gmap_set (g_root s) hp q) (g_lists s) (g_lk s) (g_sc s) (upd (g_hp s) q hp) (q + 1)
           (g_thr s) (g_ret s), q)
  end.

(* the map of one peer list *)
Definition lview (l : list (Z * Z * Z)) (lid : Z) : gmap := fun hp => list_find l lid hp.

Definition g_step_thread (s : gst) (t : Z) (p : gpc) : option gst :=
  match p with
  | GRGet hp =>
      Some (match g_root s hp with Some q => g_done s t hp 1 q | None => g_done s t hp 0 0 end)
  | GRGoa hp =>
      Some (match g_root s hp with
            | Some q => g_done s t hp 1 q
            | None => gset_thr s t (Some (GRAdd1 hp))
            end)
  | GRAdd1 hp =>
      Some (match g_root s hp with
            | Some q => g_done s t hp 1 q
            | None => gset_thr s t (Some (GRAdd2 hp))
            end)
  | GRAdd2 hp =>
      let '(s1, q) := g_root_insert s hp in Some (g_done s1 t hp 1 q)
  | GLAdd1 lid hp =>
      if g_lk s lid then None        (* l.RLock waits for the writer *)
      else Some (match list_find (g_lists s) lid hp with
                 | Some q => g_done s t hp 1 q
                 | None => gset_thr s t (Some (GLAdd2 lid hp))
                 end)
  | GLAdd2 lid hp =>
      if g_lk s lid then None
      else Some (match list_find (g_lists s) lid hp with
                 | Some q => g_done s t hp 1 q                      (* deferred unlock: same step *)
                 | None => gset_thr (gset_lk s lid true) t (Some (GLAdd3 lid hp))
                 end)
  | GLAdd3 lid hp =>
      Some (match g_root s hp with
            | Some q => gset_thr s t (Some (GLAdd5 lid hp q))
            | None => gset_thr s t (Some (GLAdd4 lid hp))
            end)
  | GLAdd4 lid hp =>
      let '(s1, q) := g_root_insert s hp in Some (gset_thr s1 t (Some (GLAdd5 lid hp q)))
  | GLAdd5 lid hp q =>
      Some (g_done (gset_lk (gset_lists (gset_sc s (sc_add (g_sc s) q 1)) ((lid, hp, q) :: g_lists s)) lid false)
                   t hp 1 q)
  | GLRem lid hp =>
      if g_lk s lid then None
      else Some (match list_find (g_lists s) lid hp with
                 | None => g_done s t hp 0 0                       (* ErrPeerNotFound *)
                 | Some q => g_done (gset_lists (gset_sc s (sc_add (g_sc s) q (-1))) (list_del (g_lists s) lid hp))
                                    t hp 2 q
                 end)
  end.

(* entry points: where a call starts, and its host:port (a blank host:port makes newPeer panic:
   outside the domain) *)
Definition g_entry (p : gpc) : option Z :=
  match p with
  | GRGet hp | GRGoa hp | GRAdd1 hp | GLAdd1 _ hp | GLRem _ hp => Some hp
  | _ => None
  end.

Definition gstep (s : gst) (l : glabel) : option gst :=
  match l with
  | GCall t p =>
      match g_entry p, g_thr s t with
      | Some hp, None => if hp =? 0 then None else Some (gset_thr s t (Some p))
      | _, _ => None
      end
  | GStep t =>
      match g_thr s t with
      | Some p => g_step_thread s t p
      | None => None
      end
  end.

Fixpoint grun (s : gst) (ls : list glabel) : option gst :=
  match ls with
  | [] => Some s
  | l :: r => match gstep s l with Some s' => grun s' r | None => None end
  end.

(* ---- harness entry point ----------------------------------------------------------------
   script:  1 t kind lid hp park   goroutine t calls kind (0 RootPeers.Get, 1 RootPeers.GetOrAdd,
                                   2 RootPeers.Add, 3 PeerList(lid).Add, 4 PeerList(lid).Remove) and
                                   runs until it returns -- or, when park = 1, until it stands at
                                   rootpeers.Add.afterMiss (GRAdd2 / GLAdd4)
            2 t                    goroutine t (parked) runs until it returns
   output:  completed calls in completion order (t hp code object), then the root list by
            host:port (-1 hp 1 object) and the list entries by (list, host:port) (-2-lid hp 1 object),
            objects renamed by first appearance; then scCount of the root objects by host:port.
   [-1] first if a step was not enabled (the generator never issues a call that has to wait). *)
Definition g_parked (p : gpc) : bool :=
  match p with GRAdd2 _ | GLAdd4 _ _ => true | _ => false end.

Fixpoint g_run_thread (fuel : nat) (park : bool) (s : gst) (t : Z) : option gst :=
  match fuel with
  | O => Some s
  | S f => match g_thr s t with
           | None => Some s
           | Some p => if park && g_parked p then Some s
                       else match g_step_thread s t p with
                            | Some s' => g_run_thread f park s' t
                            | None => None
                            end
           end
  end.

Definition g_kind (kind lid hp : Z) : gpc :=
  if kind =? 0 then GRGet hp else if kind =? 1 then GRGoa hp else if kind =? 2 then GRAdd1 hp
  else if kind =? 3 then GLAdd1 lid hp else GLRem lid hp.

Fixpoint g_interp (fuel : nat) (s : gst) (bad : bool) (c : list Z) : gst * bool :=
  match fuel with
  | O => (s, bad)
  | S f =>
    match c with
    | 1 :: t :: kind :: lid :: hp :: park :: r =>
        match gstep s (GCall t (g_kind kind lid hp)) with
        | Some s1 => match g_run_thread 8 (park =? 1) s1 t with
                     | Some s2 => g_interp f s2 bad r
                     | None => g_interp f s1 true r
                     end
        | None => g_interp f s true r
        end
    | 2 :: t :: r =>
        match g_thr s t with
        | Some p => match g_step_thread s t p with
                    | Some s1 => match g_run_thread 8 false s1 t with
                                 | Some s2 => g_interp f s2 bad r
                                 | None => g_interp f s1 true r
                                 end
                    | None => g_interp f s true r
                    end
        | None => g_interp f s true r
        end
    | [] => (s, bad)
    | _ => (s, true)
    end
  end.

(* rename objects by first appearance *)
Fixpoint g_canon (seen : list Z) (l : list (Z * Z * Z * Z)) : list Z :=
  match l with
  | [] => []
  | (a, b, c, o) :: r =>
      if o =? 0 then a :: b :: c :: 0 :: g_canon seen r
      else let i := index_of o seen 1 in
           if i <? 0 then a :: b :: c :: (zlen seen + 1) :: g_canon (seen ++ [o]) r
           else a :: b :: c :: i :: g_canon seen r
  end.

Definition g_max_hp : nat := 64.
Definition g_max_lid : nat := 4.

Definition g_output (s : gst) : list Z :=
  let hps := map (fun i => Z.of_nat i) (seq 1 g_max_hp) in
  let lids := map (fun i => Z.of_nat i) (seq 0 g_max_lid) in
  let roots := flat_map (fun hp => match g_root s hp with
                                   | Some q => [(-1, hp, 1, q)]
                                   | None => []
                                   end) hps in
  let ents := flat_map (fun lid => flat_map (fun hp => match list_find (g_lists s) lid hp with
                                                       | Some q => [(-2 - lid, hp, 1, q)]
                                                       | None => []
                                                       end) hps) lids in
  let scs := flat_map (fun hp => match g_root s hp with
                                 | Some q => [g_sc s q]
                                 | None => []
                                 end) hps in
  g_canon [] (g_ret s ++ roots ++ ents) ++ scs.

Definition run_peergoc (c : list Z) : list Z :=
  let '(s, bad) := g_interp (length c) ginit false c in
  (if bad then [-1] else []) ++ g_output s.
