(* Static ownership discipline of pooled frames (property C12), executable part.

   go2v (go2v/frameuse.go) regenerates, on every run, Gen/GenFrameUse.v:
     frame_use_table    one abstract program (Spec/FrameUseSpec.v [fu]) per (function, frame class)
                        of package tchannel that hands a frame over,
     frame_xfer_sites   every primitive hand-over statement (chan send, FramePool.Release, go,
                        fragment.done()),
     frame_use_impls    the interface methods that hand a frame over, with their implementations.

   This file holds
     * [conv_table]: the OWNERSHIP SIGNATURE of every function that takes a frame parameter and
       may hand it over (hand-written, one line per function: what the Go comments say --
       "returns whether the frame should be released", "sent bool", "err == nil: forwarded");
     * [aexec] / [row_check]: an abstract interpreter that follows every path of an abstract
       program with an abstract owner state (owned / gone / "gone iff variable x = g") and
       rejects a use, a hand-over or a call on a frame that is not certainly still owned, a
       return whose value contradicts the function's own signature, and every construct the
       translator could not classify;  Proofs/FrameUseP.v proves it sound for the path
       semantics of the Spec;
     * [row_drops]: the returns at which a function still owns the frame but neither releases
       it nor tells its caller to (the leaks on fault paths; compared with [expected_drops]);
     * [xfer_model]: for every primitive hand-over statement of the source the labels of the
       FrameOwn interleaving model (Model/FrameOwn.v) that perform it.
   No proofs in this file. *)
From Coq Require Import ZArith List Bool String.
From Verif Require Import Spec.FrameUseSpec Spec.FrameOwnSpec Model.FrameOwn.
Import ListNotations.
Local Open Scope Z_scope.

(* ------------------------------------------------------------------ signatures *)

Definition conv_table : list (str * conv) := [
  (* connection.go / inbound.go / outbound.go: "returns whether the frame should be released" *)
  (s2z "Connection.handleFrameNoRelay",      CRes 0 false None);
  (s2z "Connection.handleFrameRelay",        CRes 0 false None);
  (s2z "Connection.handleCallReq",           CRes 0 false None);
  (s2z "Connection.handleCallReqContinue",   CRes 0 false None);
  (s2z "Connection.handleCallRes",           CRes 0 false None);
  (s2z "Connection.handleCallResContinue",   CRes 0 false None);
  (s2z "Connection.handleError",             CRes 0 false None);
  (s2z "Connection.handlePingRes",           CRes 0 false None);
  (* mex.go: a nil error = the frame went into the exchange's recvCh (or was dropped) *)
  (s2z "messageExchange.forwardPeerFrame",    CRes 0 false None);
  (s2z "messageExchangeSet.forwardPeerFrame", CRes 0 false None);
  (* relay.go: (shouldRelease bool, err error); a frame that was handed on comes with a nil error *)
  (s2z "Relayer.Relay",                      CRes 0 false (Some 1%nat));
  (s2z "Relayer.handleCallReq",              CRes 0 false (Some 1%nat));
  (s2z "Relayer.handleNonCallReq",           CRes 0 false (Some 1%nat));
  (* handled = true: released or taken by the local handler *)
  (s2z "Relayer.handleLocalCallReq",         CRes 0 true None);
  (* Receive(f, t) (sent bool, failure string) *)
  (s2z "Relayer.Receive",                    CRes 0 true None);
  (s2z "frameReceiver.Receive",              CRes 0 true None);
  (* fragmentSender.flushFragment: the fragment is gone for the fragmenting writer in any case *)
  (s2z "fragmentSender.flushFragment",       CAlways);
  (s2z "relayFragmentSender.flushFragment",  CAlways);
  (s2z "reqResWriter.flushFragment",         CRes 0 false None)
].

Fixpoint assoc {A} (l : list (str * A)) (x : str) : option A :=
  match l with
  | [] => None
  | (y, v) :: r => if str_eqb y x then Some v else assoc r x
  end.

Definition conv_of (f : str) : option conv := assoc conv_table f.

(* ------------------------------------------------------------------ abstract state *)

Definition aenv := list (str * bool).

Definition alookup (en : aenv) (x : str) : option bool := assoc en x.
Definition aremove (en : aenv) (x : str) : aenv := filter (fun p => negb (str_eqb (fst p) x)) en.
Definition aset (en : aenv) (x : str) (b : bool) : aenv := (x, b) :: aremove en x.
Definition aremove_all (en : aenv) (xs : list str) : aenv := fold_left aremove xs en.

(* who owns the frame, as far as the function can know:
     AOwned          certainly this function;
     AGone           handed over, released, absent -- or unknown: nothing may be done with it;
     ACond x g ex    gone iff variable x = g (x is the result of the call that may have taken
                     it); moreover not gone if the error variable ex is non-nil *)
Inductive aown := AOwned | AGone | ACond (x : str) (g : bool) (ex : str).
Record ast := mkA { a_own : aown; a_env : aenv }.

Inductive aout :=
| ANorm (a : ast)
| ABrk (a : ast)
| ACnt (a : ast)
| ARet (a : ast) (lbl : str) (vs : list rexp) (carrier : bool)
| AWrong (why : str).

Definition aeval (en : aenv) (r : rexp) : option bool :=
  match r with RLit b => Some b | RVar x => alookup en x | RUnk => None end.

(* variable x is overwritten *)
Definition own_forget (o : aown) (x : str) : aown :=
  match o with
  | ACond y g ex => if str_eqb y x || (negb (is_nil ex) && str_eqb ex x) then AGone else o
  | _ => o
  end.

(* we learn that x = b *)
Definition own_learn (o : aown) (x : str) (b : bool) : aown :=
  match o with
  | ACond y g ex =>
      if str_eqb y x then (if Bool.eqb b g then AGone else AOwned)
      else if negb (is_nil ex) && str_eqb ex x then (if b then AOwned else o)
      else o
  | _ => o
  end.

Definition learn (a : ast) (x : str) (b : bool) : ast :=
  mkA (own_learn (a_own a) x b) (aset (a_env a) x b).

Definition own_eqb (o1 o2 : aown) : bool :=
  match o1, o2 with AOwned, AOwned => true | AGone, AGone => true | _, _ => false end.

Definition loop_msg : str := s2z "loop: the owner state at the end of the body differs from the one at its start".
Definition jump_msg : str := s2z "jump".

Fixpoint aexec (cv : str -> option conv) (p : fu) (a : ast) : list aout :=
  match p with
  | FSkip => [ANorm a]
  | FUse w => match a_own a with AOwned => [ANorm a] | _ => [AWrong w] end
  | FBind h x =>
      if is_nil x then [ANorm (mkA AOwned (a_env a))]
      else [ANorm (mkA (ACond x true []) (aremove (a_env a) x))]
  | FXfer k w =>
      if k =? 4 then [ANorm (mkA AGone (a_env a))]
      else match a_own a with AOwned => [ANorm (mkA AGone (a_env a))] | _ => [AWrong w] end
  | FCall f res =>
      match a_own a with
      | AOwned =>
          match cv f with
          | Some CAlways => [ANorm (mkA AGone (aremove_all (a_env a) res))]
          | Some (CRes i g ei) =>
              let x := nth i res [] in
              let ex := match ei with Some j => nth j res [] | None => [] end in
              if is_nil x then [ANorm (mkA AGone (aremove_all (a_env a) res))]
              else [ANorm (mkA (ACond x g ex) (aremove_all (a_env a) res))]
          | _ => [AWrong f]
          end
      | _ => [AWrong f]
      end
  | FSet x r =>
      let en := match aeval (a_env a) r with
                | Some b => aset (a_env a) x b
                | None => aremove (a_env a) x
                end in
      [ANorm (mkA (own_forget (a_own a) x) en)]
  | FSeq p q =>
      flat_map (fun o => match o with ANorm a1 => aexec cv q a1 | _ => [o] end) (aexec cv p a)
  | FIf t p q =>
      match t with
      | TIs x b =>
          match alookup (a_env a) x with
          | Some v => if Bool.eqb v b then aexec cv p a else aexec cv q a
          | None => aexec cv p (learn a x b) ++ aexec cv q (learn a x (negb b))
          end
      | TImp x b =>
          match alookup (a_env a) x with
          | Some v => if Bool.eqb v b then aexec cv p a ++ aexec cv q a else aexec cv q a
          | None => aexec cv p (learn a x b) ++ aexec cv q a
          end
      | TOther => aexec cv p a ++ aexec cv q a
      end
  | FAlt p q => aexec cv p a ++ aexec cv q a
  | FLoop b =>
      (* the body is checked from its entry owner state with NO knowledge about variables, and must
         come back to that owner state: an invariant for any number of iterations *)
      let a0 := mkA (a_own a) [] in
      match a_own a with
      | ACond _ _ _ => [AWrong loop_msg]
      | _ =>
          let outs := aexec cv b a0 in
          if forallb (fun o => match o with
                               | ANorm a1 | ACnt a1 => own_eqb (a_own a1) (a_own a)
                               | AWrong _ => false
                               | _ => true
                               end) outs
          then ANorm a0 :: flat_map (fun o => match o with
                                              | ABrk a1 => [ANorm a1]
                                              | ARet a1 l v c => [ARet a1 l v c]
                                              | _ => []
                                              end) outs
          else AWrong loop_msg :: filter (fun o => match o with AWrong _ => true | _ => false end) outs
      end
  | FJump k => if k =? 0 then [ABrk a] else if k =? 1 then [ACnt a] else [AWrong jump_msg]
  | FRet lbl vs c =>
      if c then match a_own a with AOwned => [ARet a lbl vs c] | _ => [AWrong lbl] end
      else [ARet a lbl vs c]
  | FUnsupported w => [AWrong w]
  end.

(* ------------------------------------------------------------------ checking a row *)

Definition opt_is (o : option bool) (b : bool) : bool :=
  match o with Some v => Bool.eqb v b | None => false end.
Definition rexp_is_var (r : rexp) (x : str) : bool :=
  match r with RVar y => str_eqb y x | _ => false end.

(* a return agrees with the function's own signature *)
Definition ret_ok (c : conv) (a : ast) (vs : list rexp) : bool :=
  match c with
  | CAlways | CNone => true
  | CRes i g ei =>
      match a_own a with
      | AOwned => true
      | AGone =>
          opt_is (aeval (a_env a) (nth i vs RUnk)) g &&
          match ei with Some j => opt_is (aeval (a_env a) (nth j vs RUnk)) false | None => true end
      | ACond x gx ex =>
          (* passed through: the caller learns it from the same variable(s) *)
          rexp_is_var (nth i vs RUnk) x && Bool.eqb gx g &&
          match ei with Some j => negb (is_nil ex) && rexp_is_var (nth j vs RUnk) ex | None => true end
      end
  end.

(* initial owner state and signature of a row: kind 0 = the class holds a parameter *)
Definition row_conv (cv : str -> option conv) (fn : str) (kind : Z) : option conv :=
  if kind =? 0 then match cv fn with Some CNone => None | o => o end else Some CNone.
Definition row_init (kind : Z) : ast := mkA (if kind =? 1 then AGone else AOwned) [].
Definition row_live0 (kind : Z) : bool := negb (kind =? 1).

Definition row_check (cv : str -> option conv) (row : str * str * Z * fu) : bool :=
  let '(fn, cls, kind, body) := row in
  match row_conv cv fn kind with
  | None => false
  | Some c =>
      forallb (fun o => match o with ARet a _ vs _ => ret_ok c a vs | _ => false end)
              (aexec cv body (row_init kind))
  end.

(* for diagnosis: the first complaint of a row *)
Definition row_complaint (cv : str -> option conv) (row : str * str * Z * fu) : list str :=
  let '(fn, cls, kind, body) := row in
  match row_conv cv fn kind with
  | None => [fn]
  | Some c =>
      flat_map (fun o => match o with
                         | ARet a l vs _ => if ret_ok c a vs then [] else [l]
                         | AWrong w => [w]
                         | _ => [fn]
                         end) (aexec cv body (row_init kind))
  end.

(* every callee named by an FCall is a function of the table (kind 0) or an interface method
   all of whose implementations are, with a signature that the caller's view follows from *)
Fixpoint callees (p : fu) : list str :=
  match p with
  | FCall f _ => [f]
  | FSeq a b | FIf _ a b | FAlt a b => callees a ++ callees b
  | FLoop b => callees b
  | _ => []
  end.

Definition mem_str (x : str) (l : list str) : bool := existsb (str_eqb x) l.

Definition conv_eqb (a b : conv) : bool :=
  match a, b with
  | CAlways, CAlways => true
  | CNone, CNone => true
  | CRes i g ei, CRes i' g' ei' =>
      Nat.eqb i i' && Bool.eqb g g' &&
      match ei, ei' with Some j, Some j' => Nat.eqb j j' | None, None => true | _, _ => false end
  | _, _ => false
  end.

Definition callee_ok (cv : str -> option conv) (rows : list (str * str * Z * fu))
           (impls : list (str * list str)) (f : str) : bool :=
  let fns := flat_map (fun r => let '(fn, _, kind, _) := r in if kind =? 0 then [fn] else []) rows in
  mem_str f fns ||
  match assoc impls f, cv f with
  | Some ims, Some c =>
      negb (match ims with [] => true | _ => false end) &&
      forallb (fun im => mem_str im fns &&
                         match c, cv im with
                         | CAlways, Some _ => true
                         | _, Some c' => conv_eqb c c'
                         | _, None => false
                         end) ims
  | _, _ => false
  end.

Definition table_check (cv : str -> option conv) (rows : list (str * str * Z * fu))
           (impls : list (str * list str)) : bool :=
  forallb (row_check cv) rows &&
  forallb (fun r => let '(_, _, _, body) := r in forallb (callee_ok cv rows impls) (callees body)) rows.

(* ------------------------------------------------------------------ drops *)

(* a return at which the function still owns the frame and neither released it nor lets the
   caller know: kind 0: the value it returns says "gone"; kind 1 (the function obtained the frame
   itself): the frame is not returned either *)
Definition ret_drop (c : conv) (kind : Z) (a : ast) (vs : list rexp) (carrier : bool) : bool :=
  match a_own a with
  | AOwned =>
      match c with
      | CAlways => true
      | CRes i g _ => opt_is (aeval (a_env a) (nth i vs RUnk)) g
      | CNone => (kind =? 1) && negb carrier
      end
  | _ => false
  end.

Definition row_drops (cv : str -> option conv) (row : str * str * Z * fu) : list (str * str) :=
  let '(fn, cls, kind, body) := row in
  match row_conv cv fn kind with
  | None => []
  | Some c =>
      flat_map (fun o => match o with
                         | ARet a l vs cr => if ret_drop c kind a vs cr then [(fn, l)] else []
                         | _ => []
                         end) (aexec cv body (row_init kind))
  end.

Fixpoint dedup (l : list (str * str)) : list (str * str) :=
  match l with
  | [] => []
  | (a, b) :: r => if existsb (fun p => str_eqb (fst p) a && str_eqb (snd p) b) r then dedup r else (a, b) :: dedup r
  end.

Definition table_drops (cv : str -> option conv) (rows : list (str * str * Z * fu)) : list (str * str) :=
  dedup (flat_map (row_drops cv) rows).

(* The leaks of the library on fault paths, each with the step of the FrameOwn model that has it
   ([loses] in Model/FrameOwn.v, or a frame stranded with a failed writer).  The statement of C12
   permits them ("on calls that complete without a fault every frame is handed back"). *)
Definition expected_drops : list (str * str) := [
  (* LSendMsg c true with a full send buffer: ErrSendBufferFull, the frame is dropped *)
  (s2z "Connection.sendMessage", s2z "return ErrSendBufferFull");
  (* LFetch / LRecvMsg on a frame of an unexpected type *)
  (s2z "messageExchange.recvPeerFrameOfType", s2z "return nil, errUnexpectedFrameType");
  (* LReadFwd c None: no such exchange; forwardPeerFrame returns nil and nobody releases *)
  (s2z "messageExchangeSet.forwardPeerFrame", s2z "return nil");
  (* LReadLeak: a call req the relay cannot parse *)
  (s2z "Relayer.Relay", s2z "return _relayNoRelease, err");
  (* LRfsFrag _ _ true / relay frame for a tombed item: swallowed *)
  (s2z "Relayer.Receive", s2z "return true, """"");
  (* LReadLeak: fragmented call req for a local handler of the relay channel *)
  (s2z "Relayer.handleLocalCallReq", s2z "return _relayShouldRelease")
].

(* The places where a frame (or a struct that bears one) is stored into the heap, from where
   other functions can reach it.  Each is accounted for in the interleaving model: the fragment
   of a call's reader (PFrag: initialFragment / previousFragment, released through done()), the
   fragment of a writer (PWFrag: curFragment, flushed by flushFragment), the lazy views of the
   relay (alive only while the reader loop holds the frame).  A new store has to be reviewed. *)
Definition expected_escapes : list (str * str) := [
  (s2z "Connection.handleCallReq",          s2z "initialFragment");
  (s2z "Relayer.newFragmentSender",         s2z "callReq");
  (s2z "relayFragmentSender.newFragment",   s2z "frame");
  (s2z "newLazyCallRes",                    s2z "Frame");
  (s2z "newLazyCallReq",                    s2z "Frame");
  (s2z "reqResWriter.newFragment",          s2z "frame");
  (s2z "reqResReader.recvNextFragment",     s2z "previousFragment");
  (s2z "reqResReader.recvNextFragment",     s2z "previousFragment")
].

(* ------------------------------------------------------------------ tie to the FrameOwn model *)

(* the label numbers of Model/FrameOwn.v dec_label *)
Definition label_tag (l : label) : Z :=
  match l with
  | LLocal _ _ => 0 | LReadFail _ => 1 | LReadRel _ _ => 2 | LReadLeak _ => 3 | LReadFwd _ _ _ => 4
  | LReadCallReq _ _ => 5 | LRelaySend _ _ => 6 | LRfsFrag _ _ _ => 7 | LConnSysErr _ _ _ => 8
  | LSendMsg _ _ => 9 | LNewMex _ _ _ => 10 | LCtx _ => 11 | LErrN _ => 12 | LExpire _ => 13
  | LShutdown _ => 14 | LFetch _ _ _ _ => 15 | LAcc _ => 16 | LCloseLast _ => 17 | LRespSysErr _ => 18
  | LDispatchFail _ => 19 | LRecvMsg _ => 20 | LWNew _ _ => 21 | LWAcc _ => 22 | LWFlush _ _ => 23
  | LWrite _ _ => 24 | LStop _ => 25 | LWExit _ => 26 | LDrain _ => 27 | LRespErr _ => 28
  end.

(* Every primitive hand-over statement of the source, in go2v's order, with the labels of the
   interleaving model whose step performs it.  (function, kind, target, labels) *)
Definition xfer_model : list (str * str * str * list Z) := [
  (s2z "Connection.sendMessage",      s2z "Release", [],                 [9]);        (* LSendMsg c false *)
  (s2z "Connection.sendMessage",      s2z "send",    s2z "sendCh",     [9]);        (* LSendMsg c true *)
  (s2z "Connection.recvMessage",      s2z "Release", [],                 [20]);       (* LRecvMsg *)
  (s2z "Connection.SendSystemError",  s2z "Release", [],                 [8]);        (* LConnSysErr, not sent *)
  (s2z "Connection.SendSystemError",  s2z "send",    s2z "sendCh",     [8]);        (* LConnSysErr, sent *)
  (s2z "Connection.readFrames",       s2z "Release", [],                 [1]);        (* LReadFail *)
  (s2z "Connection.readFrames",       s2z "Release", [],                 [2; 4; 6]);  (* LReadRel, refused LReadFwd / LRelaySend *)
  (s2z "Connection.writeFrames",      s2z "Release", s2z "<-sendCh",   [27]);       (* LDrain *)
  (s2z "Connection.writeFrames",      s2z "Release", [],                 [24]);       (* LWrite *)
  (s2z "fragmentingReader.Close",     s2z "done",    [],                 [17]);       (* LCloseLast *)
  (s2z "fragmentingReader.recvAndParseNextFragment", s2z "done", [],     [15]);       (* LFetch: fetch_done *)
  (s2z "Connection.handleCallReq",    s2z "go",      s2z "dispatchInbound", [5]);   (* LReadCallReq *)
  (s2z "messageExchange.forwardPeerFrame", s2z "send", s2z "recvCh", [4]);        (* LReadFwd: room *)
  (s2z "messageExchange.forwardPeerFrame", s2z "send", s2z "recvCh", [4]);        (* LReadFwd: room, errCh notified *)
  (s2z "messageExchange.recvPeerFrameOfType", s2z "Release", [],         [15; 20]);   (* error frame: LFetch / LRecvMsg *)
  (s2z "Channel.writeMessage",        s2z "Release", [],                 [0]);        (* LLocal c 1 *)
  (s2z "Channel.readMessage",         s2z "Release", [],                 [0]);        (* LLocal c 0 *)
  (s2z "Relayer.Receive",             s2z "send",    s2z "sendCh", [6; 7]);    (* LRelaySend, LRfsFrag *)
  (s2z "Relayer.handleLocalCallReq",  s2z "Release", [],                 [2]);        (* LReadRel c true *)
  (s2z "relayFragmentSender.flushFragment", s2z "Release", [],           [7]);        (* LRfsFrag: buffer full *)
  (s2z "reqResWriter.flushFragment",  s2z "send",    s2z "sendCh", [23]);      (* LWFlush *)
  (s2z "reqResReader.releasePreviousFragment", s2z "done", [],           [18; 19]);   (* LRespSysErr, LDispatchFail *)
  (s2z "parseInboundFragment",        s2z "closure Release", [],         [15; 17; 18; 19])  (* the onDone of every readableFragment: frag_done *)
].

Definition xfer_site (r : str * str * str * list Z) : str * str * str :=
  let '(f, k, t, _) := r in (f, k, t).

(* the last component of a Go path: "r.conn.sendCh" -> "sendCh" *)
Fixpoint last_comp (acc s : str) : str :=
  match s with
  | [] => acc
  | c :: r => if c =? 46 then last_comp [] r else last_comp (acc ++ [c]) r
  end.

Fixpoint assoc_site (l : list (Z * (list Z * list Z))) (x : Z) : option (list Z * list Z) :=
  match l with
  | [] => None
  | (y, v) :: r => if y =? x then Some v else assoc_site r x
  end.

(* the events of the interleaving model that are hand-overs: a release, and a frame put into
   a send queue, into an exchange's receive queue, or into a fragment of a call's reader *)
Definition is_handover (e : ev) : bool :=
  match e with
  | ERel _ _ => true
  | EMov _ (PSend _) | EMov _ (PMex _) | EMov _ (PFrag _) => true
  | _ => false
  end.

(* does row r of [xfer_model] account for hand-over event e of a step whose label has tag tg? *)
Definition row_explains (tg : Z) (e : ev) (r : str * str * str * list Z) : bool :=
  let '(f, k, t, tags) := r in
  existsb (Z.eqb tg) tags &&
  match e with
  | ERel site _ =>
      (* a release happens at a Release statement of the function the site table names (the
         onDone closure of parseInboundFragment for a fragment's done()) *)
      match assoc_site site_table site with
      | Some (sf, _) => str_eqb sf f && (str_eqb k (s2z "Release") || str_eqb k (s2z "closure Release"))
      | None => false
      end
  | EMov _ (PSend _) => str_eqb k (s2z "send") && str_eqb (last_comp [] t) (s2z "sendCh")
  | EMov _ (PMex _) => str_eqb k (s2z "send") && str_eqb (last_comp [] t) (s2z "recvCh")
  | EMov _ (PFrag _) => str_eqb k (s2z "go") || str_eqb k (s2z "closure Release")
  | _ => false
  end.

Definition handover_okb (tg : Z) (e : ev) : bool :=
  negb (is_handover e) || existsb (row_explains tg e) xfer_model.

(* the labels of a run together with the events each of them added to the trace *)
Fixpoint run_events (pinned : bool) (s : st) (ls : list label) : list (Z * list ev) :=
  match ls with
  | [] => []
  | l :: r =>
      match step pinned s l with
      | Some s' => (label_tag l, firstn (List.length (s_trace s') - List.length (s_trace s))%nat (s_trace s')) :: run_events pinned s' r
      | None => []
      end
  end.

(* row r of [xfer_model] is exercised by a run: some step with one of its labels emits a
   hand-over event that r explains; done() rows: a release through the onDone closure by one of
   their labels *)
Definition row_hit (evs : list (Z * list ev)) (r : str * str * str * list Z) : bool :=
  let '(f, k, t, tags) := r in
  existsb (fun te => existsb (fun e => is_handover e &&
             (if str_eqb k (s2z "done")
              then existsb (Z.eqb (fst te)) tags && match e with ERel site _ => site =? S_pif_rel | _ => false end
              else row_explains (fst te) e r)) (snd te)) evs.
