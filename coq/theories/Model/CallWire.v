(* Hand model of reqResWriter (reqres.go) around the fragmenting writer: newFragment (flags
   placeholder, message header, checksum type, checksum placeholder), the writer of
   Model/Frag.v, finish + flushFragment laid out by Model/FragWire.v [enc_frag_payload], and
   Frame.WriteOut; plus the harness entry point of sub-engine "callwire".  No proofs here. *)
From Coq Require Import ZArith List Bool.
From Verif Require Import Base.Wrap Base.Wire Base.Bytes Gen.GenConsts Gen.GenFrame Model.TypedBuf Model.Messages
  Model.Crc Model.Frag Model.FragWire Model.MsgRun.
Import ListNotations.
Local Open Scope Z_scope.

(* reqResWriter.newFragment on a pooled frame (payload capacity MaxFramePayloadSize):
   DeferByte (flags), message.write, WriteSingleByte(checksum type), DeferBytes(checksum size);
   returns wbuf.Err().  Some (message header bytes, BytesRemaining) or None = error. *)
Definition new_fragment (body : wbuf -> wbuf) (ck : ckst) : option (list Z * Z) :=
  let w1 := body (mkW [0] (c_MaxFramePayloadSize - 1) 0) in
  let w2 := w_bytes (repeat 0 (Z.to_nat (ck_size ck))) (w_u8 (ck_typecode ck) w1) in
  if werr w2 =? 0 then Some (skipn 1 (wout w1), wroom w2) else None.

(* flushFragment (Header.SetPayloadSize(uint16(BytesWritten)), type, id) + Frame.WriteOut *)
Definition frag_frame (mt id : Z) (payload : list Z) : list Z :=
  frame_out (mkFH (SetPayloadSize (wrapU 16 (zlen payload))) mt 0 id) payload.

(* a call written through reqResWriter with the writer script [ops]: the frames put on the
   wire.  [mt]/[mtc] = message type of the initial / the continuation fragments, [body] = the
   initial message's write function; continuation messages have an empty body.
   None = checksum type out of range, newFragment failed, the writer panicked or an operation
   returned an error. *)
Definition call_frames (mt mtc id : Z) (body : wbuf -> wbuf) (kind : Z) (ops : list wop) : option (list (list Z)) :=
  match ck_new kind with
  | None => None
  | Some ck =>
      match new_fragment body ck, new_fragment w_nop ck with
      | Some (hdr, cap1), Some (_, capc) =>
          match w_run (fun initial : bool => if initial then cap1 else capc) ops (Frag.w_init ck) [] with
          | Some (codes, st) =>
              if forallb (Z.eqb 0) codes then
                match ws_out st with
                | [] => Some []
                | f :: r => Some (frag_frame mt id (enc_frag_payload hdr f)
                                  :: map (fun g => frag_frame mtc id (enc_frag_payload [] g)) r)
                end
              else None
          | None => None
          end
      | _, _ => None
      end
  end.

(* each argument written with one Write (ArgWriteHelper / raw.WriteArgs) *)
Definition ops3 (a1 a2 a3 : list Z) : list wop :=
  [WBegin false; WWrite a1; WClose; WBegin false; WWrite a2; WClose; WBegin true; WWrite a3; WClose].

(* callwire: mt id kind (ttl_ms span service headers | code span headers) a1 a2 a3
   -> 1 | 0 nframes (len frame)* *)
Definition run_callwire (c : list Z) : list Z :=
  match c with
  | mt :: id :: kind :: r =>
      let '(body, mtc, r') :=
        if mt =? c_messageTypeCallReq then
          let '(ttl, r1) := take1 r in
          let '(s, r2) := take_span r1 in
          let '(svc, r3) := take_bytes r2 in
          let '(h, r4) := take_list take_kv r3 in
          (w_callreq (mkCallReq (ttl * ms_ns) s svc h), c_messageTypeCallReqContinue, r4)
        else
          let '(code, r1) := take1 r in
          let '(s, r2) := take_span r1 in
          let '(h, r3) := take_list take_kv r2 in
          (w_callres (mkCallRes code s h), c_messageTypeCallResContinue, r3) in
      let '(a1, q1) := take_bytes r' in
      let '(a2, q2) := take_bytes q1 in
      let '(a3, _) := take_bytes q2 in
      match call_frames mt mtc id body kind (ops3 a1 a2 a3) with
      | None => [1]
      | Some frames => 0 :: put_list put_bytes frames
      end
  | _ => [-1]
  end.
