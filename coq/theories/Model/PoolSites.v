(* The library's sync.Pools and their Get / Put sites (property C04, pool discipline): the MODEL'S
   COPY of the tables that go2v/syncpools.go extracts from the source on every run
   (Gen/GenSyncPools.v), every row with the role it plays in the discipline, and the life-cycle
   model the roles stand for.  Proofs/PoolSitesP.v proves the copy equal to the generated tables:
   a new, removed, moved or re-guarded Get / Put / release site, a new function that releases its
   argument, a new pool -- each breaks that proof, with the numbers of the offending rows.

   Roles.
     RGet c    takes an object out of a pool: a life cycle of kind c begins
     RPut c    THE release of a life cycle of kind c: its holder gives the object back, once
     RHand     inside a put wrapper (a function that puts its own receiver / parameter into the
               pool, found as such by go2v): the wrapper hands on what its caller released; no
               life cycle of its own
   Life cycles (kind: who holds the object, from where to where).
     1 checksum     a message writer / reader: ChecksumType.New (beginCall, handleCallReq, first
                    fragment read, relay arg2 append) .. writableFragment.finish(false) of the LAST
                    fragment | fragmentingReader.doneReading.  A writer or reader that fails before
                    never releases (the object is left to the collector); the relay's item never
                    releases (noReleaseChecksum alias)
     2 frame        syncFramePool: its Release is a wrapper for *Frame; the call sites belong to
                    property C12 (GenSites.pool_sites, GenFrameUse)
     3 relay timer  relayTimerPool.Get (addRelayItem) .. relayItems.Delete | deleteCall | deleteTomb, each item
                    deleted once under the items lock
     4 request state  getRequestState .. deferred Put of RunWithRetry
     5 scratch buffer of argreader.EnsureEmpty      6 scratch buffer of stats.MetricWithPrefix
     7 typed.Reader  typed.NewReader .. reader.Release() in thrift.ReadHeaders (unconditional, after
                    readHeaders returned, whatever it returned)
     8 thrift protocol  getProtocolReader / getProtocolWriter .. the Put next to it (ReadStruct,
                    WriteStruct; Server.handle: the reader's protocol right after the handler ran,
                    the writer's protocol deferred)
     9 scratch buffer of typed.Writer.WriteUint16
   [lc_step] is the discipline these cycles keep: a holder takes one object and gives it back at
   most once (Proofs/PoolSitesP.lc_disciplined: every run is a disciplined trace).

   Tracked pools: the names the harness overlays export (harness/overlay/**/zz_verif_c04_pools.go);
   the engine poolmux reports the names it really got, [run_pooltracked] compares.

   No proofs in this file. *)
From Coq Require Import ZArith List Bool String Ascii.
From Verif Require Import Base.Wrap Base.Wire Spec.PoolTraceSpec.
Import ListNotations.
Local Open Scope Z_scope.

Definition ps_s2z (s : string) : list Z := map (fun a => Z.of_nat (nat_of_ascii a)) (list_ascii_of_string s).

Fixpoint ps_lz_eq (a b : list Z) : bool :=
  match a, b with
  | [], [] => true
  | x :: r, y :: s => (x =? y) && ps_lz_eq r s
  | _, _ => false
  end.

(* ------------------------------------------------------------------ pools *)

Definition ps_decl := (list Z * list Z)%type.
Definition psd (name how : string) : ps_decl := (ps_s2z name, ps_s2z how).

Definition pool_decl_table : list ps_decl :=
  [ psd "argreader._bufPool" "var sync.Pool";
    psd "stats.bufPool" "var sync.Pool";
    psd "tchannel.NewSyncFramePool" "literal sync.Pool{...}";
    psd "tchannel.checksumPools" "var [4]sync.Pool";
    psd "tchannel.relayTimerPool.pool" "field sync.Pool";
    psd "tchannel.requestStatePool" "var sync.Pool";
    psd "tchannel.syncFramePool.pool" "field *sync.Pool";
    psd "thrift.thriftProtocolPool" "var sync.Pool";
    psd "typed.intBufferPool" "var sync.Pool";
    psd "typed.readerPool" "var sync.Pool" ].

(* pools under census in the harness (exported by the overlays) *)
Definition pool_tracked : list (list Z) :=
  map ps_s2z [ "argreader._bufPool"; "tchannel.checksumPools"; "tchannel.requestStatePool";
               "thrift.thriftProtocolPool"; "typed.intBufferPool"; "typed.readerPool" ]%string.

(* the same names as byte lists: the extracted entry point must not mention Coq's string type
   (Proofs/PoolSitesP.pool_tracked_bytes: equal to [pool_tracked]) *)
Definition pool_tracked_z : list (list Z) :=
  [ (* argreader._bufPool *) [97; 114; 103; 114; 101; 97; 100; 101; 114; 46; 95; 98; 117; 102; 80; 111; 111; 108];
    (* tchannel.checksumPools *) [116; 99; 104; 97; 110; 110; 101; 108; 46; 99; 104; 101; 99; 107; 115; 117; 109; 80; 111; 111; 108; 115];
    (* tchannel.requestStatePool *) [116; 99; 104; 97; 110; 110; 101; 108; 46; 114; 101; 113; 117; 101; 115; 116; 83; 116; 97; 116; 101; 80; 111; 111; 108];
    (* thrift.thriftProtocolPool *) [116; 104; 114; 105; 102; 116; 46; 116; 104; 114; 105; 102; 116; 80; 114; 111; 116; 111; 99; 111; 108; 80; 111; 111; 108];
    (* typed.intBufferPool *) [116; 121; 112; 101; 100; 46; 105; 110; 116; 66; 117; 102; 102; 101; 114; 80; 111; 111; 108];
    (* typed.readerPool *) [116; 121; 112; 101; 100; 46; 114; 101; 97; 100; 101; 114; 80; 111; 111; 108] ].

(* pools NOT under census, and why that is acceptable *)
Definition pool_untracked : list (list Z * list Z) :=
  [ (ps_s2z "stats.bufPool", ps_s2z "metric names of a stats reporter; no call path of the library reaches it");
    (ps_s2z "tchannel.NewSyncFramePool", ps_s2z "the pool behind a FramePool the application chooses: property C12 (recording frame pool)");
    (ps_s2z "tchannel.syncFramePool.pool", ps_s2z "the pool behind a FramePool the application chooses: property C12 (recording frame pool)");
    (ps_s2z "tchannel.relayTimerPool.pool", ps_s2z "per-connection pool without New; relayTimer checks its own released flag (panics); properties C03 / C09") ].

Definition pool_covered (d : ps_decl) : bool :=
  existsb (ps_lz_eq (fst d)) pool_tracked || existsb (fun u => ps_lz_eq (fst d) (fst u)) pool_untracked.

(* harness: the names of the tracked pools as the overlays export them (array index stripped,
   sorted, duplicate-free); output [1] iff they are exactly [pool_tracked] *)
Fixpoint ps_lzl_eq (a b : list (list Z)) : bool :=
  match a, b with
  | [], [] => true
  | x :: r, y :: s => ps_lz_eq x y && ps_lzl_eq r s
  | _, _ => false
  end.

Definition run_pooltracked (input : list Z) : list Z :=
  let '(names, _) := take_list take_bytes input in
  [zb (ps_lzl_eq names pool_tracked_z)].

(* ------------------------------------------------------------------ sites *)

Inductive ps_role := RGet (c : Z) | RPut (c : Z) | RHand.

Definition ps_row := (list Z * list Z * list Z * list Z * list Z)%type.
Definition psr (fn kind pool obj grd : string) : ps_row :=
  (ps_s2z fn, ps_s2z kind, ps_s2z pool, ps_s2z obj, ps_s2z grd).

Definition ps_row_eq (a b : ps_row) : bool :=
  let '(a1, a2, a3, a4, a5) := a in
  let '(b1, b2, b3, b4, b5) := b in
  ps_lz_eq a1 b1 && ps_lz_eq a2 b2 && ps_lz_eq a3 b3 && ps_lz_eq a4 b4 && ps_lz_eq a5 b5.

Definition pool_site_table : list (ps_row * ps_role) :=
  [ (psr "tchannel.ChecksumType.New" "Get" "tchannel.ChecksumType.pool()" "" "", RGet 1);
    (psr "tchannel.ChecksumType.Release" "Put" "tchannel.ChecksumType.pool()" "checksum" "", RHand);
    (psr "tchannel.nullChecksum.Release" "PutVia" "tchannel.ChecksumType.Release" "c" "", RHand);
    (psr "tchannel.hashChecksum.Release" "PutVia" "tchannel.ChecksumType.Release" "h" "", RHand);
    (psr "tchannel.fragmentingReader.doneReading" "PutVia" "tchannel.Checksum.Release" "r.checksum" "r.checksum != nil", RPut 1);
    (psr "tchannel.writableFragment.finish" "PutVia" "tchannel.Checksum.Release" "f.checksum" "!(hasMoreFragments)", RPut 1);
    (psr "tchannel.syncFramePool.Get" "Get" "tchannel.syncFramePool.pool" "" "", RGet 2);
    (psr "tchannel.syncFramePool.Release" "Put" "tchannel.syncFramePool.pool" "f" "", RHand);
    (psr "tchannel.relayItems.Delete" "PutVia" "tchannel.relayTimer.Release" "item.timeout" "", RPut 3);
    (psr "tchannel.relayItems.deleteCall" "PutVia" "tchannel.relayTimer.Release" "item.timeout" "", RPut 3);
    (psr "tchannel.relayItems.deleteTomb" "PutVia" "tchannel.relayTimer.Release" "item.timeout" "", RPut 3);
    (psr "tchannel.relayTimerPool.Get" "Get" "tchannel.relayTimerPool.pool" "" "", RGet 3);
    (psr "tchannel.relayTimerPool.Put" "Put" "tchannel.relayTimerPool.pool" "rt" "", RHand);
    (psr "tchannel.relayTimer.Release" "PutVia" "tchannel.relayTimerPool.Put" "rt" "", RHand);
    (psr "tchannel.Channel.RunWithRetry" "Put" "tchannel.requestStatePool" "rs" "defer", RPut 4);
    (psr "tchannel.Channel.getRequestState" "Get" "tchannel.requestStatePool" "" "", RGet 4);
    (psr "argreader.EnsureEmpty" "Get" "argreader._bufPool" "" "", RGet 5);
    (psr "argreader.EnsureEmpty" "Put" "argreader._bufPool" "buf" "defer", RPut 5);
    (psr "stats.MetricWithPrefix" "Get" "stats.bufPool" "" "", RGet 6);
    (psr "stats.MetricWithPrefix" "Put" "stats.bufPool" "buf" "", RPut 6);
    (psr "thrift.ReadHeaders" "PutVia" "typed.Reader.Release" "reader" "", RPut 7);
    (psr "thrift.Server.handle" "Put" "thrift.thriftProtocolPool" "wp" "", RPut 8);
    (psr "thrift.Server.handle" "Put" "thrift.thriftProtocolPool" "wp" "defer", RPut 8);
    (psr "thrift.WriteStruct" "Put" "thrift.thriftProtocolPool" "wp" "", RPut 8);
    (psr "thrift.ReadStruct" "Put" "thrift.thriftProtocolPool" "wp" "", RPut 8);
    (psr "thrift.getProtocolWriter" "Get" "thrift.thriftProtocolPool" "" "", RGet 8);
    (psr "thrift.getProtocolReader" "Get" "thrift.thriftProtocolPool" "" "", RGet 8);
    (psr "typed.NewReader" "Get" "typed.readerPool" "" "", RGet 7);
    (psr "typed.Reader.Release" "Put" "typed.readerPool" "r" "", RHand);
    (psr "typed.Writer.WriteUint16" "Get" "typed.intBufferPool" "" "", RGet 9);
    (psr "typed.Writer.WriteUint16" "Put" "typed.intBufferPool" "sizeBuf" "defer", RPut 9) ].

(* the two release sites whose combination with a new Put site two missed changes exploited *)
Definition ps_row_writer_release : ps_row :=
  psr "tchannel.writableFragment.finish" "PutVia" "tchannel.Checksum.Release" "f.checksum" "!(hasMoreFragments)".
Definition ps_row_readheaders_release : ps_row :=
  psr "thrift.ReadHeaders" "PutVia" "typed.Reader.Release" "reader" "".

(* numbers (from 1, as in the comments of Gen/GenSyncPools.v) of the generated rows that the
   model does not know, and 1000 + number of the model's rows that were not generated *)
Fixpoint ps_number {A} (i : Z) (l : list A) : list (Z * A) :=
  match l with [] => [] | x :: r => (i, x) :: ps_number (i + 1) r end.

Definition ps_offenders (gen : list ps_row) : list Z :=
  map fst (filter (fun p => negb (existsb (fun m => ps_row_eq (snd p) (fst m)) pool_site_table)) (ps_number 1 gen))
  ++ map (fun p => 1000 + fst p)
       (filter (fun p => negb (existsb (fun g => ps_row_eq g (fst (snd p))) gen)) (ps_number 1 pool_site_table)).

Definition pd_offenders (gen : list ps_decl) : list Z :=
  map fst (filter (fun p => negb (existsb (fun m => ps_lz_eq (fst (snd p)) (fst m) && ps_lz_eq (snd (snd p)) (snd m)) pool_decl_table)) (ps_number 1 gen))
  ++ map (fun p => 1000 + fst p)
       (filter (fun p => negb (existsb (fun g => ps_lz_eq (fst g) (fst (snd p)) && ps_lz_eq (snd g) (snd (snd p))) gen)) (ps_number 1 pool_decl_table)).

(* well-formedness of the roles: a Get row starts a cycle, a Put / PutVia row ends one or hands on *)
Definition ps_kind_of (r : ps_row) : list Z := let '(_, k, _, _, _) := r in k.
Definition ps_fn_of (r : ps_row) : list Z := let '(f, _, _, _, _) := r in f.

Definition ps_role_ok (p : ps_row * ps_role) : bool :=
  match snd p with
  | RGet _ => ps_lz_eq (ps_kind_of (fst p)) (ps_s2z "Get")
  | RPut _ | RHand => ps_lz_eq (ps_kind_of (fst p)) (ps_s2z "Put") || ps_lz_eq (ps_kind_of (fst p)) (ps_s2z "PutVia")
  end.

Definition ps_cycles : list Z := [1; 2; 3; 4; 5; 6; 7; 8; 9].

Definition ps_is_get (c : Z) (p : ps_row * ps_role) : bool := match snd p with RGet d => d =? c | _ => false end.
Definition ps_is_put (c : Z) (p : ps_row * ps_role) : bool := match snd p with RPut d => d =? c | _ => false end.

(* every cycle is entered somewhere; every cycle but the frame's (released at C12's sites) is left somewhere *)
Definition ps_cycles_ok : bool :=
  forallb (fun c => existsb (ps_is_get c) pool_site_table && ((c =? 2) || existsb (ps_is_put c) pool_site_table)) ps_cycles.

(* two releases of one cycle inside one function: only where they release two different
   acquisitions (Server.handle: the reader's protocol, then the writer's) *)
Definition ps_double_release_fns : list (list Z) := [ ps_s2z "thrift.Server.handle" ].

Fixpoint ps_same_fn_releases (l : list (ps_row * ps_role)) : list (list Z) :=
  match l with
  | [] => []
  | p :: r =>
      (match snd p with
       | RPut c => if existsb (fun q => ps_is_put c q && ps_lz_eq (ps_fn_of (fst q)) (ps_fn_of (fst p))) r
                   then [ps_fn_of (fst p)] else []
       | _ => []
       end) ++ ps_same_fn_releases r
  end.

(* ------------------------------------------------------------------ the life cycles' discipline *)

(* a holder's phase: 0 not started, 1 holds its object, 2 gave it back *)
Record lc_st := mkLc { lc_world : pworld; lc_phase : Z -> Z; lc_obj : Z -> Z }.

Definition lc_init := mkLc pw_init (fun _ => 0) (fun _ => 0).

Inductive lc_label :=
  | LcGet (h : Z) (pick : option Z)   (* the pool hands holder h an object of the bag, or a new one *)
  | LcPut (h : Z)                     (* holder h releases at the release site of its cycle *)
  | LcDrop (h : Z).                   (* holder h fails / ends without releasing: the object is garbage *)

Fixpoint lc_memz (x : Z) (l : list Z) : bool :=
  match l with [] => false | y :: r => (y =? x) || lc_memz x r end.

Definition lc_upd (f : Z -> Z) (k v : Z) : Z -> Z := fun j => if j =? k then v else f j.

(* a new object: one that was never handed out *)
Definition lc_new (w : pworld) : Z := 1 + fold_right Z.max 0 (pw_seen w).

Definition lc_step (s : lc_st) (l : lc_label) : option (list pev * lc_st) :=
  match l with
  | LcGet h pick =>
      if negb (lc_phase s h =? 0) then None else
      match pick with
      | Some o =>
          if lc_memz o (pw_bag (lc_world s)) then
            Some ([PGet o h], mkLc (pw_step (lc_world s) (PGet o h)) (lc_upd (lc_phase s) h 1) (lc_upd (lc_obj s) h o))
          else None
      | None =>
          let o := lc_new (lc_world s) in
          Some ([PGet o h], mkLc (pw_step (lc_world s) (PGet o h)) (lc_upd (lc_phase s) h 1) (lc_upd (lc_obj s) h o))
      end
  | LcPut h =>
      if lc_phase s h =? 1 then
        Some ([PPut (lc_obj s h) h], mkLc (pw_step (lc_world s) (PPut (lc_obj s h) h)) (lc_upd (lc_phase s) h 2) (lc_obj s))
      else None
  | LcDrop h =>
      if lc_phase s h =? 1 then Some ([], mkLc (lc_world s) (lc_upd (lc_phase s) h 2) (lc_obj s)) else None
  end.

Fixpoint lc_run (s : lc_st) (ls : list lc_label) : option (list pev * lc_st) :=
  match ls with
  | [] => Some ([], s)
  | l :: r => match lc_step s l with
              | None => None
              | Some (ev, s') => match lc_run s' r with
                                 | None => None
                                 | Some (evs, s'') => Some (ev ++ evs, s'')
                                 end
              end
  end.
