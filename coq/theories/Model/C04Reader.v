(* C04 (strengthening W04): what the READER half of a call does to its message exchange when it
   fetches its next fragment -- reqResReader.recvNextFragment over
   messageExchange.recvPeerFrameOfType over messageExchange.recvPeerFrame.

   [c04r_fetch] is the model: a reader that still holds its initial fragment (the first frame of
   an inbound call) hands that out without touching the exchange; otherwise the fetch IS one
   mex.recvPeerFrame of Model/Mex.v: [LRecvCheck r] (the context test) followed by the select
   ([LRecvFrame r | LRecvCtxDone r | LRecvErr r], whichever the scheduler picks among the enabled
   ones).  Nothing else is asked of the exchange first; in particular NOT the error channel, so
   that recvPeerFrame's priority (context error, every delivered frame, then the notified error)
   is the reader's.

   [c04r_exec] gives the statement structure regenerated from the source (Gen/GenC04Reader.v) a
   meaning over the same state; Proofs/C04ReaderP.v proves exec (generated program) = c04r_fetch.
   Not modelled (no counterpart in Model/Mex.v, where a frame is (id, tag)): the contents of
   frames -- parseInboundFragment never fails, recvPeerFrameOfType's type switch passes the frame
   on (an error frame / a frame of another type are results of the peer's bytes, not of the
   exchange); reqResReader.failed's mex.shutdown() is the shutdown thread of Model/Mex.v
   (LShutCAS; LShutNotify; LShutRemove), started by the caller of the fetch.

   [c04r_expected_sites]: the places of package tchannel that consult an exchange's error
   channel at all, with their role. *)
From Coq Require Import ZArith List Bool String Ascii.
From Verif Require Import Base.Wrap Base.Wire Gen.GenConsts Gen.GenMex Spec.C04ReaderSpec Model.Mex.
Import ListNotations.
Local Open Scope Z_scope.

(* ---- the model's receive step ---- *)

(* mex.recvPeerFrame of exchange r, the scheduler choosing [sel] at the select *)
Definition c04r_recv (s : st) (r : nat) (sel : label) : option (st * list Z) :=
  match step_obs true s (LRecvCheck r) with
  | Some (s1, []) => step_obs true s1 sel
  | Some (s1, o) => Some (s1, o)
  | None => None
  end.

(* one fetch of the reader; observation: [0] = the initial fragment, [0; tag] = a frame of the
   exchange, [code] = an error *)
Definition c04r_fetch (initial : bool) (s : st) (r : nat) (sel : label) : option (st * list Z) :=
  if initial then Some (s, [0]) else c04r_recv s r sel.

(* a reader fetching again and again, the scheduler choosing at every select *)
Fixpoint c04r_fetches (s : st) (r : nat) (sels : list label) : option (st * list (list Z)) :=
  match sels with
  | [] => Some (s, [])
  | sel :: rest =>
      match c04r_recv s r sel with
      | Some (s1, o) =>
          match c04r_fetches s1 r rest with
          | Some (s2, os) => Some (s2, o :: os)
          | None => None
          end
      | None => None
      end
  end.

Definition c04r_sel_ok (r : nat) (sel : label) : Prop :=
  sel = LRecvFrame r \/ sel = LRecvCtxDone r \/ sel = LRecvErr r.

(* ---- semantics of the regenerated statement structure ---- *)

(* <exchange>.checkError(): the context error, else whatever was notified on the error channel *)
Definition c04r_check_error (s : st) (r : nat) : option Z :=
  match nth_error (s_mexes s) r with
  | Some e => if negb (m_ctx e =? 0) then Some (ctx_err (m_ctx e)) else Some (m_err e)
  | None => None
  end.

Definition c04r_is_err (last : list Z) : bool :=
  match last with
  | c :: _ => negb (c =? 0)
  | [] => false
  end.

(* [initial]: r.initialFragment != nil; [last]: the result of the call just made *)
Fixpoint c04r_exec (p : c04r_prog) (initial : bool) (last : list Z) (s : st) (r : nat) (sel : label)
  : option (st * list Z) :=
  match p with
  | C04rRet _ => Some (s, last)
  | C04rIf t a b =>
      match t with
      | C04rtInitial => if initial then c04r_exec a initial last s r sel else c04r_exec b initial last s r sel
      | C04rtErr => if c04r_is_err last then c04r_exec a initial last s r sel else c04r_exec b initial last s r sel
      | C04rtErrIsMsg => c04r_exec b initial last s r sel   (* errors of the exchange are never errorMessage values *)
      | C04rtMexCheckError =>
          match c04r_check_error s r with
          | Some c => if c =? 0 then c04r_exec b initial last s r sel else c04r_exec a initial [c] s r sel
          | None => None
          end
      | C04rtMexOther => None
      end
  | C04rDo o k =>
      match o with
      | C04roTakeInitial => c04r_exec k initial [0] s r sel
      | C04roClearInitial => c04r_exec k false last s r sel
      | C04roSetPrev | C04roMessage | C04roSetErrMsg | C04roParse => c04r_exec k initial last s r sel
      | C04roRecvOfType | C04roRecvPeerFrame =>
          match c04r_recv s r sel with
          | Some (s', o) => c04r_exec k initial o s' r sel
          | None => None
          end
      | C04roMexOther => None
      end
  end.

(* ---- who consults the error channel ---- *)

Definition c04r_s2z (s : string) : list Z := map (fun a => Z.of_nat (nat_of_ascii a)) (list_ascii_of_string s).

Inductive c04r_role :=
| C04rCore      (* mex.go: the priority orders of forwardPeerFrame / recvPeerFrame, and checkError itself *)
| C04rWriter    (* the WRITER half: gives up before / while waiting for room on the connection's send queue *)
| C04rWatcher.  (* the inbound call's watcher goroutine: an exchange error cancels the handler's context *)

(* (function, kind, role); kinds: 1 checkError()  2 errCh.checkErr()  3 <-errCh.c  4 errCh.err *)
Definition c04r_expected_sites : list (string * Z * c04r_role) := [
  ("Connection.dispatchInbound"%string, 3, C04rWatcher);
  ("Connection.dispatchInbound"%string, 4, C04rWatcher);
  ("messageExchange.checkError"%string, 2, C04rCore);
  ("messageExchange.forwardPeerFrame"%string, 3, C04rCore);
  ("messageExchange.forwardPeerFrame"%string, 4, C04rCore);
  ("messageExchange.forwardPeerFrame"%string, 4, C04rCore);
  ("messageExchange.recvPeerFrame"%string, 3, C04rCore);
  ("messageExchange.recvPeerFrame"%string, 4, C04rCore);
  ("reqResWriter.flushFragment"%string, 1, C04rWriter);
  ("reqResWriter.flushFragment"%string, 3, C04rWriter);
  ("reqResWriter.flushFragment"%string, 4, C04rWriter);
  ("reqResWriter.newFragment"%string, 1, C04rWriter)
].

(* the functions on the path of a reader's fetch: the only one that may look at the error
   channel is recvPeerFrame (whose order of looking is Gen/GenMexProg.v) *)
Definition c04r_reader_path : list string := [
  "reqResReader.recvNextFragment"%string; "reqResReader.argReader"%string; "reqResReader.arg1Reader"%string;
  "reqResReader.arg2Reader"%string; "reqResReader.arg3Reader"%string; "reqResReader.failed"%string;
  "messageExchange.recvPeerFrameOfType"%string; "fragmentingReader.recvMoreFragments"%string;
  "fragmentingReader.BeginArgument"%string; "fragmentingReader.Read"%string
].

(* ==== harness entry point (engine multiplex, sub c04drain) ====================================

   input  [cap; err; n; t_1; d_1; ...; t_n; d_n; m; w_1; ...; w_m]
     n callers (exchange i registered under id i+1, queue capacity cap); caller i's response has
     t_i frames of which d_i reach the connection before it fails; w = the order in which the
     delivered frames arrive (caller indices, m = sum of the d_i); then the connection fails:
     stopExchanges(err) notifies every exchange; only THEN the callers read.
   output per caller [frames received; 0 = complete | the error it ends with]. *)

Definition c04d_take2 (l : list Z) : (Z * Z) * list Z :=
  let '(a, l1) := take1 l in let '(b, l2) := take1 l1 in ((a, b), l2).

Fixpoint c04d_run_labels (s : st) (ls : list label) : st :=
  match ls with
  | [] => s
  | l :: r => match step_obs true s l with Some (s', _) => c04d_run_labels s' r | None => c04d_run_labels s r end
  end.

(* the reader of exchange r fetches until its response (t frames) is complete or a fetch fails *)
Fixpoint c04d_read (fuel : nat) (s : st) (r : nat) (t got : Z) : st * list Z :=
  match fuel with
  | O => (s, [got; -1])
  | S fuel' =>
      if t <=? got then (s, [got; 0])
      else match cons_advance true s r with
           | (s', Some (0 :: _ :: _)) => c04d_read fuel' s' r t (got + 1)
           | (s', Some (c :: _)) => (s', [got; c])
           | (s', Some []) => (s', [got; -2])
           | (s', None) => (s', [got; -3])     (* blocked: cannot happen after the notification *)
           end
  end.

Fixpoint c04d_read_all (s : st) (r : nat) (ts : list (Z * Z)) : list Z :=
  match ts with
  | [] => []
  | (t, _) :: rest =>
      let '(s', o) := c04d_read (S (Z.to_nat t)) s r t 0 in
      o ++ c04d_read_all s' (S r) rest
  end.

Definition run_c04drain (inp : list Z) : list Z :=
  let '(cap, l1) := take1 inp in
  let '(err, l2) := take1 l1 in
  let '(ts, l3) := take_list c04d_take2 l2 in
  let '(wire, _) := take_list take1 l3 in
  let n := List.length ts in
  let s0 := c04d_run_labels init (map (fun i => LNew (Z.of_nat i + 1) cap) (seq 0 n)) in
  let s1 := c04d_run_labels s0
              (flat_map (fun p => [LLookup (mkF (snd p + 1) (Z.of_nat (fst p))); LFwdCheck; LFwdSend])
                        (combine (seq 0 (List.length wire)) wire)) in
  let s2 := c04d_run_labels s1 (LStopCopy err :: repeat (LStopNotify 0) n) in
  c04d_read_all s2 0 ts.
