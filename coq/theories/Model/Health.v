(* Hand model of health.go: healthHistory (ring buffer), HealthCheckOptions.withDefaults,
   the classification of ping's error and the body of the healthCheck loop.
   HealthCheckOptions.enabled, GetSystemErrorCode and the constants are NOT modelled here:
   they are regenerated from source (Gen/GenHealthIdle.v, Gen/GenRetry.v, Gen/GenConsts.v). *)
From Coq Require Import ZArith List Bool.
From Verif Require Import Base.Wrap Base.Wire Gen.GenConsts Gen.GenRetry Gen.GenHealthIdle Spec.IdleHealthSpec.
Import ListNotations.
Local Open Scope Z_scope.

(* ---- healthHistory ---------------------------------------------------------------- *)
(* states []bool (length _healthHistorySize), insertAt, total.  [hh_bad] records that the
   index expression hh.states[hh.insertAt] would have panicked (index out of range). *)
Record ring := { hh_states : list bool; hh_insert : Z; hh_total : Z; hh_bad : bool }.

(* newHealthHistory: make([]bool, _healthHistorySize) *)
Definition hh_new : ring :=
  {| hh_states := repeat false (Z.to_nat c_u_healthHistorySize); hh_insert := 0; hh_total := 0; hh_bad := false |}.

(* s[i] = b on a Go slice *)
Definition set_nth (i : Z) (b : bool) (s : list bool) : list bool :=
  firstn (Z.to_nat i) s ++ b :: skipn (S (Z.to_nat i)) s.

(* add: hh.states[hh.insertAt] = b; hh.insertAt = (hh.insertAt + 1) % size; hh.total++ *)
Definition hh_add (h : ring) (b : bool) : ring :=
  if (0 <=? hh_insert h) && (hh_insert h <? zlen (hh_states h)) then
    {| hh_states := set_nth (hh_insert h) b (hh_states h);
       hh_insert := Z.rem (hh_insert h + 1) c_u_healthHistorySize;
       hh_total := hh_total h + 1; hh_bad := hh_bad h |}
  else {| hh_states := hh_states h; hh_insert := hh_insert h; hh_total := hh_total h; hh_bad := true |}.

(* asBools *)
Definition hh_as_bools (h : ring) : list bool :=
  if hh_total h <? c_u_healthHistorySize then firstn (Z.to_nat (hh_total h)) (hh_states h)
  else skipn (Z.to_nat (hh_insert h)) (hh_states h) ++ firstn (Z.to_nat (hh_insert h)) (hh_states h).

(* ---- options ----------------------------------------------------------------------- *)
Record hopts := { ho_interval : Z; ho_timeout : Z; ho_failures : Z }.

(* withDefaults *)
Definition ho_with_defaults (o : hopts) : hopts :=
  let t := if ho_timeout o =? 0 then c_u_defaultHealthCheckTimeout else ho_timeout o in
  let f := if ho_failures o =? 0 then c_u_defaultHealthCheckFailuresToClose else ho_failures o in
  {| ho_interval := ho_interval o; ho_timeout := t; ho_failures := f |}.

(* callOnActive: if c.opts.HealthChecks.enabled() { go c.healthCheck } ; enabled is generated *)
Definition ho_enabled (o : hopts) : bool := hcEnabled (ho_interval o).

(* ---- the loop body after ping returned ----------------------------------------------- *)
(* what the loop looks at in ping's error: err == nil;
   GetSystemErrorCode(err) == ErrCodeCancelled || err == ErrInvalidConnectionState; else failure *)
Definition classify (err : goerr) (is_invalid_state : bool) : outcome :=
  if e_nil err then POk
  else if (GetSystemErrorCode err =? c_ErrCodeCancelled) || is_invalid_state then PStop
  else PFail.

Record hloop := { hl_fails : Z; hl_hist : ring; hl_running : bool }.

Definition hl_init : hloop := {| hl_fails := 0; hl_hist := hh_new; hl_running := true |}.

(* one iteration, from `c.healthCheckHistory.add(err == nil)` to `continue` / `return`;
   the boolean says whether the iteration called c.close (health check failure) *)
Definition health_iter (F : Z) (o : outcome) (l : hloop) : hloop * bool :=
  let hist := hh_add (hl_hist l) (match o with POk => true | _ => false end) in
  match o with
  | POk => ({| hl_fails := 0; hl_hist := hist; hl_running := true |}, false)
  | PStop => ({| hl_fails := hl_fails l; hl_hist := hist; hl_running := false |}, false)
  | PFail =>
      let f := hl_fails l + 1 in
      if f >=? F then ({| hl_fails := f; hl_hist := hist; hl_running := false |}, true)
      else ({| hl_fails := f; hl_hist := hist; hl_running := true |}, false)
  end.

(* the loop over a list of ping outcomes; a stopped loop consumes nothing more.
   Result: final loop state and the index of the outcome at which c.close was called. *)
Fixpoint health_loop (F : Z) (outs : list outcome) (i : nat) (l : hloop) : hloop * option nat :=
  match outs with
  | [] => (l, None)
  | o :: r =>
      if hl_running l then
        let '(l', closed) := health_iter F o l in
        if closed then (l', Some i) else health_loop F r (S i) l'
      else (l, None)
  end.

(* ---- harness entry points ------------------------------------------------------------ *)
(* ring: n b1..bn -> total insertAt bad k a1..ak   (asBools after adding b1..bn to a new history) *)
Definition run_ring (c : list Z) : list Z :=
  let '(bs, _) := take_list take1 c in
  let h := fold_left (fun h b => hh_add h (bz b)) bs hh_new in
  hh_total h :: hh_insert h :: zb (hh_bad h) :: put_list (fun b => [zb b]) (hh_as_bools h).

(* hopts: interval timeout failures -> enabled timeout' failures' *)
Definition run_hopts (c : list Z) : list Z :=
  match c with
  | i :: t :: f :: _ =>
      let o := ho_with_defaults {| ho_interval := i; ho_timeout := t; ho_failures := f |} in
      [zb (ho_enabled o); ho_timeout o; ho_failures o]
  | _ => [-1]
  end.

(* hloop: F n (nil sys code net invalid)* -> closedAt(-1 none) fails running total k hist*  *)
Definition take_perr (l : list Z) : outcome * list Z :=
  match l with
  | a :: b :: c :: d :: e :: r =>
      (classify {| e_nil := bz a; e_sys := bz b; e_code := c; e_net := bz d |} (bz e), r)
  | _ => (POk, [])
  end.
Definition run_hloop (c : list Z) : list Z :=
  match c with
  | F :: r =>
      let '(outs, _) := take_list take_perr r in
      let '(l, at_) := health_loop F outs 0 hl_init in
      (match at_ with Some i => Z.of_nat i | None => -1 end) :: hl_fails l :: zb (hl_running l)
        :: hh_total (hl_hist l) :: put_list (fun b => [zb b]) (hh_as_bools (hl_hist l))
  | _ => [-1]
  end.
