(* The C07 close models with a flag [pinned]: [false] is the repaired code (the step functions of
   Model/ConnClose.v and Model/ChanClose.v, unchanged), [true] describes the three places as they
   are on the PINNED tree (before the three fix: commits):

     (a) channel.go Channel.Close:           ch.mutable.state = ChannelStartClose           (unconditional)
         repaired:                           if ch.mutable.state < ChannelStartClose { ch.mutable.state = ChannelStartClose }
     (b) inbound.go handleCallReq re-check:  if c.readState() != connectionActive { mex.shutdown(); return true }
         repaired:                           ... { c.SendSystemError(id, span, ErrChannelClosed); mex.shutdown(); return true }
     (c) channel.go connectionCloseStateChange:  if ch.mutable.state == chState { ch.mutable.state = updateTo; ... }
         repaired:                               if ch.mutable.state < updateTo { ... }

   Every other program counter steps exactly as in the repaired model.  Proofs/ClosePinnedP.v shows
   [*_v false] = the repaired step functions and refutes three clauses of C07 for [*_v true]. *)
From Coq Require Import ZArith List Bool.
From Verif Require Import Base.Wrap Gen.GenConsts Model.CloseKernel Model.ConnClose Model.ChanClose.
Import ListNotations.
Local Open Scope Z_scope.

(* ---- connection: handleCallReq ---------------------------------------------------------- *)

Definition tstep_v (pinned : bool) (s : shared) (tid : nat) (p : pc) : option (shared * pc) :=
  match p with
  | PR3 id =>
      if st s =? sA then Some (set_inb s (set_flag id (inb s)), PDone oDispatched id)
      else Some (s, if pinned then PR5 id          (* pinned: straight to mex.shutdown(), no error frame *)
                    else PR4 id)
  | _ => tstep s tid p
  end.

Definition step_v (pinned : bool) (s : sys) (l : label) : option sys :=
  match l with
  | LSpawn _ => ConnClose.step s l
  | LRun tid =>
      match nth_error (thr s) tid with
      | None => None
      | Some p =>
          match tstep_v pinned (sh s) tid p with
          | None => None
          | Some (sh', p') => Some (mkSys sh' (upd (thr s) tid p'))
          end
      end
  end.

(* ---- channel: Close and connectionCloseStateChange --------------------------------------- *)

Definition ctstep_v (pinned : bool) (s : cshared) (p : cpc) (arg : Z) : option (cshared * cpc) :=
  match p with
  | PCl1 =>
      if chst s =? hCl then Some (s, PCl2 [] false)
      else
        let s1 := if pinned then set_chst s hSC                      (* pinned: unconditional assignment *)
                  else if chst s <? hSC then set_chst s hSC else s in
        match conns s with
        | [] => Some (set_chst s1 hCl, PCl2 [] true)
        | _ => Some (s1, PCl2 (conns s) false)
        end
  | PCb5 c chState u =>
      if (if pinned then chst s =? chState                           (* pinned: only if nobody moved the state *)
          else chst s <? u)
      then Some (set_chst s u, if u =? hCl then PCb6 else CDone oCbDone)
      else Some (s, CDone oCbDone)
  | _ => ctstep s p arg
  end.

Definition cstep_v (pinned : bool) (s : csys) (l : clabel) : option csys :=
  match l with
  | LRunC tid arg =>
      match nth_error (cthr s) tid with
      | None => None
      | Some p =>
          match ctstep_v pinned (csh s) p arg with
          | None => None
          | Some (sh', p') => Some (mkCS sh' (upd (cthr s) tid p'))
          end
      end
  | _ => cstep s l
  end.
