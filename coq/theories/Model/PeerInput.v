(* Hand model of the per-frame dispatch of a NON-relay connection after the handshake (C03):
     connection.go  readFrames (one iteration), handleFrameNoRelay, handlePingReq, handlePingRes,
                    SendSystemError, connectionError, protocolError, close, checkExchanges
     frame.go       ReadBody (through Messages.frame_read_body)
     inbound.go     handleCallReq (up to `go dispatchInbound`), handleCallReqContinue, handleCancel
     outbound.go    handleCallRes, handleCallResContinue, handleError
     mex.go         messageExchangeSet.forwardPeerFrame / handleCancel / stopExchanges,
                    messageExchange.forwardPeerFrame / handleCancel
   One call of [handle_frame] = one iteration of the reader goroutine's loop, run to completion
   (the reader is the only goroutine that handles frames of a connection).

   State.  The connection's close state, the two exchange maps as association lists
   id -> exchange, stoppedExchanges, the free slots of sendCh and opts.PropagateCancel.
   An exchange carries what messageExchange.forwardPeerFrame looks at: ctx.Err(), the error
   latch errCh, the free slots of recvCh, frameDropped, and [mx_wait]: how a select that has to
   BLOCK (recvCh full, no error, context live) is eventually resolved by the other goroutines
   (0 the consumer takes a frame, 1 deadline, 2 cancellation, other: the error latch is set);
   it is an input of the environment, universally quantified in the theorems.
   mexset.shutdown of both sets is written only by stopExchanges, which runs exactly when
   stoppedExchanges flips, so the three flags are one field here ([cs_stopped]).

   Effects are what the iteration does to the outside: nothing (Drop), a frame queued on sendCh
   (SendFrame type id code), the connection being shut down (CloseConn: connectionError /
   protocolError), `go dispatchInbound` (Dispatch), a frame put on an exchange's recvCh (Deliver),
   an exchange's context cancelled (Cancel).  Every place where the Go code can panic is an
   explicit test that yields [Panic site]:
     site 1  handleCallReq   default: panic("unknown connection state for call req")
     site 2  handleCallReq   initialFragment.checksumType.New()  -> checksumPools[int(t)]
     site 3  callReqSpan     f.Payload[_spanIndex : _spanIndex+_spanLength] on the pooled buffer
   Not modelled: logging, stats, tracing span extraction, the relay path (Proofs/PeerInputP.v has
   its routing theorem), frame.write of the error/ping messages into a fresh 64 KiB frame (their
   texts are short constants), the window between the two readState calls of handleCallReq (the
   reader is modelled as atomic; Close racing with admission is property C07's subject),
   lastActivity stamps, frame pool releases (C12). *)
From Coq Require Import ZArith List Bool.
From Verif Require Import Base.Wrap Base.Bytes Base.Wire Gen.GenConsts Gen.GenFrame
  Model.TypedBuf Model.Messages Model.Crc Model.Frag Model.FragWire.
Import ListNotations.
Local Open Scope Z_scope.

Inductive effect :=
| Drop
| SendFrame (mt id code : Z)
| CloseConn
| Dispatch (id : Z)
| Deliver (id : Z)
| Cancel (id : Z)
| Panic (site : Z).

Record mexinfo := mkMx {
  mx_ctx : Z;          (* ctx.Err(): 0 nil | 1 DeadlineExceeded | 2 Canceled *)
  mx_err : bool;       (* errCh notified *)
  mx_room : Z;         (* cap(recvCh) - len(recvCh) *)
  mx_dropped : bool;   (* frameDropped *)
  mx_wait : Z          (* environment: outcome of a blocking select *)
}.

Definition exmap := list (Z * mexinfo).

Record cstate := mkCS {
  cs_state : Z;        (* c.state: c_connectionActive .. c_connectionClosed *)
  cs_in : exmap;       (* c.inbound.exchanges *)
  cs_out : exmap;      (* c.outbound.exchanges *)
  cs_stopped : bool;   (* c.stoppedExchanges (= inbound.shutdown = outbound.shutdown) *)
  cs_sendroom : Z;     (* cap(sendCh) - len(sendCh) *)
  cs_cancel : bool     (* c.opts.PropagateCancel *)
}.

(* ---- record updates ---- *)
Definition set_state (s : Z) (st : cstate) : cstate :=
  mkCS s (cs_in st) (cs_out st) (cs_stopped st) (cs_sendroom st) (cs_cancel st).
Definition set_in (m : exmap) (st : cstate) : cstate :=
  mkCS (cs_state st) m (cs_out st) (cs_stopped st) (cs_sendroom st) (cs_cancel st).
Definition set_out (m : exmap) (st : cstate) : cstate :=
  mkCS (cs_state st) (cs_in st) m (cs_stopped st) (cs_sendroom st) (cs_cancel st).
Definition set_room (r : Z) (st : cstate) : cstate :=
  mkCS (cs_state st) (cs_in st) (cs_out st) (cs_stopped st) r (cs_cancel st).

Definition mx_set_ctx (k : Z) (m : mexinfo) : mexinfo := mkMx k (mx_err m) (mx_room m) (mx_dropped m) (mx_wait m).
Definition mx_set_err (m : mexinfo) : mexinfo := mkMx (mx_ctx m) true (mx_room m) (mx_dropped m) (mx_wait m).
Definition mx_set_room (r : Z) (m : mexinfo) : mexinfo := mkMx (mx_ctx m) (mx_err m) r (mx_dropped m) (mx_wait m).
Definition mx_set_dropped (m : mexinfo) : mexinfo := mkMx (mx_ctx m) (mx_err m) (mx_room m) true (mx_wait m).

(* ---- the exchanges maps ---- *)
Fixpoint mx_lookup (id : Z) (m : exmap) : option mexinfo :=
  match m with
  | [] => None
  | (k, e) :: r => if k =? id then Some e else mx_lookup id r
  end.
Fixpoint mx_put (id : Z) (e : mexinfo) (m : exmap) : exmap :=
  match m with
  | [] => []
  | (k, e0) :: r => if k =? id then (k, e) :: r else (k, e0) :: mx_put id e r
  end.
Definition mx_keys (m : exmap) : list Z := map fst m.

(* newExchange: make(chan *Frame, mexChannelBufferSize), fresh context, no error *)
Definition mx_new : mexinfo := mkMx 0 false c_mexChannelBufferSize false 0.

(* ---- mex.go: messageExchange.forwardPeerFrame; the boolean says whether the frame was put on recvCh ---- *)
Definition mex_forward (m : mexinfo) : mexinfo * bool :=
  if negb (mx_ctx m =? 0) then (m, false)                       (* if err := mex.ctx.Err(); err != nil *)
  else if mx_dropped m then (m, false)                          (* if mex.frameDropped.Load() *)
  else if mx_room m >? 0 then (mx_set_room (mx_room m - 1) m, true)
       (* case mex.recvCh <- frame; if the select picks the errCh case instead, its non-blocking
          retry of the same send succeeds *)
  else if mx_err m then (mx_set_dropped m, false)               (* case <-mex.errCh.c: retry fails *)
  else (* nothing ready: the reader blocks until another goroutine makes a case ready *)
    if mx_wait m =? 0 then (m, true)                            (* the consumer freed a slot, which this frame takes *)
    else if mx_wait m =? 1 then (mx_set_ctx 1 m, false)         (* case <-mex.ctx.Done(): deadline *)
    else if mx_wait m =? 2 then (mx_set_ctx 2 m, false)         (* ... cancellation *)
    else (mx_set_dropped (mx_set_err m), false).                (* error latch set while the queue is still full *)

(* mexset.forwardPeerFrame: an unknown id is logged and nil is returned *)
Definition forward (ex : exmap) (id : Z) : exmap * list effect :=
  match mx_lookup id ex with
  | None => (ex, [Drop])
  | Some m => let '(m', ok) := mex_forward m in (mx_put id m' ex, [if ok then Deliver id else Drop])
  end.

(* stopExchanges on one set: every exchange's error latch is set (the first error is kept) *)
Definition notify_all (ex : exmap) : exmap := map (fun p => (fst p, mx_set_err (snd p))) ex.

(* ---- connection.go ---- *)

(* SendSystemError: nothing is queued on a Closed connection or when sendCh is full *)
Definition send_system_error (st : cstate) (id code : Z) : cstate * list effect :=
  if cs_state st =? c_connectionClosed then (st, [])
  else if cs_sendroom st >? 0 then (set_room (cs_sendroom st - 1) st, [SendFrame c_messageTypeError id code])
  else (st, []).

(* checkExchanges (relay == nil, so canClose() is true); reaching Closed closes stopCh, on which
   writeFrames closes the network connection *)
Definition check_exchanges (st : cstate) : cstate :=
  let st1 := if negb (cs_state st =? c_connectionClosed) && cs_stopped st then set_state c_connectionClosed st else st in
  let st2 := if cs_state st1 =? c_connectionStartClose
             then (if zlen (cs_in st1) =? 0 then set_state c_connectionInboundClosed st1 else st1) else st1 in
  if cs_state st2 =? c_connectionInboundClosed
  then (if zlen (cs_out st2) =? 0 then set_state c_connectionClosed st2 else st2) else st2.

(* Connection.close: only an Active connection starts closing (otherwise an error is returned
   and checkExchanges is not called) *)
Definition conn_close (st : cstate) : cstate :=
  if cs_state st =? c_connectionActive then check_exchanges (set_state c_connectionStartClose st) else st.

(* if c.stoppedExchanges.CAS(false, true) { outbound.stopExchanges(err); inbound.stopExchanges(err) } *)
Definition stop_exchanges (st : cstate) : cstate :=
  if cs_stopped st then st
  else mkCS (cs_state st) (notify_all (cs_in st)) (notify_all (cs_out st)) true (cs_sendroom st) (cs_cancel st).

Definition connection_error (st : cstate) : cstate * list effect :=
  (check_exchanges (stop_exchanges (conn_close st)), [CloseConn]).

Definition protocol_error (st : cstate) (id : Z) : cstate * list effect :=
  let '(st1, e) := send_system_error st id c_ErrCodeProtocol in
  (stop_exchanges (conn_close st1), e ++ [CloseConn]).

Definition or_drop (e : list effect) : list effect := match e with [] => [Drop] | _ => e end.

(* ---- reqres.go: parseInboundFragment for a call req, as far as the reader goroutine runs it:
   flags, callReq.read, checksum type (errUnknownChecksumType), checksum bytes, rbuf.Err().
   The chunks behind the checksum are NOT parsed here but by the goroutine that reads the
   arguments (recvAndParseNextFragment; FragWire.parse_frag_payload models both steps together).
   Result: (code, checksum type); code 0 ok, 11 typed.ErrEOF, 14 unknown checksum type. ---- *)
Definition parse_inbound_fragment (payload : list Z) : Z * Z :=
  let '(flags, r0) := r_u8 (rb payload) in
  let r1 := snd (r_callreq r0) in
  if rerr r1 then (11, 0) else
  let '(ct, r2) := r_u8 r1 in
  if ct >=? c_checksumCount then (14, ct) else
  let '(ck, r3) := r_bytes (Z.to_nat (ChecksumSize ct)) r2 in
  if rerr r3 then (11, ct) else (0, ct).

(* ---- inbound.go: handleCallReq ---- *)
Definition handle_call_req (st : cstate) (id : Z) (payload : list Z) : cstate * list effect :=
  let s := cs_state st in
  if s =? c_connectionActive then
    let '(code, ct) := parse_inbound_fragment payload in
    if negb (code =? 0) then (st, [Drop])                         (* "Couldn't decode initial fragment." *)
    else if cs_stopped st || (match mx_lookup id (cs_in st) with Some _ => true | None => false end)
    then protocol_error st id                                     (* errMexSetShutdown / errDuplicateMex *)
    else match ck_new ct with
         | None => (st, [Panic 2])
         | Some _ => (set_in ((id, mx_new) :: cs_in st) st, [Dispatch id])
         end
  else if (s =? c_connectionStartClose) || (s =? c_connectionInboundClosed) || (s =? c_connectionClosed) then
    if c_u_spanIndex + c_u_spanLength >? c_MaxFramePayloadSize then (st, [Panic 3])
    else let '(st1, e) := send_system_error st id c_ErrCodeDeclined in (st1, or_drop e)   (* ErrChannelClosed *)
  else (st, [Panic 1]).

(* ---- outbound.go: handleError ---- *)
Definition handle_error (st : cstate) (id : Z) (payload : list Z) : cstate * list effect :=
  let '(m, r) := r_error (rb payload) in
  if rerr r then connection_error st                              (* "parsing error frame" *)
  else if em_code m =? c_ErrCodeProtocol then connection_error st (* "received protocol error" *)
  else let '(ex, e) := forward (cs_out st) id in (set_out ex st, e).

(* ---- inbound.go / mex.go: handleCancel (the payload of a cancel frame is never read) ---- *)
Definition mex_cancel (m : mexinfo) : mexinfo := if mx_ctx m =? 0 then mx_set_ctx 2 m else m.
Definition handle_cancel (st : cstate) (id : Z) : cstate * list effect :=
  if negb (cs_cancel st) then (st, [Drop])
  else match mx_lookup id (cs_in st) with
       | None => (st, [Drop])
       | Some m => (set_in (mx_put id (mex_cancel m) (cs_in st)) st, [Cancel id])
       end.

(* ---- connection.go: handlePingReq (the payload of ping frames is never read).  Only a Closed
   connection refuses a ping; a connection that is draining after Close (StartClose /
   InboundClosed, accepted calls in flight) answers it like an Active one.  The state test is
   tied to the source: Proofs/PeerFxP.v ping_state_test_generated. ---- *)
Definition handle_ping_req (st : cstate) (id : Z) : cstate * list effect :=
  if cs_state st =? c_connectionClosed then protocol_error st id             (* errConnNotActive *)
  else if cs_sendroom st >? 0 then (set_room (cs_sendroom st - 1) st, [SendFrame c_messageTypePingRes id 0])
  else connection_error st.                                                  (* ErrSendBufferFull: "send pong" *)

(* ---- connection.go: handleFrameNoRelay ---- *)
Definition handle_frame_no_relay (st : cstate) (mt id : Z) (payload : list Z) : cstate * list effect :=
  if mt =? c_messageTypeCallReq then handle_call_req st id payload
  else if mt =? c_messageTypeCallReqContinue then let '(ex, e) := forward (cs_in st) id in (set_in ex st, e)
  else if mt =? c_messageTypeCallRes then let '(ex, e) := forward (cs_out st) id in (set_out ex st, e)
  else if mt =? c_messageTypeCallResContinue then let '(ex, e) := forward (cs_out st) id in (set_out ex st, e)
  else if mt =? c_messageTypePingReq then handle_ping_req st id
  else if mt =? c_messageTypePingRes then let '(ex, e) := forward (cs_out st) id in (set_out ex st, e)
  else if mt =? c_messageTypeError then handle_error st id payload
  else if mt =? c_messageTypeCancel then handle_cancel st id
  else (st, [Drop]).                      (* "Received unexpected frame." -- init req / init res included *)

(* ---- connection.go: one iteration of readFrames.  [hdr] is what io.ReadFull(header) returned,
   [body] the bytes that follow on the stream.  A failed read (invalid size, or the stream ends
   inside the frame) is a connection error; while the peer merely withholds the rest of a
   frame the reader just waits, which has no effect at all. ---- *)
Definition handle_frame (st : cstate) (hdr body : list Z) : cstate * list effect :=
  let '(code, h, payload, _) := frame_read_body hdr body in
  if negb (code =? 0) then connection_error st
  else handle_frame_no_relay st (fh_type h) (fh_id h) payload.

(* the reader loop over a byte stream that ends with the peer closing its side *)
Fixpoint read_frames (fuel : nat) (st : cstate) (stream : list Z) : cstate * list (list effect) :=
  match fuel with
  | O => (st, [])
  | S f =>
      if zlen stream <? c_FrameHeaderSize then let '(st1, e) := connection_error st in (st1, [e])
      else
        let '(code, h, payload, rest) := frame_read_body (firstn 16 stream) (skipn 16 stream) in
        if negb (code =? 0) then let '(st1, e) := connection_error st in (st1, [e])
        else let '(st1, e) := handle_frame_no_relay st (fh_type h) (fh_id h) payload in
             let '(st2, es) := read_frames f st1 rest in (st2, e :: es)
  end.

(* ---- specification side: which frames are well-formed AND legal in the current state.  For
   the types whose body the reader goroutine does not look at (continuations, call res, ping,
   cancel) well-formedness is a matter of the header alone, and of a call req the reader checks
   what precedes the argument chunks; bodies and chunks are checked by the goroutine that
   consumes the exchange (Proofs/PeerInputP.v: parsed_fragment_no_panic).  A ping req is legal
   on every connection that is not Closed: a connection draining after Close keeps answering
   its peer's health check. ---- *)
Definition has (id : Z) (m : exmap) : bool := match mx_lookup id m with Some _ => true | None => false end.

Definition frame_legal (st : cstate) (mt id : Z) (payload : list Z) : bool :=
  if mt =? c_messageTypeCallReq then
    (cs_state st =? c_connectionActive) && negb (cs_stopped st) && negb (has id (cs_in st))
    && (fst (parse_inbound_fragment payload) =? 0)
  else if mt =? c_messageTypeCallReqContinue then has id (cs_in st)
  else if (mt =? c_messageTypeCallRes) || (mt =? c_messageTypeCallResContinue) || (mt =? c_messageTypePingRes) then has id (cs_out st)
  else if mt =? c_messageTypePingReq then negb (cs_state st =? c_connectionClosed)
  else if mt =? c_messageTypeError then
    let '(m, r) := r_error (rb payload) in negb (rerr r) && negb (em_code m =? c_ErrCodeProtocol) && has id (cs_out st)
  else if mt =? c_messageTypeCancel then cs_cancel st && has id (cs_in st)
  else false.

Definition state_ok (st : cstate) : Prop :=
  cs_state st = c_connectionActive \/ cs_state st = c_connectionStartClose \/
  cs_state st = c_connectionInboundClosed \/ cs_state st = c_connectionClosed.

(* the three effects a malformed / illegal frame may have *)
Definition allowed_effect (e : effect) : bool :=
  match e with
  | Drop => true
  | SendFrame mt _ _ => mt =? c_messageTypeError
  | CloseConn => true
  | _ => false
  end.
Definition is_send (e : effect) : bool := match e with SendFrame _ _ _ => true | _ => false end.
Definition is_close (e : effect) : bool := match e with CloseConn => true | _ => false end.
Definition is_panic (e : effect) : bool := match e with Panic _ => true | _ => false end.

(* ================= harness entry point (engine peerfx) =================
   input : propagateCancel sendroom stalled nops op*
     op 0 volatile hdr~ body~   a frame from the peer (header bytes, then the bytes that follow)
     op 1                        the application calls Connection.Close
     op 2 id                     the application began an outbound call with message id [id]
   output per op: neffects effect* snapshot, effects in the order sends, close, dispatch, deliver,
   cancel (Drop only when alone); after the first op that stops the exchanges only [-1] follows
   (what happens from then on is asynchronous: exchanges expire, the network is closed); the
   run also ends when the connection reaches Closed gracefully (the network is closed then).
   [stalled] = 0: the writer goroutine drains sendCh between ops (room is reset);
   [volatile]: the frame's own id is left out of the snapshot (the dispatched goroutine may
   already have failed and removed it).
   Environment steps applied by this wrapper, not by handle_frame: after Cancel id the goroutine
   watching the exchange's context calls inboundExpired: the id leaves the map, checkExchanges. *)
Definition enc_effect (e : effect) : list Z :=
  match e with
  | Drop => [0]
  | SendFrame mt id code => [1; mt; id; code]
  | CloseConn => [2]
  | Dispatch id => [3; id]
  | Deliver id => [4; id]
  | Cancel id => [5; id]
  | Panic s => [9; s]
  end.
Definition eff_rank (e : effect) : Z :=
  match e with SendFrame _ _ _ => 0 | CloseConn => 1 | Dispatch _ => 2 | Deliver _ => 3 | Cancel _ => 4 | Panic _ => 5 | Drop => 6 end.
Definition canon_effects (es : list effect) : list effect :=
  let pick k := filter (fun e => eff_rank e =? k) es in
  let body := pick 0 ++ pick 1 ++ pick 2 ++ pick 3 ++ pick 4 ++ pick 5 in
  match body with [] => [Drop] | _ => body end.

Fixpoint ins_sorted (p : Z * mexinfo) (l : exmap) : exmap :=
  match l with
  | [] => [p]
  | q :: r => if fst p <=? fst q then p :: l else q :: ins_sorted p r
  end.
Definition sort_ex (m : exmap) : exmap := fold_right ins_sorted [] m.
Definition enc_ex (skip : option Z) (m : exmap) : list Z :=
  let m' := filter (fun p => match skip with Some i => negb (fst p =? i) | None => true end) (sort_ex m) in
  put_list (fun p => [fst p; c_mexChannelBufferSize - mx_room (snd p); zb (negb (mx_ctx (snd p) =? 0)); zb (mx_err (snd p))]) m'.
Definition enc_snapshot (room0 : Z) (skip : option Z) (st : cstate) : list Z :=
  [cs_state st; room0 - cs_sendroom st] ++ enc_ex skip (cs_in st) ++ enc_ex skip (cs_out st).

Definition env_expire (id : Z) (st : cstate) : cstate :=
  check_exchanges (set_in (filter (fun p => negb (fst p =? id)) (cs_in st)) st).
Definition env_after (es : list effect) (st : cstate) : cstate :=
  fold_left (fun s e => match e with Cancel id => env_expire id s | _ => s end) es st.

Fixpoint run_ops (fuel : nat) (room0 : Z) (stalled : bool) (st : cstate) (l : list Z) : list Z :=
  match fuel with
  | O => []
  | S f =>
      match l with
      | 0 :: vol :: r =>
          let '(hdr, r1) := take_bytes r in
          let '(body, r2) := take_bytes r1 in
          let '(st1, es) := handle_frame st hdr body in
          let st2 := env_after es st1 in
          let st3 := if stalled then st2 else set_room room0 st2 in
          let ce := canon_effects es in
          let own := if bz vol then Some (unbe (firstn 4 (skipn 4 hdr))) else None in
          put_list enc_effect ce ++
          (if cs_stopped st3 then [-1]
           else enc_snapshot room0 own st3 ++
                (if cs_state st3 =? c_connectionClosed then [] else run_ops f room0 stalled st3 r2))
      | 1 :: r =>
          let st1 := conn_close st in
          [0] ++ enc_snapshot room0 None st1 ++
          (if cs_state st1 =? c_connectionClosed then [] else run_ops f room0 stalled st1 r)
      | 2 :: id :: r =>
          let st1 := set_out ((id, mx_new) :: cs_out st) st in
          [0] ++ enc_snapshot room0 None st1 ++ run_ops f room0 stalled st1 r
      | _ => []
      end
  end.

Definition run_peerfx (c : list Z) : list Z :=
  match c with
  | pc :: room :: stalled :: nops :: r =>
      run_ops (Z.to_nat nops) room (bz stalled) (mkCS c_connectionActive [] [] false room (bz pc)) r
  | _ => [-1]
  end.

(* a frame as read from the stream: the read succeeds and the frame is well-formed and legal *)
Definition frame_wf_legal (st : cstate) (hdr body : list Z) : bool :=
  let '(code, h, payload, _) := frame_read_body hdr body in
  (code =? 0) && frame_legal st (fh_type h) (fh_id h) payload.
