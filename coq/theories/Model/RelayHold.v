(* Hand model of the FRAME PATHS of relay.go that look a relay item up and may stop its timer:
     Relayer.handleNonCallReq and Relayer.Receive (items.Get(id, finished) .. end of function),
     Relayer.failRelayItem (its Get(id, true) and its Entomb as two steps),
   as THREADS over the relay item map of Model/RelayDrain.v (same records, same Delete / Entomb /
   timer primitives).  Model/RelayDrain.v proves that the map drains once "no handler still
   holds an id whose timer it stopped"; here the handlers are explicit: a goroutine that stopped
   a timer is a thread, and what it does before it returns is decided by the code
   (nc_exit / rc_exit, tied to the source by go2v: Gen/GenRelayExit.v, Proofs/RelayHoldGenP.v).

   Differences to Model/RelayDrain.v: the ghost list rs_held is not used (holders are threads);
   the tombstone collection is relayItems.deleteTomb (deletes tombstones only), as in the code.
   As there, an id is added only when it has no item (getDestination's duplicate check /
   NextMessageID), and finishRelayItem's identity check (deleteCall) is therefore a plain Delete.
   No proofs here (Proofs/RelayHoldP.v). *)
From Coq Require Import ZArith List Bool.
From Verif Require Import Base.Wire Model.MexDrain Model.RelayDrain.
Import ListNotations.
Local Open Scope Z_scope.

(* ---- Part 1: what the frame paths do after the lookup ----------------------------------
   result: [1: first result value (shouldRelease / sent) is true] + 2 [the frame went on: handed to
   the destination's Receive / queued on the send channel] + 4 [failRelayItem] + 8 [finishRelayItem] *)

(* Relayer.handleNonCallReq after `item, stopped, ok := items.Get(f.Header.ID, finished)`.
   The switch on the message type (CallResponse of a parsable call res, checksum update of a
   mutated call req continue) has no exit and no effect on the item. *)
Definition nc_exit (ok item_tomb finished stopped : bool) (mt : Z) (parse_ok mutated dest_sent : bool) : Z :=
  if negb ok then 1
  else if item_tomb || (finished && negb stopped) then 1
  else if negb dest_sent then 1 + 2 + 4
  else if finished then 2 + 8
  else 2.

(* Relayer.Receive after `item, stopped, ok := items.Get(id, finished)` *)
Definition rc_exit (ok item_tomb finished stopped is_resp is_cancel dcs_ok dcs_msg queue_ok : bool) : Z :=
  if negb ok then 0
  else if item_tomb || (finished && negb stopped) then 1
  else if queue_ok then (if finished then 1 + 2 + 8 else 1 + 2)
  else 4.

Definition e_fail (c : Z) : bool := Z.testbit c 2.
Definition e_finish (c : Z) : bool := Z.testbit c 3.

(* ---- Part 2: threads -------------------------------------------------------------------
   ht_pc: 0 = after the lookup of a frame path (ht_fin: the frame finishes the call, so the lookup
              was Get(id, true); ht_tomb / ht_stopped: what the lookup returned);
          1 = inside failRelayItem, before its Get(id, true);
          2 = inside failRelayItem, its Get stopped the timer, before Entomb;
          3 = returned. *)
Record hthread := { ht_id : Z; ht_fin : bool; ht_tomb : bool; ht_stopped : bool; ht_pc : Z }.

(* the thread stopped the item's timer and has not yet deleted or entombed the item *)
Definition holding0 (x : hthread) : bool := ht_fin x && ht_stopped x && negb (ht_tomb x).
Definition holding (x : hthread) : bool :=
  (((ht_pc x =? 0) || (ht_pc x =? 1)) && holding0 x) || (ht_pc x =? 2).

Record hstate := { hs_r : rstate; hs_thr : list hthread }.

Definition hs_init (maxtombs : Z) : hstate := {| hs_r := rs_init maxtombs; hs_thr := [] |}.

(* inputs of the rest of a frame path *)
Inductive tail_in :=
| TNonCall (mt : Z) (parse_ok mutated dest_sent : bool)
| TReceive (is_resp is_cancel dcs_ok dcs_msg queue_ok : bool).

Definition tail_code (x : hthread) (i : tail_in) : Z :=
  match i with
  | TNonCall mt p m d => nc_exit true (ht_tomb x) (ht_fin x) (ht_stopped x) mt p m d
  | TReceive a b c d q => rc_exit true (ht_tomb x) (ht_fin x) (ht_stopped x) a b c d q
  end.

Inductive hlabel :=
| HAdd (id : Z)                   (* RAdd: a relayed call is admitted *)
| HFireStart (id : Z)             (* RFireStart: the runtime starts the timer callback *)
| HFireEntomb (id : Z)            (* RFireEntomb: timeoutRelayItem *)
| HGc (id : Z)                    (* the collection scheduled by Entomb runs: relayItems.deleteTomb(id) *)
| HFrame (id : Z) (fin : bool)    (* a connection reader enters handleNonCallReq / Receive: items.Get(id, fin) *)
| HTail (t : Z) (i : tail_in)     (* the rest of that function *)
| HFail (id : Z)                  (* any goroutine calls failRelayItem(id) *)
| HFailGet (t : Z)                (* failRelayItem: items.Get(id, true) *)
| HFailEntomb (t : Z).            (* failRelayItem: Entomb (+ decrementPending) *)

(* relayItems.Get(id, true) on the map: Stop() moves an armed timer to stopped *)
Definition r_stop (id : Z) (r : rstate) : rstate :=
  match get_item id (rs_items r) with
  | None => r
  | Some it => with_items r (set_item id {| ri_tomb := ri_tomb it; ri_timer := fst (timer_stop (ri_timer it)) |} (rs_items r))
  end.

(* relayItems.deleteTomb *)
Definition r_delete_tomb (id : Z) (r : rstate) : rstate :=
  match get_item id (rs_items r) with
  | None => r
  | Some it => if ri_tomb it then snd (r_delete id r) else r
  end.

Definition get_ht (s : hstate) (t : Z) : option hthread :=
  if t <? 0 then None else nth_error (hs_thr s) (Z.to_nat t).
Definition set_ht (s : hstate) (r : rstate) (t : Z) (x : hthread) : hstate :=
  {| hs_r := r; hs_thr := upd_nth (Z.to_nat t) x (hs_thr s) |}.
Definition at_pc (x : hthread) (pc : Z) : hthread :=
  {| ht_id := ht_id x; ht_fin := ht_fin x; ht_tomb := ht_tomb x; ht_stopped := ht_stopped x; ht_pc := pc |}.

Definition lift_r (s : hstate) (l : rlabel) : option hstate :=
  match rstep (hs_r s) l with Some r => Some {| hs_r := r; hs_thr := hs_thr s |} | None => None end.

Definition hstep (s : hstate) (l : hlabel) : option hstate :=
  let r := hs_r s in
  match l with
  | HAdd id => lift_r s (RAdd id)
  | HFireStart id => lift_r s (RFireStart id)
  | HFireEntomb id => lift_r s (RFireEntomb id)
  | HGc id =>
      if has id (rs_gc r)
      then Some {| hs_r := r_delete_tomb id (drop_gc id r); hs_thr := hs_thr s |}
      else None
  | HFrame id fin =>
      match get_item id (rs_items r) with
      | None => Some s                         (* errUnknownID / "frame without a RelayItem" *)
      | Some it =>
          let stopped := fin && snd (timer_stop (ri_timer it)) in
          Some {| hs_r := if fin then r_stop id r else r;
                  hs_thr := hs_thr s ++ [{| ht_id := id; ht_fin := fin; ht_tomb := ri_tomb it; ht_stopped := stopped; ht_pc := 0 |}] |}
      end
  | HTail t i =>
      match get_ht s t with
      | None => None
      | Some x =>
          if ht_pc x =? 0 then
            let c := tail_code x i in
            if e_fail c then Some (set_ht s r t (at_pc x 1))
            else if e_finish c then Some (set_ht s (finish_with (r_delete (ht_id x) r)) t (at_pc x 3))
            else Some (set_ht s r t (at_pc x 3))
          else None
      end
  | HFail id =>
      Some {| hs_r := r;
              hs_thr := hs_thr s ++ [{| ht_id := id; ht_fin := false; ht_tomb := false; ht_stopped := false; ht_pc := 1 |}] |}
  | HFailGet t =>
      match get_ht s t with
      | None => None
      | Some x =>
          if ht_pc x =? 1 then
            match get_item (ht_id x) (rs_items r) with
            | None => Some (set_ht s r t (at_pc x 3))               (* "Attempted to fail non-existent relay item." *)
            | Some it =>
                if snd (timer_stop (ri_timer it))
                then Some (set_ht s (r_stop (ht_id x) r) t (at_pc x 2))
                else Some (set_ht s (r_stop (ht_id x) r) t (at_pc x 3))   (* the timeout goroutine fails it *)
            end
          else None
      end
  | HFailEntomb t =>
      match get_ht s t with
      | None => None
      | Some x =>
          if ht_pc x =? 2
          then Some (set_ht s (finish_with (r_entomb (ht_id x) r)) t (at_pc x 3))
          else None
      end
  end.

Fixpoint hrun (s : hstate) (ls : list hlabel) : option hstate :=
  match ls with
  | [] => Some s
  | l :: r => match hstep s l with Some s' => hrun s' r | None => None end
  end.

(* quiescence: every timer has fired or was stopped, every timer callback, collection and
   frame path / failRelayItem call has returned *)
Definition hold_quiet (s : hstate) : bool :=
  forallb (fun p => negb (ri_timer (snd p) =? 0)) (rs_items (hs_r s))
  && match rs_gc (hs_r s) with [] => true | _ => false end
  && match rs_firing (hs_r s) with [] => true | _ => false end
  && forallb (fun x => ht_pc x =? 3) (hs_thr s).
