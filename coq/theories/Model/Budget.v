(* Property C05 (b): the connect / handshake budgets as the caller's context goes through
   Channel.Connect (channel.go) and setInitDeadline (preinit_connection.go), with OPTIONAL
   deadlines (a context.Context may have none), and the harness entry point of sub-engine
   "budget".  The hand-written definitions of Model/CallPath.v (connect_deadline,
   init_deadline) are the special cases proved equal in Proofs/BudgetP.v; init_deadline is
   proved equal to the definition go2v regenerates from setInitDeadline (Gen/GenBudget.v).
   Times are nanoseconds. *)
From Coq Require Import ZArith List Bool.
From Verif Require Import Base.Wrap Base.Wire Gen.GenConsts Gen.GenBudget Model.CallPath.
Import ListNotations.
Local Open Scope Z_scope.

(* Channel.Connect: if the context carries a connect timeout > 0,
   ctx = context.WithTimeout(ctx, connectTimeout): the earlier of the parent's deadline (if
   any) and now + timeout; otherwise the context is used as it is *)
Definition connect_ctx (now : Z) (ctx_deadline : option Z) (connect_timeout : Z) : option Z :=
  if connect_timeout >? 0 then
    Some (match ctx_deadline with Some d => Z.min d (now + connect_timeout) | None => now + connect_timeout end)
  else ctx_deadline.

(* the deadline outboundHandshake puts on the dialed connection *)
Definition handshake_deadline (now_connect now_handshake : Z) (ctx_deadline : option Z) (connect_timeout : Z) : Z :=
  init_deadline now_handshake (connect_ctx now_connect ctx_deadline connect_timeout).

Definition opt_of (has v : Z) : option Z := if has =? 0 then None else Some v.

Definition in_range (lo x hi : Z) : bool := (lo <=? x) && (x <=? hi).

(* budget: t_dial has_d d ct has_dd dd t_set sd -> [dialer context ok; SetDeadline ok]
   All times relative to the moment just before Channel.Connect was called (0):
     t_dial  when the dialer was entered       (Connect read the clock in [0, t_dial])
     d       the caller's context deadline (has_d = 0: none), ct its connect timeout
     dd      the deadline of the context the dialer was given (has_dd = 0: none)
     t_set   when c.SetDeadline was called     (setInitDeadline read the clock in [t_dial, t_set])
     sd      the deadline passed to it
   The clock readings inside the library are not observable: the model is evaluated at both
   ends of the interval they lie in (both definitions are monotone in the clock). *)
Definition run_c05budget (c : list Z) : list Z :=
  match c with
  | [t_dial; has_d; d; ct; has_dd; dd; t_set; sd] =>
      let od := opt_of has_d d in
      let dial_ok :=
        match connect_ctx 0 od ct, connect_ctx t_dial od ct with
        | Some lo, Some hi => negb (has_dd =? 0) && in_range lo dd hi
        | None, None => has_dd =? 0
        | _, _ => false
        end in
      (* the handshake runs under the context the dialer saw *)
      let set_ok := in_range (init_deadline t_dial (opt_of has_dd dd)) sd (init_deadline t_set (opt_of has_dd dd)) in
      [zb dial_ok; zb set_ok]
  | _ => [-1]
  end.
