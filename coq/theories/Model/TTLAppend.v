(* Hand model of the time-to-live of a RELAYED call req at byte level, for both send paths of
   Relayer.handleCallReq (relay.go), property C14 clause (c):

     ttl := f.TTL(); if ttl > r.maxTimeout { ttl = r.maxTimeout; f.SetTTL(r.maxTimeout) }
     ...
     if len(f.arg2Appends) > 0 { r.fragmentingSend(call, f, relayToDest, origID); return }
     relayToDest.destination.Receive(f.Frame, requestFrame)

   SetTTL writes the clamped value INTO THE FRAME (Model.RelayLazy.clamp_ttl) before either
   send.  The forward-as-is path hands that frame to the destination connection; the arg2
   append path (the RelayHost's Start callback called CallFrame.Arg2Append) re-encodes the call
   req: relayFragmentSender.newFragment copies Payload[1:checksumTypeOffset] -- ttl, tracing,
   service, transport headers -- of the SAME frame into the new initial fragment
   (Model.RelayAppend.append_send, the model of C08).  Model.TTL.relay_ttl is the arithmetic of
   the clamp on the field alone; this file is the path the bytes take. *)
From Coq Require Import ZArith List Bool.
From Verif Require Import Base.Wrap Base.Bytes Base.Wire Gen.GenConsts Gen.GenFrame Gen.GenTTL
  Model.TypedBuf Model.Messages Model.Crc Model.Frag Model.FragWire Model.RelayLazy Model.RelayAppend
  Model.TTL.
Import ListNotations.
Local Open Scope Z_scope.

(* handleCallReq for one call req frame with sized payload [p], after the RelayHost chose a
   destination and appended [appends] to arg2.  Result: a code and the frames handed to the
   destination connection, in order, as (initial?, payload).
     0       forwarded
     1 .. 4  fragmentingSend failed (errFragmentedArg2WithAppend, errArg2ThriftOnly,
             errNoNHInArg2, buffer full): nothing is forwarded, the caller gets an error frame
     5       panic in the fragmenting writer
     6       checksumPools index out of range (unknown checksum type)
     10 + c  newLazyCallReq failed with code c: the frame is dropped *)
Definition tfwd_callreq (max_ns : Z) (p : list Z) (appends : kvs) : Z * list (bool * list Z) :=
  let '(code, lz) := lazy_callreq p in
  if negb (code =? 0) then (10 + code, [])
  else
    let p1 := clamp_ttl max_ns p in
    match appends with
    | [] => (0, [(true, p1)])
    | _ :: _ =>
        match ck_new (lz_ctype lz) with
        | None => (6, [])
        | Some ck =>
            let '(acode, frames, _) := append_send p1 lz appends ck in
            (acode, if acode =? 0 then frames else [])
        end
    end.

(* the call req frame (message type 0x03) the destination receives, if any *)
Definition tfwd_first (r : Z * list (bool * list Z)) : option (list Z) :=
  match snd r with
  | (true, pl) :: _ => Some pl
  | _ => None
  end.

(* what a connection's frame reader accepts as a sized payload: bytes, at most
   MaxFramePayloadSize of them (Frame.ReadBody rejects larger size fields) *)
Definition tfwd_frame_ok (p : list Z) : bool := bytes_ok p && (zlen p <=? c_MaxFramePayloadSize).

(* a chain of relays, each with its configured RelayMaxTimeout and the pairs its host appends:
   the call req frame arriving at the last hop's destination *)
Fixpoint tfwd_hops (hops : list (Z * kvs)) (p : list Z) : option (list Z) :=
  match hops with
  | [] => Some p
  | (cfg, app) :: r =>
      if tfwd_frame_ok p then
        match tfwd_first (tfwd_callreq (relay_max cfg) p app) with
        | Some p' => tfwd_hops r p'
        | None => None
        end
      else None
  end.

(* ---- harness entry points -------------------------------------------------------------- *)
Definition take_hop (l : list Z) : (Z * kvs) * list Z :=
  let '(cfg, r) := take1 l in
  let '(app, r') := take_list take_kv r in ((cfg, app), r').

(* case: configured_max_ns n_appends {key value} payload
   out : validated_max_ns 0 ttl_field_of_the_forwarded_call_req  |  validated_max_ns 1 (nothing forwarded) *)
Definition run_ttl_relay_app (c : list Z) : list Z :=
  let '((cfg, app), r) := take_hop c in
  let '(p, _) := take_bytes r in
  let m := relay_max cfg in
  match tfwd_first (tfwd_callreq m p app) with
  | Some pl => [m; 0; lazy_ttl_ms pl]
  | None => [m; 1]
  end.

(* case: n_hops {configured_max_ns n_appends {key value}} payload
   out : 0 ttl_field arriving at the last hop's destination  |  1 (nothing arrives) *)
Definition run_ttl_hops_app (c : list Z) : list Z :=
  let '(hops, r) := take_list take_hop c in
  let '(p, _) := take_bytes r in
  match tfwd_hops hops p with
  | Some pl => [0; lazy_ttl_ms pl]
  | None => [1]
  end.
