(* Hand model (property C10, server side) of the response path of ONE connection of a
   tchannel server for MANY concurrent request ids: which frames are enqueued on the
   connection's send channel, per id, under every interleaving of

     reader goroutine      connection.go readFrames -> inbound.go handleCallReq (state check,
                           mex.go newExchange incl. duplicate id / shut-down set ->
                           connection.go protocolError, state re-check -> mex.shutdown),
                           inbound.go handleCancel -> mex.go handleCancel
     handler goroutine     one per admitted call (inbound.go dispatchInbound): the calls it
                           may make on InboundCallResponse / its ArgWriters
                           (inbound.go Response, Arg2Writer/Arg3Writer -> reqres.go argWriter ->
                           fragmenting_writer.go BeginArgument/Write/Flush/Close -> reqres.go
                           newFragment/flushFragment/failed, inbound.go doneSending,
                           SendSystemError, SetApplicationError, Blackhole), and the helper layer
                           arguments.go ArgWriteHelper.write (NewArgWriter(..).Write / WriteJSON) as
                           one more action on the open writer ([HHelperWrite], Model/ArgHelper.v)
     expiry goroutine      one per dispatched call (inbound.go dispatchInbound `go func`):
                           ctx.Done -> inboundExpired | errCh -> cancel + inboundExpired
     deadline timer        context.WithTimeout of newIncomingContext
     connection failure    connection.go close / stopExchanges / checkExchanges
                           (connectionError, protocolError, user Close), from any goroutine

   Atomic actions (labels): one sendCh enqueue or refusal; one read of the exchange's error
   state (mex.checkError); one exchange/connection state change.  The three sub-operations
   of mex.shutdown (two CAS + removeExchange with its onRemoved -> checkExchanges) and
   checkExchanges itself are taken as ONE action each (their inner races are C07's subject
   and do not change which frames can be enqueued for an id that is requested once).

   Argument bytes are abstracted: a fragment is flushed when the handler calls Flush, when
   Write overflows the fragment (label [HFlush]), or when Close finds the fragment full
   (label [HClose id true]).

   Ghost state: [sent] = the ordered log of frames enqueued on sendCh (id, kind); what
   reaches the socket is a prefix of it (writeFrames is FIFO).  [requested] = ids of the
   call req frames read; [misused] = ids whose handler got past the error check of
   SendSystemError after doneSending had already run (a handler that completes the response
   or sends a system error and THEN calls SendSystemError: outside C10's quantifier);
   [g_rets] = per call the result (0 = nil, 1 = error) of each finished API call, compared
   with the real handler's results by the correspondence run.

   No proofs here (Proofs/RespWireP.v). *)
From Coq Require Import ZArith List Bool.
From Verif Require Import Base.Wire Spec.WireOk Model.ArgHelper.
Import ListNotations.
Local Open Scope Z_scope.

(* ---- connection / exchange / writer states ---------------------------------------- *)

Inductive cstate := CActive | CStartClose | CInboundClosed | CClosed.   (* connection.go connectionState *)
Inductive ctxs := CtxLive | CtxCanceled | CtxDeadline.                   (* mex.ctx.Err() *)
Inductive mexloc := InEx | InExpired | Gone.      (* id in mexset.exchanges / expiredExchanges / neither *)
Inductive wst := PreArg1 | PreArg2 | PreArg3 | WComplete.               (* reqResWriterState *)
Inductive fstate := FStart | FInArg | FInLast | FWaiting | FComplete.   (* fragmentingWriterState *)

Inductive hpc :=        (* program counter of the dispatch/handler goroutine of a call *)
| PAdmit                (* exchange registered, handleCallReq not yet past its re-check *)
| PNotStarted           (* go dispatchInbound spawned, readMethod not yet done *)
| PDead                 (* no handler runs (re-check failed or readMethod failed) *)
| PIdle                 (* handler between two API calls *)
| PFlushSel (final : bool)   (* flushFragment: checkError passed, at the select *)
| PNewFrag              (* Flush/Close: fragment enqueued, newFragment(false) next *)
| PDone.                (* Close of the last argument: flushFragment returned, doneSending next *)

Inductive epc := ENone | EWait | EDone.     (* expiry goroutine: not spawned / in its select / returned *)

Inductive rpc :=        (* reader goroutine *)
| RIdle
| RChecked (id : Z)     (* handleCallReq: connection state was Active *)
| RAdded (id : Z)       (* newExchange succeeded *)
| RProto1               (* protocolError: error frame attempted, close() next *)
| RProto2.              (* protocolError: stopExchanges next *)

Record call := {
  m_loc : mexloc; m_ctx : ctxs;
  m_errch : bool;            (* errChNotified / errCh closed *)
  m_shut : bool;             (* shutdownAtomic *)
  w_err : bool;              (* reqResWriter.err != nil (InboundCallResponse) *)
  w_state : wst;
  rd_err : bool;             (* reqResReader.err != nil (InboundCall) *)
  f_state : fstate;
  f_err : bool;              (* fragmentingWriter.err != nil *)
  f_cur : bool;              (* curFragment != nil *)
  f_first : bool;            (* curFragment was made by newFragment(initial = true): a call res *)
  h_pc : hpc; e_pc : epc;
  g_dones : bool;            (* ghost: doneSending has run *)
  g_rets : list Z            (* ghost: results of the finished API calls *)
}.

Record state := {
  cst : cstate;
  stopped : bool;            (* Connection.stoppedExchanges *)
  mexset_shut : bool;        (* inbound.shutdown *)
  n_out : Z;                 (* outbound.count() *)
  propagate : bool;          (* opts.PropagateCancel *)
  rd_pc : rpc;
  calls : list (Z * call);   (* by message id, admission order *)
  requested : list Z;        (* ghost *)
  misused : list Z;          (* ghost *)
  sent : list (Z * kind)     (* ghost *)
}.

Definition new_call : call :=
  {| m_loc := InEx; m_ctx := CtxLive; m_errch := false; m_shut := false;
     w_err := false; w_state := PreArg1; rd_err := false;
     f_state := FStart; f_err := false; f_cur := false; f_first := false;
     h_pc := PAdmit; e_pc := ENone; g_dones := false; g_rets := [] |}.

Definition init_state (prop : bool) : state :=
  {| cst := CActive; stopped := false; mexset_shut := false; n_out := 0; propagate := prop;
     rd_pc := RIdle; calls := []; requested := []; misused := []; sent := [] |}.

(* ---- association list ---------------------------------------------------------------- *)

Fixpoint get (id : Z) (l : list (Z * call)) : option call :=
  match l with
  | [] => None
  | (k, c) :: r => if k =? id then Some c else get id r
  end.

(* replace the record of [id], or append it *)
Fixpoint put (id : Z) (c : call) (l : list (Z * call)) : list (Z * call) :=
  match l with
  | [] => [(id, c)]
  | (k, c0) :: r => if k =? id then (k, c) :: r else (k, c0) :: put id c r
  end.

Definition in_ex (c : call) : bool := match m_loc c with InEx => true | _ => false end.

(* inbound.count() *)
Definition inbound_count (l : list (Z * call)) : Z :=
  Z.of_nat (length (filter (fun p => in_ex (snd p)) l)).

(* ---- record updates -------------------------------------------------------------------- *)

Definition set_calls (st : state) (l : list (Z * call)) : state :=
  {| cst := cst st; stopped := stopped st; mexset_shut := mexset_shut st; n_out := n_out st;
     propagate := propagate st; rd_pc := rd_pc st; calls := l; requested := requested st;
     misused := misused st; sent := sent st |}.
Definition set_cst (st : state) (s : cstate) : state :=
  {| cst := s; stopped := stopped st; mexset_shut := mexset_shut st; n_out := n_out st;
     propagate := propagate st; rd_pc := rd_pc st; calls := calls st; requested := requested st;
     misused := misused st; sent := sent st |}.
Definition set_rd (st : state) (r : rpc) : state :=
  {| cst := cst st; stopped := stopped st; mexset_shut := mexset_shut st; n_out := n_out st;
     propagate := propagate st; rd_pc := r; calls := calls st; requested := requested st;
     misused := misused st; sent := sent st |}.
Definition set_nout (st : state) (n : Z) : state :=
  {| cst := cst st; stopped := stopped st; mexset_shut := mexset_shut st; n_out := n;
     propagate := propagate st; rd_pc := rd_pc st; calls := calls st; requested := requested st;
     misused := misused st; sent := sent st |}.
Definition add_requested (st : state) (id : Z) : state :=
  {| cst := cst st; stopped := stopped st; mexset_shut := mexset_shut st; n_out := n_out st;
     propagate := propagate st; rd_pc := rd_pc st; calls := calls st;
     requested := requested st ++ [id]; misused := misused st; sent := sent st |}.
Definition add_misused (st : state) (id : Z) : state :=
  {| cst := cst st; stopped := stopped st; mexset_shut := mexset_shut st; n_out := n_out st;
     propagate := propagate st; rd_pc := rd_pc st; calls := calls st; requested := requested st;
     misused := misused st ++ [id]; sent := sent st |}.
Definition enqueue (st : state) (id : Z) (k : kind) : state :=
  {| cst := cst st; stopped := stopped st; mexset_shut := mexset_shut st; n_out := n_out st;
     propagate := propagate st; rd_pc := rd_pc st; calls := calls st; requested := requested st;
     misused := misused st; sent := sent st ++ [(id, k)] |}.

Definition upd_mex (c : call) (loc : mexloc) (cx : ctxs) (ech sh : bool) : call :=
  {| m_loc := loc; m_ctx := cx; m_errch := ech; m_shut := sh;
     w_err := w_err c; w_state := w_state c; rd_err := rd_err c;
     f_state := f_state c; f_err := f_err c; f_cur := f_cur c; f_first := f_first c;
     h_pc := h_pc c; e_pc := e_pc c; g_dones := g_dones c; g_rets := g_rets c |}.
Definition upd_w (c : call) (we : bool) (ws : wst) (re : bool) : call :=
  {| m_loc := m_loc c; m_ctx := m_ctx c; m_errch := m_errch c; m_shut := m_shut c;
     w_err := we; w_state := ws; rd_err := re;
     f_state := f_state c; f_err := f_err c; f_cur := f_cur c; f_first := f_first c;
     h_pc := h_pc c; e_pc := e_pc c; g_dones := g_dones c; g_rets := g_rets c |}.
Definition upd_f (c : call) (fs : fstate) (fe cur first : bool) : call :=
  {| m_loc := m_loc c; m_ctx := m_ctx c; m_errch := m_errch c; m_shut := m_shut c;
     w_err := w_err c; w_state := w_state c; rd_err := rd_err c;
     f_state := fs; f_err := fe; f_cur := cur; f_first := first;
     h_pc := h_pc c; e_pc := e_pc c; g_dones := g_dones c; g_rets := g_rets c |}.
Definition upd_pc (c : call) (p : hpc) : call :=
  {| m_loc := m_loc c; m_ctx := m_ctx c; m_errch := m_errch c; m_shut := m_shut c;
     w_err := w_err c; w_state := w_state c; rd_err := rd_err c;
     f_state := f_state c; f_err := f_err c; f_cur := f_cur c; f_first := f_first c;
     h_pc := p; e_pc := e_pc c; g_dones := g_dones c; g_rets := g_rets c |}.
Definition upd_epc (c : call) (p : epc) : call :=
  {| m_loc := m_loc c; m_ctx := m_ctx c; m_errch := m_errch c; m_shut := m_shut c;
     w_err := w_err c; w_state := w_state c; rd_err := rd_err c;
     f_state := f_state c; f_err := f_err c; f_cur := f_cur c; f_first := f_first c;
     h_pc := h_pc c; e_pc := p; g_dones := g_dones c; g_rets := g_rets c |}.
Definition upd_dones (c : call) : call :=
  {| m_loc := m_loc c; m_ctx := m_ctx c; m_errch := m_errch c; m_shut := m_shut c;
     w_err := w_err c; w_state := w_state c; rd_err := rd_err c;
     f_state := f_state c; f_err := f_err c; f_cur := f_cur c; f_first := f_first c;
     h_pc := h_pc c; e_pc := e_pc c; g_dones := true; g_rets := g_rets c |}.
(* an API call returns: back to PIdle, result recorded *)
Definition ret (c : call) (r : Z) : call :=
  {| m_loc := m_loc c; m_ctx := m_ctx c; m_errch := m_errch c; m_shut := m_shut c;
     w_err := w_err c; w_state := w_state c; rd_err := rd_err c;
     f_state := f_state c; f_err := f_err c; f_cur := f_cur c; f_first := f_first c;
     h_pc := PIdle; e_pc := e_pc c; g_dones := g_dones c; g_rets := g_rets c ++ [r] |}.

(* ---- connection-level operations ------------------------------------------------------- *)

(* connection.go checkExchanges (one action; relay == nil so canClose() is true) *)
Definition check_exchanges (st : state) : state :=
  let cur := cst st in
  let cur := match cur with
             | CClosed => cur
             | _ => if stopped st then CClosed else cur
             end in
  let cur := match cur with
             | CStartClose => if inbound_count (calls st) =? 0 then CInboundClosed else cur
             | _ => cur
             end in
  let cur := match cur with
             | CInboundClosed => if n_out st =? 0 then CClosed else cur
             | _ => cur
             end in
  set_cst st cur.

(* connection.go close(): Active -> StartClose then checkExchanges; any other state: error *)
Definition conn_close (st : state) : state :=
  match cst st with
  | CActive => check_exchanges (set_cst st CStartClose)
  | _ => st
  end.

(* stopExchanges on one exchange of the map: `if mex.errChNotified.CAS(false, true) { Notify }` *)
Definition notify (c : call) : call :=
  if in_ex c then upd_mex c (m_loc c) (m_ctx c) true (m_shut c) else c.
Definition notify_in_ex (p : Z * call) : Z * call := (fst p, notify (snd p)).

(* `if c.stoppedExchanges.CAS(false, true) { outbound.stopExchanges; inbound.stopExchanges }`:
   mexset.shutdown := true and every exchange still in the map gets its errCh notified *)
Definition conn_stop (st : state) : state :=
  if stopped st then st
  else
    let st1 := {| cst := cst st; stopped := true; mexset_shut := true; n_out := n_out st;
                  propagate := propagate st; rd_pc := rd_pc st; calls := calls st;
                  requested := requested st; misused := misused st; sent := sent st |} in
    if mexset_shut st then st1 else set_calls st1 (map notify_in_ex (calls st)).

(* connection.go SendSystemError: refused on a closed connection and on a full send buffer
   (non-blocking send); [full] is the environment's choice.  Returns the result too. *)
Definition conn_send_syserr (st : state) (id : Z) (full : bool) : state * bool :=
  match cst st with
  | CClosed => (st, false)
  | _ => if full then (st, false) else (enqueue st id Err, true)
  end.

(* ---- exchange operations on a call record; the bool says: onRemoved (checkExchanges) runs *)

(* mex.go shutdown *)
Definition shut_call (c : call) : call * bool :=
  if m_shut c then (c, false)
  else (upd_mex c Gone (m_ctx c) true true,
        match m_loc c with Gone => false | _ => true end).

(* mex.go inboundExpired -> expireExchange: onRemoved is called unconditionally *)
Definition expire_call (c : call) : call :=
  upd_mex c (match m_loc c with Gone => Gone | _ => InExpired end) (m_ctx c) (m_errch c) (m_shut c).

(* context cancel func *)
Definition cancel_call (c : call) : call :=
  upd_mex c (m_loc c) (match m_ctx c with CtxLive => CtxCanceled | x => x end) (m_errch c) (m_shut c).

(* mex.go checkError: true = an error is returned *)
Definition check_error (c : call) : bool :=
  match m_ctx c with CtxLive => m_errch c | _ => true end.

(* reqres.go (w *reqResWriter) failed *)
Definition failed_call (c : call) : call * bool :=
  if w_err c then (c, false)
  else let '(c1, chk) := shut_call c in (upd_w c1 true (w_state c1) (rd_err c1), chk).

(* inbound.go doneSending: cancel(); if response.err == nil { mex.shutdown() } *)
Definition done_sending (c : call) : call * bool :=
  let c1 := cancel_call c in
  let '(c2, chk) := if w_err c1 then (c1, false) else shut_call c1 in
  (upd_dones c2, chk).

Definition commit (st : state) (id : Z) (c : call) (chk : bool) : state :=
  let st1 := set_calls st (put id c (calls st)) in
  if chk then check_exchanges st1 else st1.

Definition writing (s : fstate) : bool :=
  match s with FInArg | FInLast => true | _ => false end.

Definition set_ferr (c : call) : call := upd_f c (f_state c) true (f_cur c) (f_first c).

(* ---- labels ------------------------------------------------------------------------------ *)

Inductive label :=
(* reader *)
| RdCallReq1 (id : Z) (full : bool)   (* call req read: state check (not Active -> SendSystemError(ErrChannelClosed)) *)
| RdCallReq2 (ok full : bool)         (* parse (ok) + newExchange; duplicate / shut-down set -> protocolError's frame *)
| RdCallReq3 (full : bool)            (* state re-check; go dispatchInbound, or decline (SendSystemError ErrChannelClosed; full: send buffer full) *)
| RdProtoClose                        (* protocolError: c.close *)
| RdProtoStop                         (* protocolError: stopExchanges *)
| RdCancel (id : Z)                   (* cancel frame read *)
(* handler of call id *)
| HStart (id : Z) (ok : bool)         (* readMethod; spawn the expiry goroutine *)
| HResp (id : Z)                      (* call.Response() *)
| HReadFail (id : Z) (shut : bool)    (* reading arg2/arg3 failed (reqResReader.failed, or a peer error frame: no shutdown) *)
| HArgWriter (id : Z) (k : Z)         (* arg1Writer / arg2Writer / arg3Writer (k = 1,2,3) *)
| HFlush (id : Z) (viaWrite : bool)   (* ArgWriter.Flush, or Write overflowing the fragment: up to checkError of flushFragment *)
| HFlushSel (id : Z) (enq : bool)     (* the select of flushFragment: enqueue, or fail on ctx.Done / errCh *)
| HNewFrag (id : Z)                   (* newFragment(false) after a flushed fragment *)
| HClose (id : Z) (fullfrag : bool)   (* ArgWriter.Close; fullfrag: no room left for the next argument *)
| HDone (id : Z)                      (* doneSending after the final flushFragment *)
| HSysErr (id : Z) (full : bool)      (* response.SendSystemError *)
| HSetAppErr (id : Z)
| HBlackhole (id : Z)
| HHelperWrite (id : Z) (ok fullfrag : bool)
                                      (* the tail of arguments.go ArgWriteHelper.write on the open arg writer, after its
                                         f() (Write / json Encode; the fragments it flushed are HFlush _ true steps) returned:
                                         ok -> w.writer.Close(); not ok (f failed ABOVE the transport: a value that cannot be
                                         encoded, ...) -> the error is returned and the writer is left alone *)
(* timers / expiry goroutine of call id *)
| Deadline (id : Z)
| ExpireCtx (id : Z)
| ExpireErr (id : Z)
(* connection level, any goroutine *)
| CClose | CStop | CCheck | OutBegin | OutEnd.

(* ---- handler steps (the call record [c] of [id] is at the required pc) --------------------- *)

(* flushFragment up to and including checkError.  [final]: called from Close of the last
   argument (doneSending follows whatever the result). *)
Definition flush1 (st : state) (id : Z) (c : call) (final : bool) : state :=
  let fail (c : call) (chk : bool) :=
    let c := set_ferr c in
    commit st id (if final then upd_pc c PDone else ret c 1) chk in
  if w_err c then fail c false
  else if check_error c then let '(c1, chk) := failed_call c in fail c1 chk
  else commit st id (upd_pc c (PFlushSel final)) false.

Definition in_state (k : Z) : wst := if k =? 1 then PreArg1 else if k =? 2 then PreArg2 else PreArg3.
Definition out_state (k : Z) : wst := if k =? 1 then PreArg2 else if k =? 2 then PreArg3 else WComplete.
Definition wst_eqb (a b : wst) : bool :=
  match a, b with
  | PreArg1, PreArg1 | PreArg2, PreArg2 | PreArg3, PreArg3 | WComplete, WComplete => true
  | _, _ => false
  end.

(* reqres.go argWriter + fragmenting_writer.go BeginArgument (+ newFragment when needed) *)
Definition arg_writer (st : state) (id : Z) (c : call) (k : Z) : state :=
  let fail (c : call) := let '(c1, chk) := failed_call c in commit st id (ret c1 1) chk in
  if w_err c then commit st id (ret c 1) false
  else if negb (wst_eqb (w_state c) (in_state k)) then fail c
  else if f_err c then fail c
  else match f_state c with
       | FComplete | FInArg | FInLast => fail (set_ferr c)       (* errComplete / errAlreadyWritingArgument *)
       | fs =>
           let begun (c : call) :=
             let c := upd_f c (if k =? 3 then FInLast else FInArg) (f_err c) (f_cur c) (f_first c) in
             upd_w c (w_err c) (out_state k) (rd_err c) in
           if f_cur c then commit st id (ret (begun c) 0) false
           else if check_error c then fail (set_ferr c)            (* newFragment: checkError -> failed *)
           else
             let c := upd_f c fs false true (match fs with FStart => true | _ => false end) in
             commit st id (ret (begun c) 0) false
       end.

(* fragmenting_writer.go Close (the call record is at PIdle) *)
Definition hclose (st : state) (id : Z) (c : call) (fullfrag : bool) : option state :=
  if f_err c then Some (commit st id (ret c 1) false)
  else match f_state c with
       | FInLast =>
           if negb (f_cur c) then None
           else Some (flush1 st id (upd_f c FComplete (f_err c) (f_cur c) (f_first c)) true)
       | FInArg =>
           let c := upd_f c FWaiting (f_err c) (f_cur c) (f_first c) in
           if negb fullfrag then Some (commit st id (ret c 0) false)
           else if negb (f_cur c) then None
           else Some (flush1 st id c false)
       | _ => Some (commit st id (ret (set_ferr c) 1) false)      (* errNotWritingArgument *)
       end.

Definition hstep (st : state) (id : Z) (c : call) (l : label) : option state :=
  match l, h_pc c with
  | HStart _ ok, PNotStarted =>
      if ok then Some (commit st id (upd_epc (upd_pc c PIdle) EWait) false)
      else (* readMethod failed: call.failed(err) = mex.shutdown(); r.err = err *)
        let '(c1, chk) := shut_call c in
        Some (commit st id (upd_pc (upd_w c1 (w_err c1) (w_state c1) true) PDead) chk)
  | HResp _, PIdle =>
      Some (commit st id (if rd_err c then upd_w c true (w_state c) true else c) false)
  | HReadFail _ shut, PIdle =>
      if rd_err c then Some st
      else if shut then
        let '(c1, chk) := shut_call c in
        Some (commit st id (upd_w c1 (w_err c1) (w_state c1) true) chk)
      else Some (commit st id (upd_w c (w_err c) (w_state c) true) false)
  | HArgWriter _ k, PIdle => Some (arg_writer st id c k)
  | HFlush _ viaWrite, PIdle =>
      if viaWrite && f_err c then Some (commit st id (ret c 1) false)
      else if viaWrite && negb (writing (f_state c)) then Some (commit st id (ret (set_ferr c) 1) false)
      else if negb (f_cur c) then None      (* Flush on a nil curFragment: nil dereference (panic) *)
      else Some (flush1 st id c false)
  | HFlushSel _ enq, PFlushSel final =>
      if enq then
        let k := if f_first c then Res (negb final) else Cont (negb final) in
        Some (enqueue (commit st id (upd_pc c (if final then PDone else PNewFrag)) false) id k)
      else if check_error c then
        let '(c1, chk) := failed_call c in
        let c1 := set_ferr c1 in
        Some (commit st id (if final then upd_pc c1 PDone else ret c1 1) chk)
      else None                             (* neither ctx.Done nor errCh is ready *)
  | HNewFrag _, PNewFrag =>
      if check_error c then
        let '(c1, chk) := failed_call c in
        Some (commit st id (ret (upd_f c1 (f_state c1) true false (f_first c1)) 1) chk)
      else Some (commit st id (ret (upd_f c (f_state c) (f_err c) true false) 0) false)
  | HClose _ fullfrag, PIdle => hclose st id c fullfrag
  | HDone _, PDone =>
      let '(c1, chk) := done_sending c in
      Some (commit st id (ret c1 (if f_err c1 then 1 else 0)) chk)
  | HSysErr _ full, PIdle =>
      if w_err c then Some (commit st id (ret c 1) false)
      else
        let st := if g_dones c then add_misused st id else st in
        let c := upd_w c (w_err c) WComplete (rd_err c) in
        (* the error frame is queued FIRST (connection.go SendSystemError: refused only by a
           closed connection or a full buffer), then doneSending shuts the exchange down --
           its removal may close a draining connection (checkExchanges) *)
        let '(st1, ok) := conn_send_syserr st id full in
        let '(c1, chk) := done_sending c in
        Some (commit st1 id (ret c1 (if ok then 0 else 1)) chk)
  | HSetAppErr _, PIdle =>
      match w_state c with
      | PreArg3 | WComplete => let '(c1, chk) := failed_call c in Some (commit st id (ret c1 1) chk)
      | _ => Some (commit st id (ret c 0) false)
      end
  | HBlackhole _, PIdle => Some (commit st id (cancel_call c) false)
  | HHelperWrite _ ok fullfrag, PIdle =>
      (* arguments.go ArgWriteHelper.write after f(): `if err != nil { return err }; return w.writer.Close()`
         (Model/ArgHelper.v helper_write, tied to the source by go2v): the writer is closed only when f succeeded *)
      if helper_closes ok then hclose st id c fullfrag
      else Some (commit st id (ret c 1) false)
  | _, _ => None
  end.

(* ---- the transition function ------------------------------------------------------------------ *)

Definition with_call (st : state) (id : Z) (f : call -> option state) : option state :=
  match get id (calls st) with Some c => f c | None => None end.

Definition step (st : state) (l : label) : option state :=
  match l with
  | RdCallReq1 id full =>
      match rd_pc st with
      | RIdle =>
          let st := add_requested st id in
          match cst st with
          | CActive => Some (set_rd st (RChecked id))
          | _ => Some (fst (conn_send_syserr st id full))
          end
      | _ => None
      end
  | RdCallReq2 ok full =>
      match rd_pc st with
      | RChecked id =>
          if negb ok then Some (set_rd st RIdle)          (* "Couldn't decode initial fragment": dropped *)
          else
            let dup := match get id (calls st) with Some c => in_ex c | None => false end in
            if mexset_shut st || dup
            then Some (set_rd (fst (conn_send_syserr st id full)) RProto1)
            else Some (set_rd (set_calls st (put id new_call (calls st))) (RAdded id))
      | _ => None
      end
  | RdCallReq3 full =>
      match rd_pc st with
      | RAdded id =>
          with_call st id (fun c =>
            match cst st with
            | CActive => Some (set_rd (commit st id (upd_pc c PNotStarted) false) RIdle)
            | _ => (* Close landed between the state check and here: the call is declined like a call
                      arriving on a closing connection (error frame first), then the exchange is shut down *)
                   let st1 := fst (conn_send_syserr st id full) in
                   let '(c1, chk) := shut_call c in
                   Some (set_rd (commit st1 id (upd_pc c1 PDead) chk) RIdle)
            end)
      | _ => None
      end
  | RdProtoClose =>
      match rd_pc st with RProto1 => Some (set_rd (conn_close st) RProto2) | _ => None end
  | RdProtoStop =>
      match rd_pc st with RProto2 => Some (set_rd (conn_stop st) RIdle) | _ => None end
  | RdCancel id =>
      match rd_pc st with
      | RIdle =>
          if propagate st then
            match get id (calls st) with
            | Some c => if in_ex c then Some (commit st id (cancel_call c) false) else Some st
            | None => Some st
            end
          else Some st
      | _ => None
      end
  | HStart id _ | HResp id | HReadFail id _ | HArgWriter id _ | HFlush id _ | HFlushSel id _
  | HNewFrag id | HClose id _ | HDone id | HSysErr id _ | HSetAppErr id | HBlackhole id
  | HHelperWrite id _ _ =>
      with_call st id (fun c => hstep st id c l)
  | Deadline id =>
      with_call st id (fun c =>
        match m_ctx c with
        | CtxLive => Some (commit st id (upd_mex c (m_loc c) CtxDeadline (m_errch c) (m_shut c)) false)
        | _ => None
        end)
  | ExpireCtx id =>
      with_call st id (fun c =>
        match e_pc c, m_ctx c with
        | EWait, CtxLive => None
        | EWait, _ => Some (commit st id (upd_epc (expire_call c) EDone) true)
        | _, _ => None
        end)
  | ExpireErr id =>
      with_call st id (fun c =>
        match e_pc c with
        | EWait => if m_errch c
                   then Some (commit st id (upd_epc (expire_call (cancel_call c)) EDone) true)
                   else None
        | _ => None
        end)
  | CClose => Some (conn_close st)
  | CStop => Some (conn_stop st)
  | CCheck => Some (check_exchanges st)
  | OutBegin => Some (set_nout st (n_out st + 1))
  | OutEnd => if 0 <? n_out st then Some (check_exchanges (set_nout st (n_out st - 1))) else None
  end.

Fixpoint run_from (st : state) (ls : list label) : option state :=
  match ls with
  | [] => Some st
  | l :: r => match step st l with Some st' => run_from st' r | None => None end
  end.

Definition run (prop : bool) (ls : list label) : option state := run_from (init_state prop) ls.

(* the per-id view of the frame log *)
Fixpoint proj (id : Z) (l : list (Z * kind)) : list kind :=
  match l with
  | [] => []
  | (i, k) :: r => if i =? id then k :: proj id r else proj id r
  end.

Fixpoint count_req (id : Z) (l : list Z) : nat :=
  match l with
  | [] => O
  | x :: r => if x =? id then S (count_req id r) else count_req id r
  end.

(* The handler discipline of C10's quantifier ("handlers that either complete the response
   or send one system error"), read off the labels of a run: for call [id], SendSystemError
   is called at most once and never after doneSending has run (HDone).  [term]: one of the
   two has already happened.  (Sufficient for [id] not to enter [misused]; a handler whose
   final Close FAILED and that then calls SendSystemError is also fine - the call is refused
   by response.err - but is not covered by this syntactic test.) *)
Fixpoint handler_ok (id : Z) (term : bool) (ls : list label) : bool :=
  match ls with
  | [] => true
  | HSysErr i _ :: r => if i =? id then negb term && handler_ok id true r else handler_ok id term r
  | HDone i :: r => if i =? id then handler_ok id true r else handler_ok id term r
  | _ :: r => handler_ok id term r
  end.

(* ---- harness entry point ------------------------------------------------------------------
   case:   propagate  nlabels {op a b}...
   output: -1 i                         when label number i (from 0) is not enabled, else
           cst stopped inbound_count  nids {id nframes kind... nrets ret...}...
           ids = distinct requested ids in order of first request;
           kind: 0 Res[last] 1 Res[more] 2 Cont[last] 3 Cont[more] 4 Err                    *)

Definition dec_label (op a b : Z) : option label :=
  if op =? 1 then Some (RdCallReq1 a (bz b)) else
  if op =? 2 then Some (RdCallReq2 (bz a) (bz b)) else
  if op =? 3 then Some (RdCallReq3 (bz b)) else
  if op =? 4 then Some RdProtoClose else
  if op =? 5 then Some RdProtoStop else
  if op =? 6 then Some (RdCancel a) else
  if op =? 10 then Some (HStart a (bz b)) else
  if op =? 11 then Some (HResp a) else
  if op =? 12 then Some (HReadFail a (bz b)) else
  if op =? 13 then Some (HArgWriter a b) else
  if op =? 14 then Some (HFlush a (bz b)) else
  if op =? 15 then Some (HFlushSel a (bz b)) else
  if op =? 16 then Some (HNewFrag a) else
  if op =? 17 then Some (HClose a (bz b)) else
  if op =? 18 then Some (HDone a) else
  if op =? 19 then Some (HSysErr a (bz b)) else
  if op =? 20 then Some (HSetAppErr a) else
  if op =? 21 then Some (HBlackhole a) else
  if op =? 22 then Some (HHelperWrite a (bz (b mod 2)) (bz (b / 2))) else
  if op =? 30 then Some (Deadline a) else
  if op =? 31 then Some (ExpireCtx a) else
  if op =? 32 then Some (ExpireErr a) else
  if op =? 40 then Some CClose else
  if op =? 41 then Some CStop else
  if op =? 42 then Some CCheck else
  if op =? 43 then Some OutBegin else
  if op =? 44 then Some OutEnd else None.

Definition take_label (l : list Z) : option label * list Z :=
  match l with
  | op :: a :: b :: r => (dec_label op a b, r)
  | _ => (None, [])
  end.

(* run, reporting the index of the first label that is not enabled (or not decodable) *)
Fixpoint run_idx (st : state) (ls : list (option label)) (i : Z) : state + Z :=
  match ls with
  | [] => inl st
  | None :: _ => inr i
  | Some l :: r => match step st l with Some st' => run_idx st' r (i + 1) | None => inr i end
  end.

Definition kind_code (k : kind) : Z :=
  match k with Res false => 0 | Res true => 1 | Cont false => 2 | Cont true => 3 | Err => 4 end.
Definition cst_code (s : cstate) : Z :=
  match s with CActive => 0 | CStartClose => 1 | CInboundClosed => 2 | CClosed => 3 end.

Fixpoint dedup (seen l : list Z) : list Z :=
  match l with
  | [] => []
  | x :: r => if existsb (Z.eqb x) seen then dedup seen r else x :: dedup (x :: seen) r
  end.

Definition put_id (st : state) (id : Z) : list Z :=
  id :: put_list (fun k => [kind_code k]) (proj id (sent st))
     ++ put_list (fun r => [r]) (match get id (calls st) with Some c => g_rets c | None => [] end).

Definition run_respwire (c : list Z) : list Z :=
  match c with
  | prop :: r =>
      let '(ls, _) := take_list take_label r in
      match run_idx (init_state (bz prop)) ls 0 with
      | inr i => [-1; i]
      | inl st =>
          [cst_code (cst st); zb (stopped st); inbound_count (calls st)]
          ++ put_list (put_id st) (dedup [] (requested st))
      end
  | _ => [-2]
  end.
