(* C14, clause (d), on connections that are NOT active: the cancellation transition system of
   Model/Cancel.v with the connection state (connection.go connectionState) and the channel
   state of every party -- caller, each relay hop, server -- carried next to it, and with every
   decision on the path of the caller's cancel taken by the definitions REGENERATED from the Go
   source (Gen/GenC14Cancel.v), which receive those states:
     connection.go  Connection.onCancel            c14OnCancel          caller's connection
     connection.go  Connection.handleFrameRelay    c14RelayCancelRoute  each relay hop
     inbound.go     Connection.handleCancel        c14HandleCancel      server's connection
     mex.go         messageExchangeSet.handleCancel c14MexsetCancel
     mex.go         messageExchange.handleCancel   c14MexCancel
   New labels: a graceful Close of a party while the call is in flight (Connection.close: Active ->
   StartClose; checkExchanges moves a connection without inbound exchanges -- the caller's -- on to
   InboundClosed at once), and the environment setting any party's states to ANY value (for the
   theorems: the states are arbitrary).  No proofs here. *)
From Coq Require Import ZArith List Bool.
From Verif Require Import Base.Wrap Base.Wire Gen.GenConsts Gen.GenTTL Gen.GenC14Cancel Model.Cancel.
Import ListNotations.
Local Open Scope Z_scope.

(* (connection state, channel state) of one party *)
Definition c14dc_party := (Z * Z)%type.
Definition c14dc_active : c14dc_party := (c_connectionActive, c_ChannelListening).

Record c14dc_conns := mkC14DC {
  dc_client : c14dc_party;
  dc_hops : list c14dc_party;      (* missing entries: active *)
  dc_server : c14dc_party
}.

Record c14dc_st := mkC14DS { d_base : st; d_conns : c14dc_conns }.

Definition c14dc_init : c14dc_st :=
  {| d_base := init; d_conns := {| dc_client := c14dc_active; dc_hops := []; dc_server := c14dc_active |} |}.

Definition c14dc_has (m : Z) (tr : list Z) : bool := existsb (Z.eqb m) tr.

(* a cancel frame arrives at the server: Connection.handleCancel, then the exchange set, then
   the exchange (an inbound call's exchange always has its ctxCancel) *)
Definition c14dc_server_cancel (c : cfg) (k : c14dc_conns) (s : st) : st :=
  let '(cs, chs) := dc_server k in
  let tr := fst (c14HandleCancel (srv_prop c) cs chs []) in
  let s := if c14dc_has 1 tr then set_requested (requested s + 1) s else s in
  let s := if c14dc_has 2 tr then set_honored (honored s + 1) s else s in
  if negb (c14dc_has 3 tr) then s
  else if negb (c14dc_has 4 (c14MexsetCancel (mex_reg s) [])) then s
  else if negb (c14dc_has 5 (c14MexCancel true [])) then s
  else if hctx s =? 0 then set_mex_reg false (set_hctx 2 s) else s.

(* every relay hop hands the cancel frame to Relayer.Relay (route 1) *)
Fixpoint c14dc_hops_forward (ps : list bool) (ks : list c14dc_party) : bool :=
  match ps with
  | [] => true
  | p :: ps' =>
      let '(cs, chs) := hd c14dc_active ks in
      (c14RelayCancelRoute c_messageTypeCancel p cs chs =? 1) && c14dc_hops_forward ps' (tl ks)
  end.

Definition c14dc_travel_cancel (c : cfg) (k : c14dc_conns) (s : st) : st :=
  if negb (path_up c s) then s
  else if direct c then c14dc_server_cancel c k s
  else if negb (c14dc_hops_forward (hops c) (dc_hops k)) then s
  else if negb ((0 <? req_sent s) && relay_alive s) then s
  else c14dc_server_cancel c k (set_relay_alive false s).

(* messageExchange.onCtxErr(context.Canceled) followed by Connection.onCancel (the frame fits
   the send buffer: serr = false) *)
Definition c14dc_notify_cancel (c : cfg) (k : c14dc_conns) (s : st) : st :=
  if cancel_notified s then s
  else
    let s := set_cancel_notified true s in
    let '(cs, chs) := dc_client k in
    if negb (c14dc_has 6 (c14OnCancel (send_cancel c) cs chs false [])) then s
    else c14dc_travel_cancel c k (set_cancels_sent (cancels_sent s + 1) s).

Definition c14dc_caller_ctx_err (c : cfg) (k : c14dc_conns) (s : st) : st :=
  let s := if cctx s =? 2 then c14dc_notify_cancel c k s else s in
  set_cres (Some (GetContextError (cctx s))) s.

Definition c14dc_caller_write (c : cfg) (k : c14dc_conns) (s : st) (last : bool) : st :=
  if negb (begun s) || negb (match cres s with None => true | Some _ => false end) || req_closed s then s
  else if negb (cctx s =? 0) then c14dc_caller_ctx_err c k s
  else if conn_failed s && direct c then set_cres (Some e_network) s
  else
    let s := set_req_sent (req_sent s + 1) s in
    let s := if last then set_req_closed true s else s in
    deliver_request c s.

Definition c14dc_base_step (c : cfg) (k : c14dc_conns) (s : st) (l : label) : st :=
  match l with
  | LWFrag => c14dc_caller_write c k s false
  | LWClose => c14dc_caller_write c k s true
  | LRead =>
      if negb (begun s) || negb (match cres s with None => true | Some _ => false end) || negb (req_closed s) then s
      else if negb (cctx s =? 0) then c14dc_caller_ctx_err c k s
      else if resp_read s <? resp_avail s then
        let s := set_resp_read (resp_read s + 1) s in
        if resp_final s && (resp_read s =? resp_avail s) then set_cres (Some 0) s else s
      else if conn_failed s && direct c then set_cres (Some e_network) s
      else set_cres (Some e_blocked) s
  | _ => step c s l
  end.

Inductive c14dc_label :=
| DL (l : label)                       (* a step of Model/Cancel.v *)
| DDrain (who : Z)                     (* graceful Close of a party: 0 server, 1 caller, 2+i relay hop i *)
| DSet (who : Z) (cs chs : Z).         (* the environment: any states *)

Fixpoint c14dc_set_nth (i : nat) (v : c14dc_party) (l : list c14dc_party) : list c14dc_party :=
  match i, l with
  | O, [] => [v]
  | O, _ :: r => v :: r
  | S j, [] => c14dc_active :: c14dc_set_nth j v []
  | S j, x :: r => x :: c14dc_set_nth j v r
  end.

Definition c14dc_get (k : c14dc_conns) (who : Z) : c14dc_party :=
  if who =? 0 then dc_server k else if who =? 1 then dc_client k
  else nth (Z.to_nat (who - 2)) (dc_hops k) c14dc_active.

Definition c14dc_put (k : c14dc_conns) (who : Z) (v : c14dc_party) : c14dc_conns :=
  if who =? 0 then {| dc_client := dc_client k; dc_hops := dc_hops k; dc_server := v |}
  else if who =? 1 then {| dc_client := v; dc_hops := dc_hops k; dc_server := dc_server k |}
  else {| dc_client := dc_client k; dc_hops := c14dc_set_nth (Z.to_nat (who - 2)) v (dc_hops k); dc_server := dc_server k |}.

(* Channel.Close -> Connection.close on the connection that carries the call; taken only while
   the call is in flight (handler dispatched, its context live): the harness skips it otherwise *)
Definition c14dc_drain (d : c14dc_st) (who : Z) : c14dc_st :=
  let s := d_base d in
  if negb (hstarted s && (hctx s =? 0)) then d
  else
    let '(cs, _) := c14dc_get (d_conns d) who in
    if negb (cs =? c_connectionActive) then d
    else
      let ns := if who =? 1 then c_connectionInboundClosed else c_connectionStartClose in
      {| d_base := s; d_conns := c14dc_put (d_conns d) who (ns, c_ChannelStartClose) |}.

Definition c14dc_step (c : cfg) (d : c14dc_st) (l : c14dc_label) : c14dc_st :=
  match l with
  | DL bl => {| d_base := c14dc_base_step c (d_conns d) (d_base d) bl; d_conns := d_conns d |}
  | DDrain who => c14dc_drain d who
  | DSet who cs chs => {| d_base := d_base d; d_conns := c14dc_put (d_conns d) who (cs, chs) |}
  end.

Definition c14dc_run (c : cfg) (ls : list c14dc_label) : c14dc_st := fold_left (c14dc_step c) ls c14dc_init.

(* the schedule seen by Model/Cancel.v *)
Fixpoint c14dc_erase (ls : list c14dc_label) : list label :=
  match ls with
  | [] => []
  | DL l :: r => l :: c14dc_erase r
  | _ :: r => c14dc_erase r
  end.

(* ---- harness entry point ----------------------------------------------------------------
   case: as run_cancel; labels 0..9 as there, 10 = the server starts a graceful Close, 11 = the
         caller's channel does, 12+i = relay hop i does
   out : as run_cancel (the connection states move on to Closed once the call is gone: not observed) *)
Definition c14dc_label_of (z : Z) : c14dc_label :=
  if z <? 10 then DL (label_of z) else DDrain (z - 10).

Definition run_c14drain (c : list Z) : list Z :=
  match c with
  | sc :: sp :: r =>
      let '(hs, r1) := take_list take1 r in
      let '(ls, _) := take_list take1 r1 in
      let cf := {| send_cancel := bz sc; hops := map bz hs; srv_prop := bz sp |} in
      let d := c14dc_run cf (map c14dc_label_of ls) in
      let s := d_base d in
      [ (if hstarted s then hctx s else 9);
        (match cres s with None => -1 | Some e => e end);
        requested s; honored s ]
  | _ => [-1]
  end.
