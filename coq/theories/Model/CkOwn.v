(* Hand model of the OWNERSHIP DISCIPLINE OF POOLED CHECKSUM OBJECTS (property C02, clause
   "pooled checksum objects reused across messages": the running CRC is private to one
   message between ChecksumType.New() and Release()).

   Go code modelled:
     checksum.go            ChecksumType.New (pool Get + Reset), Release (pool Put),
                            hashChecksum / nullChecksum Release, noReleaseChecksum
     fragmenting_writer.go  the writer's checksum: Add in writableChunk.writeAsFits, Sum in
                            writableFragment.finish, Release in finish(hasMoreFragments=false)
     fragmenting_reader.go  the reader's checksum: New at the first fragment, Add per chunk,
                            Sum per fragment, Release in doneReading
     outbound.go / inbound.go   New for the request writer (beginCall) / the response writer
                            (handleCallReq)
     relay.go               the relay item's mutatedChecksum: New in handleCallReq when arg2
                            is appended to, used by fragmentingSend through a
                            noReleaseChecksum alias (relayFragmentSender.newFragment) and by
                            updateMutatedCallReqContinueChecksum for every later
                            callReqContinue, Release in finishRelayItem; failRelayItem and
                            timeoutRelayItem tomb the item and release nothing

   Every operation of the model carries the number of its CALL SITE: the row of
   Gen/GenCkSites.ck_sites, the table of all pooled-checksum operations that go2v extracts
   from the source on every run (function, kind, receiver, guard).  [ck_site_table] below is
   the model's copy of that table; Proofs/CkOwnP.v proves it equal to the generated one, so a
   new, removed, moved or re-guarded New/Add/Sum/Release/Wrap/Store/Pass site breaks a proof.

   Interleaving: one label = one atomic action.  A relay item is shared between goroutines:
   the reader of the origin connection (handleCallReq -> fragmentingSend, and handleNonCallReq
   for every callReqContinue: it COPIES the item under the read lock -- [LItemGet] -- and uses
   the copy's checksum afterwards -- [LUse] --), the reader of the destination connection
   (Receive -> finishRelayItem / failRelayItem) and the timer (timeoutRelayItem).  [o_refs]
   counts the copies in flight.

   Parameters of [step]:
     fr      the tree's finishRelayItem releases the mutated checksum (the pinned tree: true)
     strict  finishRelayItem runs only while no copy of the item is in flight (the
             "no overlap" restriction under which the pinned tree keeps the discipline;
             without it the model REFUTES it, see Proofs/CkOwnP.v)

   No proofs in this file. *)
From Coq Require Import ZArith List Bool String Ascii.
From Verif Require Import Base.Wrap Base.Wire.
Import ListNotations.
Local Open Scope Z_scope.

Definition cko_s2z (s : string) : list Z := map (fun a => Z.of_nat (nat_of_ascii a)) (list_ascii_of_string s).

(* ------------------------------------------------------------------ call sites *)

(* rows of Gen/GenCkSites.ck_sites, numbered from 1 in go2v's order (file, position) *)
Definition K_pool_get := 1.     (* checksum.go ChecksumType.New: t.pool().Get() *)
Definition K_pool_reset := 2.   (* checksum.go ChecksumType.New: s.Reset() *)
Definition K_pool_put := 3.     (* checksum.go ChecksumType.Release: t.pool().Put(checksum) *)
Definition K_rd_new := 9.       (* fragmentingReader.recvAndParseNextFragment: New, guard r.checksum == nil *)
Definition K_rd_add := 10.      (* ... Add per chunk *)
Definition K_rd_sum := 11.      (* ... Sum *)
Definition K_rd_rel := 12.      (* fragmentingReader.doneReading: Release, guard r.checksum != nil *)
Definition K_wr_sum := 13.      (* writableFragment.finish: Sum *)
Definition K_wr_rel := 14.      (* writableFragment.finish: Release, guard !(hasMoreFragments) *)
Definition K_wr_add := 16.      (* writableChunk.writeAsFits: Add *)
Definition K_in_new := 24.      (* Connection.handleCallReq: New (response writer) *)
Definition K_out_new := 26.     (* Connection.beginCall: New (request writer) *)
Definition K_it_new := 27.      (* Relayer.handleCallReq: New, guard len(f.arg2Appends) > 0 *)
Definition K_it_rel := 31.      (* Relayer.finishRelayItem: Release, guard isOriginator && mutatedChecksum != nil *)
(* rows after K_it_rel move up by one on a tree without that Release *)
Definition K_it_cadd (fr : bool) := if fr then 33 else 32.   (* updateMutatedCallReqContinueChecksum: Add *)
Definition K_it_csum (fr : bool) := if fr then 34 else 33.   (* updateMutatedCallReqContinueChecksum: Sum *)
Definition K_it_madd (fr : bool) := if fr then 35 else 34.   (* relayFragmentSender.newFragment: Add(method), guard initial *)
Definition K_it_wrap (fr : bool) := if fr then 37 else 36.   (* relayFragmentSender.newFragment: noReleaseChecksum{...} *)

Definition ck_row := (list Z * list Z * list Z * list Z)%type.
Definition ckr (fn kind rx grd : string) : ck_row := (cko_s2z fn, cko_s2z kind, cko_s2z rx, cko_s2z grd).

(* the model's copy of the generated table: (function, kind, receiver, guard) *)
Definition ck_rows (fr : bool) : list ck_row :=
  [ ckr "ChecksumType.New" "Get" "t.pool()" "";
    ckr "ChecksumType.New" "Reset" "s" "";
    ckr "ChecksumType.Release" "Put" "t.pool()" "";
    ckr "ChecksumType.Release" "Pass" "t.pool().Put(checksum)" "";
    ckr "nullChecksum.Release" "TypeRelease" "c" "";
    ckr "hashChecksum.Add" "Sum" "h" "";
    ckr "hashChecksum.Release" "TypeRelease" "h" "";
    ckr "fragmentingReader.recvAndParseNextFragment" "Store" "r.checksum" "r.checksum == nil";
    ckr "fragmentingReader.recvAndParseNextFragment" "New" "r.curFragment.checksumType" "r.checksum == nil";
    ckr "fragmentingReader.recvAndParseNextFragment" "Add" "r.checksum" "for";
    ckr "fragmentingReader.recvAndParseNextFragment" "Sum" "r.checksum" "";
    ckr "fragmentingReader.doneReading" "Release" "r.checksum" "r.checksum != nil";
    ckr "writableFragment.finish" "Sum" "f.checksum" "";
    ckr "writableFragment.finish" "Release" "f.checksum" "!(hasMoreFragments)";
    ckr "newWritableChunk" "Store" "checksum: checksum" "";
    ckr "writableChunk.writeAsFits" "Add" "c.checksum" "";
    ckr "newFragmentingWriter" "Store" "checksum: checksum" "";
    ckr "fragmentingWriter.BeginArgument" "Pass" "w.sender.newFragment(w.checksum)" "w.curFragment == nil";
    ckr "fragmentingWriter.BeginArgument" "Pass" "newWritableChunk(w.checksum)" "";
    ckr "fragmentingWriter.Flush" "Pass" "w.sender.newFragment(w.checksum)" "";
    ckr "fragmentingWriter.Flush" "Pass" "newWritableChunk(w.checksum)" "";
    ckr "fragmentingWriter.Close" "Pass" "w.sender.newFragment(w.checksum)" "";
    ckr "Connection.handleCallReq" "Pass" "newFragmentingWriter(initialFragment.checksumType.New())" "";
    ckr "Connection.handleCallReq" "New" "initialFragment.checksumType" "";
    ckr "Connection.beginCall" "Pass" "newFragmentingWriter(c.opts.ChecksumType.New())" "";
    ckr "Connection.beginCall" "New" "c.opts.ChecksumType" "";
    ckr "Relayer.handleCallReq" "New" "f.checksumType" "len(f.arg2Appends) > 0";
    ckr "Relayer.handleCallReq" "Pass" "r.addRelayItem(mutatedChecksum)" "";
    ckr "Relayer.handleNonCallReq" "Pass" "r.updateMutatedCallReqContinueChecksum(item.mutatedChecksum)"
        "case messageTypeCallReqContinue && item.mutatedChecksum != nil";
    ckr "Relayer.addRelayItem" "Store" "mutatedChecksum: mutatedChecksum" "" ]
  ++ (if fr then [ ckr "Relayer.finishRelayItem" "Release" "item.mutatedChecksum"
                       "item.isOriginator && item.mutatedChecksum != nil" ] else [])
  ++ [ ckr "Relayer.fragmentingSend" "Pass" "newFragmentingWriter(cs)" "";
       ckr "Relayer.updateMutatedCallReqContinueChecksum" "Add" "cs" "";
       ckr "Relayer.updateMutatedCallReqContinueChecksum" "Sum" "cs" "";
       ckr "relayFragmentSender.newFragment" "Add" "checksum" "initial";
       ckr "relayFragmentSender.newFragment" "Store" "checksum: &noReleaseChecksum{Checksum: checksum}" "";
       ckr "relayFragmentSender.newFragment" "Wrap" "checksum" "";
       ckr "relayFragmentSender.newFragment" "Store" "Checksum: checksum" "";
       ckr "reqResWriter.newFragment" "Store" "fragment.checksum" "" ].

Definition ck_site_table (fr : bool) : list (Z * ck_row) :=
  combine (map Z.of_nat (seq 1 (List.length (ck_rows fr)))) (ck_rows fr).

(* ------------------------------------------------------------------ events and the discipline *)

(* operations: 0 acquire (New), 1 Add, 2 Sum, 3 Release *)
Record ckev := mkCkev { ce_site : Z; ce_op : Z; ce_owner : Z; ce_obj : Z }.

(* life-cycle kinds, named by the acquiring site *)
Definition ck_kind_of_site (site : Z) : option Z :=
  if site =? K_out_new then Some 0        (* request writer *)
  else if site =? K_in_new then Some 1    (* response writer *)
  else if site =? K_rd_new then Some 2    (* reader *)
  else if site =? K_it_new then Some 3    (* relay item *)
  else None.

(* which sites may operate on an object of which life cycle *)
Definition ck_site_compat (fr : bool) (kind op site : Z) : bool :=
  if (kind =? 0) || (kind =? 1) then
    ((op =? 1) && (site =? K_wr_add)) || ((op =? 2) && (site =? K_wr_sum)) || ((op =? 3) && (site =? K_wr_rel))
  else if kind =? 2 then
    ((op =? 1) && (site =? K_rd_add)) || ((op =? 2) && (site =? K_rd_sum)) || ((op =? 3) && (site =? K_rd_rel))
  else if kind =? 3 then
    ((op =? 1) && ((site =? K_wr_add) || (site =? K_it_cadd fr) || (site =? K_it_madd fr)))
    || ((op =? 2) && ((site =? K_wr_sum) || (site =? K_it_csum fr)))
    || ((op =? 3) && fr && (site =? K_it_rel))
  else false.

(* the discipline (a specification that does not mention the life cycles): [held] maps an
   object to its current owner and the kind of its life cycle.
     acquire: the object is held by nobody -- then it is held by the acquirer;
     Add/Sum: only by the owner that holds it, at a site of its life cycle;
     Release: only by the owner that holds it, at a site of its life cycle -- then nobody
              holds it (so: no use after release, no second release). *)
Definition ck_held := list (Z * (Z * Z)).

Fixpoint ck_lookup (x : Z) (h : ck_held) : option (Z * Z) :=
  match h with
  | [] => None
  | (y, v) :: r => if y =? x then Some v else ck_lookup x r
  end.

Definition ck_drop (x : Z) (h : ck_held) : ck_held := filter (fun p => negb (fst p =? x)) h.

(* None = discipline violated; the code says how *)
Inductive ck_verdict := CkOk (h : ck_held) | CkBad (code : Z).

Definition ck_step (fr : bool) (h : ck_held) (e : ckev) : ck_verdict :=
  if ce_op e =? 0 then
    match ck_kind_of_site (ce_site e) with
    | None => CkBad 1                                   (* not an acquiring site of the model *)
    | Some kind =>
        match ck_lookup (ce_obj e) h with
        | Some _ => CkBad 2                             (* handed out while somebody holds it *)
        | None => CkOk ((ce_obj e, (ce_owner e, kind)) :: h)
        end
    end
  else
    match ck_lookup (ce_obj e) h with
    | None => CkBad (if ce_op e =? 3 then 5 else 3)     (* released / used while nobody holds it *)
    | Some (k, kind) =>
        if negb (k =? ce_owner e) then CkBad 4          (* used / released by somebody who is not the owner *)
        else if negb (ck_site_compat fr kind (ce_op e) (ce_site e)) then CkBad 7   (* site foreign to the life cycle *)
        else if ce_op e =? 3 then CkOk (ck_drop (ce_obj e) h)
        else CkOk h
    end.

(* index of the first offending event and its code, or the final holding map *)
Fixpoint ck_run (fr : bool) (h : ck_held) (i : Z) (es : list ckev) : ck_held + (Z * Z) :=
  match es with
  | [] => inl h
  | e :: r => match ck_step fr h e with
              | CkOk h' => ck_run fr h' (i + 1) r
              | CkBad c => inr (i, c)
              end
  end.

Definition ck_ok (fr : bool) (es : list ckev) : bool :=
  match ck_run fr [] 0 es with inl _ => true | inr _ => false end.

(* ------------------------------------------------------------------ the life cycles *)

(* o_phase: 0 not started; 1 open (holds its object; for an item: live in the map);
   2 failed / tomb (holds the object, never releases it: the object is left to the GC);
   3 an item deleted without release (tree without the finishRelayItem Release);
   4 released *)
Record ck_owner := mkOwner { o_kind : Z; o_obj : Z; o_phase : Z; o_refs : Z }.

Definition ck_absent := mkOwner 0 0 0 0.

Record ck_st := mkCkSt {
  cs_free : list Z;            (* objects in the pool *)
  cs_fresh : Z;                (* objects >= cs_fresh have never been created *)
  cs_own : Z -> ck_owner
}.

Definition ck_init := mkCkSt [] 1 (fun _ => ck_absent).

Definition ck_upd (f : Z -> ck_owner) (k : Z) (v : ck_owner) : Z -> ck_owner :=
  fun j => if j =? k then v else f j.

Fixpoint ck_remove1 (x : Z) (l : list Z) : list Z :=
  match l with [] => [] | y :: r => if y =? x then r else y :: ck_remove1 x r end.

Fixpoint ck_mem (x : Z) (l : list Z) : bool :=
  match l with [] => false | y :: r => (y =? x) || ck_mem x r end.

Inductive ck_label :=
  | LNew (k kind : Z) (pick : option Z)   (* ChecksumType.New by a new life cycle: some pooled object, or a fresh one *)
  | LUse (k site : Z)                     (* Add / Sum through the life cycle's reference (or an in-flight copy of the item) *)
  | LWLast (k : Z)                        (* writer: finish(false) of the last fragment: Sum, then Release *)
  | LSendLast (k : Z)                     (* item: the last re-emitted fragment: Sum; Release goes to the noReleaseChecksum alias *)
  | LRDone (k : Z)                        (* reader: doneReading *)
  | LFail (k : Z)                         (* writer / reader error; item: failRelayItem or timeoutRelayItem (tomb) *)
  | LItemGet (k : Z)                      (* handleNonCallReq: items.Get copies a live item *)
  | LItemPut (k : Z)                      (* the handler holding a copy returns *)
  | LItemFinish (k : Z).                  (* finishRelayItem: Delete, (Release) *)

Definition ck_new_site (kind : Z) : Z :=
  if kind =? 0 then K_out_new else if kind =? 1 then K_in_new else if kind =? 2 then K_rd_new else K_it_new.

Definition ck_use_op (fr : bool) (site : Z) : Z :=
  if (site =? K_wr_sum) || (site =? K_rd_sum) || (site =? K_it_csum fr) then 2 else 1.

Definition ck_step_lc (fr strict : bool) (s : ck_st) (l : ck_label) : option (list ckev * ck_st) :=
  match l with
  | LNew k kind pick =>
      if negb ((0 <=? kind) && (kind <=? 3)) then None else
      if negb (o_phase (cs_own s k) =? 0) then None else
      match pick with
      | Some x =>
          if ck_mem x (cs_free s) then
            Some ([mkCkev (ck_new_site kind) 0 k x],
                  mkCkSt (ck_remove1 x (cs_free s)) (cs_fresh s)
                         (ck_upd (cs_own s) k (mkOwner kind x 1 (if kind =? 3 then 1 else 0))))
          else None
      | None =>
          Some ([mkCkev (ck_new_site kind) 0 k (cs_fresh s)],
                mkCkSt (cs_free s) (cs_fresh s + 1)
                       (ck_upd (cs_own s) k (mkOwner kind (cs_fresh s) 1 (if kind =? 3 then 1 else 0))))
      end
  | LUse k site =>
      let o := cs_own s k in
      let op := ck_use_op fr site in
      if negb ((op =? 1) || (op =? 2)) then None else
      if negb (ck_site_compat fr (o_kind o) op site) then None else
      (* writers and readers use their reference while open; an item is used through copies
         in flight, whatever has happened to the item in the meantime *)
      if (if o_kind o =? 3 then 0 <? o_refs o else o_phase o =? 1)
      then Some ([mkCkev site op k (o_obj o)], s) else None
  | LWLast k =>
      let o := cs_own s k in
      if ((o_kind o =? 0) || (o_kind o =? 1)) && (o_phase o =? 1) then
        Some ([mkCkev K_wr_sum 2 k (o_obj o); mkCkev K_wr_rel 3 k (o_obj o)],
              mkCkSt (o_obj o :: cs_free s) (cs_fresh s) (ck_upd (cs_own s) k (mkOwner (o_kind o) (o_obj o) 4 0)))
      else None
  | LSendLast k =>
      let o := cs_own s k in
      if (o_kind o =? 3) && (0 <? o_refs o) then Some ([mkCkev K_wr_sum 2 k (o_obj o)], s) else None
  | LRDone k =>
      let o := cs_own s k in
      if (o_kind o =? 2) && (o_phase o =? 1) then
        Some ([mkCkev K_rd_rel 3 k (o_obj o)],
              mkCkSt (o_obj o :: cs_free s) (cs_fresh s) (ck_upd (cs_own s) k (mkOwner 2 (o_obj o) 4 0)))
      else None
  | LFail k =>
      let o := cs_own s k in
      if o_phase o =? 1 then
        Some ([], mkCkSt (cs_free s) (cs_fresh s) (ck_upd (cs_own s) k (mkOwner (o_kind o) (o_obj o) 2 (o_refs o))))
      else None
  | LItemGet k =>
      let o := cs_own s k in
      if (o_kind o =? 3) && (o_phase o =? 1) then
        Some ([], mkCkSt (cs_free s) (cs_fresh s) (ck_upd (cs_own s) k (mkOwner 3 (o_obj o) 1 (o_refs o + 1))))
      else None
  | LItemPut k =>
      let o := cs_own s k in
      if (o_kind o =? 3) && (0 <? o_refs o) then
        Some ([], mkCkSt (cs_free s) (cs_fresh s) (ck_upd (cs_own s) k (mkOwner 3 (o_obj o) (o_phase o) (o_refs o - 1))))
      else None
  | LItemFinish k =>
      let o := cs_own s k in
      if (o_kind o =? 3) && (o_phase o =? 1) && (negb strict || (o_refs o =? 0)) then
        if fr then
          Some ([mkCkev K_it_rel 3 k (o_obj o)],
                mkCkSt (o_obj o :: cs_free s) (cs_fresh s) (ck_upd (cs_own s) k (mkOwner 3 (o_obj o) 4 (o_refs o))))
        else
          Some ([], mkCkSt (cs_free s) (cs_fresh s) (ck_upd (cs_own s) k (mkOwner 3 (o_obj o) 3 (o_refs o))))
      else None
  end.

Fixpoint ck_run_lc (fr strict : bool) (s : ck_st) (ls : list ck_label) : option (list ckev * ck_st) :=
  match ls with
  | [] => Some ([], s)
  | l :: r => match ck_step_lc fr strict s l with
              | None => None
              | Some (es, s') => match ck_run_lc fr strict s' r with
                                 | None => None
                                 | Some (es', s'') => Some (es ++ es', s'')
                                 end
              end
  end.

(* ------------------------------------------------------------------ harness entry point *)

(* A trace recorded from the implementation by the tracking pool of harness/overlay/
   zz_verif_c02.go (quarantine mode: every acquisition yields a distinct object, so an object
   is its own owner).  Input:
     fr; names: count, then length-prefixed function names;
     held at the start of the trace: count, then (object, index of the acquiring function);
     events: count, then (index of the function, op, object).
   Output: [1; number of events]  or  [0; index of the first offending event; code]
   (codes of ck_step; 1 also for a function/kind pair that is no row of the site table). *)

Fixpoint ck_list_eqb (a b : list Z) : bool :=
  match a, b with
  | [], [] => true
  | x :: a', y :: b' => (x =? y) && ck_list_eqb a' b'
  | _, _ => false
  end.

Definition ck_kind_name (op : Z) : list Z :=
  if op =? 0 then cko_s2z "New" else if op =? 1 then cko_s2z "Add" else if op =? 2 then cko_s2z "Sum" else cko_s2z "Release".

(* The rows of the table at which the tracked operations happen -- New / Add / Sum / Release
   outside checksum.go -- as (row, function name, op), with the function names as byte lists
   (the harness sends names; Coq strings are not extracted).  Proofs/CkOwnP.ck_rt_sites_ok
   proves this list equal to the corresponding rows of [ck_site_table]. *)
Definition N_rd_parse : list Z := (* fragmentingReader.recvAndParseNextFragment *)
  [102; 114; 97; 103; 109; 101; 110; 116; 105; 110; 103; 82; 101; 97; 100; 101; 114; 46; 114; 101; 99; 118; 65; 110; 100; 80; 97; 114; 115; 101; 78; 101; 120; 116; 70; 114; 97; 103; 109; 101; 110; 116].
Definition N_rd_done : list Z := (* fragmentingReader.doneReading *)
  [102; 114; 97; 103; 109; 101; 110; 116; 105; 110; 103; 82; 101; 97; 100; 101; 114; 46; 100; 111; 110; 101; 82; 101; 97; 100; 105; 110; 103].
Definition N_wr_finish : list Z := (* writableFragment.finish *)
  [119; 114; 105; 116; 97; 98; 108; 101; 70; 114; 97; 103; 109; 101; 110; 116; 46; 102; 105; 110; 105; 115; 104].
Definition N_wr_fits : list Z := (* writableChunk.writeAsFits *)
  [119; 114; 105; 116; 97; 98; 108; 101; 67; 104; 117; 110; 107; 46; 119; 114; 105; 116; 101; 65; 115; 70; 105; 116; 115].
Definition N_in_hcr : list Z := (* Connection.handleCallReq *)
  [67; 111; 110; 110; 101; 99; 116; 105; 111; 110; 46; 104; 97; 110; 100; 108; 101; 67; 97; 108; 108; 82; 101; 113].
Definition N_out_begin : list Z := (* Connection.beginCall *)
  [67; 111; 110; 110; 101; 99; 116; 105; 111; 110; 46; 98; 101; 103; 105; 110; 67; 97; 108; 108].
Definition N_it_hcr : list Z := (* Relayer.handleCallReq *)
  [82; 101; 108; 97; 121; 101; 114; 46; 104; 97; 110; 100; 108; 101; 67; 97; 108; 108; 82; 101; 113].
Definition N_it_fin : list Z := (* Relayer.finishRelayItem *)
  [82; 101; 108; 97; 121; 101; 114; 46; 102; 105; 110; 105; 115; 104; 82; 101; 108; 97; 121; 73; 116; 101; 109].
Definition N_it_upd : list Z := (* Relayer.updateMutatedCallReqContinueChecksum *)
  [82; 101; 108; 97; 121; 101; 114; 46; 117; 112; 100; 97; 116; 101; 77; 117; 116; 97; 116; 101; 100; 67; 97; 108; 108; 82; 101; 113; 67; 111; 110; 116; 105; 110; 117; 101; 67; 104; 101; 99; 107; 115; 117; 109].
Definition N_rfs_new : list Z := (* relayFragmentSender.newFragment *)
  [114; 101; 108; 97; 121; 70; 114; 97; 103; 109; 101; 110; 116; 83; 101; 110; 100; 101; 114; 46; 110; 101; 119; 70; 114; 97; 103; 109; 101; 110; 116].

Definition ck_rt_sites (fr : bool) : list (Z * list Z * Z) :=
  [ (K_rd_new, N_rd_parse, 0); (K_rd_add, N_rd_parse, 1); (K_rd_sum, N_rd_parse, 2); (K_rd_rel, N_rd_done, 3);
    (K_wr_sum, N_wr_finish, 2); (K_wr_rel, N_wr_finish, 3); (K_wr_add, N_wr_fits, 1);
    (K_in_new, N_in_hcr, 0); (K_out_new, N_out_begin, 0); (K_it_new, N_it_hcr, 0) ]
  ++ (if fr then [ (K_it_rel, N_it_fin, 3) ] else [])
  ++ [ (K_it_cadd fr, N_it_upd, 1); (K_it_csum fr, N_it_upd, 2); (K_it_madd fr, N_rfs_new, 1) ].

Fixpoint ck_find_site (fn : list Z) (op : Z) (t : list (Z * list Z * Z)) : Z :=
  match t with
  | [] => 0
  | (n, f, o) :: r => if ck_list_eqb f fn && (o =? op) then n else ck_find_site fn op r
  end.

Definition ck_site_of (fr : bool) (names : list (list Z)) (idx op : Z) : Z :=
  ck_find_site (nth (Z.to_nat idx) names []) op (ck_rt_sites fr).

Definition take_ck_held (l : list Z) : (Z * Z) * list Z :=
  let '(x, r) := take1 l in let '(i, r') := take1 r in ((x, i), r').
Definition take_ck_ev (l : list Z) : (Z * Z * Z) * list Z :=
  let '(i, r) := take1 l in let '(op, r') := take1 r in let '(x, r'') := take1 r' in ((i, op, x), r'').

Definition run_ckown (inp : list Z) : list Z :=
  let '(frz, r0) := take1 inp in
  let fr := bz frz in
  let '(names, r1) := take_list take_bytes r0 in
  let '(held0, r2) := take_list take_ck_held r1 in
  let '(evs, _) := take_list take_ck_ev r2 in
  let h0 : ck_held :=
    flat_map (fun p : Z * Z =>
                match ck_kind_of_site (ck_site_of fr names (snd p) 0) with
                | Some kind => [(fst p, (fst p, kind))]
                | None => []
                end) held0 in
  let es := map (fun t : Z * Z * Z =>
                   let '(i, op, x) := t in mkCkev (ck_site_of fr names i op) op x x) evs in
  match ck_run fr h0 0 es with
  | inl _ => [1; Z.of_nat (List.length es)]
  | inr (i, c) => [0; i; c]
  end.
