(* C08, clauses (b) and (c): WHICH ID a relay error / clean-up path uses.

   go2v (go2v/relayidsites.go -> Gen/GenRelayIdSites.v) regenerates on every run, from the relay
   files of the tree under verification, the tables of every place where a message id travels:
     relay_id_args       (function, callee, uint32 parameter, resolved argument)
     relay_id_stores     (function, Type.field, resolved value)          stores into uint32 struct fields
     relay_frame_args    (function, callee, frame argument @pre / @post) frames handed on before / after
                                                                         their header id was rewritten
     relay_fail_sites    (function, callee, items, resolved id, reason)  calls of failRelayItem
     relay_syserr_sites  (function, receiver, resolved id)               calls of SendSystemError
     relay_fragsender_lit (function, field, value)                       the literal of relayFragmentSender
     relay_funcval_sites (function, method value, context)               methods with an id parameter used as values
   This file gives the tables a MEANING -- an id-space discipline -- as an executable checker; it
   also holds the model's copy of the three tables whose rows are instructions of the model
   (Model/RelayItems.v, ids are (connection, table, id) triples; Model/RelayFwd.v).

   ID SPACES.  A Relayer r belongs to one connection.  Every message id is an id of r's OWN
   connection (the frame as read from it, or as it is about to be queued on it) or an id of the
   REMOTE connection of the call (the id allocated with remoteConn.NextMessageID(), an item's
   remapID, a frame header after handleCallReq / handleNonCallReq rewrote it).  The discipline:
     - a table of relayer r (r.outbound / r.inbound) is only ever addressed with an OWN id; the
       item stored under it carries the REMOTE id as remapID;
     - r.conn.SendSystemError -- an error frame towards the peer of r's connection -- carries an OWN id;
     - a frame handed to ANOTHER relayer's Receive carries that relayer's id (rewritten header);
     - a relay timer is started with the id its item is stored under.
   The space of an expression is computed from its resolved text:
     X.Header.ID@pre   the space of the frame the function was handed ([frame_space]: Relay is
                       entered with the frame as read = OWN; every other function gets the space its
                       callers pass, @post arguments being REMOTE; a callee reached through another
                       relayer (remoteConn.relay., item.destination., ...) sees the spaces flipped)
     X.Header.ID@post  the other space
     fresh:remoteConn  REMOTE
     param:p           what every caller passes for p (through relay_id_args)
     field:T.f         what every store puts into T.f (through relay_id_stores)
   No proofs in this file (Proofs/RelayIdSitesP.v). *)
From Coq Require Import ZArith List Bool String Ascii.
From Verif Require Import Base.Wrap Base.Wire Model.RelaySites.
Import ListNotations.
Local Open Scope Z_scope.

(* ---------------------------------------------------------------- byte strings *)

Fixpoint ri_prefixb (p s : list Z) : bool :=
  match p, s with
  | [], _ => true
  | x :: p', y :: s' => (x =? y) && ri_prefixb p' s'
  | _ :: _, [] => false
  end.
Definition ri_suffixb (p s : list Z) : bool := ri_prefixb (rev p) (rev s).
Fixpoint ri_containsb (p s : list Z) : bool :=
  match s with
  | [] => ri_prefixb p []
  | _ :: s' => ri_prefixb p s || ri_containsb p s'
  end.
(* the text after the last '.' *)
Fixpoint ri_last_aux (s acc : list Z) : list Z :=
  match s with
  | [] => acc
  | x :: r => if x =? 46 then ri_last_aux r [] else ri_last_aux r (acc ++ [x])
  end.
Definition ri_last (s : list Z) : list Z := ri_last_aux s [].
(* split at the first occurrence of byte c *)
Fixpoint ri_split (c : Z) (s acc : list Z) : option (list Z * list Z) :=
  match s with
  | [] => None
  | x :: r => if x =? c then Some (acc, r) else ri_split c r (acc ++ [x])
  end.
Definition ri_ident_char (x : Z) : bool :=
  ((48 <=? x) && (x <=? 57)) || ((65 <=? x) && (x <=? 90)) || ((97 <=? x) && (x <=? 122)) || (x =? 95).
Definition ri_is_ident (s : list Z) : bool := negb (zlen s =? 0) && forallb ri_ident_char s.

Definition s2z := rs_s2z.

(* ---------------------------------------------------------------- classes of resolved id texts *)

Inductive idc :=
| CHdrPre              (* header id of the frame the function was handed, not yet rewritten *)
| CHdrPost             (* header id after the rewrite *)
| CSenderHdr           (* rfs.callReq.Header.ID: the header of the call req the fragment sender was built with *)
| CFresh               (* remoteConn.NextMessageID() *)
| CParam (p : list Z)
| CField (f : list Z)
| CLit
| CBad.

Fixpoint classify (fuel : nat) (s : list Z) : idc :=
  match fuel with
  | O => CBad
  | S fuel' =>
      if ri_containsb (s2z "~reassigned") s then CBad
      else if ri_prefixb (s2z "param:") s then CParam (skipn 6 s)
      else if bytes_eqb s (s2z "fresh:remoteConn") then CFresh
      else if ri_prefixb (s2z "lit:") s then CLit
      else if ri_prefixb (s2z "field:") s then
        match ri_split 40 (skipn 6 s) [] with Some (f, _) => CField f | None => CBad end
      else
        match ri_split 61 s [] with
        | Some (v, rest) => if ri_is_ident v then classify fuel' rest else
            (* '=' inside the alias annotation of a header read *)
            if ri_suffixb (s2z ".Header.ID@pre{f=cr.Frame}") s then CHdrPre else CBad
        | None =>
            if ri_suffixb (s2z ".Header.ID@post") s then CHdrPost
            else if bytes_eqb s (s2z "rfs.callReq.Header.ID@pre") then CSenderHdr
            else if ri_suffixb (s2z ".Header.ID@pre") s then CHdrPre
            else CBad
        end
  end.

Inductive idsp := SpOwn | SpRemote | SpBad.
Definition idsp_eqb (a b : idsp) : bool :=
  match a, b with SpOwn, SpOwn | SpRemote, SpRemote | SpBad, SpBad => true | _, _ => false end.
Definition flip (s : idsp) : idsp := match s with SpOwn => SpRemote | SpRemote => SpOwn | SpBad => SpBad end.

(* all values agree; None = no value at all *)
Fixpoint join (l : list (option idsp)) : option idsp :=
  match l with
  | [] => None
  | None :: r => join r
  | Some a :: r => match join r with None => Some a | Some b => if idsp_eqb a b then Some a else Some SpBad end
  end.
Definition joined (l : list (option idsp)) : idsp := match join l with Some s => s | None => SpBad end.

(* through which relayer a callee is reached: Some false = the function's own relayer r (or one of
   its tables / its timer / its fragment sender's closure), Some true = another relayer *)
Definition receiver_remote (callee : list Z) : option bool :=
  if ri_prefixb (s2z "remoteConn.relay.") callee || ri_prefixb (s2z "relayToDest.destination.") callee
     || ri_prefixb (s2z "item.destination.") callee || ri_prefixb (s2z "rfs.frameReceiver.") callee then Some true
  else if ri_prefixb (s2z "r.") callee || ri_prefixb (s2z "items.") callee || ri_prefixb (s2z "item.timeout.") callee
     || ri_prefixb (s2z "rt.pool.") callee || bytes_eqb callee (s2z "rfs.failRelayItemFunc") then Some false
  else if negb (ri_containsb [46] callee) then Some false          (* a plain function *)
  else None.
Definition adj (callee : list Z) (s : idsp) : idsp :=
  match receiver_remote callee with Some true => flip s | Some false => s | None => SpBad end.

(* a method that is also called through a func-typed value: the name of that value
   (justified by relay_funcval_sites / relay_fragsender_lit, see [funcvals_ok]) *)
Definition alias_of (m : list Z) : list Z :=
  if bytes_eqb m (s2z "timeoutRelayItem") then s2z "trigger"
  else if bytes_eqb m (s2z "failRelayItem") then s2z "failRelayItemFunc"
  else m.
Definition calls_fn (fn callee : list Z) : bool :=
  bytes_eqb (ri_last callee) (ri_last fn) || bytes_eqb (ri_last callee) (alias_of (ri_last fn)).

Section Tables.
  Variable id_args : list (list Z * list Z * list Z * list Z).
  Variable id_stores : list (list Z * list Z * list Z).
  Variable frame_args : list (list Z * list Z * list Z).
  Variable fail_sites : list (list Z * list Z * list Z * list Z * list Z).
  Variable syserr_sites : list (list Z * list Z * list Z).
  Variable sender_lit : list (list Z * list Z * list Z).
  Variable funcvals : list (list Z * list Z * list Z).

  (* the id space of the frame a function is handed *)
  Fixpoint frame_space (fuel : nat) (fn : list Z) : idsp :=
    match fuel with
    | O => SpBad
    | S fuel' =>
        if bytes_eqb fn (s2z "Relayer.Relay") then SpOwn      (* entered by the connection's reader with the frame as read *)
        else
          joined (map (fun row =>
            let '(caller, callee, arg) := row in
            if calls_fn fn callee then
              Some (adj callee
                (if ri_suffixb (s2z "@post") arg then flip (frame_space fuel' caller)
                 else if bytes_eqb arg (s2z "wf.frame@pre")
                      (* a fragment built by relayFragmentSender.newFragment: its header id is the sender's call req's *)
                      then frame_space fuel' (s2z "Relayer.newFragmentSender")
                 else frame_space fuel' caller))
            else None) frame_args)
    end.

  Definition fs (fn : list Z) : idsp := frame_space 10 fn.

  Fixpoint resolve (fuel : nat) (fn : list Z) (c : idc) : idsp :=
    match fuel with
    | O => SpBad
    | S fuel' =>
        match c with
        | CHdrPre => fs fn
        | CHdrPost => flip (fs fn)
        | CSenderHdr => fs (s2z "Relayer.newFragmentSender")
        | CFresh => SpRemote
        | CParam p =>
            joined (map (fun row =>
              let '(caller, callee, p', arg) := row in
              if calls_fn fn callee && bytes_eqb p' p
              then Some (adj callee (resolve fuel' caller (classify 4 arg))) else None) id_args)
        | CField f =>
            joined (map (fun row =>
              let '(sfn, f', v) := row in
              if bytes_eqb f' f
              then match classify 4 v with CLit => None | c' => Some (resolve fuel' sfn c') end
              else None) id_stores)
        | CLit => SpBad
        | CBad => SpBad
        end
    end.

  Definition space_of (fn txt : list Z) : idsp := resolve 14 fn (classify 4 txt).

  (* ---- the discipline ---- *)

  (* what a callee expects for a uint32 parameter: the id under which ITS relayer files the call,
     except remapID = the id on the other connection *)
  Definition expect_param (p : list Z) : idsp := if bytes_eqb p (s2z "remapID") then SpRemote else SpOwn.

  Definition args_ok : bool :=
    forallb (fun row => let '(fn, callee, p, arg) := row in
      idsp_eqb (adj callee (space_of fn arg)) (expect_param p)) id_args.

  (* a header is only ever rewritten to the id of the other connection; remapID is the other
     connection's id; origID and a timer's id are own ids *)
  Definition expect_store (f : list Z) : idsp :=
    if bytes_eqb f (s2z "FrameHeader.ID") || bytes_eqb f (s2z "relayItem.remapID") then SpRemote else SpOwn.
  Definition stores_ok : bool :=
    forallb (fun row => let '(fn, f, v) := row in
      match classify 4 v with
      | CLit => true
      | c => idsp_eqb (resolve 14 fn c) (expect_store f)
      end) id_stores.

  (* the items argument of a fail site is a table of the failing relayer itself *)
  Definition own_table (fn items : list Z) : bool :=
    bytes_eqb items (s2z "r.outbound") || bytes_eqb items (s2z "r.inbound")
    || bytes_eqb items (s2z "items=r.receiverItems(fType)")
    || bytes_eqb items (s2z "items=r.outbound;items = r.inbound")
    || (bytes_eqb items (s2z "rfs.outboundRelayItems") &&
        existsb (fun row => let '(_, f, v) := row in bytes_eqb f (s2z "outboundRelayItems") && bytes_eqb v (s2z "r.outbound")) sender_lit).

  Definition fails_ok : bool :=
    forallb (fun row => let '(fn, callee, items, id, _) := row in
      own_table fn items && idsp_eqb (adj callee (space_of fn id)) SpOwn) fail_sites.

  Definition syserrs_ok : bool :=
    forallb (fun row => let '(fn, rcv, id) := row in
      bytes_eqb rcv (s2z "r.conn") && idsp_eqb (space_of fn id) SpOwn) syserr_sites.

  (* every frame that reaches a Receive carries the receiving relayer's id *)
  Definition receive_ok : bool := idsp_eqb (fs (s2z "Relayer.Receive")) SpOwn.

  (* the fragment sender is built from its creator's own relayer; methods with an id parameter
     escape as values only into the timer pool and into the fragment sender *)
  Definition lit_has (f v : list Z) : bool :=
    existsb (fun row => let '(fn, f', v') := row in
      bytes_eqb fn (s2z "Relayer.newFragmentSender") && bytes_eqb f' f && bytes_eqb v' v) sender_lit.
  Definition funcvals_ok : bool :=
    lit_has (s2z "failRelayItemFunc") (s2z "r.failRelayItem") && lit_has (s2z "outboundRelayItems") (s2z "r.outbound")
    && lit_has (s2z "callReq") (s2z "cr") && lit_has (s2z "origID") (s2z "origID")
    && (zlen sender_lit =? 7)
    && forallb (fun row => let '(fn, v, ctx) := row in
         (bytes_eqb v (s2z "r.timeoutRelayItem") && bytes_eqb ctx (s2z "arg of newRelayTimerPool"))
         || (bytes_eqb v (s2z "r.failRelayItem") && bytes_eqb ctx (s2z "key failRelayItemFunc"))) funcvals.

  Definition id_discipline : bool :=
    args_ok && stores_ok && fails_ok && syserrs_ok && receive_ok && funcvals_ok
    && negb (zlen fail_sites =? 0) && negb (zlen syserr_sites =? 0).
End Tables.

(* ---------------------------------------------------------------- the model's copy of the site tables *)

(* every call of failRelayItem: (function, callee, items, resolved id, reason).  As instructions of
   Model/RelayItems.v (k = the reader's connection, f = the frame as read, own = (k, table, f_id f)):
     1 Relayer.Receive            IRcvEnq without room: IFailGet rk, rk = the receiving relayer's key of
                                  the frame as handed over (receiver's connection, its table, the frame's id)
     2 Relayer.handleCallReq      IAddOrig with a failing fragmentingSend: IFailGet own (arg2 modify failed)
     3 Relayer.handleCallReq      the unsent call req: after_unsent r, r_own r = own
     4 Relayer.handleNonCallReq   the unsent continuation / response / cancel frame: after_unsent r, r_own r = own
     5 flushFragment              the unsent re-fragmented frame n: after_unsent r with the r_own of the call req *)
Definition ri_fail_rows : list (list Z * list Z * list Z * list Z * list Z) :=
  [ (s2z "Relayer.Receive", s2z "r.failRelayItem", s2z "items=r.receiverItems(fType)", s2z "id=f.Header.ID@pre", s2z "err");
    (s2z "Relayer.handleCallReq", s2z "r.failRelayItem", s2z "r.outbound", s2z "origID=f.Header.ID@pre", s2z "_relayArg2ModifyFailed");
    (s2z "Relayer.handleCallReq", s2z "r.failRelayItem", s2z "r.outbound", s2z "origID=f.Header.ID@pre", s2z "failure");
    (s2z "Relayer.handleNonCallReq", s2z "r.failRelayItem", s2z "items=r.outbound;items = r.inbound", s2z "originalID=f.Header.ID@pre", s2z "failure");
    (s2z "relayFragmentSender.flushFragment", s2z "rfs.failRelayItemFunc", s2z "rfs.outboundRelayItems",
     s2z "field:relayFragmentSender.origID(rfs.origID)", s2z "failure") ].

(* every call of SendSystemError in the relay files: (function, receiver, resolved id).  In the model:
     1-2 getDestination      IGetDest: ISendErr k (f_id f)   (no peer / connect failed)
     3   handleCallReq       IStart:   ISendErr k (f_id f)   (RelayHost.Start error)
     4   handleCallReq       ICanHandle: ISendErr k (f_id f) (client connection not active)
     5   handleCallReq       IRemoteCan: ISendErr k (f_id f) (selected remote not active)
     6   timeoutRelayItem    IEntomb t (FromTimeout true): ISendErr (key_conn t) (key_id t)
     7   failRelayItem       IEntomb t (FromFail reason):  ISendErr (key_conn t) (key_id t)
     8   handleLocalCallReq  (local handlers are outside the model) *)
Definition ri_syserr_rows : list (list Z * list Z * list Z) :=
  [ (s2z "Relayer.getDestination", s2z "r.conn", s2z "f.Header.ID@pre");
    (s2z "Relayer.getDestination", s2z "r.conn", s2z "f.Header.ID@pre");
    (s2z "Relayer.handleCallReq", s2z "r.conn", s2z "f.Header.ID@pre");
    (s2z "Relayer.handleCallReq", s2z "r.conn", s2z "f.Header.ID@pre");
    (s2z "Relayer.handleCallReq", s2z "r.conn", s2z "f.Header.ID@pre");
    (s2z "Relayer.timeoutRelayItem", s2z "r.conn", s2z "param:id");
    (s2z "Relayer.failRelayItem", s2z "r.conn", s2z "param:id");
    (s2z "Relayer.handleLocalCallReq", s2z "r.conn", s2z "f.Header.ID@pre{f=cr.Frame}") ].

(* the literal of the re-fragmenting sender (newFragmentSender): the relayer, the table and the id the
   sender fails when a fragment cannot be queued are those of the call req's OWN side *)
Definition ri_lit_rows : list (list Z * list Z * list Z) :=
  [ (s2z "Relayer.newFragmentSender", s2z "callReq", s2z "cr");
    (s2z "Relayer.newFragmentSender", s2z "framePool", s2z "r.conn.opts.FramePool");
    (s2z "Relayer.newFragmentSender", s2z "frameReceiver", s2z "dstRelay");
    (s2z "Relayer.newFragmentSender", s2z "failRelayItemFunc", s2z "r.failRelayItem");
    (s2z "Relayer.newFragmentSender", s2z "outboundRelayItems", s2z "r.outbound");
    (s2z "Relayer.newFragmentSender", s2z "origID", s2z "origID");
    (s2z "Relayer.newFragmentSender", s2z "sentReporter", s2z "sentReporter") ].

(* ---- the meaning of a fail-site row for the model: the key of the failed item ----
   k / dir / id: the failing relayer's connection, the table it uses for the frame and the id of the
   frame as it was handed to the function; rid: the id of the call on the other connection *)
Definition site_key (sp : idsp) (k dir id rid : Z) : option (Z * Z * Z) :=
  match sp with
  | SpOwn => Some (k, dir, id)
  | SpRemote => Some (k, dir, rid)
  | SpBad => None
  end.

(* names used by statements *)
Definition ri_rconn : list Z := s2z "r.conn".
Definition ri_fn_receive : list Z := s2z "Relayer.Receive".
Definition ri_fn_newsender : list Z := s2z "Relayer.newFragmentSender".
Definition ri_field_origid : list Z := s2z "relayFragmentSender.origID".
Definition ri_txt_cr_hdr : list Z := s2z "cr.Header.ID@pre".
