(* Interleaving kernel used by the C07 models (connection close, channel close, listener).
   A system is a state type with an executable [step : St -> Lbl -> option St]
   ([None] = that label is not enabled).  Threads are kept in a list; the thread id is the
   position in the list (threads are only ever appended), so ids are unique by construction. *)
From Coq Require Import List.
Import ListNotations.

Definition run {St Lbl : Type} (step : St -> Lbl -> option St) (s : St) (ls : list Lbl) : option St :=
  fold_left (fun o l => match o with Some s' => step s' l | None => None end) ls (Some s).

Definition Reach {St Lbl : Type} (step : St -> Lbl -> option St) (init s : St) : Prop :=
  exists ls, run step init ls = Some s.

(* replace the element at position [n] (no effect when [n] is out of range) *)
Fixpoint upd {A : Type} (l : list A) (n : nat) (x : A) : list A :=
  match l, n with
  | [], _ => []
  | _ :: r, O => x :: r
  | y :: r, S n' => y :: upd r n' x
  end.

Definition count_if {A : Type} (f : A -> bool) (l : list A) : nat := length (filter f l).
