(* Meaning of the channel programs of Spec/ChanProg.v on the exchange model of Model/Mex.v, and
   the interleaving system whose connection reader and receiver ARE two such programs.

   A program runs on one exchange [e] and a current frame (the frame being forwarded, resp. the
   frame just taken off recvCh).  One atomic action of the goroutine is
     - the run from the function's entry up to its return or up to the select without default
       at which it parks ([prun] from the entry: the labels LFwdCheck / LRecvCheck of Mex.v), or
     - one enabled communication of that select followed by the run of its arm up to the
       return ([psel_step]: LFwdSend / LFwdCtxDone / LFwdErr, LRecvFrame / LRecvCtxDone / LRecvErr).
   A select WITH default takes its only ready case, the default if none is ready; with two
   ready cases Go chooses at random -- outside the subset ([OStuck]).
   [prog_step_obs pf pr] is Mex.v's [step_obs true] with the forwarder's and the receiver's
   labels interpreted by the programs [pf] and [pr]; Proofs/MexProgP.v proves that for the
   programs regenerated from mex.go it IS [step_obs true]. *)
From Coq Require Import ZArith List Bool.
From Verif Require Import Base.Wrap Base.Wire Gen.GenConsts Gen.GenMex Spec.ChanProg Model.Mex.
Import ListNotations.
Local Open Scope Z_scope.

Record pstate := mkPS { ps_e : mex; ps_cur : option frame; ps_changed : bool }.

Inductive pout :=
| ORet (ps : pstate) (r : cres)
| OBlock (arms : list (cguard * cprog))
| OStuck.

Definition ptest (t : ctest) (ps : pstate) : option bool :=
  match t with
  | TCtxErr => Some (negb (m_ctx (ps_e ps) =? 0))
  | TDropped => Some (m_dropped (ps_e ps))
  | TBadFrame => match ps_cur ps with
                 | Some f => Some (negb (mexCheckFrame (f_id f) (m_id (ps_e ps)) =? 0))
                 | None => None
                 end
  end.

(* one communication: None = not ready *)
Definition pfire (g : cguard) (ps : pstate) : option pstate :=
  let e := ps_e ps in
  match g with
  | GSend => match ps_cur ps with
             | Some f => if zlen (m_queue e) <? m_cap e then Some (mkPS (enqueue f e) (ps_cur ps) true) else None
             | None => None
             end
  | GRecv => match m_queue e with
             | f :: q => Some (mkPS (set_queue q e) (Some f) true)
             | [] => None
             end
  | GCtxDone => if negb (m_ctx e =? 0) then Some ps else None
  | GErrCh => if negb (m_err e =? 0) then Some ps else None
  end.

Definition ready (arms : list (cguard * cprog)) (ps : pstate) : list (pstate * cprog) :=
  flat_map (fun a => match pfire (fst a) ps with Some ps' => [(ps', snd a)] | None => [] end) arms.

Fixpoint prun (fuel : nat) (p : cprog) (ps : pstate) : pout :=
  match fuel with
  | O => OStuck
  | S fuel' =>
      match p with
      | PRet r => ORet ps r
      | PIf t a b => match ptest t ps with
                     | Some true => prun fuel' a ps
                     | Some false => prun fuel' b ps
                     | None => OStuck
                     end
      | PSel arms None => OBlock arms
      | PSel arms (Some d) =>
          match ready arms ps with
          | [] => prun fuel' d ps
          | [(ps', body)] => prun fuel' body ps'
          | _ => OStuck
          end
      | PSetDropped k => prun fuel' k (mkPS (set_dropped true (ps_e ps)) (ps_cur ps) true)
      | PCtxHook k => prun fuel' k ps
      end
  end.

(* the select without default the goroutine parks at: the function must have exactly one *)
Fixpoint blocking_selects (fuel : nat) (p : cprog) : list (list (cguard * cprog)) :=
  match fuel with
  | O => []
  | S fuel' =>
      match p with
      | PRet _ => []
      | PIf _ a b => blocking_selects fuel' a ++ blocking_selects fuel' b
      | PSel arms None => arms :: flat_map (fun a => blocking_selects fuel' (snd a)) arms
      | PSel arms (Some d) => flat_map (fun a => blocking_selects fuel' (snd a)) arms ++ blocking_selects fuel' d
      | PSetDropped k => blocking_selects fuel' k
      | PCtxHook k => blocking_selects fuel' k
      end
  end.

Definition pfuel : nat := 16.

Definition parked_at (p : cprog) : option (list (cguard * cprog)) :=
  match blocking_selects pfuel p with [arms] => Some arms | _ => None end.

Fixpoint arm_of (g : cguard) (arms : list (cguard * cprog)) : option cprog :=
  match arms with
  | [] => None
  | (g', b) :: r => if cguard_eqb g g' then Some b else arm_of g r
  end.

(* the communication [g] of the parked select, then its arm up to the return *)
Definition psel_step (p : cprog) (g : cguard) (ps : pstate) : option (pstate * cres) :=
  match parked_at p with
  | Some arms =>
      match arm_of g arms with
      | Some body =>
          match pfire g ps with
          | Some ps' => match prun pfuel body ps' with ORet ps'' r => Some (ps'', r) | _ => None end
          | None => None
          end
      | None => None
      end
  | None => None
  end.

(* what the goroutine observes *)
Definition res_obs (r : cres) (ps : pstate) : list Z :=
  let e := ps_e ps in
  match r with
  | RNil => [0]
  | RCtxErr => [ctx_err (m_ctx e)]
  | RLatched => [m_err e]
  | RFrame => match ps_cur ps with Some f => [0; f_tag f] | None => [] end
  | RUnexpected => [E_UNEXPECTED]
  end.

Definition put_mex (r : nat) (ps : pstate) (s : st) : st :=
  if ps_changed ps then upd_mex r (fun _ => ps_e ps) s else s.

(* the receiver leaves recvPeerFrame: the program counter is cleared, a returned frame is logged (ghost) *)
Definition recv_done (res : cres) (ps : pstate) : pstate :=
  let e1 := set_cpc false (ps_e ps) in
  match res, ps_cur ps with
  | RFrame, Some f => mkPS (g_receive f e1) (ps_cur ps) true
  | _, _ => mkPS e1 (ps_cur ps) true
  end.

Definition fwd_sel (pf : cprog) (g : cguard) (s : st) : option (st * list Z) :=
  match s_reader s with
  | RSelect f r =>
      match nth_error (s_mexes s) r with
      | Some e => match psel_step pf g (mkPS e (Some f) false) with
                  | Some (ps, res) => Some (set_reader RIdle (put_mex r ps s), res_obs res ps)
                  | None => None
                  end
      | None => None
      end
  | _ => None
  end.

Definition recv_sel (pr : cprog) (g : cguard) (r : nat) (s : st) : option (st * list Z) :=
  match nth_error (s_mexes s) r with
  | Some e =>
      if m_cpc e then
        match psel_step pr g (mkPS e None false) with
        | Some (ps, res) => Some (put_mex r (recv_done res ps) s, res_obs res ps)
        | None => None
        end
      else None
  | None => None
  end.

Definition prog_step_obs (pf pr : cprog) (s : st) (l : label) : option (st * list Z) :=
  match l with
  | LFwdCheck =>
      match s_reader s with
      | RLooked f (Some r) =>
          match nth_error (s_mexes s) r with
          | Some e =>
              match prun pfuel pf (mkPS e (Some f) false) with
              | ORet ps res => Some (set_reader RIdle (put_mex r ps s), res_obs res ps)
              | OBlock _ => Some (set_reader (RSelect f r) s, [])
              | OStuck => None
              end
          | None => None
          end
      | _ => None
      end
  | LFwdSend => fwd_sel pf GSend s
  | LFwdCtxDone => fwd_sel pf GCtxDone s
  | LFwdErr => fwd_sel pf GErrCh s
  | LRecvCheck r =>
      match nth_error (s_mexes s) r with
      | Some e =>
          if m_cpc e then None
          else match prun pfuel pr (mkPS e None false) with
               | ORet ps res => Some (put_mex r ps s, res_obs res ps)
               | OBlock _ => Some (upd_mex r (set_cpc true) s, [])
               | OStuck => None
               end
      | None => None
      end
  | LRecvFrame r => recv_sel pr GRecv r s
  | LRecvCtxDone r => recv_sel pr GCtxDone r s
  | LRecvErr r => recv_sel pr GErrCh r s
  | _ => step_obs true s l
  end.
