(* Property C20, wait sites: where the END OF A CONTEXT is turned into the call's error.

   The model is assembled from what go2v regenerates from the Go source on every run:
     Gen/GenCtxSites.v  ctx_sites   every `X.Err()` / `<-X.Done()` branch of package tchannel with the
                                    error expression each reachable return hands back ([cexpr])
                        wrap_sites  every NewWrappedSystemError(code, e) call
     Gen/GenCtxErr.v    connectDialErr, initErrorMap, outboundHandshakeErr, getConnLockErr/getConnTail,
                        getConnRelayLockErr/getConnRelayTail, peerBeginCallErr (error flow between the
                        consumer and the API caller)
     Gen/GenErrors.v    GetContextError, NewWrappedSystemError (through Model/ErrorPath.v)
   and from Model/ErrorPath.v's relay model (relay_handle_callreq).  Hand-written here: only the
   composition along the call path --
     Peer.BeginCall -> Peer.GetConnection -> lockNewConn | Channel.Connect -> ctx.Err() check | dialer |
                       outboundHandshake;  Connection.beginCall;  reqResWriter.flushFragment ->
                       messageExchange.checkError | select;  messageExchange.recvPeerFrame check | select
     Relayer.handleCallReq -> getDestination -> Peer.getConnectionRelay -> (the same connection path)
   -- and what the blocked primitive reports when the context ends there (the context's error at a
   select / ctx.Err() site, the dialer's own error at the dial, a net.Error timeout at the
   handshake, whose socket deadline is ctx.Deadline()).  No proofs in this file. *)
From Coq Require Import ZArith List Bool String.
From Verif Require Import Base.Wrap Base.Wire Base.Bytes Gen.GenConsts Gen.GenErrors Gen.GenCtxErr Gen.GenCtxSites
  Spec.CtxSiteSpec Model.ErrorPath.
Import ListNotations.
Local Open Scope Z_scope.

(* ---------------------------------------------------------------- evaluating a table expression *)
(* package-level error values a consumer may return *)
Definition cx_values : list (list Z * gerr) :=
  [ (lit "ErrTimeout", v_ErrTimeout);
    (lit "ErrRequestCancelled", v_ErrRequestCancelled);
    (lit "ErrServerBusy", v_ErrServerBusy);
    (lit "ErrTimeoutRequired", v_ErrTimeoutRequired);
    (lit "ErrChannelClosed", v_ErrChannelClosed);
    (lit "ErrConnectionClosed", v_ErrConnectionClosed) ].

Fixpoint cx_lookup (n : list Z) (t : list (list Z * gerr)) : option gerr :=
  match t with
  | [] => None
  | (k, v) :: r => if bytes_eqb n k then Some v else cx_lookup n r
  end.

(* functions that hand their argument back (go2v checks the shape of every CxPass callee: each
   return is the parameter or a receiver field the function assigns the parameter to); the sticky
   field is empty when a writer fails for the first time *)
Fixpoint cx_eval (e : cexpr) (c : gerr) : option gerr :=
  match e with
  | CxCtx => Some c
  | CxConv x => option_map get_context_error (cx_eval x c)
  | CxWrap code x => option_map (new_wrapped code) (cx_eval x c)
  | CxPass _ x => cx_eval x c
  | CxVal n => cx_lookup n cx_values
  | CxNil => Some ENil
  | CxOther _ => None
  end.

Definition ctx_err (e : ctx_end) : gerr :=
  match e with EndDeadline => ECtxDeadline | EndCanceled => ECtxCanceled end.

(* the error the branch [k] of function [fn] hands back when the context ended by [e]: every return
   of every matching row must agree; None = no such branch, no return, or an expression outside the
   vocabulary *)
Definition site_rows (fn : list Z) (k : ckind) (e : ctx_end) : list csite :=
  filter (fun s => bytes_eqb (cs_fn s) fn && ckind_eqb (cs_kind s) k && when_applies (cs_when s) e) ctx_sites.

Definition gerr_eqb (a b : gerr) : bool :=
  match a, b with
  | ENil, ENil | ECtxDeadline, ECtxDeadline | ECtxCanceled, ECtxCanceled | EEOF, EEOF => true
  | ESys c m, ESys c' m' => (c =? c') && bytes_eqb m m'
  | EOther m n, EOther m' n' => bytes_eqb m m' && (n =? n')
  | _, _ => false
  end.

Fixpoint all_agree (l : list (option gerr)) (v : gerr) : bool :=
  match l with
  | [] => true
  | Some x :: r => gerr_eqb x v && all_agree r v
  | None :: _ => false
  end.

Definition site_error (fn : list Z) (k : ckind) (e : ctx_end) : option gerr :=
  let vals := flat_map (fun s => map (fun r => cx_eval r (ctx_err e)) (cs_rets s)) (site_rows fn k e) in
  match vals with
  | Some v :: r => if all_agree r v then Some v else None
  | _ => None
  end.

(* ---------------------------------------------------------------- observations of an error value *)
(* context.DeadlineExceeded implements net.Error with Timeout() = true *)
Definition is_net (e : gerr) : bool :=
  match e with EOther _ n => negb (n =? 0) | ECtxDeadline => true | _ => false end.
Definition is_net_timeout (e : gerr) : bool :=
  match e with EOther _ n => n =? 2 | ECtxDeadline => true | _ => false end.
Definition is_eof (e : gerr) : bool := match e with EEOF => true | _ => false end.

(* Channel.initError *)
Definition init_error (e : gerr) : gerr :=
  initErrorMap is_nil is_net is_net_timeout is_eof ENil v_ErrTimeout (new_wrapped c_ErrCodeNetwork EEOF) e.

(* the read of the init res fails when the socket deadline (= ctx.Deadline()) passes *)
Definition io_timeout : gerr := EOther (lit "i/o timeout") 2.

(* ---------------------------------------------------------------- the call path *)
Inductive cstage :=
| GQueued      (* Peer.lockNewConn: behind another goroutine's connection attempt *)
| GPreDial     (* Channel.Connect: ctx.Err() check in front of the dial *)
| GDial        (* Channel.Connect: inside the dialer *)
| GHandshake   (* Channel.outboundHandshake: init req written, init res not received *)
| GBeginCall   (* Connection.beginCall: ctx.Err() check *)
| GFlushCheck  (* reqResWriter.flushFragment -> messageExchange.checkError *)
| GFlushWait   (* reqResWriter.flushFragment: select on a full send queue *)
| GRecvCheck   (* messageExchange.recvPeerFrame: first check *)
| GRecvWait.   (* messageExchange.recvPeerFrame: select *)

Definition fn_lockNewConn := lit "Peer.lockNewConn".
Definition fn_Connect := lit "Channel.Connect".
Definition fn_beginCall := lit "Connection.beginCall".
Definition fn_checkError := lit "messageExchange.checkError".
Definition fn_flushFragment := lit "reqResWriter.flushFragment".
Definition fn_recvPeerFrame := lit "messageExchange.recvPeerFrame".
Definition fn_forwardPeerFrame := lit "messageExchange.forwardPeerFrame".
Definition fn_getDestination := lit "Relayer.getDestination".

(* does the outbound handshake's deferred error mapping (a function literal of
   Channel.outboundHandshake) test the context for cancellation?  On the pinned tree it does not
   (finding c20:handshake-ignores-cancel); the proposed fix adds `if ctx.Err() == context.Canceled`. *)
Fixpoint bytes_prefixb (p l : list Z) : bool :=
  match p, l with
  | [], _ => true
  | x :: p', y :: l' => (x =? y) && bytes_prefixb p' l'
  | _ :: _, [] => false
  end.
Definition handshake_sees_cancel : bool :=
  existsb (fun s => bytes_prefixb (lit "Channel.outboundHandshake$") (cs_fn s) && ckind_eqb (cs_kind s) KErrIf &&
                    match cs_when s with WCanceled => true | _ => false end) ctx_sites.

(* Channel.Connect when the context ends at [st]; [de] = what the dialer returned *)
Definition connect_error (st : cstage) (e : ctx_end) (de : gerr) : option gerr :=
  match st with
  | GPreDial => site_error fn_Connect KErrIf e
  | GDial =>
      Some (connectDialErr is_nil is_net is_net_timeout (is_canceled (ctx_err e))
              v_ErrTimeout v_ErrRequestCancelled get_context_error de)
  | GHandshake =>
      (* nothing in the handshake waits on ctx.Done(): the read ends when the socket deadline
         passes -- also for a context that was cancelled earlier; the deferred mapping then
         reports the cancellation only if it tests the context (see handshake_sees_cancel) *)
      Some (outboundHandshakeErr init_error
              match e with
              | EndDeadline => io_timeout
              | EndCanceled => if handshake_sees_cancel then v_ErrRequestCancelled else io_timeout
              end)
  | _ => None
  end.

(* Peer.GetConnection / Peer.getConnectionRelay (no active connection before or after the lock) *)
Definition get_connection_error (relay : bool) (st : cstage) (e : ctx_end) (de : gerr) : option gerr :=
  let lockf := if relay then @getConnRelayLockErr gerr else @getConnLockErr gerr in
  let tailf := if relay then @getConnRelayTail gerr else @getConnTail gerr in
  match st with
  | GQueued => option_map (fun le => lockf is_nil ENil le) (site_error fn_lockNewConn KDone e)
  | GPreDial | GDial | GHandshake =>
      match lockf is_nil ENil ENil with
      | ENil => option_map (fun ce => tailf ENil false ce) (connect_error st e de)
      | le => Some le
      end
  | _ => None
  end.

(* the error an API caller gets (Peer.BeginCall, argument writers, response readers) *)
Definition call_error (st : cstage) (e : ctx_end) (de : gerr) : option gerr :=
  match st with
  | GQueued | GPreDial | GDial | GHandshake =>
      option_map (fun ce => peerBeginCallErr is_nil ENil ce ENil) (get_connection_error false st e de)
  | GBeginCall =>
      match e with
      | EndDeadline => Some (peerBeginCallErr is_nil ENil ENil (begin_call c_connectionActive true true ENil))
      | EndCanceled => option_map (fun be => peerBeginCallErr is_nil ENil ENil be) (site_error fn_beginCall KErrIf e)
      end
  | GFlushCheck => site_error fn_checkError KErrIf e
  | GFlushWait => site_error fn_flushFragment KDone e
  | GRecvCheck => site_error fn_recvPeerFrame KErrIf e
  | GRecvWait => site_error fn_recvPeerFrame KDone e
  end.

(* the relay: Relayer.getDestination hands getConnectionRelay's error to SendSystemError wrapped as a
   network error (wrap_sites row of Relayer.getDestination); the rest of handleCallReq is
   Model/ErrorPath.v's relay_handle_callreq *)
Definition relay_wrap_code : option Z :=
  match filter (fun w => bytes_eqb (fst (fst w)) fn_getDestination) wrap_sites with
  | [(_, code, arg)] => if bytes_eqb arg (lit "err") then Some code else None
  | _ => None
  end.

Definition relay_connect_result (st : cstage) (de : gerr) : option relay_res :=
  match get_connection_error true st EndDeadline de, relay_wrap_code with
  | Some ce, Some code =>
      if code =? c_ErrCodeNetwork then
        Some (relay_handle_callreq (mkEnv false false ENil false c_connectionActive false true ce c_connectionActive))
      else None
  | _, _ => None
  end.

(* ---------------------------------------------------------------- harness entry point *)
Definition stage_of (n : Z) : option cstage :=
  match n with
  | 0 => Some GQueued | 1 => Some GPreDial | 2 => Some GDial | 3 => Some GHandshake | 4 => Some GBeginCall
  | 5 => Some GFlushCheck | 6 => Some GFlushWait | 7 => Some GRecvCheck | 8 => Some GRecvWait
  | _ => None
  end.
Definition end_of (n : Z) : option ctx_end :=
  match n with 1 => Some EndDeadline | 2 => Some EndCanceled | _ => None end.

(* what the harness's dialer returns once the context ended: variant 0 the context's error,
   variant 1 the error of the real net.Dialer (deadline: "i/o timeout", a net.Error timeout;
   cancellation: "operation was canceled", a net.Error that is no timeout).  Only its class
   matters; the text is not compared. *)
Definition dial_error (e : ctx_end) (variant : Z) : gerr :=
  if Z.even variant then ctx_err e
  else match e with
       | EndDeadline => EOther (lit "dial: i/o timeout") 2
       | EndCanceled => EOther (lit "dial: operation was canceled") 1
       end.

(* input: site end topology variant
   topology 0 / 1 (caller's error, directly / with a relay behind the caller's connection): put_gerr
   topology 2 (error frame a relay originates): [1; code; message] | [0] no frame *)
Definition run_c20_ctxsite (c : list Z) : list Z :=
  match c with
  | s :: en :: topo :: variant :: _ =>
      match stage_of s, end_of en with
      | Some st, Some e =>
          if topo =? 2 then
            match relay_connect_result st (dial_error EndDeadline variant) with
            | Some (RRError err _) =>
                match sys_message err with
                | Some m => 1 :: sys_code err :: put_bytes m
                | None => [-3]
                end
            | Some _ => [0]
            | None => [-2]
            end
          else
            match call_error st e (dial_error e variant) with
            | Some err => put_gerr err
            | None => [-2]
            end
      | _, _ => [-1]
      end
  | _ => [-1]
  end.
