(* Hand model of the relayTimer protocol of relay_timer_pool.go at the level of ONE timer record
   (property C10, strengthening V10).

   Model/RelayItems.v carries the timers inside its state (timer_stop / timer_release / timer_new,
   the instruction ITimerRun, the label LFire).  The functions below are the same steps on a single
   [timer] record, written after the Go methods, with the Go panics made explicit:

     tstep_stop     relayTimer.Stop      result (timer afterwards, the bool Stop returns)
     tstep_ontimer  relayTimer.OnTimer   result (timer afterwards, parameters handed to the trigger)
     tstep_release  relayTimer.Release
     tstep_start    relayTimerPool.Get + relayTimer.Start on a timer that is not in use

   [tm_armed] stands for the Go runtime timer being pending: rt.timer.Stop() returns it and clears
   it, rt.timer.Reset(d) returns it and sets it, the runtime clears it when it starts OnTimer (label
   LFire of Model/RelayItems.v).

   Proofs/C10TimerP.v: (1) the definitions regenerated from the source (Gen/GenC10Timer.v) compute
   exactly these steps for all inputs, (2) Model/RelayItems.v performs exactly these steps on the
   timer it looks up.  No proofs in this file. *)
From Coq Require Import ZArith List Bool.
From Verif Require Import Base.Wrap Gen.GenConsts Model.RelayItems.
Import ListNotations.
Local Open Scope Z_scope.

Definition with_flags (t : timer) (armed active stopped released : bool) : timer :=
  {| tm_armed := armed; tm_active := active; tm_stopped := stopped; tm_released := released;
     tm_key := tm_key t; tm_orig := tm_orig t |}.

(* a Go panic (its code as in Model/RelayItems.v) or a value *)
Inductive gores (A : Type) := GoPanic (code : Z) | GoOk (a : A).
Arguments GoPanic {A} code.
Arguments GoOk {A} a.

(* relayTimer.Stop:
     rt.verifyNotReleased()
     if rt.stopped { return true }
     stopped := rt.timer.Stop()
     if stopped { rt.stopped = true; rt.markTimerInactive() }
     return stopped *)
Definition tstep_stop (t : timer) : gores (timer * bool) :=
  if tm_released t then GoPanic panic_released
  else if tm_stopped t then GoOk (t, true)
  else if tm_armed t then GoOk (with_flags t false false true (tm_released t), true)
  else GoOk (t, false).

(* relayTimer.OnTimer (runs after the runtime cleared the pending bit):
     rt.verifyNotReleased()
     items, id, isOriginator := rt.items, rt.id, rt.isOriginator
     rt.markTimerInactive()
     rt.pool.trigger(items, id, isOriginator) *)
Definition tstep_ontimer (t : timer) : gores (timer * (key * bool)) :=
  if tm_released t then GoPanic panic_released
  else GoOk (with_flags t (tm_armed t) false (tm_stopped t) (tm_released t), (tm_key t, tm_orig t)).

(* relayTimer.Release:
     rt.verifyNotReleased()
     if rt.active { panic(..) }
     rt.released = true *)
Definition tstep_release (t : timer) : gores timer :=
  if tm_released t then GoPanic panic_released
  else if tm_active t then GoPanic panic_release_active
  else GoOk (with_flags t (tm_armed t) (tm_active t) (tm_stopped t) true).

(* relayTimerPool.Get (recycled: released = false; fresh: every flag false) followed by
   relayTimer.Start(d, items, id, isOriginator):
     rt.verifyNotReleased()
     if rt.active { panic(..) }
     rt.active = true; rt.stopped = false; rt.id = id; rt.isOriginator = isOriginator
     if wasActive := rt.timer.Reset(d); wasActive { panic(..) } *)
Definition panic_start := 5.          (* "Tried to start an already-active timer" / "... Started multiple times without Stop" *)
Definition tstep_start (t : timer) (recycled : bool) (k : key) (orig : bool) : gores timer :=
  let released := if recycled then false else tm_released t in
  if released then GoPanic panic_released
  else if tm_active t then GoPanic panic_start
  else if tm_armed t then GoPanic panic_start
  else GoOk {| tm_armed := true; tm_active := true; tm_stopped := false; tm_released := released;
               tm_key := k; tm_orig := orig |}.

(* a timer object as relayTimerPool.Get creates it *)
Definition fresh_timer : timer :=
  {| tm_armed := false; tm_active := false; tm_stopped := false; tm_released := false;
     tm_key := (0, 0, 0); tm_orig := false |}.
