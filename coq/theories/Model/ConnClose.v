(* Hand model of the close state machine of one tchannel Connection, as an interleaving
   system (one label = one atomic action of the Go code: one lock-protected region, one
   atomic operation, one channel operation).

   Go code modelled (connection.go, inbound.go, outbound.go, mex.go, relay.go):
     Connection.close / Close            PClose, PCloseCb, then checkExchanges
     Connection.checkExchanges           PCE0 .. PCE10
     Connection.connectionError          PClose KFail, PFailCAS, PFailStopOut, PFailStopIn, checkExchanges
     Connection.protocolError            PProtoSend, PClose (KProto id), PProtoCAS, PProtoStopOut, PProtoStopIn
     Connection.SendSystemError          [send_err]: under the state read-lock, nothing is sent once Closed
     Connection.handleCallReq            PR1 .. PR5 (check - newExchange - re-check; the re-check branch is the
                                         REPAIRED code: it sends the declined error, then shuts the exchange down)
     Connection.beginCall                PC1 .. PC4 (check - NextMessageID+newExchange - re-check)
     messageExchangeSet.newExchange/addExchange, removeExchange, expireExchange, count, stopExchanges
     Relayer.canHandleNewCall            PRel1 (state test and pending.Inc() under the state read-lock)
     Relayer.decrementPending, canClose  PRelLive, PCE3/PCE6
     InboundCallResponse.SendSystemError PErr, PErrRm (a handler answers with a system error: the REPAIRED order --
                                         conn.SendSystemError first, then doneSending -> mex.shutdown)
     Connection.handlePingReq            PPing, PPong (the REPAIRED test: only a Closed connection refuses a ping)

   Thread-local values that live across atomic steps are in the program counter
   (curState/origState of checkExchanges, the message id of a request).
   Local control flow that touches no shared variable is folded into the preceding step.

   Not modelled (stated as assumptions of the check): the send buffer is never full
   (SendSystemError's default branch), the initial fragment of a call req parses,
   NextMessageID and the outbound newExchange are one step (the fresh id is thread-local
   until it is registered), the outbound expiredExchanges map stays empty (expireExchange is
   only called for inbound exchanges), health checks are off. *)
From Coq Require Import ZArith List Bool.
From Verif Require Import Base.Wrap Base.Wire Gen.GenConsts Model.CloseKernel.
Import ListNotations.
Local Open Scope Z_scope.

(* connection states and error codes: the numeric values are regenerated from source *)
Definition sA : Z := c_connectionActive.
Definition sSC : Z := c_connectionStartClose.
Definition sIC : Z := c_connectionInboundClosed.
Definition sCl : Z := c_connectionClosed.
Definition eDeclined : Z := c_ErrCodeDeclined.
Definition eProtocol : Z := c_ErrCodeProtocol.

(* shared variables of the connection (+ ghost history: the fields named g_...) *)
Record shared := mkSh {
  st : Z;                         (* c.state *)
  inb : list (Z * bool);          (* c.inbound.exchanges: message id, ghost flag "dispatched to a handler" *)
  inb_exp : list Z;               (* c.inbound.expiredExchanges *)
  inb_shut : bool;                (* c.inbound.shutdown *)
  outb : list (Z * bool);         (* c.outbound.exchanges: message id, ghost flag "beginCall returned the call" *)
  outb_shut : bool;               (* c.outbound.shutdown *)
  next_id : Z;                    (* c.nextMessageID *)
  has_relay : bool;               (* c.relay != nil *)
  pending : Z;                    (* c.relay.pending *)
  stopped : bool;                 (* c.stoppedExchanges *)
  g_stop_closes : Z;              (* ghost: number of close(c.stopCh) executed *)
  g_replies : list (nat * Z * Z); (* ghost: error frames put on sendCh: (thread, message id, error code) *)
  g_live : list nat;              (* ghost: relay threads that incremented pending and did not decrement yet *)
  g_cbs : Z                       (* ghost: number of OnCloseStateChange callbacks invoked *)
}.

Definition set_st s v := mkSh v (inb s) (inb_exp s) (inb_shut s) (outb s) (outb_shut s) (next_id s) (has_relay s) (pending s) (stopped s) (g_stop_closes s) (g_replies s) (g_live s) (g_cbs s).
Definition set_inb s v := mkSh (st s) v (inb_exp s) (inb_shut s) (outb s) (outb_shut s) (next_id s) (has_relay s) (pending s) (stopped s) (g_stop_closes s) (g_replies s) (g_live s) (g_cbs s).
Definition set_inb_exp s v := mkSh (st s) (inb s) v (inb_shut s) (outb s) (outb_shut s) (next_id s) (has_relay s) (pending s) (stopped s) (g_stop_closes s) (g_replies s) (g_live s) (g_cbs s).
Definition set_inb_shut s v := mkSh (st s) (inb s) (inb_exp s) v (outb s) (outb_shut s) (next_id s) (has_relay s) (pending s) (stopped s) (g_stop_closes s) (g_replies s) (g_live s) (g_cbs s).
Definition set_outb s v := mkSh (st s) (inb s) (inb_exp s) (inb_shut s) v (outb_shut s) (next_id s) (has_relay s) (pending s) (stopped s) (g_stop_closes s) (g_replies s) (g_live s) (g_cbs s).
Definition set_outb_shut s v := mkSh (st s) (inb s) (inb_exp s) (inb_shut s) (outb s) v (next_id s) (has_relay s) (pending s) (stopped s) (g_stop_closes s) (g_replies s) (g_live s) (g_cbs s).
Definition set_next_id s v := mkSh (st s) (inb s) (inb_exp s) (inb_shut s) (outb s) (outb_shut s) v (has_relay s) (pending s) (stopped s) (g_stop_closes s) (g_replies s) (g_live s) (g_cbs s).
Definition set_pending s v l := mkSh (st s) (inb s) (inb_exp s) (inb_shut s) (outb s) (outb_shut s) (next_id s) (has_relay s) v (stopped s) (g_stop_closes s) (g_replies s) l (g_cbs s).
Definition set_stopped s v := mkSh (st s) (inb s) (inb_exp s) (inb_shut s) (outb s) (outb_shut s) (next_id s) (has_relay s) (pending s) v (g_stop_closes s) (g_replies s) (g_live s) (g_cbs s).
Definition set_stop_closes s v := mkSh (st s) (inb s) (inb_exp s) (inb_shut s) (outb s) (outb_shut s) (next_id s) (has_relay s) (pending s) (stopped s) v (g_replies s) (g_live s) (g_cbs s).
Definition set_replies s v := mkSh (st s) (inb s) (inb_exp s) (inb_shut s) (outb s) (outb_shut s) (next_id s) (has_relay s) (pending s) (stopped s) (g_stop_closes s) v (g_live s) (g_cbs s).
Definition set_cbs s v := mkSh (st s) (inb s) (inb_exp s) (inb_shut s) (outb s) (outb_shut s) (next_id s) (has_relay s) (pending s) (stopped s) (g_stop_closes s) (g_replies s) (g_live s) v.

(* exchange maps as association lists *)
Definition has_key (id : Z) (l : list (Z * bool)) : bool := existsb (fun e => fst e =? id) l.
Definition del_key (id : Z) (l : list (Z * bool)) : list (Z * bool) := filter (fun e => negb (fst e =? id)) l.
Definition set_flag (id : Z) (l : list (Z * bool)) : list (Z * bool) :=
  map (fun e => if fst e =? id then (fst e, true) else e) l.
Definition memz (id : Z) (l : list Z) : bool := existsb (fun x => x =? id) l.
Definition delz (id : Z) (l : list Z) : list Z := filter (fun x => negb (x =? id)) l.
Definition deln (n : nat) (l : list nat) : list nat := filter (fun x => negb (Nat.eqb x n)) l.

(* what a thread does after the sub-procedure it is in returns *)
Inductive cont :=
| KDone (o id : Z)      (* the thread finishes with outcome o *)
| KCloser               (* Connection.Close(): return nil / the "must be Active" error *)
| KFail                 (* connectionError: continue with stoppedExchanges.CAS *)
| KProto (id : Z).      (* protocolError: continue with stoppedExchanges.CAS *)

(* outcomes of finished threads *)
Definition oCloseOk : Z := 50.     Definition oCloseErr : Z := 51.
Definition oFailed : Z := 60.      Definition oChecked : Z := 70.
Definition oDispatched : Z := 10.  Definition oRefused1 : Z := 11.
Definition oRefused2 : Z := 12.    Definition oProto : Z := 13.
Definition oBegun : Z := 20.       Definition oCClosed1 : Z := 21.
Definition oCClosed2 : Z := 22.    Definition oCShut : Z := 23.   Definition oCDup : Z := 24.
Definition oRelDone : Z := 30.     Definition oRelRefused : Z := 31.  Definition oRelRemote : Z := 32.
Definition oRemoved : Z := 40.     Definition oNotFound : Z := 41.
Definition oPong : Z := 80.
(* a handler that answered with system error [code] (one byte): outcome oErrBase + code *)
Definition oErrBase : Z := 100.
Definition code_ok (code : Z) : bool := (0 <=? code) && (code <=? 255).

Inductive pc :=
| PDone (o id : Z)
(* c.close() *)
| PClose (k : cont)                 (* next: the state-lock region of close() *)
| PCloseCb (k : cont)               (* next: callOnCloseStateChange, then checkExchanges *)
(* c.checkExchanges() *)
| PCE0 (k : cont)                   (* next: curState := c.readState() *)
| PCE1 (cur : Z) (k : cont)         (* next: c.stoppedExchanges.Load()   (origState = cur) *)
| PCE2 (cur : Z) (k : cont)         (* next: moveState(cur, Closed)      (cur <> Closed, origState = cur) *)
| PCE3 (k : cont)                   (* cur = orig = StartClose; next: c.relay.canClose() *)
| PCE4 (k : cont)                   (* next: c.inbound.count() *)
| PCE5 (k : cont)                   (* next: moveState(StartClose, InboundClosed) *)
| PCE6 (moved : bool) (k : cont)    (* cur = InboundClosed, orig = if moved then StartClose else InboundClosed; next: canClose() *)
| PCE7 (moved : bool) (k : cont)    (* next: c.outbound.count() *)
| PCE8 (moved : bool) (k : cont)    (* next: moveState(InboundClosed, Closed) *)
| PCE9 (k : cont)                   (* cur = Closed <> orig; next: close(c.stopCh) *)
| PCE10 (k : cont)                  (* cur <> orig; next: callOnCloseStateChange *)
(* connectionError after close() returned *)
| PFailCAS | PFailStopOut | PFailStopIn
(* protocolError(id) *)
| PProtoSend (id : Z) | PProtoCAS (id : Z) | PProtoStopOut (id : Z) | PProtoStopIn (id : Z)
(* handleCallReq(frame id) *)
| PR1 (id : Z)                      (* next: c.readState() *)
| PRRef (id : Z)                    (* next: SendSystemError(id, ErrChannelClosed) *)
| PR2 (id : Z)                      (* [inbound.afterStateCheck] next: c.inbound.newExchange *)
| PR3 (id : Z)                      (* [inbound.afterNewExchange] next: c.readState() (re-check) *)
| PR4 (id : Z)                      (* next: SendSystemError(id, ErrChannelClosed) *)
| PR5 (id : Z)                      (* next: mex.shutdown() -> removeExchange *)
(* beginCall *)
| PC1                               (* next: c.readState() *)
| PC2                               (* [outbound.afterStateCheck] next: NextMessageID + c.outbound.newExchange *)
| PC3 (id : Z)                      (* [outbound.afterNewExchange] next: c.readState() (re-check) *)
| PC4 (id : Z)                      (* next: mex.shutdown() -> removeExchange *)
(* exchange removal by the owner of a call (response done, error, timeout, cancel) *)
| PRm (inbound : bool) (id : Z)     (* next: mexset.removeExchange(id) *)
| PExp (id : Z)                     (* next: c.inbound.expireExchange(id) *)
(* relayed call *)
| PRel1 (id : Z) (remote : bool)    (* next: canHandleNewCall() *)
| PRelRef (id : Z)                  (* next: SendSystemError(id, declined) *)
| PRelLive (id : Z)                 (* the call holds one unit of pending; next: decrementPending *)
(* the handler of a dispatched call answers with a system error (InboundCallResponse.SendSystemError) *)
| PErr (id code : Z)                (* next: response.conn.SendSystemError(id, code) *)
| PErrRm (id code : Z)              (* next: doneSending -> mex.shutdown() -> removeExchange *)
(* handlePingReq(frame id) *)
| PPing (id : Z)                    (* next: c.readState() *)
| PPong (id : Z).                   (* next: sendMessage(pingRes): sendCh <- frame (no state test) *)

Definition resume (k : cont) : pc :=
  match k with
  | KDone o id => PDone o id
  | KCloser => PDone oCloseOk 0
  | KFail => PFailCAS
  | KProto id => PProtoCAS id
  end.

(* "if curState != origState { if curState == Closed { close(stopCh) }; callOnCloseStateChange() }" *)
Definition ce_fin (changed closed : bool) (k : cont) : pc :=
  if changed then (if closed then PCE9 k else PCE10 k) else resume k.

(* control flow of checkExchanges after the stoppedExchanges block, with cur = orig *)
Definition ce_after2 (cur : Z) (k : cont) : pc :=
  if cur =? sSC then PCE3 k
  else if cur =? sIC then PCE6 false k
  else ce_fin false false k.

(* SendSystemError: under the state read-lock; on a closed connection no frame is queued *)
Definition send_err (s : shared) (tid : nat) (id code : Z) : shared :=
  if st s =? sCl then s else set_replies s (g_replies s ++ [(tid, id, code)]).

(* removeExchange: (new state, found-or-expired) *)
Definition remove_ex (inbound : bool) (id : Z) (s : shared) : shared * bool :=
  if inbound then
    if has_key id (inb s) then (set_inb s (del_key id (inb s)), true)
    else if memz id (inb_exp s) then (set_inb_exp s (delz id (inb_exp s)), true)
    else (s, false)
  else
    if has_key id (outb s) then (set_outb s (del_key id (outb s)), true) else (s, false).

(* one atomic step of thread [tid] at program counter [p] *)
Definition tstep (s : shared) (tid : nat) (p : pc) : option (shared * pc) :=
  match p with
  | PDone _ _ => None
  (* close(): withStateLock { switch state { case Active: state = StartClose; default: return error } } *)
  | PClose k =>
      if st s =? sA then Some (set_st s sSC, PCloseCb k)
      else Some (s, match k with KCloser => PDone oCloseErr 0 | _ => resume k end)
  | PCloseCb k => Some (set_cbs s (g_cbs s + 1), PCE0 k)
  (* checkExchanges *)
  | PCE0 k => Some (s, PCE1 (st s) k)
  | PCE1 cur k =>
      if negb (cur =? sCl) && stopped s then Some (s, PCE2 cur k) else Some (s, ce_after2 cur k)
  | PCE2 cur k =>
      if st s =? cur then Some (set_st s sCl, ce_fin true true k) else Some (s, ce_after2 cur k)
  | PCE3 k =>
      if has_relay s && negb (pending s =? 0) then Some (s, resume k) else Some (s, PCE4 k)
  | PCE4 k =>
      match inb s with [] => Some (s, PCE5 k) | _ => Some (s, ce_fin false false k) end
  | PCE5 k =>
      if st s =? sSC then Some (set_st s sIC, PCE6 true k) else Some (s, ce_fin false false k)
  | PCE6 moved k =>
      if has_relay s && negb (pending s =? 0) then Some (s, resume k) else Some (s, PCE7 moved k)
  | PCE7 moved k =>
      match outb s with [] => Some (s, PCE8 moved k) | _ => Some (s, ce_fin moved false k) end
  | PCE8 moved k =>
      if st s =? sIC then Some (set_st s sCl, ce_fin true true k) else Some (s, ce_fin moved false k)
  | PCE9 k => Some (set_stop_closes s (g_stop_closes s + 1), PCE10 k)
  | PCE10 k => Some (set_cbs s (g_cbs s + 1), resume k)
  (* connectionError: stoppedExchanges.CAS; outbound.stopExchanges; inbound.stopExchanges; checkExchanges *)
  | PFailCAS =>
      if stopped s then Some (s, PCE0 (KDone oFailed 0)) else Some (set_stopped s true, PFailStopOut)
  | PFailStopOut => Some (set_outb_shut s true, PFailStopIn)
  | PFailStopIn => Some (set_inb_shut s true, PCE0 (KDone oFailed 0))
  (* protocolError: SendSystemError; close(); CAS; stopExchanges x2 (no checkExchanges) *)
  | PProtoSend id => Some (send_err s tid id eProtocol, PClose (KProto id))
  | PProtoCAS id =>
      if stopped s then Some (s, PDone oProto id) else Some (set_stopped s true, PProtoStopOut id)
  | PProtoStopOut id => Some (set_outb_shut s true, PProtoStopIn id)
  | PProtoStopIn id => Some (set_inb_shut s true, PDone oProto id)
  (* handleCallReq *)
  | PR1 id => if st s =? sA then Some (s, PR2 id) else Some (s, PRRef id)
  | PRRef id => Some (send_err s tid id eDeclined, PDone oRefused1 id)
  | PR2 id =>
      if inb_shut s then Some (s, PProtoSend id)
      else if has_key id (inb s) then Some (s, PProtoSend id)
      else Some (set_inb s (inb s ++ [(id, false)]), PR3 id)
  | PR3 id =>
      if st s =? sA then Some (set_inb s (set_flag id (inb s)), PDone oDispatched id)
      else Some (s, PR4 id)
  | PR4 id => Some (send_err s tid id eDeclined, PR5 id)
  | PR5 id =>
      let '(s', found) := remove_ex true id s in
      if found then Some (s', PCE0 (KDone oRefused2 id)) else Some (s', PDone oRefused2 id)
  (* beginCall *)
  | PC1 => if st s =? sA then Some (s, PC2) else Some (s, PDone oCClosed1 0)
  | PC2 =>
      let id := next_id s + 1 in
      let s1 := set_next_id s id in
      if outb_shut s then Some (s1, PDone oCShut id)
      else if has_key id (outb s) then Some (s1, PDone oCDup id)
      else Some (set_outb s1 (outb s ++ [(id, false)]), PC3 id)
  | PC3 id =>
      if st s =? sA then Some (set_outb s (set_flag id (outb s)), PDone oBegun id)
      else Some (s, PC4 id)
  | PC4 id =>
      let '(s', found) := remove_ex false id s in
      if found then Some (s', PCE0 (KDone oCClosed2 id)) else Some (s', PDone oCClosed2 id)
  (* removeExchange / expireExchange by the owner of the call *)
  | PRm inbound id =>
      let '(s', found) := remove_ex inbound id s in
      if found then Some (s', PCE0 (KDone oRemoved id)) else Some (s', PDone oNotFound id)
  | PExp id =>
      let s' := if has_key id (inb s) then set_inb_exp (set_inb s (del_key id (inb s))) (inb_exp s ++ [id])
                else s in
      Some (s', PCE0 (KDone oRemoved id))
  (* relay: canHandleNewCall under the state read-lock; decrementPending *)
  | PRel1 id remote =>
      if st s =? sA then Some (set_pending s (pending s + 1) (g_live s ++ [tid]), PRelLive id)
      else Some (s, if remote then PDone oRelRemote id else PRelRef id)
  | PRelRef id => Some (send_err s tid id eDeclined, PDone oRelRefused id)
  | PRelLive id => Some (set_pending s (pending s - 1) (deln tid (g_live s)), PCE0 (KDone oRelDone id))
  (* InboundCallResponse.SendSystemError: the error frame (a one-byte code) is queued first; then
     doneSending shuts the exchange down (removeExchange -> checkExchanges when it was found) *)
  | PErr id code => if code_ok code then Some (send_err s tid id code, PErrRm id code) else None
  | PErrRm id code =>
      let '(s', found) := remove_ex true id s in
      if found then Some (s', PCE0 (KDone (oErrBase + code) id)) else Some (s', PDone (oErrBase + code) id)
  (* handlePingReq: a connection that is not Closed answers (also while it drains); a Closed one
     goes to protocolError.  sendMessage puts the ping res on sendCh without a state test; it
     touches none of the modelled variables *)
  | PPing id => if st s =? sCl then Some (s, PProtoSend id) else Some (s, PPong id)
  | PPong id => Some (s, PDone oPong id)
  end.

(* thread kinds that can be started *)
Inductive kind :=
| TCloser | TFailer | TReader (id : Z) | TCaller | TFinIn (id : Z) | TFinOut (id : Z)
| TExpire (id : Z) | TRelay (id : Z) (remote : bool) | TChecker
| TFinInErr (id code : Z) | TPing (id : Z).

Definition start_pc (k : kind) : pc :=
  match k with
  | TCloser => PClose KCloser
  | TFailer => PClose KFail
  | TReader id => PR1 id
  | TCaller => PC1
  | TFinIn id => PRm true id
  | TFinOut id => PRm false id
  | TExpire id => PExp id
  | TRelay id remote => PRel1 id remote
  | TChecker => PCE0 (KDone oChecked 0)
  | TFinInErr id code => PErr id code
  | TPing id => PPing id
  end.

Record sys := mkSys { sh : shared; thr : list pc }.

Inductive label := LSpawn (k : kind) | LRun (tid : nat).

Definition step (s : sys) (l : label) : option sys :=
  match l with
  | LSpawn k =>
      match k with
      | TRelay _ _ => if has_relay (sh s) then Some (mkSys (sh s) (thr s ++ [start_pc k])) else None
      | _ => Some (mkSys (sh s) (thr s ++ [start_pc k]))
      end
  | LRun tid =>
      match nth_error (thr s) tid with
      | None => None
      | Some p =>
          match tstep (sh s) tid p with
          | None => None
          | Some (sh', p') => Some (mkSys sh' (upd (thr s) tid p'))
          end
      end
  end.

Definition sh0 (relay : bool) : shared :=
  mkSh sA [] [] false [] false 0 relay 0 false 0 [] [] 0.
Definition init (relay : bool) : sys := mkSys (sh0 relay) [].

(* ---- harness entry point ------------------------------------------------------------
   case:  relay nops (op a b c)*
     op 0: spawn thread of kind a (1 closer 2 failer 3 reader 4 caller 5 fin-in 6 fin-out
           7 expire 8 relay 9 checker 10 handler-system-error (code c) 11 ping) with message id b and flag c
     op 1: run thread a until its program counter is at a schedule point whose class bit is
           set in mask b, or the thread is done (fuel 64)
     op 2 / op 3: as op 0 / op 1 but without an observation (steps the implementation performs
           concurrently in the background; observed together afterwards);  op 4: observation only
   observable, after every op:  stop-class (0 = done, -1 = not enabled / no such thread) state
     #inbound #outbound pending stopCh-closes stoppedExchanges
   (the number of OnCloseStateChange callbacks is not compared: when two checkExchanges run
   concurrently in the implementation it depends on their interleaving)
   then at the end: the error frames (id, code) in queue order, and the outcome of every thread. *)
Definition pc_class (p : pc) : Z :=
  match p with
  | PCE1 _ _ => 1 | PR2 _ => 2 | PR3 _ => 3 | PC2 => 4 | PC3 _ => 5 | PRelLive _ => 6
  | PDone _ _ => 0
  | _ => 64
  end.

Definition kind_of (a b c : Z) : option kind :=
  if a =? 1 then Some TCloser else if a =? 2 then Some TFailer else if a =? 3 then Some (TReader b)
  else if a =? 4 then Some TCaller else if a =? 5 then Some (TFinIn b) else if a =? 6 then Some (TFinOut b)
  else if a =? 7 then Some (TExpire b) else if a =? 8 then Some (TRelay b (bz c))
  else if a =? 9 then Some TChecker else if a =? 10 then Some (TFinInErr b c) else if a =? 11 then Some (TPing b)
  else None.

Fixpoint run_to (fuel : nat) (s : sys) (tid : nat) (mask : Z) (first : bool) : sys * Z :=
  match nth_error (thr s) tid with
  | None => (s, -1)
  | Some p =>
      let c := pc_class p in
      if (c =? 0) then (s, if first then -1 else 0)
      else if negb first && (c <? 64) && Z.testbit mask c then (s, c)
      else match fuel with
           | O => (s, -1)
           | S f => match step s (LRun tid) with
                    | None => (s, -1)
                    | Some s' => run_to f s' tid mask false
                    end
           end
  end.

Definition obs_of (s : sys) (code : Z) : list Z :=
  [code; st (sh s); zlen (inb (sh s)); zlen (outb (sh s)); pending (sh s); g_stop_closes (sh s);
   zb (stopped (sh s))].

Fixpoint run_ops (n : nat) (s : sys) (l : list Z) : list Z :=
  match n with
  | O => put_list (fun r => [snd (fst r); snd r]) (g_replies (sh s))
         ++ put_list (fun p => match p with PDone o id => [o; id] | _ => [-1; pc_class p] end) (thr s)
  | S n' =>
      match l with
      | op :: a :: b :: c :: r =>
          if (op =? 0) || (op =? 2) then
            match kind_of a b c with
            | Some k => match step s (LSpawn k) with
                        | Some s' => (if op =? 0 then obs_of s' 0 else []) ++ run_ops n' s' r
                        | None => obs_of s (-1) ++ run_ops n' s r
                        end
            | None => obs_of s (-1) ++ run_ops n' s r
            end
          else if op =? 4 then obs_of s 0 ++ run_ops n' s r
          else
            let '(s', code) := run_to 64 s (Z.to_nat a) b true in
            (if op =? 1 then obs_of s' code else []) ++ run_ops n' s' r
      | _ => [-9]
      end
  end.

Definition run_connclose (c : list Z) : list Z :=
  match c with
  | relay :: nops :: r => run_ops (Z.to_nat nops) (init (bz relay)) r
  | _ => [-9]
  end.
