(* Hand model of the peer / connection bookkeeping of ONE channel (property C16):
     channel.go   addConnection, connectionActive, addConnectionToPeer, removeClosedConn,
                  connectionCloseStateChange (bookkeeping part), Connect's host:port-mismatch branch,
                  Close (only: the channel stops accepting connections)
     peer.go      PeerList.Add / Remove (reference counts), Peer.addSC / delSC / canRemove /
                  addConnection / removeConnection / connectionCloseStateChange
     root_peer_list.go   Add / Get / GetOrAdd / onClosedConnRemoved
   as an interleaving transition system: a state record and [step : st -> label -> option st]
   ([None] = the label is not enabled).  One [LStep t] = ONE atomic action of goroutine [t]
   (one lock-protected region or one read of the connection state); values a goroutine keeps
   across actions (the *Peer it looked up, the host:ports it still has to visit) live in its
   program counter [pc].  Numbers of connections, peers, peer lists and goroutines are unbounded.

   Other channels, the network, Channel.Close, the idle sweep and failures are the ENVIRONMENT:
   they appear as [LNew] (a handshake completed on this channel) and [LChange] (a connection of
   this channel moved forward in Active -> StartClose -> InboundClosed -> Closed, by whatever
   cause).  Every state change spawns one goroutine that runs the close-state callback (the Go
   code calls OnCloseStateChange after every change; a callback reads the CURRENT state, so
   spawning one per change over-approximates "one callback after a burst of changes").

   Merged actions (each is a sound reduction, the merged action only touches data no other
   goroutine can observe in between):
     - p.onStatusChanged(p) is logged in the same step as the list mutation it follows
       (straight-line code after the unlock; the log is only read at quiescence, as a multiset);
     - IsActive() and the locked removal in Peer.connectionCloseStateChange are one step
       (non-active is stable: the read can be moved down to the removal);
     - RootPeerList.GetOrAdd = Get, then Add which re-checks under the write lock: one
       atomic get-or-create;
     - removeClosedConn reads the state and deletes: one step (Closed is final).
   NOT modelled: peer heap / scores (updatePeer; property C15), the channel close-state
   progression after the bookkeeping part of the callback (property C07), exchanges. *)
From Coq Require Import ZArith List Bool.
From Verif Require Import Base.Wrap Base.Wire Gen.GenConsts.
Import ListNotations.
Local Open Scope Z_scope.

(* host:ports, connection ids, peer ids, goroutine ids, peer-list ids are integers (names);
   host:port 0 is the empty string *)
Record conn := mkConn {
  k_dir : Z;      (* c_inbound / c_outbound *)
  k_rhp : Z;      (* remotePeerInfo.HostPort (announced by the peer) *)
  k_ohp : Z;      (* outboundHP: the dialled host:port, 0 for inbound connections *)
  k_st  : Z;      (* connectionState; 0 = no such connection *)
  k_acc : bool    (* ghost: Channel.addConnection accepted it *)
}.

Record peer := mkPeer {
  p_hp : Z;            (* 0 = no such Peer object *)
  p_in : list Z;       (* inboundConnections (connection ids, slice order) *)
  p_out : list Z;      (* outboundConnections *)
  p_sc : Z;            (* scCount *)
  p_last : Z           (* ghost: last modification: 0 created, 1 connection added,
                          2 connection removed, 3 reference added, 4 reference removed *)
}.

Inductive pc :=
(* goroutine that completed a handshake: newConnection -> callOnActive -> Channel.connectionActive,
   then (outbound) back in Channel.Connect *)
| PAct1 (c : Z)                       (* before ch.addConnection *)
| PGet (c : Z) (todo : list Z)        (* addConnectionToPeer(hd todo): before RootPeers().GetOrAdd *)
| PChk (c pid : Z) (todo : list Z)    (* Peer.addConnection: before the unlocked state check *)
| PApp (c pid : Z) (todo : list Z)    (* at schedule point peer.addConnection.afterCheck: before p.Lock() *)
(* goroutine running Channel.connectionCloseStateChange(c) *)
| PCb1 (c : Z)                        (* before removeClosedConn *)
| PCbGet (c : Z) (todo : list Z)      (* before RootPeers().Get(hd todo) *)
| PCbRem (c pid : Z) (todo : list Z)  (* Peer.connectionCloseStateChange: before IsActive / locked removal *)
| PCol1 (c hp : Z) (todo : list Z)    (* onClosedConnRemoved: before l.Get(hostPort) *)
| PCol2 (c hp q : Z) (todo : list Z)  (* before p.canRemove() *)
| PCol3 (c hp : Z) (todo : list Z)    (* canRemove was true: before l.Lock(); delete *)
(* goroutine inside PeerList.Add holding the list's write lock *)
| PAdd2 (lid hp pid : Z).             (* after l.parent.Add(hostPort): before p.addSC() and the insertion *)

Inductive label :=
| LNew (dir rhp ohp : Z)      (* a handshake completed: newConnection creates an Active connection *)
| LChange (c s' : Z)          (* connection c moved forward to state s' (close(), checkExchanges, error) *)
| LListAdd (lid hp : Z)       (* PeerList.Add(hp) on list lid, up to and including l.parent.Add *)
| LListRemove (lid hp : Z)    (* PeerList.Remove(hp): one locked region *)
| LCloseCh                    (* Channel.Close: state leaves {Client, Listening} *)
| LGetOrAdd (hp : Z)          (* RootPeers().GetOrAdd(hp) from BeginCall / Ping / user code *)
| LStep (t : Z).              (* goroutine t performs its next atomic action *)

Record st := mkSt {
  s_conn : Z -> conn;
  s_inch : Z -> bool;            (* ch.mutable.conns (as a set of connection ids) *)
  s_acc : bool;                  (* ch.mutable.state is Client or Listening *)
  s_peer : Z -> peer;            (* heap of Peer objects *)
  s_root : Z -> option Z;        (* RootPeerList.peersByHostPort : host:port -> Peer object *)
  s_lists : list (Z * Z * Z);    (* entries (list id, host:port, Peer object) of all child PeerLists *)
  s_lk : Z -> bool;              (* write lock of child list lid held by a goroutine in Add *)
  s_thr : Z -> option pc;
  s_log : list Z;                (* OnPeerStatusChanged calls: host:port of the peer *)
  s_gain : list (Z * Z * Z);     (* ghost: (host:port, Peer object, connection) appended *)
  s_loss : list (Z * Z * Z);     (* ghost: (host:port, Peer object, connection) removed *)
  s_next : Z                     (* next fresh id (connections, Peer objects, goroutines) *)
}.

Definition upd {A} (f : Z -> A) (x : Z) (v : A) : Z -> A := fun y => if y =? x then v else f y.

Definition no_conn : conn := mkConn 0 0 0 0 false.
Definition no_peer : peer := mkPeer 0 [] [] 0 0.

Definition init : st :=
  mkSt (fun _ => no_conn) (fun _ => false) true (fun _ => no_peer) (fun _ => None) []
       (fun _ => false) (fun _ => None) [] [] [] 1.

(* ---- field setters ---- *)
Definition set_conn (s : st) (c : Z) (k : conn) : st :=
  mkSt (upd (s_conn s) c k) (s_inch s) (s_acc s) (s_peer s) (s_root s) (s_lists s) (s_lk s)
       (s_thr s) (s_log s) (s_gain s) (s_loss s) (s_next s).
Definition set_inch (s : st) (c : Z) (b : bool) : st :=
  mkSt (s_conn s) (upd (s_inch s) c b) (s_acc s) (s_peer s) (s_root s) (s_lists s) (s_lk s)
       (s_thr s) (s_log s) (s_gain s) (s_loss s) (s_next s).
Definition set_accepting (s : st) (b : bool) : st :=
  mkSt (s_conn s) (s_inch s) b (s_peer s) (s_root s) (s_lists s) (s_lk s)
       (s_thr s) (s_log s) (s_gain s) (s_loss s) (s_next s).
Definition set_peer (s : st) (pid : Z) (p : peer) : st :=
  mkSt (s_conn s) (s_inch s) (s_acc s) (upd (s_peer s) pid p) (s_root s) (s_lists s) (s_lk s)
       (s_thr s) (s_log s) (s_gain s) (s_loss s) (s_next s).
Definition set_root (s : st) (hp : Z) (v : option Z) : st :=
  mkSt (s_conn s) (s_inch s) (s_acc s) (s_peer s) (upd (s_root s) hp v) (s_lists s) (s_lk s)
       (s_thr s) (s_log s) (s_gain s) (s_loss s) (s_next s).
Definition set_lists (s : st) (l : list (Z * Z * Z)) : st :=
  mkSt (s_conn s) (s_inch s) (s_acc s) (s_peer s) (s_root s) l (s_lk s)
       (s_thr s) (s_log s) (s_gain s) (s_loss s) (s_next s).
Definition set_lk (s : st) (lid : Z) (b : bool) : st :=
  mkSt (s_conn s) (s_inch s) (s_acc s) (s_peer s) (s_root s) (s_lists s) (upd (s_lk s) lid b)
       (s_thr s) (s_log s) (s_gain s) (s_loss s) (s_next s).
Definition set_thr (s : st) (t : Z) (p : option pc) : st :=
  mkSt (s_conn s) (s_inch s) (s_acc s) (s_peer s) (s_root s) (s_lists s) (s_lk s)
       (upd (s_thr s) t p) (s_log s) (s_gain s) (s_loss s) (s_next s).
Definition add_log (s : st) (hp : Z) : st :=
  mkSt (s_conn s) (s_inch s) (s_acc s) (s_peer s) (s_root s) (s_lists s) (s_lk s)
       (s_thr s) (s_log s ++ [hp]) (s_gain s) (s_loss s) (s_next s).
Definition add_gain (s : st) (g : Z * Z * Z) : st :=
  mkSt (s_conn s) (s_inch s) (s_acc s) (s_peer s) (s_root s) (s_lists s) (s_lk s)
       (s_thr s) (s_log s) (g :: s_gain s) (s_loss s) (s_next s).
Definition add_loss (s : st) (g : Z * Z * Z) : st :=
  mkSt (s_conn s) (s_inch s) (s_acc s) (s_peer s) (s_root s) (s_lists s) (s_lk s)
       (s_thr s) (s_log s) (s_gain s) (g :: s_loss s) (s_next s).
Definition bump (s : st) : st :=
  mkSt (s_conn s) (s_inch s) (s_acc s) (s_peer s) (s_root s) (s_lists s) (s_lk s)
       (s_thr s) (s_log s) (s_gain s) (s_loss s) (s_next s + 1).

(* start a goroutine with a fresh id *)
Definition spawn (s : st) (p : pc) : st := bump (set_thr s (s_next s) (Some p)).

(* ---- connection attributes ---- *)
Definition is_active (k : conn) : bool := k_st k =? c_connectionActive.
Definition is_closed (k : conn) : bool := k_st k =? c_connectionClosed.
Definition with_st (k : conn) (s' : Z) : conn := mkConn (k_dir k) (k_rhp k) (k_ohp k) s' (k_acc k).
Definition with_acc (k : conn) : conn := mkConn (k_dir k) (k_rhp k) (k_ohp k) (k_st k) true.

(* host:ports under which the activating goroutine lists the connection: the announced one
   (Channel.connectionActive) and, back in Channel.Connect, the dialled one when it differs *)
Definition act_todo (k : conn) : list Z :=
  k_rhp k :: (if (k_dir k =? c_outbound) && negb (k_ohp k =? k_rhp k) then [k_ohp k] else []).
(* host:ports visited by Channel.connectionCloseStateChange *)
Definition cb_todo (k : conn) : list Z :=
  k_rhp k :: (if negb (k_ohp k =? 0) && negb (k_ohp k =? k_rhp k) then [k_ohp k] else []).

(* ---- Peer.removeConnection: move the last element into the hole, shrink by one ---- *)
Fixpoint swap_remove (c : Z) (l : list Z) : option (list Z) :=
  match l with
  | [] => None
  | x :: r => if x =? c
              then Some (match r with [] => [] | _ :: _ => last r 0 :: removelast r end)
              else option_map (cons x) (swap_remove c r)
  end.

Definition p_with_in (p : peer) (l : list Z) (why : Z) : peer := mkPeer (p_hp p) l (p_out p) (p_sc p) why.
Definition p_with_out (p : peer) (l : list Z) (why : Z) : peer := mkPeer (p_hp p) (p_in p) l (p_sc p) why.
Definition p_with_sc (p : peer) (n : Z) (why : Z) : peer := mkPeer (p_hp p) (p_in p) (p_out p) n why.

(* Peer.canRemove *)
Definition can_remove (p : peer) : bool := zlen (p_in p) + zlen (p_out p) + p_sc p =? 0.

(* RootPeerList.GetOrAdd / Add: existing peer, else a new Peer object *)
Definition root_get_or_add (s : st) (hp : Z) : st * Z :=
  match s_root s hp with
  | Some pid => (s, pid)
  | None => let pid := s_next s in
            (bump (set_root (set_peer s pid (mkPeer hp [] [] 0 0)) hp (Some pid)), pid)
  end.

(* ---- child peer lists (entries as a map: first match) ---- *)
Fixpoint list_find (l : list (Z * Z * Z)) (lid hp : Z) : option Z :=
  match l with
  | [] => None
  | (a, b, pid) :: r => if (a =? lid) && (b =? hp) then Some pid else list_find r lid hp
  end.
Fixpoint list_del (l : list (Z * Z * Z)) (lid hp : Z) : list (Z * Z * Z) :=
  match l with
  | [] => []
  | (a, b, pid) :: r => if (a =? lid) && (b =? hp) then r else (a, b, pid) :: list_del r lid hp
  end.

(* ---- one atomic action of goroutine t ----
   [recheck] = the repaired Peer.addConnection (state checked again with the peer locked);
   [recheck = false] is the code before the repair, kept to state what the repair buys. *)
Definition step_thread (recheck : bool) (s : st) (t : Z) (p : pc) : st :=
  match p with
  | PAct1 c =>
      (* Channel.addConnection under ch.mutable.Lock *)
      let k := s_conn s c in
      if is_active k && s_acc s then
        set_thr (set_inch (set_conn s c (with_acc k)) c true) t (Some (PGet c (act_todo k)))
      else
        (* "new active connection on closing channel": c.close(); its first action moves
           Active -> StartClose and calls the close-state callback; Connect's mismatch branch
           still runs afterwards *)
        let s1 := if is_active k
                  then spawn (set_conn s c (with_st k c_connectionStartClose)) (PCb1 c) else s in
        set_thr s1 t (Some (PGet c (tl (act_todo k))))
  | PGet c [] => set_thr s t None
  | PGet c (hp :: todo) =>
      let '(s1, pid) := root_get_or_add s hp in
      set_thr s1 t (Some (PChk c pid todo))
  | PChk c pid todo =>
      if is_active (s_conn s c) then set_thr s t (Some (PApp c pid todo))
      else set_thr s t (Some (PGet c todo))          (* ErrInvalidConnectionState, logged *)
  | PApp c pid todo =>
      let k := s_conn s c in
      if recheck && negb (is_active k) then set_thr s t (Some (PGet c todo))
      else
        let P := s_peer s pid in
        let P' := if k_dir k =? c_inbound then p_with_in P (p_in P ++ [c]) 1
                  else p_with_out P (p_out P ++ [c]) 1 in
        set_thr (add_log (add_gain (set_peer s pid P') (p_hp P, pid, c)) (p_hp P)) t (Some (PGet c todo))
  | PCb1 c =>
      let k := s_conn s c in
      let s1 := if is_closed k then set_inch s c false else s in
      set_thr s1 t (Some (PCbGet c (cb_todo k)))
  | PCbGet c [] => set_thr s t None
  | PCbGet c (hp :: todo) =>
      match s_root s hp with
      | Some pid => set_thr s t (Some (PCbRem c pid todo))
      | None => set_thr s t (Some (PCbGet c todo))
      end
  | PCbRem c pid todo =>
      if is_active (s_conn s c) then set_thr s t (Some (PCbGet c todo))
      else
        let P := s_peer s pid in
        let found (P' : peer) :=
          set_thr (add_log (add_loss (set_peer s pid P') (p_hp P, pid, c)) (p_hp P)) t
                  (Some (PCol1 c (p_hp P) todo)) in
        match swap_remove c (p_in P) with
        | Some l => found (p_with_in P l 2)
        | None => match swap_remove c (p_out P) with
                  | Some l => found (p_with_out P l 2)
                  | None => set_thr s t (Some (PCbGet c todo))
                  end
        end
  | PCol1 c hp todo =>
      match s_root s hp with
      | Some q => set_thr s t (Some (PCol2 c hp q todo))
      | None => set_thr s t (Some (PCbGet c todo))
      end
  | PCol2 c hp q todo =>
      if can_remove (s_peer s q) then set_thr s t (Some (PCol3 c hp todo))
      else set_thr s t (Some (PCbGet c todo))
  | PCol3 c hp todo =>
      set_thr (set_root s hp None) t (Some (PCbGet c todo))
  | PAdd2 lid hp pid =>
      let P := s_peer s pid in
      set_thr (set_lk (set_lists (set_peer s pid (p_with_sc P (p_sc P + 1) 3))
                                 ((lid, hp, pid) :: s_lists s)) lid false) t None
  end.

Definition step_gen (recheck : bool) (s : st) (l : label) : option st :=
  match l with
  | LNew dir rhp ohp =>
      (* inbound: outboundHP = ""; outbound: the dialled host:port (never blank);
         the announced host:port is never blank (parseRemotePeer substitutes the socket address) *)
      if negb (rhp =? 0) &&
         (((dir =? c_inbound) && (ohp =? 0)) || ((dir =? c_outbound) && negb (ohp =? 0)))
      then
        let c := s_next s in
        Some (spawn (bump (set_conn s c (mkConn dir rhp ohp c_connectionActive false))) (PAct1 c))
      else None
  | LChange c s' =>
      let k := s_conn s c in
      if negb (k_st k =? 0) && (k_st k <? s') && (s' <=? c_connectionClosed)
      then Some (spawn (set_conn s c (with_st k s')) (PCb1 c))
      else None
  | LListAdd lid hp =>
      (* a blank host:port makes newPeer panic: outside the domain *)
      if (hp =? 0) || s_lk s lid then None
      else match list_find (s_lists s) lid hp with
           | Some _ => Some s
           | None => let '(s1, pid) := root_get_or_add s hp in
                     Some (spawn (set_lk s1 lid true) (PAdd2 lid hp pid))
           end
  | LListRemove lid hp =>
      if s_lk s lid then None
      else match list_find (s_lists s) lid hp with
           | None => Some s                              (* ErrPeerNotFound *)
           | Some pid =>
               let P := s_peer s pid in
               Some (set_lists (set_peer s pid (p_with_sc P (p_sc P - 1) 4)) (list_del (s_lists s) lid hp))
           end
  | LCloseCh => Some (set_accepting s false)
  | LGetOrAdd hp => if hp =? 0 then None else Some (fst (root_get_or_add s hp))
  | LStep t =>
      match s_thr s t with
      | Some p => Some (step_thread recheck s t p)
      | None => None
      end
  end.

(* the code as repaired (fix: Peer.addConnection re-checks the state with the peer locked) *)
Definition step := step_gen true.

Fixpoint run_gen (recheck : bool) (s : st) (ls : list label) : option st :=
  match ls with
  | [] => Some s
  | l :: r => match step_gen recheck s l with Some s' => run_gen recheck s' r | None => None end
  end.
Definition run := run_gen true.

(* ---- the race window that is NOT repaired (known finding c16:peer-collected-during-add) ----
   A goroutine that obtained a *Peer from the root list (GetOrAdd / Add) and has not yet
   appended its connection / taken its reference holds the peer "in acquisition".  The
   collector's delete(peersByHostPort, hostPort) is SAFE when the peer registered under that
   host:port at that moment is removable and not in acquisition. *)
Definition acquiring (p : option pc) (pid : Z) : bool :=
  match p with
  | Some (PChk _ q _) | Some (PApp _ q _) | Some (PAdd2 _ _ q) => q =? pid
  | _ => false
  end.

(* goroutine ids are below s_next: bounded search *)
Fixpoint any_thread (f : option pc -> bool) (thr : Z -> option pc) (n : nat) : bool :=
  match n with
  | O => false
  | S n' => f (thr (Z.of_nat n')) || any_thread f thr n'
  end.

Definition delete_safe (s : st) (hp : Z) : bool :=
  match s_root s hp with
  | None => true
  | Some q => can_remove (s_peer s q)
              && negb (any_thread (fun p => acquiring p q) (s_thr s) (Z.to_nat (s_next s)))
  end.

Definition safe_label (s : st) (l : label) : bool :=
  match l with
  | LStep t => match s_thr s t with
               | Some (PCol3 _ hp _) => delete_safe s hp
               | _ => true
               end
  | _ => true
  end.

(* runs in which every root-list deletion is safe *)
Fixpoint run_safe (s : st) (ls : list label) : option st :=
  match ls with
  | [] => Some s
  | l :: r => if safe_label s l
              then match step s l with Some s' => run_safe s' r | None => None end
              else None
  end.

(* ---- harness entry point ----------------------------------------------------------------
   A case is a script of macro operations for ONE channel; connections are named by their
   creation ordinal 0,1,2,...
     0 dir rhp ohp   LNew                      1 ord s'   LChange
     2 lid hp        LListAdd                  3 lid hp   LListRemove
     4               LCloseCh                  5 hp       LGetOrAdd
     6               SETTLE: every goroutine that is not parked runs to completion (increasing
                     goroutine id; goroutines started meanwhile have larger ids), then a SNAPSHOT
                     of the observables is emitted
     7 ord n         park the activating goroutine of connection ord at PApp (the schedule point)
                     when n host:ports are still to visit after the current one
     8 ord           release it
     9 lid           park goroutines of PeerList.Add on list lid before addSC       10 lid  release
     11              SETTLE without snapshot
   snapshot: conns(ordinals, sorted)  peers: (hp in(sorted ordinals) out(...) scCount)* by hp
             status-callback counts: (hp count)* by hp                                        *)
Record hst := mkH { h_s : st; h_ords : list Z; h_park : list (Z * Z); h_parkl : list Z; h_out : list Z; h_bad : bool }.

Definition memz (x : Z) (l : list Z) : bool := existsb (Z.eqb x) l.

Definition parked (h : hst) (p : pc) : bool :=
  match p with
  | PApp c _ todo => existsb (fun cn => (fst cn =? c) && (snd cn =? zlen todo)) (h_park h)
  | PAdd2 lid _ _ => memz lid (h_parkl h)
  | _ => false
  end.

(* run goroutine t until it ends or parks (a goroutine makes < 40 steps) *)
Fixpoint run_thread (fuel : nat) (h : hst) (s : st) (t : Z) : st :=
  match fuel with
  | O => s
  | S f => match s_thr s t with
           | None => s
           | Some p => if parked h p then s else run_thread f h (step_thread true s t p) t
           end
  end.

Fixpoint settle_from (fuel : nat) (h : hst) (s : st) (t : Z) : st :=
  match fuel with
  | O => s
  | S f => if s_next s <=? t then s else settle_from f h (run_thread 40 h s t) (t + 1)
  end.
Definition settle (h : hst) (s : st) : st :=
  settle_from (Z.to_nat (2 * s_next s + 8)) h s 0.

Fixpoint insert_sorted (x : Z) (l : list Z) : list Z :=
  match l with
  | [] => [x]
  | y :: r => if x <=? y then x :: l else y :: insert_sorted x r
  end.
Definition sortz (l : list Z) : list Z := fold_right insert_sorted [] l.

Fixpoint index_of (x : Z) (l : list Z) (i : Z) : Z :=
  match l with
  | [] => -1
  | y :: r => if x =? y then i else index_of x r (i + 1)
  end.

Definition max_hp : nat := 200.

Definition snapshot (h : hst) (s : st) : list Z :=
  let ord c := index_of c (h_ords h) 0 in
  let conns := sortz (map ord (filter (fun c => s_inch s c) (h_ords h))) in
  let hps := map (fun i => Z.of_nat i) (seq 1 max_hp) in
  let peers := flat_map (fun hp => match s_root s hp with
                                   | None => []
                                   | Some pid => let P := s_peer s pid in
                                       [hp :: put_bytes (sortz (map ord (p_in P)))
                                           ++ put_bytes (sortz (map ord (p_out P))) ++ [p_sc P]]
                                   end) hps in
  let cbs := flat_map (fun hp => let n := zlen (filter (Z.eqb hp) (s_log s)) in
                                 if n =? 0 then [] else [[hp; n]]) hps in
  put_bytes conns ++ put_list (fun x => x) peers ++ put_list (fun x => x) cbs.

Definition apply_label (h : hst) (l : label) : hst :=
  match step (h_s h) l with
  | Some s' => mkH s' (h_ords h) (h_park h) (h_parkl h) (h_out h) (h_bad h)
  | None => mkH (h_s h) (h_ords h) (h_park h) (h_parkl h) (h_out h) true
  end.

Fixpoint interp (fuel : nat) (h : hst) (c : list Z) : hst :=
  match fuel with
  | O => h
  | S f =>
    match c with
    | 0 :: dir :: rhp :: ohp :: r =>
        let id := s_next (h_s h) in
        let h1 := apply_label h (LNew dir rhp ohp) in
        interp f (mkH (h_s h1) (h_ords h ++ [id]) (h_park h1) (h_parkl h1) (h_out h1) (h_bad h1)) r
    | 1 :: o :: s' :: r => interp f (apply_label h (LChange (nth (Z.to_nat o) (h_ords h) (-1)) s')) r
    | 2 :: lid :: hp :: r => interp f (apply_label h (LListAdd lid hp)) r
    | 3 :: lid :: hp :: r => interp f (apply_label h (LListRemove lid hp)) r
    | 4 :: r => interp f (apply_label h LCloseCh) r
    | 5 :: hp :: r => interp f (apply_label h (LGetOrAdd hp)) r
    | 6 :: r =>
        let s' := settle h (h_s h) in
        interp f (mkH s' (h_ords h) (h_park h) (h_parkl h) (h_out h ++ snapshot h s') (h_bad h)) r
    | 7 :: o :: n :: r =>
        interp f (mkH (h_s h) (h_ords h) ((nth (Z.to_nat o) (h_ords h) (-1), n) :: h_park h) (h_parkl h) (h_out h) (h_bad h)) r
    | 8 :: o :: r =>
        let c0 := nth (Z.to_nat o) (h_ords h) (-1) in
        interp f (mkH (h_s h) (h_ords h) (filter (fun x => negb (fst x =? c0)) (h_park h)) (h_parkl h) (h_out h) (h_bad h)) r
    | 11 :: r =>
        interp f (mkH (settle h (h_s h)) (h_ords h) (h_park h) (h_parkl h) (h_out h) (h_bad h)) r
    | 9 :: lid :: r =>
        interp f (mkH (h_s h) (h_ords h) (h_park h) (lid :: h_parkl h) (h_out h) (h_bad h)) r
    | 10 :: lid :: r =>
        interp f (mkH (h_s h) (h_ords h) (h_park h) (filter (fun x => negb (x =? lid)) (h_parkl h)) (h_out h) (h_bad h)) r
    | [] => h
    | _ => mkH (h_s h) (h_ords h) (h_park h) (h_parkl h) (h_out h) true
    end
  end.

Definition run_peerbook (c : list Z) : list Z :=
  let h := interp (length c) (mkH init [] [] [] [] false) c in
  (if h_bad h then [-1] else []) ++ h_out h.
