(* C01 -- who gives back the frame a request reader is parsed into.

   The fragmentingReader's curChunk / remainingChunks are slices of the payload of the frame of its
   current readableFragment; readableFragment.done() runs the fragment's onDone, which releases that
   frame to the connection's FramePool, and a pool hands a released frame out again (the connection's
   read loop reads the next inbound frame into it).  The bytes a handler Reads are the bytes its
   caller wrote only as long as nobody gives the frame back while unread chunks are left in it.

   go2v/c01relsites.go regenerates Gen/GenC01RelSites.c01_release_sites: every call, in the non-test
   source of package tchannel, that can run a readableFragment's onDone -- (enclosing function,
   callee, receiver, guard) -- with the closure over wrappers described there.  This file has
     * the table of the sites the model knows, each with the MOMENT at which it runs;
     * a small world (one reader, the frame it is parsed into, the pool's reuse of released frames)
       whose only parameter is the site table: a site the model does not know is taken to run when
       the handler COMPLETES ITS RESPONSE (the conservative reading: it is not on a path that fails
       the call and not the reader letting go of a fragment it has consumed).
   No proofs here (Proofs/C01RelSitesP.v). *)
From Coq Require Import ZArith List Bool String Ascii.
From Verif Require Import Base.Wrap.
Import ListNotations.
Local Open Scope Z_scope.

Definition c01r_s2z (s : string) : list Z :=
  map (fun a => Z.of_nat (nat_of_ascii a)) (list_ascii_of_string s).

Fixpoint c01r_leqb (a b : list Z) : bool :=
  match a, b with
  | [], [] => true
  | x :: a', y :: b' => (x =? y) && c01r_leqb a' b'
  | _, _ => false
  end.

Definition c01r_row := (list Z * list Z * list Z * list Z)%type.

Definition c01r_row_eqb (r s : c01r_row) : bool :=
  let '(a1, a2, a3, a4) := r in
  let '(b1, b2, b3, b4) := s in
  c01r_leqb a1 b1 && c01r_leqb a2 b2 && c01r_leqb a3 b3 && c01r_leqb a4 b4.

(* when a release site runs *)
Inductive c01r_moment :=
| MWrapper      (* a wrapper: runs when its caller does (its callers are rows of the table too) *)
| MReaderDone   (* the reader itself, for a fragment it has consumed (next fragment fetched / last argument closed) *)
| MCallFailed   (* a path that FAILS the call: SendSystemError, the method could not be read *)
| MOther.       (* anything else *)

Definition c01r_known : list (c01r_row * c01r_moment) := [
  (* fragmenting_reader.go  func (f *readableFragment) done() { if f.isDone { return }; f.onDone(); ... } *)
  ((c01r_s2z "readableFragment.done", c01r_s2z "readableFragment.onDone", c01r_s2z "f", c01r_s2z ""), MWrapper);
  (* fragmentingReader.Close: if last { ... r.curFragment.done() } -- the last argument is closed *)
  ((c01r_s2z "fragmentingReader.Close", c01r_s2z "readableFragment.done", c01r_s2z "r.curFragment", c01r_s2z "last"), MReaderDone);
  (* recvAndParseNextFragment: if r.curFragment != nil { r.curFragment.done() } -- before the next one is fetched *)
  ((c01r_s2z "fragmentingReader.recvAndParseNextFragment", c01r_s2z "readableFragment.done", c01r_s2z "r.curFragment",
    c01r_s2z "r.curFragment != nil"), MReaderDone);
  (* inbound.go dispatchInbound: if err := call.readMethod(); err != nil { ...; call.releasePreviousFragment(); return } *)
  ((c01r_s2z "Connection.dispatchInbound", c01r_s2z "reqResReader.releasePreviousFragment", c01r_s2z "call",
    c01r_s2z "err != nil"), MCallFailed);
  (* inbound.go InboundCallResponse.SendSystemError: ...; response.doneSending(); response.call.releasePreviousFragment() *)
  ((c01r_s2z "InboundCallResponse.SendSystemError", c01r_s2z "reqResReader.releasePreviousFragment",
    c01r_s2z "response.call", c01r_s2z ""), MCallFailed);
  (* reqres.go releasePreviousFragment: fragment := r.previousFragment; r.previousFragment = nil; if fragment != nil { fragment.done() } *)
  ((c01r_s2z "reqResReader.releasePreviousFragment", c01r_s2z "readableFragment.done", c01r_s2z "fragment",
    c01r_s2z "fragment != nil"), MWrapper)
].

Fixpoint c01r_lookup (r : c01r_row) (l : list (c01r_row * c01r_moment)) : c01r_moment :=
  match l with
  | [] => MOther
  | (k, m) :: l' => if c01r_row_eqb r k then m else c01r_lookup r l'
  end.

Definition c01r_moment_of (r : c01r_row) : c01r_moment := c01r_lookup r c01r_known.

Definition c01r_is_other (m : c01r_moment) : bool := match m with MOther => true | _ => false end.

(* every site of the table is one the model knows, at the place and under the guard it knows *)
Definition c01r_table_ok (tbl : list c01r_row) : bool :=
  forallb (fun r => negb (c01r_is_other (c01r_moment_of r))) tbl.

(* a site outside the reader and outside the failing paths: can run while the call is healthy *)
Definition c01r_releases_on_complete (tbl : list c01r_row) : bool :=
  existsb (fun r => c01r_is_other (c01r_moment_of r)) tbl.

(* the functions from which a release is reachable, as the model knows them *)
Definition c01r_known_functions : list (list Z) :=
  [c01r_s2z "Connection.dispatchInbound"; c01r_s2z "InboundCallResponse.SendSystemError";
   c01r_s2z "fragmentingReader.Close"; c01r_s2z "fragmentingReader.recvAndParseNextFragment";
   c01r_s2z "readableFragment.done"; c01r_s2z "reqResReader.releasePreviousFragment"].

Definition c01r_functions_ok (fs : list (list Z)) : bool :=
  forallb (fun f => existsb (c01r_leqb f) c01r_known_functions) fs.

(* ------------------------------------------------------------------ the world *)

Record c01r_st := mkC01r {
  rs_mem : list Z;     (* the payload of the frame the reader is parsed into, as it is in memory now *)
  rs_own : list Z;     (* ghost: the bytes of that fragment as the caller sent them *)
  rs_pos : nat;        (* the reader's position in it *)
  rs_held : bool       (* the frame has not been given back to the pool *)
}.

Inductive c01r_ev :=
| RvRead (n : nat)             (* fragmentingReader.Read copies the next n bytes of the current chunk *)
| RvAdvance (next : list Z)    (* the reader is done with the fragment (done()) and is parsed into the next one *)
| RvRespComplete               (* the handler closes the last argument of its response: doneSending *)
| RvFail                       (* SendSystemError / dispatch failure: the call is failed *)
| RvReuse (bs : list Z).       (* the pool hands the frame out again and a frame is read into it *)

Definition c01r_init (own : list Z) : c01r_st := mkC01r own own 0 true.

(* one event: the new state and, for a Read, (bytes returned, bytes the caller sent at that place) *)
Definition c01r_step (tbl : list c01r_row) (s : c01r_st) (e : c01r_ev) : c01r_st * option (list Z * list Z) :=
  match e with
  | RvRead n =>
      (mkC01r (rs_mem s) (rs_own s) (rs_pos s + n) (rs_held s),
       Some (firstn n (skipn (rs_pos s) (rs_mem s)), firstn n (skipn (rs_pos s) (rs_own s))))
  | RvAdvance next => (mkC01r next next 0 true, None)
  | RvRespComplete =>
      (mkC01r (rs_mem s) (rs_own s) (rs_pos s) (rs_held s && negb (c01r_releases_on_complete tbl)), None)
  | RvFail => (mkC01r (rs_mem s) (rs_own s) (rs_pos s) false, None)
  | RvReuse bs =>
      (* a pool hands out only frames that were given back to it *)
      if rs_held s then (s, None) else (mkC01r bs (rs_own s) (rs_pos s) false, None)
  end.

Fixpoint c01r_run (tbl : list c01r_row) (s : c01r_st) (evs : list c01r_ev) : list (list Z * list Z) :=
  match evs with
  | [] => []
  | e :: evs' =>
      let '(s', o) := c01r_step tbl s e in
      match o with
      | Some p => p :: c01r_run tbl s' evs'
      | None => c01r_run tbl s' evs'
      end
  end.

Definition c01r_is_fail (e : c01r_ev) : bool := match e with RvFail => true | _ => false end.

(* the reviewer's edit as a table: one more row, InboundCallResponse.doneSending under response.err == nil *)
Definition c01r_table_with_doneSending : list c01r_row :=
  map fst c01r_known ++
  [(c01r_s2z "InboundCallResponse.doneSending", c01r_s2z "reqResReader.releasePreviousFragment",
    c01r_s2z "response.call", c01r_s2z "response.err == nil")].
