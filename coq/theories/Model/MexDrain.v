(* Hand model of the DRAIN side of mex.go (messageExchangeSet / messageExchange):
     newExchange/addExchange, messageExchange.shutdown (CAS, errCh notify, removeExchange),
     inboundExpired/expireExchange, deleteExchange, removeExchange (also called directly by
     Connection.ping's defer), stopExchanges, forwardPeerFrame's lookup.
   One label = one atomic region of the Go code (one CAS / one mexset lock region), so
   messageExchange.shutdown is TWO labels (MShutCas then MShutRemove): other goroutines can
   run between the CAS and the removal.  Message ids may be reused by the peer at any time.
   No proofs here (Proofs/MexDrainP.v). *)
From Coq Require Import ZArith List Bool.
From Verif Require Import Base.Wire.
Import ListNotations.
Local Open Scope Z_scope.

(* one *messageExchange object.  mo_pc: 0 = live (shutdownAtomic false);
   1 = shutdown() won its CAS and notified errCh, removeExchange not yet executed;
   2 = finished (removeExchange executed by shutdown(), or by ping's deferred removeExchange) *)
Record mexobj := { mo_id : Z; mo_pc : Z; mo_notified : bool }.

Record mexset := {
  ms_exch : list (Z * Z);      (* mexset.exchanges: msgID -> handle of the object (index in ms_objs) *)
  ms_expired : list Z;         (* mexset.expiredExchanges (a set of msgIDs) *)
  ms_shutdown : bool;          (* mexset.shutdown *)
  ms_objs : list mexobj;       (* every exchange object ever created by newExchange, by handle *)
  ms_rechecks : Z;             (* number of onRemoved() callbacks (Connection.checkExchanges) *)
  ms_added : Z;                (* number of onAdded() callbacks *)
  ms_out : list Z              (* results returned to callers, newest first *)
}.

Definition ms_init : mexset :=
  {| ms_exch := []; ms_expired := []; ms_shutdown := false; ms_objs := []; ms_rechecks := 0; ms_added := 0; ms_out := [] |}.

Inductive mlabel :=
| MNew (id : Z)          (* newExchange(.., msgID = id, ..) *)
| MShutCas (h : Z)       (* mex.shutdown(): shutdownAtomic.CAS + errCh notify *)
| MShutRemove (h : Z)    (* mex.shutdown(): mexset.removeExchange(mex.msgID) *)
| MExpire (h : Z)        (* mex.inboundExpired() = mexset.expireExchange(mex.msgID) *)
| MPingDone (h : Z)      (* Connection.ping: defer c.outbound.removeExchange(req.ID()) *)
| MStop                  (* mexset.stopExchanges(err) *)
| MForward (id : Z).     (* mexset.forwardPeerFrame: lookup of frame.Header.ID *)

Definition has_key (id : Z) (l : list (Z * Z)) : bool := existsb (fun p => fst p =? id) l.
Definition del_key (id : Z) (l : list (Z * Z)) : list (Z * Z) := filter (fun p => negb (fst p =? id)) l.
Definition has (id : Z) (l : list Z) : bool := existsb (fun x => x =? id) l.
Definition del (id : Z) (l : list Z) : list Z := filter (fun x => negb (x =? id)) l.
Fixpoint get_key (id : Z) (l : list (Z * Z)) : option Z :=
  match l with
  | [] => None
  | (k, v) :: r => if k =? id then Some v else get_key id r
  end.

Definition get_obj (s : mexset) (h : Z) : option mexobj :=
  if h <? 0 then None else nth_error (ms_objs s) (Z.to_nat h).

Fixpoint upd_nth {A} (n : nat) (x : A) (l : list A) : list A :=
  match l, n with
  | [], _ => []
  | _ :: r, O => x :: r
  | y :: r, S n' => y :: upd_nth n' x r
  end.

Definition set_obj (s : mexset) (h : Z) (o : mexobj) : mexset :=
  {| ms_exch := ms_exch s; ms_expired := ms_expired s; ms_shutdown := ms_shutdown s;
     ms_objs := upd_nth (Z.to_nat h) o (ms_objs s);
     ms_rechecks := ms_rechecks s; ms_added := ms_added s; ms_out := ms_out s |}.

Definition push_out (s : mexset) (v : Z) : mexset :=
  {| ms_exch := ms_exch s; ms_expired := ms_expired s; ms_shutdown := ms_shutdown s; ms_objs := ms_objs s;
     ms_rechecks := ms_rechecks s; ms_added := ms_added s; ms_out := v :: ms_out s |}.

(* deleteExchange (called with the lock held): (found, timedOut, new maps) *)
Definition delete_exchange (id : Z) (s : mexset) : bool * bool * mexset :=
  if has_key id (ms_exch s) then
    (true, false,
     {| ms_exch := del_key id (ms_exch s); ms_expired := ms_expired s; ms_shutdown := ms_shutdown s;
        ms_objs := ms_objs s; ms_rechecks := ms_rechecks s; ms_added := ms_added s; ms_out := ms_out s |})
  else if has id (ms_expired s) then
    (false, true,
     {| ms_exch := ms_exch s; ms_expired := del id (ms_expired s); ms_shutdown := ms_shutdown s;
        ms_objs := ms_objs s; ms_rechecks := ms_rechecks s; ms_added := ms_added s; ms_out := ms_out s |})
  else (false, false, s).

Definition add_recheck (s : mexset) : mexset :=
  {| ms_exch := ms_exch s; ms_expired := ms_expired s; ms_shutdown := ms_shutdown s; ms_objs := ms_objs s;
     ms_rechecks := ms_rechecks s + 1; ms_added := ms_added s; ms_out := ms_out s |}.

(* removeExchange: delete under the lock; onRemoved() only when something was deleted *)
Definition remove_exchange (id : Z) (s : mexset) : mexset :=
  let '(found, expired, s1) := delete_exchange id s in
  if found || expired then add_recheck s1 else s1.

(* expireExchange: delete, re-record in expiredExchanges when something was deleted;
   onRemoved() is called unconditionally *)
Definition expire_exchange (id : Z) (s : mexset) : mexset :=
  let '(found, expired, s1) := delete_exchange id s in
  let s2 := if found || expired
            then {| ms_exch := ms_exch s1;
                    (* expiredExchanges is a map: recording an id twice keeps one key *)
                    ms_expired := if has id (ms_expired s1) then ms_expired s1 else id :: ms_expired s1;
                    ms_shutdown := ms_shutdown s1;
                    ms_objs := ms_objs s1; ms_rechecks := ms_rechecks s1; ms_added := ms_added s1; ms_out := ms_out s1 |}
            else s1 in
  add_recheck s2.

(* stopExchanges: every exchange currently registered gets errCh notified (once) *)
Fixpoint notify_all (hs : list Z) (objs : list mexobj) : list mexobj :=
  match hs with
  | [] => objs
  | h :: r =>
      let objs' := match (if h <? 0 then None else nth_error objs (Z.to_nat h)) with
                   | Some o => upd_nth (Z.to_nat h) {| mo_id := mo_id o; mo_pc := mo_pc o; mo_notified := true |} objs
                   | None => objs
                   end in
      notify_all r objs'
  end.

Definition mstep (s : mexset) (l : mlabel) : option mexset :=
  match l with
  | MNew id =>
      if ms_shutdown s then Some (push_out s 1)                       (* errMexSetShutdown *)
      else if has_key id (ms_exch s) then Some (push_out s 2)         (* errDuplicateMex *)
      else Some {| ms_exch := (id, Z.of_nat (length (ms_objs s))) :: ms_exch s;
                   ms_expired := ms_expired s; ms_shutdown := false;
                   ms_objs := ms_objs s ++ [{| mo_id := id; mo_pc := 0; mo_notified := false |}];
                   ms_rechecks := ms_rechecks s; ms_added := ms_added s + 1; ms_out := 0 :: ms_out s |}
  | MShutCas h =>
      match get_obj s h with
      | None => None
      | Some o =>
          if mo_pc o =? 0
          then Some (set_obj s h {| mo_id := mo_id o; mo_pc := 1; mo_notified := true |})
          else Some s                                                  (* CAS lost: shutdown() returns *)
      end
  | MShutRemove h =>
      match get_obj s h with
      | None => None
      | Some o =>
          if mo_pc o =? 1
          then Some (remove_exchange (mo_id o) (set_obj s h {| mo_id := mo_id o; mo_pc := 2; mo_notified := mo_notified o |}))
          else None
      end
  | MExpire h =>
      match get_obj s h with
      | None => None
      | Some o => Some (expire_exchange (mo_id o) s)
      end
  | MPingDone h =>
      match get_obj s h with
      | None => None
      | Some o =>
          if mo_pc o =? 0
          then Some (remove_exchange (mo_id o) (set_obj s h {| mo_id := mo_id o; mo_pc := 2; mo_notified := mo_notified o |}))
          else None
      end
  | MStop =>
      if ms_shutdown s then Some s
      else Some {| ms_exch := ms_exch s; ms_expired := ms_expired s; ms_shutdown := true;
                   ms_objs := notify_all (map snd (ms_exch s)) (ms_objs s);
                   ms_rechecks := ms_rechecks s; ms_added := ms_added s; ms_out := ms_out s |}
  | MForward id =>
      Some (push_out s (match get_key id (ms_exch s) with Some h => h | None => -1 end))
  end.

Fixpoint mrun (s : mexset) (ls : list mlabel) : option mexset :=
  match ls with
  | [] => Some s
  | l :: r => match mstep s l with Some s' => mrun s' r | None => None end
  end.

(* quiescence of the set: every exchange object ever created has finished its shutdown *)
Definition mex_finished (s : mexset) : bool := forallb (fun o => mo_pc o =? 2) (ms_objs s).

(* ---- harness entry point ----------------------------------------------------------
   case: n (kind arg)*   kinds: 0 MNew id, 1 MShutCas h, 2 MShutRemove h, 3 MExpire h,
                         4 MPingDone h, 5 MStop, 6 MForward id
   a label that is not enabled is skipped and reported as -9.
   observable: results (oldest first, count-prefixed), sorted (id handle) pairs of exchanges,
   sorted expiredExchanges, shutdown flag, onRemoved count, onAdded count,
   per object (notified)                                                              *)
Definition take_mlabel (l : list Z) : mlabel * list Z :=
  match l with
  | k :: a :: r =>
      ((if k =? 0 then MNew a else if k =? 1 then MShutCas a else if k =? 2 then MShutRemove a
        else if k =? 3 then MExpire a else if k =? 4 then MPingDone a else if k =? 5 then MStop
        else MForward a), r)
  | _ => (MStop, [])
  end.

Fixpoint zinsert (x : Z) (l : list Z) : list Z :=
  match l with
  | [] => [x]
  | y :: r => if x <=? y then x :: l else y :: zinsert x r
  end.
Definition zsort (l : list Z) : list Z := fold_right zinsert [] l.
Fixpoint kinsert (x : Z * Z) (l : list (Z * Z)) : list (Z * Z) :=
  match l with
  | [] => [x]
  | y :: r => if fst x <=? fst y then x :: l else y :: kinsert x r
  end.
Definition ksort (l : list (Z * Z)) : list (Z * Z) := fold_right kinsert [] l.

Fixpoint mrun_skip (s : mexset) (ls : list mlabel) : mexset :=
  match ls with
  | [] => s
  | l :: r => match mstep s l with Some s' => mrun_skip s' r | None => mrun_skip (push_out s (-9)) r end
  end.

Definition run_mexdrain (c : list Z) : list Z :=
  let '(ls, _) := take_list take_mlabel c in
  let s := mrun_skip ms_init ls in
  put_list (fun x => [x]) (rev (ms_out s))
  ++ put_list (fun p => [fst p; snd p]) (ksort (ms_exch s))
  ++ put_list (fun x => [x]) (zsort (ms_expired s))
  ++ [zb (ms_shutdown s); ms_rechecks s; ms_added s]
  ++ put_list (fun o => [zb (mo_notified o)]) (ms_objs s).
