(* Hand model of peer_heap.go (entirely) and of Go's container/heap (Push/Pop/Remove/Fix/
   up/down, re-modelled from the stdlib source, go1.23 src/container/heap/heap.go).

   A *peerScore object is a record; the heap array peerHeap.peerScores is a [list pscore].
   The [ps_index] field is the back-pointer that peerHeap.Swap/Push/Pop maintain and that
   updatePeer/removePeer read.  Positions inside the heap algorithms are [nat] (list
   indices); values stored in fields are [Z].  The two draws of peerHeap.rng are oracle
   inputs: [Intn k] returns [d mod k] for a raw draw [d].

   Go panics (index out of range) are the result [None]. No proofs in this file. *)
From Coq Require Import ZArith List Bool Arith.
From Verif Require Import Base.Wrap.
Import ListNotations.
Local Open Scope Z_scope.

Record pscore := mkPS { ps_hp : list Z; ps_score : Z; ps_order : Z; ps_index : Z }.

Definition ps_dflt : pscore := mkPS [] 0 0 (-1).

(* peerHeap.Less on two elements: (score, order) lexicographic, strict *)
Definition pless (a b : pscore) : bool :=
  if ps_score a =? ps_score b then ps_order a <? ps_order b else ps_score a <? ps_score b.

Definition hget (h : list pscore) (i : nat) : pscore := nth i h ps_dflt.

Fixpoint set_nth {A} (h : list A) (i : nat) (x : A) : list A :=
  match h, i with
  | [], _ => []
  | _ :: r, O => x :: r
  | y :: r, S i' => y :: set_nth r i' x
  end.

Definition set_index (x : pscore) (i : Z) : pscore := mkPS (ps_hp x) (ps_score x) (ps_order x) i.
Definition set_order (x : pscore) (o : Z) : pscore := mkPS (ps_hp x) (ps_score x) o (ps_index x).
Definition set_score (x : pscore) (s : Z) : pscore := mkPS (ps_hp x) s (ps_order x) (ps_index x).

(* peerHeap.Swap(i, j): exchange the two pointers, then set both back-pointers *)
Definition hswap (h : list pscore) (i j : nat) : list pscore :=
  let a := hget h i in
  let b := hget h j in
  set_nth (set_nth h i (set_index b (Z.of_nat i))) j (set_index a (Z.of_nat j)).

(* container/heap up(h, j):  for { i := (j-1)/2; if i == j || !h.Less(j, i) { break }; h.Swap(i, j); j = i }
   ((0-1)/2 = 0 both in Go's truncated int division and in nat) *)
Fixpoint hup (fuel : nat) (h : list pscore) (j : nat) : list pscore :=
  match fuel with
  | O => h
  | S f =>
      let i := ((j - 1) / 2)%nat in
      if (i =? j)%nat || negb (pless (hget h j) (hget h i)) then h
      else hup f (hswap h i j) i
  end.

(* down: j := j1; if j2 := j1 + 1; j2 < n && h.Less(j2, j1) { j = j2 } *)
Definition pick_child (h : list pscore) (j1 n : nat) : nat :=
  if ((j1 + 1 <? n)%nat && pless (hget h (j1 + 1)) (hget h j1))%bool then (j1 + 1)%nat else j1.

(* container/heap down(h, i0, n): returns the array and the final position i (Go returns i > i0) *)
Fixpoint hdown (fuel : nat) (h : list pscore) (i n : nat) : list pscore * nat :=
  match fuel with
  | O => (h, i)
  | S f =>
      let j1 := (2 * i + 1)%nat in
      if (n <=? j1)%nat then (h, i)
      else
        let j := pick_child h j1 n in
        if negb (pless (hget h j) (hget h i)) then (h, i)
        else hdown f (hswap h i j) j n
  end.

(* heap.Push(h, x): h.Push(x) (item.index = n; append) then up(h, Len-1) *)
Definition heap_push (h : list pscore) (x : pscore) : list pscore :=
  let n := length h in
  let h' := h ++ [set_index x (Z.of_nat n)] in
  hup (S n) h' n.

(* peerHeap.Pop: item := old[n-1]; item.index = -1; slice off *)
Definition raw_pop (h : list pscore) : list pscore * pscore :=
  (removelast h, set_index (last h ps_dflt) (-1)).

(* heap.Pop(h): n := Len-1; Swap(0, n); down(h, 0, n); h.Pop().  Len = 0: Swap(0,-1) panics *)
Definition heap_pop (h : list pscore) : option (list pscore * pscore) :=
  match h with
  | [] => None
  | _ =>
      let n := (length h - 1)%nat in
      let h1 := hswap h 0 n in
      let '(h2, _) := hdown (S n) h1 0 n in
      Some (raw_pop h2)
  end.

(* heap.Fix(h, i): if !down(h, i, Len) { up(h, i) }.
   i = -1 and (i = 0, Len = 0) are no-ops in Go; any other out-of-range i panics in Less *)
Definition heap_fix (h : list pscore) (i : Z) : option (list pscore) :=
  let len := length h in
  if (i =? -1) || ((i =? 0) && (len =? 0)%nat) then Some h
  else if (0 <=? i) && (i <? Z.of_nat len) then
    let i' := Z.to_nat i in
    let '(h1, i1) := hdown (S len) h i' len in
    if (i' <? i1)%nat then Some h1 else Some (hup (S len) h1 i')
  else None.

(* heap.Remove(h, i): n := Len-1; if n != i { Swap(i, n); if !down(h, i, n) { up(h, i) } }; h.Pop() *)
Definition heap_remove (h : list pscore) (i : Z) : option (list pscore * pscore) :=
  match h with
  | [] => None
  | _ =>
      let n := (length h - 1)%nat in
      if i =? Z.of_nat n then Some (raw_pop h)
      else if (0 <=? i) && (i <? Z.of_nat n) then
        let i' := Z.to_nat i in
        let h1 := hswap h i' n in
        let '(h2, i2) := hdown (S n) h1 i' n in
        let h3 := if (i' <? i2)%nat then h2 else hup (S n) h2 i' in
        Some (raw_pop h3)
      else None
  end.

(* rng.Intn(k) for a raw draw d *)
Definition intn (d k : Z) : Z := d mod k.

(* peerHeap.pushPeer: ph.order++ ; randRange := Len/2+1 ; order = newOrder + Intn(randRange) ; heap.Push
   (uint64 arithmetic).  Returns the array and the new counter. *)
Definition push_peer (h : list pscore) (ctr : Z) (x : pscore) (d : Z) : list pscore * Z :=
  let ctr' := wrapU 64 (ctr + 1) in
  let rr := Z.of_nat (length h) / 2 + 1 in
  let x' := set_order x (wrapU 64 (ctr' + intn d rr)) in
  (heap_push h x', ctr').

(* the object a *peerScore pointer refers to, as long as it is in the heap *)
Definition find_ps (h : list pscore) (hp : list Z) : option pscore :=
  find (fun x => bytes_eqb (ps_hp x) hp) h.

(* peerHeap.swapOrder(i, j) *)
Definition swap_order (h : list pscore) (i j : Z) : option (list pscore) :=
  if i =? j then Some h
  else if (0 <=? i) && (i <? Z.of_nat (length h)) && (0 <=? j) && (j <? Z.of_nat (length h)) then
    let a := hget h (Z.to_nat i) in
    let b := hget h (Z.to_nat j) in
    let h1 := set_nth h (Z.to_nat i) (set_order a (ps_order b)) in
    let h2 := set_nth h1 (Z.to_nat j) (set_order b (ps_order a)) in
    match heap_fix h2 i with
    | Some h3 => heap_fix h3 j
    | None => None
    end
  else None.

(* peerHeap.addPeer: pushPeer; r := Intn(Len); swapOrder(peerScore.index, r) *)
Definition add_peer (h : list pscore) (ctr : Z) (x : pscore) (d1 d2 : Z) : option (list pscore * Z) :=
  let '(h1, ctr') := push_peer h ctr x d1 in
  let r := intn d2 (Z.of_nat (length h1)) in
  match find_ps h1 (ps_hp x) with
  | None => None
  | Some y =>
      match swap_order h1 (ps_index y) r with
      | Some h2 => Some (h2, ctr')
      | None => None
      end
  end.

(* position of the object a pointer refers to *)
Fixpoint find_pos (h : list pscore) (hp : list Z) : option nat :=
  match h with
  | [] => None
  | x :: r => if bytes_eqb (ps_hp x) hp then Some O
              else match find_pos r hp with Some k => Some (S k) | None => None end
  end.

(* PeerList.updatePeer body for the object [hp]: ps.score = newScore; peerHeap.updatePeer(ps) = heap.Fix(ph, ps.index) *)
Definition update_score (h : list pscore) (hp : list Z) (s : Z) : option (list pscore) :=
  match find_pos h hp with
  | None => None
  | Some p =>
      let y := hget h p in
      heap_fix (set_nth h p (set_score y s)) (ps_index y)
  end.

(* peerHeap.removePeer(ps) = heap.Remove(ph, ps.index) *)
Definition remove_peer (h : list pscore) (hp : list Z) : option (list pscore) :=
  match find_pos h hp with
  | None => None
  | Some p =>
      match heap_remove h (ps_index (hget h p)) with
      | Some (h', _) => Some h'
      | None => None
      end
  end.
