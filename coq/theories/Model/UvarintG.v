(* typed.ReadBuffer.ReadUvarint / typed.WriteBuffer.WriteUvarint over the GENERATED buffer
   primitives (Gen/GenTypedBuf.v).  The loops live in encoding/binary (ReadUvarint,
   PutUvarint), outside the repository: they are re-modelled by hand here, exactly as in
   Model/Codecs.v (r_uvarint, put_uvarint), but on the generated Go state so that generated
   callers (Gen/GenCodecs.v: http readVarintString / writeVarintString) can call them.
   Agreement with the Codecs.v versions: Proofs/GenCodecsP.v. *)
From Coq Require Import ZArith List Bool.
From Verif Require Import Base.Wrap Base.Bytes Base.GoSem Gen.GenTypedBuf Model.TypedBuf Model.Messages Model.Codecs.
Import ListNotations.
Local Open Scope Z_scope.

(* binary.ReadUvarint(r): at most 10 calls of r.ReadByte(); typed.ReadBuffer.ReadUvarint drops
   the error result.  i = byte index, x = value so far, s = shift. *)
Fixpoint g_uvarint_loop (n : nat) (i x s : Z) (r : ReadBuffer) : option (Z * ReadBuffer) :=
  match n with
  | O => Some (x, r)
  | S n' =>
      match ReadBuffer_ReadByte r with
      | None => None
      | Some (b, err, r1) =>
          if negb (err =? 0) then Some (x, r1)
          else if b <? 128 then
            Some (if (i =? 9) && (b >? 1) then x else Z.lor x (wrapU 64 (Z.shiftl b s)), r1)
          else g_uvarint_loop n' (i + 1) (Z.lor x (wrapU 64 (Z.shiftl (Z.land b 127) s))) (s + 7) r1
      end
  end.
Definition g_ReadUvarint (r : ReadBuffer) : option (Z * ReadBuffer) := g_uvarint_loop 10 0 0 0 r.

(* WriteUvarint: buf := make([]byte, 10); n := binary.PutUvarint(buf, v);
   if b := w.reserve(n); b != nil { copy(b, buf[0:n]) }   =  WriteBytes(buf[0:n]) *)
Definition g_WriteUvarint (w : WriteBuffer) (v : Z) : option WriteBuffer :=
  WriteBuffer_WriteBytes w (Some (put_uvarint 10 v)).
