(* Hand model of the relay bookkeeping of relay.go / relay_timer_pool.go (properties C09, C10).

   An interleaving transition system: [step : config -> state -> label -> option state].
   Threads: one reader goroutine per connection (TR k), one goroutine per fired relay timer
   (TT tm); tomb-GC timers are single-step labels.  A thread's program counter is the list of
   atomic actions ([instr]) it still has to perform; one [LStep] executes the head.  One
   instruction = one lock-protected region of relayItems (Get incl. timer Stop / Add / Delete /
   Entomb), one atomic counter operation, one sendCh enqueue attempt, or one RelayCall callback.

   Mirrors (line numbers of relay.go on the tree under verification):
     relayItems.Get 129-143, Add 146-150, Delete 155-171, Entomb 176-203,
     Relayer.Relay 269-289, Receive 293-370, canHandleNewCall 372-387, getDestination 389-425,
     handleCallReq 427-533, handleNonCallReq 536-596, addRelayItem 599-617,
     timeoutRelayItem 619-632, failRelayItem 637-664, finishRelayItem 666-678,
     decrementPending 680-683, relayFragmentSender.flushFragment 935-946 (the loop of fragmentingSend);
     relay_timer_pool.go OnTimer / Start / Stop / Release / verifyNotReleased.
   Decisions taken from generated definitions (Gen/GenFrame.v): finishesCall, frameTypeFor,
   relayRoute, dcsSucceeded / dcsFailMsg (= determinesCallSuccess), connection state constants.

   Ghost state: [cblog] (RelayCall callbacks, newest first), [sent] (frames put on a
   connection's sendCh, newest first), [seen] (call req ids read per connection).
   No proofs in this file. *)
From Coq Require Import ZArith List Bool.
From Verif Require Import Base.Wrap Base.Wire Gen.GenConsts Gen.GenFrame.
Import ListNotations.
Local Open Scope Z_scope.

(* ---------------------------------------------------------------- data *)

(* a relayItems table entry is addressed by (connection, table, id); table 0 = Relayer.outbound
   (ids of requests read on this connection), 1 = Relayer.inbound (ids of requests sent on it) *)
Definition key := (Z * Z * Z)%type.
Definition key_eqb (a b : key) : bool :=
  let '(a1, a2, a3) := a in let '(b1, b2, b3) := b in (a1 =? b1) && (a2 =? b2) && (a3 =? b3).
Definition key_conn (t : key) : Z := fst (fst t).
Definition key_dir (t : key) : Z := snd (fst t).
Definition key_id (t : key) : Z := snd t.

(* what the relay looks at in a frame: message type, id, flags byte, response code / error
   code byte, and whether a call res parses (newLazyCallRes) *)
Record frame := { f_mt : Z; f_id : Z; f_flags : Z; f_code : Z; f_wf : bool }.
Definition with_id (f : frame) (id : Z) : frame :=
  {| f_mt := f_mt f; f_id := id; f_flags := f_flags f; f_code := f_code f; f_wf := f_wf f |}.
Definition fin_of (f : frame) : bool := finishesCall (f_mt f) (f_flags f).

(* RelayCall callbacks; reasons of Failed are small codes (see [reason_*]) *)
Inductive cb := CbSent | CbRecv | CbResp | CbSucc | CbFailed (r : Z) | CbEnd.

Definition reason_dropped := 1.
Definition reason_client_inactive := 3.
Definition reason_bad_host := 5.
Definition reason_conn_failed := 6.
Definition reason_remote_inactive := 7.
Definition reason_dest_slow := 9.          (* _relayErrorDestConnSlow *)
Definition reason_source_slow := 10.       (* _relayErrorSourceConnSlow *)
Definition reason_not_found := 11.         (* _relayErrorNotFound *)
Definition reason_arg2_modify := 12.       (* _relayArg2ModifyFailed *)
Definition reason_canceled := 13.
Definition reason_app_error := 14.
Definition reason_syscode (code : Z) := 100 + code.     (* SystemErrCode.MetricsKey(): "timeout", "busy", ... *)
Definition reason_relaycode (code : Z) := 400 + code.   (* SystemErrCode.relayMetricsKey(): "relay-declined", ... *)
Definition reason_timeout := reason_syscode c_ErrCodeTimeout.        (* the literal "timeout" *)
Definition reason_duplicate := reason_relaycode c_ErrCodeProtocol.   (* ErrCodeProtocol.relayMetricsKey() *)

(* failMsg of determinesCallSuccess (generated) as a reason code: the two literals are
   taken from the generated function itself, an error frame's key is passed as [100+code] *)
Definition reason_of_msg (msg : list Z) : Z :=
  if bytes_eqb msg (dcsFailMsg c_messageTypeCancel 0 []) then reason_canceled
  else if bytes_eqb msg (dcsFailMsg c_messageTypeCallRes 1 []) then reason_app_error
  else match msg with [x] => x | _ => 99 end.

Record item := { it_call : Z; it_remap : Z; it_dest : Z; it_orig : bool; it_tomb : bool; it_tm : Z }.
Definition entomb_item (i : item) : item :=
  {| it_call := it_call i; it_remap := it_remap i; it_dest := it_dest i; it_orig := it_orig i;
     it_tomb := true; it_tm := it_tm i |}.

(* relayTimer: [tm_armed] = the underlying time.Timer is pending; the other three are the
   fields active / stopped / released of the Go struct; key/orig = the Start parameters *)
Record timer := { tm_armed : bool; tm_active : bool; tm_stopped : bool; tm_released : bool;
                  tm_key : key; tm_orig : bool }.

Record conn := { c_state : Z; c_pending : Z; c_nextid : Z }.
Definition conn0 : conn := {| c_state := c_connectionActive; c_pending := 0; c_nextid := 1 |}.

(* environment choices for one call req: RelayHost.Start outcome, destination, send mode *)
Record env := {
  e_start : Z;   (* 0 ok | 1 RateLimitDropError with call | 2 ... without call | 3 other error with call | 4 ... without call *)
  e_code : Z;    (* system error code of that error (255 = protocol: connection is closed) *)
  e_dest : Z;    (* >= 0 destination connection | -1 Destination() not ok | -2 connect failed *)
  e_mode : Z     (* 0 plain forward | n > 0 fragmentingSend emitting n fragments | -1 fragmentingSend fails before the first fragment *)
}.

Inductive esrc := FromFail (reason : Z) | FromTimeout (orig : bool).

(* parameters of one Relayer.Receive call together with what its caller does afterwards *)
Record rcv := {
  r_d : Z;          (* receiving connection *)
  r_f : frame;      (* the frame, id already remapped *)
  r_ft : Z;         (* frameType: c_requestFrame / c_responseFrame *)
  r_own : key;      (* the caller's own item: failed / finished after Receive returns *)
  r_call : Z;       (* call whose item the caller holds *)
  r_more : Z        (* relayFragmentSender: fragments still to flush after this one *)
}.

Inductive instr :=
(* handleCallReq *)
| IStart (k : Z) (f : frame) (e : env)                       (* relayHost.Start *)
| ICanHandle (k : Z) (f : frame) (e : env) (c : Z)           (* r.canHandleNewCall *)
| IGetDest (k : Z) (f : frame) (e : env) (c : Z)             (* getDestination *)
| IRemoteCan (k : Z) (f : frame) (e : env) (c : Z) (d : Z)   (* remoteConn.relay.canHandleNewCall *)
| IAddDest (k : Z) (f : frame) (e : env) (c : Z) (d : Z)     (* NextMessageID + addRelayItem(false) *)
| IAddOrig (k : Z) (f : frame) (e : env) (c : Z) (d : Z) (did : Z)  (* addRelayItem(true) *)
(* shared *)
| ICb (c : Z) (x : cb)
| IDec (k : Z)                                               (* decrementPending: r.pending.Dec() ... *)
| ICheck (k : Z)                                             (* ... then r.conn.checkExchanges(), same goroutine *)
| ISendErr (k : Z) (id : Z) (code : Z)                       (* conn.SendSystemError *)
| IConnClose (k : Z)                                         (* conn.close after a protocol error of the host *)
(* handleNonCallReq *)
| INcGet (k : Z) (f : frame)
| INcChk (k : Z) (f : frame) (ft : Z) (own : key) (g : option (item * bool))   (* at relay.nonCallReq.afterGet *)
(* Receive *)
| IRcvGet (r : rcv)
| IRcvChk (r : rcv) (rk : key) (g : option (item * bool))                    (* at relay.Receive.afterGet *)
| IRcvEnq (r : rcv) (rk : key) (lk : Z * Z)                  (* lk = (destination, remapID) of the item looked up at rk *)
(* failRelayItem / Entomb / finishRelayItem / OnTimer *)
| IFailGet (t : key) (reason : Z)
| IEntomb (t : key) (s : esrc)
| IDelete (t : key) (lk : Z * Z)                             (* finishRelayItem(items, id, lookedUp): lk = (destination, remapID) of lookedUp *)
| ITimerRun (tm : Z).

Inductive tid := TR (k : Z) | TT (tm : Z).
Definition tid_eqb (a b : tid) : bool :=
  match a, b with TR x, TR y => x =? y | TT x, TT y => x =? y | _, _ => false end.

Record config := { cf_maxtombs : Z; cf_cancel : bool (* PropagateCancel *) }.

Record state := {
  conns : list (Z * conn);
  items : list (key * item);
  timers : list (Z * timer);
  next_tm : Z;
  next_call : Z;
  gcs : list key;                       (* pending time.AfterFunc(_relayTombTTL, Delete) *)
  threads : list (tid * list instr);
  cblog : list (Z * cb);                (* newest first *)
  sent : list (Z * frame);              (* (connection, frame) enqueued on sendCh, newest first *)
  seen : list (Z * Z);                  (* (connection, id) of every call req read *)
  panicked : Z                          (* 0, or the code of the Go panic that killed the process *)
}.

Definition init : state :=
  {| conns := []; items := []; timers := []; next_tm := 1; next_call := 1; gcs := [];
     threads := []; cblog := []; sent := []; seen := []; panicked := 0 |}.

Inductive label :=
| LArrive (k : Z) (f : frame) (e : env)   (* the idle reader of k has read frame f *)
| LStep (t : tid) (room : bool)           (* thread t performs its next action; room = sendCh has room *)
| LFire (tm : Z)                          (* the Go runtime fires timer tm: OnTimer goroutine created *)
| LGc (t : key)                           (* a tomb GC timer fires: relayItems.deleteTomb(id) *)
| LClose (k : Z)                          (* Connection.close: Active -> StartClose *)
| LLost (k : Z)                           (* connection failure: -> Closed *)
| LDrained (k : Z).                       (* checkExchanges with canClose: closing -> Closed *)

(* ---------------------------------------------------------------- association lists *)

Section Assoc.
  Context {K V : Type} (eqb : K -> K -> bool).
  Fixpoint lookup (k : K) (l : list (K * V)) : option V :=
    match l with
    | [] => None
    | (k', v) :: r => if eqb k k' then Some v else lookup k r
    end.
  Fixpoint remove (k : K) (l : list (K * V)) : list (K * V) :=
    match l with
    | [] => []
    | (k', v) :: r => if eqb k k' then remove k r else (k', v) :: remove k r
    end.
  Definition insert (k : K) (v : V) (l : list (K * V)) : list (K * V) := (k, v) :: remove k l.
End Assoc.

Definition get_conn (st : state) (k : Z) : conn :=
  match lookup Z.eqb k (conns st) with Some c => c | None => conn0 end.

Fixpoint remove_one (t : key) (l : list key) : list key :=
  match l with
  | [] => []
  | x :: r => if key_eqb t x then r else x :: remove_one t r
  end.
Definition mem_key (t : key) (l : list key) : bool := existsb (key_eqb t) l.

(* ---------------------------------------------------------------- state updates *)

Definition set_conns (st : state) (x : list (Z * conn)) : state :=
  {| conns := x; items := items st; timers := timers st; next_tm := next_tm st; next_call := next_call st;
     gcs := gcs st; threads := threads st; cblog := cblog st; sent := sent st; seen := seen st; panicked := panicked st |}.
Definition set_items (st : state) (x : list (key * item)) : state :=
  {| conns := conns st; items := x; timers := timers st; next_tm := next_tm st; next_call := next_call st;
     gcs := gcs st; threads := threads st; cblog := cblog st; sent := sent st; seen := seen st; panicked := panicked st |}.
Definition set_timers (st : state) (x : list (Z * timer)) : state :=
  {| conns := conns st; items := items st; timers := x; next_tm := next_tm st; next_call := next_call st;
     gcs := gcs st; threads := threads st; cblog := cblog st; sent := sent st; seen := seen st; panicked := panicked st |}.
Definition set_next_tm (st : state) (x : Z) : state :=
  {| conns := conns st; items := items st; timers := timers st; next_tm := x; next_call := next_call st;
     gcs := gcs st; threads := threads st; cblog := cblog st; sent := sent st; seen := seen st; panicked := panicked st |}.
Definition set_next_call (st : state) (x : Z) : state :=
  {| conns := conns st; items := items st; timers := timers st; next_tm := next_tm st; next_call := x;
     gcs := gcs st; threads := threads st; cblog := cblog st; sent := sent st; seen := seen st; panicked := panicked st |}.
Definition set_gcs (st : state) (x : list key) : state :=
  {| conns := conns st; items := items st; timers := timers st; next_tm := next_tm st; next_call := next_call st;
     gcs := x; threads := threads st; cblog := cblog st; sent := sent st; seen := seen st; panicked := panicked st |}.
Definition set_threads (st : state) (x : list (tid * list instr)) : state :=
  {| conns := conns st; items := items st; timers := timers st; next_tm := next_tm st; next_call := next_call st;
     gcs := gcs st; threads := x; cblog := cblog st; sent := sent st; seen := seen st; panicked := panicked st |}.
Definition set_cblog (st : state) (x : list (Z * cb)) : state :=
  {| conns := conns st; items := items st; timers := timers st; next_tm := next_tm st; next_call := next_call st;
     gcs := gcs st; threads := threads st; cblog := x; sent := sent st; seen := seen st; panicked := panicked st |}.
Definition set_sent (st : state) (x : list (Z * frame)) : state :=
  {| conns := conns st; items := items st; timers := timers st; next_tm := next_tm st; next_call := next_call st;
     gcs := gcs st; threads := threads st; cblog := cblog st; sent := x; seen := seen st; panicked := panicked st |}.
Definition set_seen (st : state) (x : list (Z * Z)) : state :=
  {| conns := conns st; items := items st; timers := timers st; next_tm := next_tm st; next_call := next_call st;
     gcs := gcs st; threads := threads st; cblog := cblog st; sent := sent st; seen := x; panicked := panicked st |}.
Definition set_panic (st : state) (x : Z) : state :=
  {| conns := conns st; items := items st; timers := timers st; next_tm := next_tm st; next_call := next_call st;
     gcs := gcs st; threads := threads st; cblog := cblog st; sent := sent st; seen := seen st; panicked := x |}.

Definition put_conn (st : state) (k : Z) (c : conn) : state := set_conns st (insert Z.eqb k c (conns st)).
Definition log_cb (st : state) (c : Z) (x : cb) : state := set_cblog st ((c, x) :: cblog st).

(* Go panics of the timer pool (relay_timer_pool.go) *)
Definition panic_released := 1.      (* "Released timer cannot be used" *)
Definition panic_release_active := 2. (* "only stopped or completed timers can be released" *)
Definition panic_no_timer := 3.      (* nil timer (cannot happen: every item gets a timer) *)
Definition panic_frame_type := 4.    (* frameTypeFor: unsupported frame type *)

(* ---------------------------------------------------------------- relay_timer_pool.go *)

(* relayTimer.Stop *)
Definition timer_stop (st : state) (tm : Z) : state * bool :=
  match lookup Z.eqb tm (timers st) with
  | None => (set_panic st panic_no_timer, false)
  | Some t =>
      if tm_released t then (set_panic st panic_released, false)
      else if tm_stopped t then (st, true)
      else if tm_armed t then
        (set_timers st (insert Z.eqb tm
           {| tm_armed := false; tm_active := false; tm_stopped := true; tm_released := false;
              tm_key := tm_key t; tm_orig := tm_orig t |} (timers st)), true)
      else (st, false)
  end.

(* relayTimer.Release *)
Definition timer_release (st : state) (tm : Z) : state :=
  match lookup Z.eqb tm (timers st) with
  | None => set_panic st panic_no_timer
  | Some t =>
      if tm_released t then set_panic st panic_released
      else if tm_active t then set_panic st panic_release_active
      else set_timers st (insert Z.eqb tm
             {| tm_armed := tm_armed t; tm_active := false; tm_stopped := tm_stopped t; tm_released := true;
                tm_key := tm_key t; tm_orig := tm_orig t |} (timers st))
  end.

(* relayTimerPool.Get + relayTimer.Start *)
Definition timer_new (st : state) (t : key) (orig : bool) : state * Z :=
  let tm := next_tm st in
  (set_next_tm (set_timers st (insert Z.eqb tm
      {| tm_armed := true; tm_active := true; tm_stopped := false; tm_released := false;
         tm_key := t; tm_orig := orig |} (timers st))) (tm + 1), tm).

(* ---------------------------------------------------------------- relayItems *)

Definition tomb_count (st : state) (k dir : Z) : Z :=
  zlen (filter (fun e => (key_conn (fst e) =? k) && (key_dir (fst e) =? dir) && it_tomb (snd e)) (items st)).

(* relayItems.Get *)
Definition items_get (st : state) (t : key) (stop : bool) : state * option (item * bool) :=
  match lookup key_eqb t (items st) with
  | None => (st, None)
  | Some it =>
      if stop then let '(st', stopped) := timer_stop st (it_tm it) in (st', Some (it, stopped))
      else (st, Some (it, false))
  end.

(* relayItems.Delete: the deleted item and whether a live call was completed *)
Definition items_delete (st : state) (t : key) : state * option (item * bool) :=
  match lookup key_eqb t (items st) with
  | None => (st, None)
  | Some it =>
      let st1 := set_items st (remove key_eqb t (items st)) in
      (timer_release st1 (it_tm it), Some (it, negb (it_tomb it)))
  end.

(* relayItems.deleteCall (finishRelayItem): Delete for a caller that looked the item up earlier
   and let go of the lock in between.  The item is removed only if it still belongs to the call
   the caller looked up -- same destination relayer and same destination-side id [lk]; any other
   item found under the id (the id was re-used by a new call) is left alone. *)
Definition items_delete_call (st : state) (t : key) (lk : Z * Z) : state * option (item * bool) :=
  match lookup key_eqb t (items st) with
  | None => (st, None)
  | Some it =>
      if (it_dest it =? fst lk) && (it_remap it =? snd lk)
      then items_delete st t
      else (st, None)
  end.

(* relayItems.deleteTomb: the scheduled collection of the tombstone left for t.  It deletes a
   tombstone only: nothing there (deleted in the meantime) or a NON-tombstone (the tombstone was
   deleted and the id re-used by a live call) is left alone. *)
Definition items_delete_tomb (st : state) (t : key) : state :=
  match lookup key_eqb t (items st) with
  | None => st
  | Some it =>
      if it_tomb it
      then timer_release (set_items st (remove key_eqb t (items st))) (it_tm it)
      else st
  end.

(* relayItems.Entomb *)
Definition items_entomb (cf : config) (st : state) (t : key) : state * option (item * bool) :=
  if cf_maxtombs cf <? tomb_count st (key_conn t) (key_dir t) then items_delete st t
  else match lookup key_eqb t (items st) with
       | None => (st, None)
       | Some it =>
           if it_tomb it then (st, Some (it, false))
           else (set_gcs (set_items st (insert key_eqb t (entomb_item it) (items st))) (t :: gcs st),
                 Some (entomb_item it, true))
       end.

(* ---------------------------------------------------------------- instruction semantics *)

Definition req_frame (id : Z) (cont : bool) (more : bool) : frame :=
  {| f_mt := if cont then c_messageTypeCallReqContinue else c_messageTypeCallReq; f_id := id;
     f_flags := if more then c_hasMoreFragmentsFlag else 0; f_code := 0; f_wf := true |}.

(* what the caller of Receive does after it returned sent = true *)
Definition after_sent (r : rcv) : list instr :=
  (* the caller's own item was looked up by handleNonCallReq: the frame was sent to its
     destination relayer [r_d r] under its destination-side id [f_id (r_f r)] *)
  (if fin_of (r_f r) then [IDelete (r_own r) (r_d r, f_id (r_f r))] else []) ++
  (if 0 <? r_more r
   then [ICb (r_call r) CbSent;
         IRcvGet {| r_d := r_d r; r_f := req_frame (f_id (r_f r)) true (1 <? r_more r); r_ft := r_ft r;
                    r_own := r_own r; r_call := r_call r; r_more := r_more r - 1 |}]
   else []).

(* ... after it returned sent = false with the given failure: failRelayItem on the own item;
   a relayFragmentSender drops the remaining fragments of the failed call (its [failed] flag) *)
Definition after_unsent (r : rcv) (reason : Z) : list instr := [IFailGet (r_own r) reason].

Definition orig_tail (k id : Z) (c : Z) (s : esrc) : list instr :=
  match s with
  | FromFail reason =>
      (if reason =? reason_source_slow then [] else [ISendErr k id c_ErrCodeUnexpected]) ++
      [ICb c (CbFailed reason); ICb c CbEnd]
  | FromTimeout _ => [ISendErr k id c_ErrCodeTimeout; ICb c (CbFailed reason_timeout); ICb c CbEnd]
  end.

(* one atomic action: new state and the instructions pushed in front of the thread's rest *)
Definition exec (cf : config) (st : state) (i : instr) (room : bool) : state * list instr :=
  match i with
  | IStart k f e =>
      if e_start e =? 0 then
        let c := next_call st in (set_next_call st (c + 1), [ICanHandle k f e c])
      else
        let has_call := (e_start e =? 1) || (e_start e =? 3) in
        let drop := (e_start e =? 1) || (e_start e =? 2) in
        let c := next_call st in
        let st' := if has_call then set_next_call st (c + 1) else st in
        (st',
         (if has_call then [ICb c (CbFailed (if drop then reason_dropped else reason_relaycode (e_code e))); ICb c CbEnd] else []) ++
         (if drop then [] else
            ISendErr k (f_id f) (e_code e) :: (if e_code e =? c_ErrCodeProtocol then [IConnClose k] else [])))
  | ICanHandle k f e c =>
      let cn := get_conn st k in
      if c_state cn =? c_connectionActive then
        (put_conn st k {| c_state := c_state cn; c_pending := wrapU 32 (c_pending cn + 1); c_nextid := c_nextid cn |},
         [IGetDest k f e c])
      else (st, [ICb c (CbFailed reason_client_inactive); ICb c CbEnd; ISendErr k (f_id f) c_ErrCodeDeclined])
  | IGetDest k f e c =>
      match lookup key_eqb (k, 0, f_id f) (items st) with
      | Some _ => (st, [ICb c (CbFailed reason_duplicate); IDec k; ICb c CbEnd])
      | None =>
          if e_dest e =? -1 then
            (st, [ICb c (CbFailed reason_bad_host); ISendErr k (f_id f) c_ErrCodeDeclined; IDec k; ICb c CbEnd])
          else if e_dest e <? 0 then
            (st, [ICb c (CbFailed reason_conn_failed); ISendErr k (f_id f) c_ErrCodeNetwork; IDec k; ICb c CbEnd])
          else (st, [IRemoteCan k f e c (e_dest e)])
      end
  | IRemoteCan k f e c d =>
      let cn := get_conn st d in
      if c_state cn =? c_connectionActive then
        (put_conn st d {| c_state := c_state cn; c_pending := wrapU 32 (c_pending cn + 1); c_nextid := c_nextid cn |},
         [IAddDest k f e c d])
      else (st, [ICb c (CbFailed reason_remote_inactive); ISendErr k (f_id f) c_ErrCodeDeclined; IDec k; ICb c CbEnd])
  | IAddDest k f e c d =>
      let cn := get_conn st d in
      let did := c_nextid cn in
      let st1 := put_conn st d {| c_state := c_state cn; c_pending := c_pending cn; c_nextid := did + 1 |} in
      let '(st2, tm) := timer_new st1 (d, 1, did) false in
      (set_items st2 (insert key_eqb (d, 1, did)
         {| it_call := c; it_remap := f_id f; it_dest := k; it_orig := false; it_tomb := false; it_tm := tm |} (items st2)),
       [IAddOrig k f e c d did])
  | IAddOrig k f e c d did =>
      let own := (k, 0, f_id f) in
      let '(st1, tm) := timer_new st own true in
      (set_items st1 (insert key_eqb own
         {| it_call := c; it_remap := did; it_dest := d; it_orig := true; it_tomb := false; it_tm := tm |} (items st1)),
       if e_mode e <? 0 then [IFailGet own reason_arg2_modify]
       else
         let n := if e_mode e =? 0 then 1 else e_mode e in
         [ICb c CbSent;
          IRcvGet {| r_d := d; r_f := req_frame did false (hasMoreFragments (f_flags f) || (1 <? n)); r_ft := c_requestFrame;
                     r_own := own; r_call := c; r_more := n - 1 |}])
  | ICb c x => (log_cb st c x, [])
  | IDec k =>
      let cn := get_conn st k in
      (put_conn st k {| c_state := c_state cn; c_pending := wrapU 32 (c_pending cn - 1); c_nextid := c_nextid cn |},
       [ICheck k])
  | ICheck k =>
      (* Connection.checkExchanges as far as the relay is concerned: a closing connection whose
         relayer can close (pending = 0) completes its close *)
      let cn := get_conn st k in
      if ((c_state cn =? c_connectionStartClose) || (c_state cn =? c_connectionInboundClosed)) && (c_pending cn =? 0)
      then (put_conn st k {| c_state := c_connectionClosed; c_pending := c_pending cn; c_nextid := c_nextid cn |}, [])
      else (st, [])
  | ISendErr k id code =>
      if (c_state (get_conn st k) =? c_connectionClosed) || negb room then (st, [])
      else (set_sent st ((k, {| f_mt := c_messageTypeError; f_id := id; f_flags := 0; f_code := code; f_wf := true |}) :: sent st), [])
  | IConnClose k =>
      let cn := get_conn st k in
      if c_state cn =? c_connectionActive
      then (put_conn st k {| c_state := c_connectionStartClose; c_pending := c_pending cn; c_nextid := c_nextid cn |}, [])
      else (st, [])
  | INcGet k f =>
      match frameTypeFor (f_mt f) with
      | None => (set_panic st panic_frame_type, [])
      | Some ft =>
          let own := (k, (if ft =? c_responseFrame then 1 else 0), f_id f) in
          let '(st', g) := items_get st own (fin_of f) in
          (st', [INcChk k f ft own g])
      end
  | INcChk k f ft own g =>
      match g with
      | None => (st, [])                     (* errUnknownID *)
      | Some (it, stopped) =>
          if it_tomb it || (fin_of f && negb stopped) then (st, [])
          else
            (st,
             (if (f_mt f =? c_messageTypeCallRes) && f_wf f then [ICb (it_call it) CbResp] else []) ++
             [ICb (it_call it) (if ft =? c_requestFrame then CbSent else CbRecv);
              IRcvGet {| r_d := it_dest it; r_f := with_id f (it_remap it); r_ft := ft; r_own := own;
                         r_call := it_call it; r_more := 0 |}])
      end
  | IRcvGet r =>
      let rk := (r_d r, (if r_ft r =? c_requestFrame then 1 else 0), f_id (r_f r)) in
      let '(st', g) := items_get st rk (fin_of (r_f r)) in
      (st', [IRcvChk r rk g])
  | IRcvChk r rk g =>
      match g with
      | None => (st, after_unsent r reason_not_found)
      | Some (it, stopped) =>
          if it_tomb it || (fin_of (r_f r) && negb stopped) then (st, after_sent r)
          else
            let f := r_f r in
            (st,
             (if (r_ft r =? c_responseFrame) || (f_mt f =? c_messageTypeCancel) then
                if dcsSucceeded (f_mt f) (f_code f) [reason_syscode (f_code f)] then [ICb (it_call it) CbSucc]
                else if 0 <? zlen (dcsFailMsg (f_mt f) (f_code f) [reason_syscode (f_code f)])
                     then [ICb (it_call it) (CbFailed (reason_of_msg (dcsFailMsg (f_mt f) (f_code f) [reason_syscode (f_code f)])))]
                     else []
              else []) ++ [IRcvEnq r rk (it_dest it, it_remap it)])
      end
  | IRcvEnq r rk lk =>
      if room then
        (set_sent st ((r_d r, r_f r) :: sent st),
         (if fin_of (r_f r) then [IDelete rk lk] else []) ++ after_sent r)
      else
        let reason := if r_ft r =? c_responseFrame then reason_source_slow else reason_dest_slow in
        (st, IFailGet rk reason :: after_unsent r reason)
  | IFailGet t reason =>
      let '(st', g) := items_get st t true in
      match g with
      | Some (_, true) => (st', [IEntomb t (FromFail reason)])
      | _ => (st', [])
      end
  | IEntomb t s =>
      let '(st', g) := items_entomb cf st t in
      match g with
      | Some (it, true) =>
          let orig := match s with FromFail _ => it_orig it | FromTimeout o => o end in
          (st', (if orig then orig_tail (key_conn t) (key_id t) (it_call it) s else []) ++ [IDec (key_conn t)])
      | _ => (st', [])
      end
  | IDelete t lk =>
      let '(st', g) := items_delete_call st t lk in
      match g with
      | Some (it, true) => (st', (if it_orig it then [ICb (it_call it) CbEnd] else []) ++ [IDec (key_conn t)])
      | _ => (st', [])
      end
  | ITimerRun tm =>
      match lookup Z.eqb tm (timers st) with
      | None => (set_panic st panic_no_timer, [])
      | Some t =>
          if tm_released t then (set_panic st panic_released, [])
          else
            (set_timers st (insert Z.eqb tm
               {| tm_armed := tm_armed t; tm_active := false; tm_stopped := tm_stopped t; tm_released := false;
                  tm_key := tm_key t; tm_orig := tm_orig t |} (timers st)),
             [IEntomb (tm_key t) (FromTimeout (tm_orig t))])
      end
  end.

Definition set_thread (st : state) (t : tid) (code : list instr) : state :=
  set_threads st (match code with
                  | [] => remove tid_eqb t (threads st)
                  | _ => insert tid_eqb t code (threads st)
                  end).

Definition step (cf : config) (st : state) (l : label) : option state :=
  if negb (panicked st =? 0) then None else
  match l with
  | LArrive k f e =>
      match lookup tid_eqb (TR k) (threads st) with
      | Some _ => None
      | None =>
          let r := relayRoute (f_mt f) (cf_cancel cf) in
          if r =? 1 then
            if f_mt f =? c_messageTypeCallReq
            then Some (set_thread (set_seen st ((k, f_id f) :: seen st)) (TR k) [IStart k f e])
            else Some (set_thread st (TR k) [INcGet k f])
          else Some st      (* ignored cancel, or a frame handled outside the relay path *)
      end
  | LStep t room =>
      match lookup tid_eqb t (threads st) with
      | Some (i :: rest) =>
          let '(st', pushed) := exec cf st i room in
          Some (set_thread st' t (pushed ++ rest))
      | _ => None
      end
  | LFire tm =>
      match lookup Z.eqb tm (timers st) with
      | Some t =>
          (* one Start, at most one OnTimer goroutine *)
          if tm_armed t && (match lookup tid_eqb (TT tm) (threads st) with None => true | Some _ => false end) then
            Some (set_thread (set_timers st (insert Z.eqb tm
                    {| tm_armed := false; tm_active := tm_active t; tm_stopped := tm_stopped t; tm_released := tm_released t;
                       tm_key := tm_key t; tm_orig := tm_orig t |} (timers st))) (TT tm) [ITimerRun tm])
          else None
      | None => None
      end
  | LGc t =>
      if mem_key t (gcs st)
      then Some (items_delete_tomb (set_gcs st (remove_one t (gcs st))) t)
      else None
  | LClose k =>
      let cn := get_conn st k in
      if c_state cn =? c_connectionActive
      then Some (put_conn st k {| c_state := c_connectionStartClose; c_pending := c_pending cn; c_nextid := c_nextid cn |})
      else None
  | LLost k =>
      let cn := get_conn st k in
      Some (put_conn st k {| c_state := c_connectionClosed; c_pending := c_pending cn; c_nextid := c_nextid cn |})
  | LDrained k =>
      let cn := get_conn st k in
      if ((c_state cn =? c_connectionStartClose) || (c_state cn =? c_connectionInboundClosed)) && (c_pending cn =? 0)
      then Some (put_conn st k {| c_state := c_connectionClosed; c_pending := c_pending cn; c_nextid := c_nextid cn |})
      else None
  end.

Fixpoint run (cf : config) (st : state) (ls : list label) : option state :=
  match ls with
  | [] => Some st
  | l :: r => match step cf st l with Some st' => run cf st' r | None => None end
  end.

(* The quantifier of C09/C10 ranges over callers that do not reuse a request id on a
   connection (duplicate in-flight ids are C04's protocol-error case): a label is
   admissible when a call req carries an id not read before on that connection. *)
Definition fresh_label (st : state) (l : label) : bool :=
  match l with
  | LArrive k f _ =>
      negb ((f_mt f =? c_messageTypeCallReq) && existsb (fun p => (fst p =? k) && (snd p =? f_id f)) (seen st))
  | _ => true
  end.

Fixpoint run_fresh (cf : config) (st : state) (ls : list label) : option state :=
  match ls with
  | [] => Some st
  | l :: r => if fresh_label st l
              then match step cf st l with Some st' => run_fresh cf st' r | None => None end
              else None
  end.
