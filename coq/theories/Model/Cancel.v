(* Hand model of cancellation / expiry propagation for one call (property C14, clause d):
     mex.go         messageExchange.recvPeerFrame / checkError / onCtxErr (cancel notification,
                    at most once per exchange), handleCancel, inboundExpired, shutdown, stopExchanges
     reqres.go      reqResWriter.newFragment / flushFragment (context and exchange errors)
     connection.go  Connection.onCancel (SendCancelOnContextCanceled), handleFrameRelay
                    (cancel frames dropped by a relay without PropagateCancel), connectionError
     inbound.go     handleCallReq (exchange + handler context), handleCancel (PropagateCancel),
                    dispatchInbound's watcher goroutine, doneSending (cancel on completion), Blackhole
     relay.go       handleNonCallReq / Receive: a cancel frame is forwarded while the relay item
                    is live and finishes it; timers drop the item at the deadline
     outbound.go    beginCall's context check
   The call is an interleaving transition system: one atomic step per caller operation,
   handler operation or environment event.  Frames travel instantly (the harness lets the
   system settle between steps).  GetContextError is the generated definition. *)
From Coq Require Import ZArith List Bool.
From Verif Require Import Base.Wrap Base.Wire Gen.GenConsts Gen.GenTTL.
Import ListNotations.
Local Open Scope Z_scope.

Record cfg := mkCfg {
  send_cancel : bool;      (* caller's connection: SendCancelOnContextCanceled *)
  hops : list bool;        (* PropagateCancel of each relay between caller and server *)
  srv_prop : bool          (* server's connection: PropagateCancel *)
}.

(* contexts: 0 live, 1 context.DeadlineExceeded, 2 context.Canceled *)
Record st := mkSt {
  cctx : Z;
  cres : option Z;
  begun : bool;
  req_sent : Z;
  req_closed : bool;
  cancel_notified : bool;
  cancels_sent : Z;
  resp_read : Z;
  relay_alive : bool;
  conn_failed : bool;
  resp_avail : Z;
  resp_final : bool;
  hstarted : bool;
  hctx : Z;
  mex_reg : bool;
  resp_failed : bool;
  resp_done : bool;
  requested : Z;
  honored : Z;
  dl_passed : bool
}.

Definition set_cctx (v : Z) (s : st) : st :=
  {| cctx := v; cres := cres s; begun := begun s; req_sent := req_sent s; req_closed := req_closed s; cancel_notified := cancel_notified s; cancels_sent := cancels_sent s; resp_read := resp_read s; relay_alive := relay_alive s; conn_failed := conn_failed s; resp_avail := resp_avail s; resp_final := resp_final s; hstarted := hstarted s; hctx := hctx s; mex_reg := mex_reg s; resp_failed := resp_failed s; resp_done := resp_done s; requested := requested s; honored := honored s; dl_passed := dl_passed s |}.
Definition set_cres (v : option Z) (s : st) : st :=
  {| cctx := cctx s; cres := v; begun := begun s; req_sent := req_sent s; req_closed := req_closed s; cancel_notified := cancel_notified s; cancels_sent := cancels_sent s; resp_read := resp_read s; relay_alive := relay_alive s; conn_failed := conn_failed s; resp_avail := resp_avail s; resp_final := resp_final s; hstarted := hstarted s; hctx := hctx s; mex_reg := mex_reg s; resp_failed := resp_failed s; resp_done := resp_done s; requested := requested s; honored := honored s; dl_passed := dl_passed s |}.
Definition set_begun (v : bool) (s : st) : st :=
  {| cctx := cctx s; cres := cres s; begun := v; req_sent := req_sent s; req_closed := req_closed s; cancel_notified := cancel_notified s; cancels_sent := cancels_sent s; resp_read := resp_read s; relay_alive := relay_alive s; conn_failed := conn_failed s; resp_avail := resp_avail s; resp_final := resp_final s; hstarted := hstarted s; hctx := hctx s; mex_reg := mex_reg s; resp_failed := resp_failed s; resp_done := resp_done s; requested := requested s; honored := honored s; dl_passed := dl_passed s |}.
Definition set_req_sent (v : Z) (s : st) : st :=
  {| cctx := cctx s; cres := cres s; begun := begun s; req_sent := v; req_closed := req_closed s; cancel_notified := cancel_notified s; cancels_sent := cancels_sent s; resp_read := resp_read s; relay_alive := relay_alive s; conn_failed := conn_failed s; resp_avail := resp_avail s; resp_final := resp_final s; hstarted := hstarted s; hctx := hctx s; mex_reg := mex_reg s; resp_failed := resp_failed s; resp_done := resp_done s; requested := requested s; honored := honored s; dl_passed := dl_passed s |}.
Definition set_req_closed (v : bool) (s : st) : st :=
  {| cctx := cctx s; cres := cres s; begun := begun s; req_sent := req_sent s; req_closed := v; cancel_notified := cancel_notified s; cancels_sent := cancels_sent s; resp_read := resp_read s; relay_alive := relay_alive s; conn_failed := conn_failed s; resp_avail := resp_avail s; resp_final := resp_final s; hstarted := hstarted s; hctx := hctx s; mex_reg := mex_reg s; resp_failed := resp_failed s; resp_done := resp_done s; requested := requested s; honored := honored s; dl_passed := dl_passed s |}.
Definition set_cancel_notified (v : bool) (s : st) : st :=
  {| cctx := cctx s; cres := cres s; begun := begun s; req_sent := req_sent s; req_closed := req_closed s; cancel_notified := v; cancels_sent := cancels_sent s; resp_read := resp_read s; relay_alive := relay_alive s; conn_failed := conn_failed s; resp_avail := resp_avail s; resp_final := resp_final s; hstarted := hstarted s; hctx := hctx s; mex_reg := mex_reg s; resp_failed := resp_failed s; resp_done := resp_done s; requested := requested s; honored := honored s; dl_passed := dl_passed s |}.
Definition set_cancels_sent (v : Z) (s : st) : st :=
  {| cctx := cctx s; cres := cres s; begun := begun s; req_sent := req_sent s; req_closed := req_closed s; cancel_notified := cancel_notified s; cancels_sent := v; resp_read := resp_read s; relay_alive := relay_alive s; conn_failed := conn_failed s; resp_avail := resp_avail s; resp_final := resp_final s; hstarted := hstarted s; hctx := hctx s; mex_reg := mex_reg s; resp_failed := resp_failed s; resp_done := resp_done s; requested := requested s; honored := honored s; dl_passed := dl_passed s |}.
Definition set_resp_read (v : Z) (s : st) : st :=
  {| cctx := cctx s; cres := cres s; begun := begun s; req_sent := req_sent s; req_closed := req_closed s; cancel_notified := cancel_notified s; cancels_sent := cancels_sent s; resp_read := v; relay_alive := relay_alive s; conn_failed := conn_failed s; resp_avail := resp_avail s; resp_final := resp_final s; hstarted := hstarted s; hctx := hctx s; mex_reg := mex_reg s; resp_failed := resp_failed s; resp_done := resp_done s; requested := requested s; honored := honored s; dl_passed := dl_passed s |}.
Definition set_relay_alive (v : bool) (s : st) : st :=
  {| cctx := cctx s; cres := cres s; begun := begun s; req_sent := req_sent s; req_closed := req_closed s; cancel_notified := cancel_notified s; cancels_sent := cancels_sent s; resp_read := resp_read s; relay_alive := v; conn_failed := conn_failed s; resp_avail := resp_avail s; resp_final := resp_final s; hstarted := hstarted s; hctx := hctx s; mex_reg := mex_reg s; resp_failed := resp_failed s; resp_done := resp_done s; requested := requested s; honored := honored s; dl_passed := dl_passed s |}.
Definition set_conn_failed (v : bool) (s : st) : st :=
  {| cctx := cctx s; cres := cres s; begun := begun s; req_sent := req_sent s; req_closed := req_closed s; cancel_notified := cancel_notified s; cancels_sent := cancels_sent s; resp_read := resp_read s; relay_alive := relay_alive s; conn_failed := v; resp_avail := resp_avail s; resp_final := resp_final s; hstarted := hstarted s; hctx := hctx s; mex_reg := mex_reg s; resp_failed := resp_failed s; resp_done := resp_done s; requested := requested s; honored := honored s; dl_passed := dl_passed s |}.
Definition set_resp_avail (v : Z) (s : st) : st :=
  {| cctx := cctx s; cres := cres s; begun := begun s; req_sent := req_sent s; req_closed := req_closed s; cancel_notified := cancel_notified s; cancels_sent := cancels_sent s; resp_read := resp_read s; relay_alive := relay_alive s; conn_failed := conn_failed s; resp_avail := v; resp_final := resp_final s; hstarted := hstarted s; hctx := hctx s; mex_reg := mex_reg s; resp_failed := resp_failed s; resp_done := resp_done s; requested := requested s; honored := honored s; dl_passed := dl_passed s |}.
Definition set_resp_final (v : bool) (s : st) : st :=
  {| cctx := cctx s; cres := cres s; begun := begun s; req_sent := req_sent s; req_closed := req_closed s; cancel_notified := cancel_notified s; cancels_sent := cancels_sent s; resp_read := resp_read s; relay_alive := relay_alive s; conn_failed := conn_failed s; resp_avail := resp_avail s; resp_final := v; hstarted := hstarted s; hctx := hctx s; mex_reg := mex_reg s; resp_failed := resp_failed s; resp_done := resp_done s; requested := requested s; honored := honored s; dl_passed := dl_passed s |}.
Definition set_hstarted (v : bool) (s : st) : st :=
  {| cctx := cctx s; cres := cres s; begun := begun s; req_sent := req_sent s; req_closed := req_closed s; cancel_notified := cancel_notified s; cancels_sent := cancels_sent s; resp_read := resp_read s; relay_alive := relay_alive s; conn_failed := conn_failed s; resp_avail := resp_avail s; resp_final := resp_final s; hstarted := v; hctx := hctx s; mex_reg := mex_reg s; resp_failed := resp_failed s; resp_done := resp_done s; requested := requested s; honored := honored s; dl_passed := dl_passed s |}.
Definition set_hctx (v : Z) (s : st) : st :=
  {| cctx := cctx s; cres := cres s; begun := begun s; req_sent := req_sent s; req_closed := req_closed s; cancel_notified := cancel_notified s; cancels_sent := cancels_sent s; resp_read := resp_read s; relay_alive := relay_alive s; conn_failed := conn_failed s; resp_avail := resp_avail s; resp_final := resp_final s; hstarted := hstarted s; hctx := v; mex_reg := mex_reg s; resp_failed := resp_failed s; resp_done := resp_done s; requested := requested s; honored := honored s; dl_passed := dl_passed s |}.
Definition set_mex_reg (v : bool) (s : st) : st :=
  {| cctx := cctx s; cres := cres s; begun := begun s; req_sent := req_sent s; req_closed := req_closed s; cancel_notified := cancel_notified s; cancels_sent := cancels_sent s; resp_read := resp_read s; relay_alive := relay_alive s; conn_failed := conn_failed s; resp_avail := resp_avail s; resp_final := resp_final s; hstarted := hstarted s; hctx := hctx s; mex_reg := v; resp_failed := resp_failed s; resp_done := resp_done s; requested := requested s; honored := honored s; dl_passed := dl_passed s |}.
Definition set_resp_failed (v : bool) (s : st) : st :=
  {| cctx := cctx s; cres := cres s; begun := begun s; req_sent := req_sent s; req_closed := req_closed s; cancel_notified := cancel_notified s; cancels_sent := cancels_sent s; resp_read := resp_read s; relay_alive := relay_alive s; conn_failed := conn_failed s; resp_avail := resp_avail s; resp_final := resp_final s; hstarted := hstarted s; hctx := hctx s; mex_reg := mex_reg s; resp_failed := v; resp_done := resp_done s; requested := requested s; honored := honored s; dl_passed := dl_passed s |}.
Definition set_resp_done (v : bool) (s : st) : st :=
  {| cctx := cctx s; cres := cres s; begun := begun s; req_sent := req_sent s; req_closed := req_closed s; cancel_notified := cancel_notified s; cancels_sent := cancels_sent s; resp_read := resp_read s; relay_alive := relay_alive s; conn_failed := conn_failed s; resp_avail := resp_avail s; resp_final := resp_final s; hstarted := hstarted s; hctx := hctx s; mex_reg := mex_reg s; resp_failed := resp_failed s; resp_done := v; requested := requested s; honored := honored s; dl_passed := dl_passed s |}.
Definition set_requested (v : Z) (s : st) : st :=
  {| cctx := cctx s; cres := cres s; begun := begun s; req_sent := req_sent s; req_closed := req_closed s; cancel_notified := cancel_notified s; cancels_sent := cancels_sent s; resp_read := resp_read s; relay_alive := relay_alive s; conn_failed := conn_failed s; resp_avail := resp_avail s; resp_final := resp_final s; hstarted := hstarted s; hctx := hctx s; mex_reg := mex_reg s; resp_failed := resp_failed s; resp_done := resp_done s; requested := v; honored := honored s; dl_passed := dl_passed s |}.
Definition set_honored (v : Z) (s : st) : st :=
  {| cctx := cctx s; cres := cres s; begun := begun s; req_sent := req_sent s; req_closed := req_closed s; cancel_notified := cancel_notified s; cancels_sent := cancels_sent s; resp_read := resp_read s; relay_alive := relay_alive s; conn_failed := conn_failed s; resp_avail := resp_avail s; resp_final := resp_final s; hstarted := hstarted s; hctx := hctx s; mex_reg := mex_reg s; resp_failed := resp_failed s; resp_done := resp_done s; requested := requested s; honored := v; dl_passed := dl_passed s |}.
Definition set_dl_passed (v : bool) (s : st) : st :=
  {| cctx := cctx s; cres := cres s; begun := begun s; req_sent := req_sent s; req_closed := req_closed s; cancel_notified := cancel_notified s; cancels_sent := cancels_sent s; resp_read := resp_read s; relay_alive := relay_alive s; conn_failed := conn_failed s; resp_avail := resp_avail s; resp_final := resp_final s; hstarted := hstarted s; hctx := hctx s; mex_reg := mex_reg s; resp_failed := resp_failed s; resp_done := resp_done s; requested := requested s; honored := honored s; dl_passed := v |}.

Definition init : st :=
  {| cctx := 0; cres := None; begun := false; req_sent := 0; req_closed := false;
     cancel_notified := false; cancels_sent := 0; resp_read := 0;
     relay_alive := true; conn_failed := false; resp_avail := 0; resp_final := false;
     hstarted := false; hctx := 0; mex_reg := false; resp_failed := false; resp_done := false;
     requested := 0; honored := 0; dl_passed := false |}.

Inductive label :=
| LBegin        (* caller: BeginCall *)
| LWFrag        (* caller: write and flush one non-final request fragment *)
| LWClose       (* caller: close the last argument: final request fragment *)
| LRead         (* caller: wait for the next response fragment *)
| LCancel       (* the caller's context is cancelled *)
| LDeadline     (* the call's deadline passes: caller context, relay timers, handler context *)
| LHFrag        (* handler: write and flush one non-final response fragment *)
| LHClose       (* handler: complete the response *)
| LHBlackhole   (* handler: Response().Blackhole() *)
| LConnFail.    (* the connection the server received the call on fails *)

Definition e_network : Z := 3.   (* any error that is neither ErrTimeout nor ErrRequestCancelled *)
Definition e_blocked : Z := 7.   (* the operation would block (harness: still waiting after its bound) *)

Definition all_true (l : list bool) : bool := forallb (fun b => b) l.
Definition direct (c : cfg) : bool := match hops c with [] => true | _ => false end.

(* a frame sent by the caller reaches the server *)
Definition path_up (c : cfg) (s : st) : bool := negb (conn_failed s).
(* a frame sent by the handler reaches the caller *)
Definition path_down (c : cfg) (s : st) : bool :=
  negb (conn_failed s) && (direct c || relay_alive s).

(* a cancel frame arrives at the server: Connection.handleCancel *)
Definition server_cancel (c : cfg) (s : st) : st :=
  let s := set_requested (requested s + 1) s in
  if negb (srv_prop c) then s
  else
    let s := set_honored (honored s + 1) s in
    (* mexset.handleCancel: only an exchange still in the map is cancelled; the watcher
       goroutine then expires the exchange *)
    if mex_reg s && (hctx s =? 0) then set_mex_reg false (set_hctx 2 s) else s.

(* the cancel frame on its way: every relay needs the live item and PropagateCancel; a
   relay that forwards it finishes its item *)
Definition travel_cancel (c : cfg) (s : st) : st :=
  if negb (path_up c s) then s
  else if direct c then server_cancel c s
  else if negb (all_true (hops c)) then s
  else if negb ((0 <? req_sent s) && relay_alive s) then s
  else server_cancel c (set_relay_alive false s).

(* messageExchange.onCtxErr(context.Canceled) followed by Connection.onCancel *)
Definition notify_cancel (c : cfg) (s : st) : st :=
  if cancel_notified s then s
  else
    let s := set_cancel_notified true s in
    if negb (send_cancel c) then s
    else travel_cancel c (set_cancels_sent (cancels_sent s + 1) s).

(* a caller operation finds ctx.Err() != nil: onCtxErr, then GetContextError *)
Definition caller_ctx_err (c : cfg) (s : st) : st :=
  let s := if cctx s =? 2 then notify_cancel c s else s in
  set_cres (Some (GetContextError (cctx s))) s.

(* the first request frame arrives: handleCallReq registers the exchange, creates the
   handler context and dispatches the handler *)
Definition deliver_request (c : cfg) (s : st) : st :=
  if negb (path_up c s) then s
  else if hstarted s then s
  else set_mex_reg true (set_hstarted true s).

Definition caller_write (c : cfg) (s : st) (last : bool) : st :=
  if negb (begun s) || negb (match cres s with None => true | Some _ => false end) || req_closed s then s
  else if negb (cctx s =? 0) then caller_ctx_err c s
  else if conn_failed s && direct c then set_cres (Some e_network) s
  else
    let s := set_req_sent (req_sent s + 1) s in
    let s := if last then set_req_closed true s else s in
    deliver_request c s.

Definition handler_write (c : cfg) (s : st) (last : bool) : st :=
  if negb (hstarted s) || resp_done s || resp_failed s then s
  else if negb (hctx s =? 0) then set_mex_reg false (set_resp_failed true s)
  else
    let down := path_down c s in
    let s := if down then set_resp_avail (resp_avail s + 1) s else s in
    if last then
      let s := if down then set_resp_final true s else s in
      (* the final response frame finishes the relay items; doneSending cancels the
         handler context and shuts the exchange down *)
      set_resp_done true (set_mex_reg false (set_hctx 2 (set_relay_alive false s)))
    else s.

Definition step (c : cfg) (s : st) (l : label) : st :=
  match l with
  | LBegin =>
      if begun s || negb (match cres s with None => true | Some _ => false end) then s
      else if dl_passed s then set_cres (Some c_ErrCodeTimeout) s       (* ttl < 1ms, checked first *)
      else if negb (cctx s =? 0) then set_cres (Some (GetContextError (cctx s))) s
      else set_begun true s
  | LWFrag => caller_write c s false
  | LWClose => caller_write c s true
  | LRead =>
      if negb (begun s) || negb (match cres s with None => true | Some _ => false end) || negb (req_closed s) then s
      else if negb (cctx s =? 0) then caller_ctx_err c s
      else if resp_read s <? resp_avail s then
        let s := set_resp_read (resp_read s + 1) s in
        if resp_final s && (resp_read s =? resp_avail s) then set_cres (Some 0) s else s
      else if conn_failed s && direct c then set_cres (Some e_network) s
      else set_cres (Some e_blocked) s
  | LCancel => if cctx s =? 0 then set_cctx 2 s else s
  | LDeadline =>
      let s := if cctx s =? 0 then set_cctx 1 s else s in
      let s := set_dl_passed true s in
      let s := set_relay_alive false s in
      if hstarted s && (hctx s =? 0) then set_mex_reg false (set_hctx 1 s) else s
  | LHFrag => handler_write c s false
  | LHClose => handler_write c s true
  | LHBlackhole =>
      if hstarted s && (hctx s =? 0) then set_mex_reg false (set_hctx 2 s) else s
  | LConnFail =>
      (* no connection carries the call yet: directly the caller's connection carries it from
         BeginCall on; a relay picks (or re-dials) its outbound connection for the first frame *)
      if negb (if direct c then begun s else hstarted s) then s else
      let s := set_conn_failed true s in
      (* stopExchanges notifies the registered exchange; the watcher goroutine cancels *)
      if hstarted s && mex_reg s && (hctx s =? 0) then set_mex_reg false (set_hctx 2 s) else s
  end.

Definition run (c : cfg) (ls : list label) : st := fold_left (step c) ls init.

(* ---- harness entry point ----------------------------------------------------------------
   case: send_cancel srv_prop n_hops hop_1..hop_n n_labels label_1..label_n   (labels 0..9 in
         the order of the constructors)
   out : handler context (9 = handler never started), caller result (-1 = none),
         cancels requested at the server, cancels honoured at the server *)
Definition label_of (z : Z) : label :=
  if z =? 0 then LBegin else if z =? 1 then LWFrag else if z =? 2 then LWClose
  else if z =? 3 then LRead else if z =? 4 then LCancel else if z =? 5 then LDeadline
  else if z =? 6 then LHFrag else if z =? 7 then LHClose else if z =? 8 then LHBlackhole
  else LConnFail.

Definition run_cancel (c : list Z) : list Z :=
  match c with
  | sc :: sp :: r =>
      let '(hs, r1) := take_list take1 r in
      let '(ls, _) := take_list take1 r1 in
      let cf := {| send_cancel := bz sc; hops := map bz hs; srv_prop := bz sp |} in
      let s := run cf (map label_of ls) in
      [ (if hstarted s then hctx s else 9);
        (match cres s with None => -1 | Some e => e end);
        requested s; honored s ]
  | _ => [-1]
  end.
