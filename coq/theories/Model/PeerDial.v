(* Connection ATTEMPTS over the bookkeeping model (property C16, strengthening U16).

   peer.go  Peer.GetConnection / getConnectionRelay:
       if conn, ok := p.getActiveConn(); ok { return conn }      (1) no lock
       if err := p.lockNewConn(ctx); err != nil { return err }   (2) newConnLock (one-slot channel), or ctx ends
       defer p.unlockNewConn()
       if conn, ok := p.getActiveConn(); ok { return conn }      (3) re-check with the lock held
       return p.Connect(ctx)                                     (4) Channel.Connect(p.hostPort): dial, handshake,
                                                                     activation, mismatch branch -- or an error
   reached from Channel.Ping / Channel.BeginCall (RootPeers().GetOrAdd(hp) first), Peer.BeginCall,
   relayed calls (getConnectionRelay) on a *Peer the caller holds.

   While a goroutine is in (4) -- a slow dial, a remote that is restarting -- everything else goes
   on: the remote connects to us and closes again, connections to the same host:port are removed,
   peer lists are edited.  The attempt itself touches NO bookkeeping state until its handshake
   completes (then it is an [LNew] of Model/PeerBook.v, run by the dialling goroutine), and none
   at all when it fails.  This file puts such goroutines next to the state of Model/PeerBook.v:

     state  = PeerBook.st  +  newConnLock of every Peer object  +  the dial goroutines;
     labels = every label of PeerBook.v ([DBase]), the start of an attempt, its own steps,
              and its outcome (failure or completed handshake), chosen by the environment.

   The bookkeeping steps are those of PeerBook.v UNCHANGED: in particular the collector's decision
   (PCol2: Peer.canRemove) reads the peer's connection lists and scCount and nothing else.  That this
   is what the code does is a proof obligation on the regenerated source (Proofs/PeerDialGenP.v:
   Peer.canRemove, its only caller RootPeerList.onClosedConnRemoved, and that one's only caller
   Peer.connectionCloseStateChange).

   [dstep_gen true] is the VARIANT in which canRemove also demands that nobody holds the peer's
   newConnLock ("do not drop a peer that is about to get a connection"): kept to state what the
   obligation excludes (Props/C16.v C16_dial_gate_refuted). *)
From Coq Require Import ZArith List Bool.
From Verif Require Import Base.Wrap Base.Wire Gen.GenConsts Model.PeerBook.
Import ListNotations.
Local Open Scope Z_scope.

Inductive dpc :=
| DLock (pid : Z)       (* (1) found no active connection: before lockNewConn (blocks while the lock is held) *)
| DCheck (pid : Z)      (* holds newConnLock: before the re-check (3) *)
| DConn (pid : Z)       (* holds newConnLock: inside p.Connect(ctx), dial / handshake in flight *)
| DWait (pid t : Z).    (* holds newConnLock: the handshake completed, the goroutine is running the
                           activation (goroutine t of PeerBook.v); unlocks when that is over *)

Inductive dlabel :=
| DBase (l : label)     (* any action of the bookkeeping model *)
| DBegin (hp : Z)       (* Channel.Ping / BeginCall: RootPeers().GetOrAdd(hp), then GetConnection step (1) *)
| DBeginOn (pid : Z)    (* GetConnection step (1) on a Peer object the caller already holds (rooted or not) *)
| DStep (d : Z)         (* dial goroutine d: its next own action (take the lock, re-check, unlock) *)
| DFail (d : Z)         (* d's attempt fails: ctx ends while it waits for the lock; dial refused / timed out /
                           cancelled, handshake failed, channel closing *)
| DOk (d rhp : Z).      (* d's handshake completes; the peer announced host:port rhp *)

Record dst := mkD {
  d_s : st;                    (* the bookkeeping state *)
  d_lock : Z -> bool;          (* newConnLock of Peer object pid is held (len(p.newConnLock) = 1) *)
  d_thr : Z -> option dpc;     (* dial goroutines *)
  d_next : Z                   (* next dial goroutine id *)
}.

Definition dinit : dst := mkD init (fun _ => false) (fun _ => None) 0.

Definition with_s (ds : dst) (s : st) : dst := mkD s (d_lock ds) (d_thr ds) (d_next ds).
Definition dset_lock (ds : dst) (pid : Z) (b : bool) : dst :=
  mkD (d_s ds) (upd (d_lock ds) pid b) (d_thr ds) (d_next ds).
Definition dset_thr (ds : dst) (d : Z) (p : option dpc) : dst :=
  mkD (d_s ds) (d_lock ds) (upd (d_thr ds) d p) (d_next ds).
Definition dspawn (ds : dst) (p : dpc) : dst :=
  mkD (d_s ds) (d_lock ds) (upd (d_thr ds) (d_next ds) (Some p)) (d_next ds + 1).

(* Peer.getActiveConn: some listed connection is active *)
Definition has_active (s : st) (pid : Z) : bool :=
  let P := s_peer s pid in existsb (fun c => is_active (s_conn s c)) (p_in P ++ p_out P).

(* GetConnection step (1) *)
Definition begin_on (ds : dst) (pid : Z) : dst :=
  if has_active (d_s ds) pid then ds          (* returns the active connection: no attempt *)
  else dspawn ds (DLock pid).

(* the collector's decision in the VARIANT: canRemove && len(p.newConnLock) == 0 *)
Definition gated_base (ds : dst) (l : label) : option dst :=
  match l with
  | LStep t =>
      match s_thr (d_s ds) t with
      | Some (PCol2 c hp q todo) =>
          if d_lock ds q then Some (with_s ds (set_thr (d_s ds) t (Some (PCbGet c todo))))
          else option_map (with_s ds) (step (d_s ds) l)
      | _ => option_map (with_s ds) (step (d_s ds) l)
      end
  | _ => option_map (with_s ds) (step (d_s ds) l)
  end.

Definition dstep_gen (gate : bool) (ds : dst) (l : dlabel) : option dst :=
  let s := d_s ds in
  match l with
  | DBase l0 => if gate then gated_base ds l0 else option_map (with_s ds) (step s l0)
  | DBegin hp =>
      if hp =? 0 then None
      else let '(s1, pid) := root_get_or_add s hp in Some (begin_on (with_s ds s1) pid)
  | DBeginOn pid =>
      if p_hp (s_peer s pid) =? 0 then None else Some (begin_on ds pid)
  | DStep d =>
      match d_thr ds d with
      | Some (DLock pid) =>
          if d_lock ds pid then None
          else Some (dset_thr (dset_lock ds pid true) d (Some (DCheck pid)))
      | Some (DCheck pid) =>
          if has_active s pid then Some (dset_thr (dset_lock ds pid false) d None)
          else Some (dset_thr ds d (Some (DConn pid)))
      | Some (DWait pid t) =>
          match s_thr s t with
          | None => Some (dset_thr (dset_lock ds pid false) d None)
          | Some _ => None
          end
      | _ => None
      end
  | DFail d =>
      match d_thr ds d with
      | Some (DLock pid) => Some (dset_thr ds d None)
      | Some (DConn pid) => Some (dset_thr (dset_lock ds pid false) d None)
      | _ => None
      end
  | DOk d rhp =>
      match d_thr ds d with
      | Some (DConn pid) =>
          match step s (LNew c_outbound rhp (p_hp (s_peer s pid))) with
          | Some s' => Some (dset_thr (with_s ds s') d (Some (DWait pid (s_next s + 1))))
          | None => None
          end
      | _ => None
      end
  end.

(* the code as it is *)
Definition dstep := dstep_gen false.

Fixpoint drun_gen (gate : bool) (ds : dst) (ls : list dlabel) : option dst :=
  match ls with
  | [] => Some ds
  | l :: r => match dstep_gen gate ds l with Some ds' => drun_gen gate ds' r | None => None end
  end.
Definition drun := drun_gen false.

(* ---- harness entry point ----------------------------------------------------------------
   The scripts of Model/PeerBook.v (ops 0-11, replayed by PeerBook.interp one op at a time) plus
     12 hp      a caller starts Channel.Ping(hp) / BeginCall: [DBegin hp]; the new dial goroutine then
                runs on its own as far as it can (lock, re-check) and hangs in the dialer
     13 k       the attempt of dial goroutine k fails: [DFail k]
     14 k rhp   its handshake completes, the peer announced rhp: [DOk k rhp]; the new connection gets
                the next connection ordinal
   After every SETTLE (6, 11) each dial goroutine runs on its own as far as it can (a goroutine
   whose activation is over unlocks; one that waited for the lock takes it and dials).
   Output: that of run_peerbook (the snapshots). *)
Record dh := mkDH { dh_h : hst; dh_lock : Z -> bool; dh_thr : Z -> option dpc; dh_next : Z }.

Definition dh_state (x : dh) : dst := mkD (h_s (dh_h x)) (dh_lock x) (dh_thr x) (dh_next x).
Definition h_with_s (h : hst) (s : st) : hst := mkH s (h_ords h) (h_park h) (h_parkl h) (h_out h) (h_bad h).
Definition h_fail (h : hst) : hst := mkH (h_s h) (h_ords h) (h_park h) (h_parkl h) (h_out h) true.
Definition dh_of (x : dh) (ds : dst) : dh := mkDH (h_with_s (dh_h x) (d_s ds)) (d_lock ds) (d_thr ds) (d_next ds).
Definition dh_fail (x : dh) : dh := mkDH (h_fail (dh_h x)) (dh_lock x) (dh_thr x) (dh_next x).

Definition dapply (x : dh) (l : dlabel) : dh :=
  match dstep (dh_state x) l with Some ds => dh_of x ds | None => dh_fail x end.

(* dial goroutine d on its own: at most lock, re-check / unlock *)
Fixpoint drun_thread (fuel : nat) (x : dh) (d : Z) : dh :=
  match fuel with
  | O => x
  | S f => match dstep (dh_state x) (DStep d) with
           | Some ds => drun_thread f (dh_of x ds) d
           | None => x
           end
  end.
Fixpoint dsettle_from (fuel : nat) (x : dh) (d : Z) : dh :=
  match fuel with
  | O => x
  | S f => if dh_next x <=? d then x else dsettle_from f (drun_thread 3 x d) (d + 1)
  end.
Definition dsettle (x : dh) : dh := dsettle_from (Z.to_nat (dh_next x) + 1) x 0.

(* number of integers of a PeerBook op (with its code) *)
Definition op_len (code : Z) : nat :=
  if code =? 0 then 4 else if code =? 1 then 3 else if code =? 2 then 3 else if code =? 3 then 3
  else if code =? 4 then 1 else if code =? 5 then 2 else if code =? 6 then 1 else if code =? 7 then 3
  else if code =? 8 then 2 else if code =? 9 then 2 else if code =? 10 then 2 else if code =? 11 then 1
  else 0.

Fixpoint dinterp (fuel : nat) (x : dh) (c : list Z) : dh :=
  match fuel with
  | O => x
  | S f =>
    match c with
    | [] => x
    | 12 :: hp :: r =>
        let d := dh_next x in
        dinterp f (drun_thread 3 (dapply x (DBegin hp)) d) r
    | 13 :: k :: r => dinterp f (dapply x (DFail k)) r
    | 14 :: k :: rhp :: r =>
        let id := s_next (h_s (dh_h x)) in
        let x1 := dapply x (DOk k rhp) in
        let h1 := dh_h x1 in
        dinterp f (mkDH (mkH (h_s h1) (h_ords h1 ++ [id]) (h_park h1) (h_parkl h1) (h_out h1) (h_bad h1))
                        (dh_lock x1) (dh_thr x1) (dh_next x1)) r
    | code :: _ =>
        let n := op_len code in
        if (n =? 0)%nat then dh_fail x
        else
          let h1 := interp 1 (dh_h x) (firstn n c) in
          let x1 := mkDH h1 (dh_lock x) (dh_thr x) (dh_next x) in
          let x2 := if (code =? 6) || (code =? 11) then dsettle x1 else x1 in
          dinterp f x2 (skipn n c)
    end
  end.

Definition run_peerdial (c : list Z) : list Z :=
  let x := dinterp (length c) (mkDH (mkH init [] [] [] [] false) (fun _ => false) (fun _ => None) 0) c in
  (if h_bad (dh_h x) then [-1] else []) ++ h_out (dh_h x).
