(* Hand model of the connection handshake: preinit_connection.go (outboundHandshake,
   inboundHandshake, getInitParams/getInitMessage, initError, writeMessage, readMessage,
   parseRemotePeer's identity part, readError, unsupportedProtocolVersion), the part of
   Channel.Connect that follows the handshake (channel.go), and the registration done
   by newConnection -> callOnActive -> Channel.connectionActive (connection.go,
   channel.go).  No proofs here.

   The peer is described by the bytes it sends as its opening ([stream]) and by what it
   does afterwards ([ending]): stay silent until the handshake deadline, or close its
   side.  Everything the library does to the outside is recorded as a list of effects. *)
From Coq Require Import ZArith List Bool Lia.
From Verif Require Import Base.Wrap Base.Bytes Gen.GenConsts Gen.GenFrame Gen.GenRetry Gen.GenHandshake
  Model.TypedBuf Model.Messages Model.HsText.
Import ListNotations.
Local Open Scope Z_scope.

Inductive ending := Silence | PeerClosed.

(* the Go error values that can reach initError *)
Inductive herr :=
| HTimeout                      (* a net.Error with Timeout() (read past the deadline) *)
| HEOF                          (* io.EOF *)
| HUnexpectedEOF                (* io.ErrUnexpectedEOF *)
| HInvalidSize (size : Z)       (* fmt.Errorf("invalid frame size %v") of Frame.ReadBody *)
| HBufEOF                       (* typed.ErrEOF: message body shorter than its fields *)
| HWrite (e : Z)                (* Frame.write failed: 1 ErrBufferFull, 2 errStringTooLong *)
| HSys (code : Z) (msg : list Z). (* a SystemError *)

Definition herr_text (e : herr) : list Z :=
  match e with
  | HTimeout => t_io_timeout   (* never sent: initError maps it to ErrTimeout first *)
  | HEOF => t_EOF
  | HUnexpectedEOF => t_unexpected_EOF
  | HInvalidSize s => t_invalid_frame_size s
  | HBufEOF => t_buffer_too_small
  | HWrite e => if e =? 2 then t_string_too_long else t_buffer_full
  | HSys c m => syserr_text c m
  end.

(* what GetSystemErrorCode (regenerated, Gen/GenRetry.v) can see of the error *)
Definition goerr_of (e : herr) : goerr :=
  match e with
  | HSys c _ => Build_goerr false true c false
  | HTimeout => Build_goerr false false 0 true
  | _ => Build_goerr false false 0 false
  end.

(* ---------------- local side ---------------- *)
Record hcfg := mkCfg {
  lc_hostport : list Z;    (* ch.PeerInfo().HostPort *)
  lc_process : list Z;     (* ProcessName *)
  lc_lang : list Z; lc_langver : list Z; lc_tver : list Z;
  lc_hide : bool;          (* tchannel params hideListeningOnOutbound (outbound only) *)
  lc_remote : list Z       (* c.RemoteAddr().String() of the socket *)
}.

(* getInitParams + getInitMessage's host_port override; the Go map's iteration order is
   one fixed order here (observables are compared as sorted maps) *)
Definition init_params (c : hcfg) (hide : bool) : kvs :=
  [ (c_InitParamHostPort, if hide then c_ephemeralHostPort else lc_hostport c);
    (c_InitParamProcessName, lc_process c);
    (c_InitParamTChannelLanguage, lc_lang c);
    (c_InitParamTChannelLanguageVersion, lc_langver c);
    (c_InitParamTChannelVersion, lc_tver c) ].

(* ---------------- effects ---------------- *)
Record peerinfo := mkPI {
  pi_hostport : list Z; pi_process : list Z; pi_ephemeral : bool;
  pi_lang : list Z; pi_langver : list Z; pi_tver : list Z }.

Inductive fdesc :=
| DInit (mtype id version : Z) (params : kvs)
| DErr (id code : Z) (msg : list Z).

Inductive effect :=
| Send (d : fdesc) (bytes : list Z)       (* Frame.WriteOut on the socket *)
| CloseSock                               (* c.Close() *)
| Register (outbound : bool) (pi : peerinfo)   (* newConnection: callOnActive -> ch.mutable.conns + peer pi_hostport *)
| AddToPeer (hp : list Z).                (* Connect: addConnectionToPeer(hostPort) when it differs *)

Record hs_result := mkRes { hr_conn : option peerinfo; hr_err : option herr; hr_eff : list effect }.

Definition span0 : span := mkSpan 0 0 0 0.

(* writeMessage: pooled frame (payload capacity MaxFramePayloadSize), Frame.write, WriteOut *)
Definition write_message (body : wbuf -> wbuf) (mtype id : Z) : herr + list Z :=
  let w := body (wb c_MaxFramePayloadSize) in
  match frame_write c_MaxFramePayloadSize body mtype id with
  | Some (h, p) => inr (frame_out h p)
  | None => inl (HWrite (werr w))
  end.

(* the error-frame message is cut to what fits one frame (65519 - code:1 - tracing:25 - len:2) *)
Definition max_init_error_message : Z := c_maxInitErrorMessageSize.

(* initError (err <> nil): timeouts become ErrTimeout, io.EOF a network SystemError; an
   error frame with the code and text is written under a write deadline of its own; the
   socket is closed; the (mapped) error is returned *)
Definition init_error (id : Z) (e : herr) : herr * list effect :=
  let e1 := match e with
            | HTimeout => HSys c_ErrCodeTimeout t_timeout
            | HEOF => HSys c_ErrCodeNetwork t_EOF
            | _ => e
            end in
  let code := GetSystemErrorCode (goerr_of e1) in
  let msg := firstn (Z.to_nat max_init_error_message) (herr_text e1) in
  (e1, match write_message (w_error (mkErr code span0 msg)) c_messageTypeError id with
       | inr bytes => [Send (DErr id code msg) bytes]
       | inl _ => []
       end ++ [CloseSock]).

Definition fail (pre : list effect) (id : Z) (e : herr) : hs_result :=
  let '(e1, eff) := init_error id e in mkRes None (Some e1) (pre ++ eff).

(* ---------------- reading the peer's first frame ---------------- *)

(* Frame.ReadIn on the socket: io.ReadFull of the 16 header bytes, then of the payload.
   A short read is a timeout if the peer stays silent; if the peer closed it is io.EOF
   when that ReadFull got no byte at all and io.ErrUnexpectedEOF otherwise. *)
Definition read_in (stream : list Z) (e : ending) : herr + (fheader * list Z) :=
  let '(code, h, payload, _) := frame_read_in stream in
  if code =? 0 then inr (h, payload)
  else if code =? 1 then inl (HInvalidSize (fh_size h))
  else match e with
       | Silence => inl HTimeout
       | PeerClosed => if (zlen stream =? 0) || (zlen stream =? c_FrameHeaderSize) then inl HEOF
                       else inl HUnexpectedEOF
       end.

(* readError *)
Definition read_error (payload : list Z) : herr :=
  let '(m, r) := r_error (rb payload) in
  if rerr r then HBufEOF else HSys (em_code m) (em_msg m).

(* readMessage(c, &initReq{} / &initRes{}): returns the frame id (0 when ReadIn failed) *)
Definition read_message (want : Z) (stream : list Z) (e : ending) : Z * (herr + initmsg) :=
  match read_in stream e with
  | inl err => (0, inl err)
  | inr (h, payload) =>
      if negb (fh_type h =? want) then
        if fh_type h =? c_messageTypeError then (fh_id h, inl (read_error payload))
        else (fh_id h, inl (HSys c_ErrCodeProtocol (t_expected_type want (fh_type h))))
      else
        let '(m, r) := r_init (rb payload) in
        (fh_id h, if rerr r then inl HBufEOF else inr m)
  end.

(* the initParams map: built by successive assignment, so the last binding of a key wins *)
Definition lookup (k : list Z) (p : kvs) : option (list Z) :=
  fold_left (fun acc kv => if bytes_eqb (fst kv) k then Some (snd kv) else acc) p None.
Definition lookup_d (k : list Z) (p : kvs) : list Z :=
  match lookup k p with Some v => v | None => [] end.

(* strings.HasSuffix *)
Definition has_suffix (s suf : list Z) : bool :=
  (length suf <=? length s)%nat && bytes_eqb (skipn (length s - length suf) s) suf.

Definition is_ephemeral (hp : list Z) : bool := isEphemeralHostPort hp (has_suffix hp t_colon0).

(* parseRemotePeer (identity part; the peerAddressComponents used by relays are not modelled) *)
Definition parse_remote_peer (p : kvs) (remote_addr : list Z) : herr + peerinfo :=
  match lookup c_InitParamHostPort p with
  | None => inl (HSys c_ErrCodeProtocol (t_header_required c_InitParamHostPort))
  | Some hp =>
      match lookup c_InitParamProcessName p with
      | None => inl (HSys c_ErrCodeProtocol (t_header_required c_InitParamProcessName))
      | Some pn =>
          let eph := is_ephemeral hp in
          inr (mkPI (if eph then remote_addr else hp) pn eph
                    (lookup_d c_InitParamTChannelLanguage p)
                    (lookup_d c_InitParamTChannelLanguageVersion p)
                    (lookup_d c_InitParamTChannelVersion p))
      end
  end.

Definition unsupported_version (got : Z) : herr :=
  HSys c_ErrCodeProtocol (t_unsupported_version got c_CurrentProtocolVersion).

(* ---------------- inboundHandshake ---------------- *)
Definition inbound (c : hcfg) (stream : list Z) (e : ending) : hs_result :=
  let '(id, r) := read_message c_messageTypeInitReq stream e in
  match r with
  | inl err => fail [] id err
  | inr req =>
      if im_version req <? c_CurrentProtocolVersion then fail [] id (unsupported_version (im_version req))
      else match parse_remote_peer (im_params req) (lc_remote c) with
           | inl err => fail [] id err
           | inr pi =>
               let params := init_params c false in
               match write_message (w_init (mkInit c_CurrentProtocolVersion params)) c_messageTypeInitRes id with
               | inl err => fail [] id err
               | inr bytes =>
                   mkRes (Some pi) None
                     [Send (DInit c_messageTypeInitRes id c_CurrentProtocolVersion params) bytes; Register false pi]
               end
           end
  end.

(* ---------------- outboundHandshake ---------------- *)
Definition out_req_id : Z := 1.

Definition outbound (c : hcfg) (stream : list Z) (e : ending) : hs_result :=
  let params := init_params c (lc_hide c) in
  match write_message (w_init (mkInit c_CurrentProtocolVersion params)) c_messageTypeInitReq out_req_id with
  | inl err => fail [] out_req_id err
  | inr bytes =>
      let pre := [Send (DInit c_messageTypeInitReq out_req_id c_CurrentProtocolVersion params) bytes] in
      let '(id, r) := read_message c_messageTypeInitRes stream e in
      match r with
      | inl err => fail pre out_req_id err
      | inr res =>
          if negb (id =? out_req_id) then fail pre out_req_id (HSys c_ErrCodeProtocol (t_invalid_id out_req_id id))
          else if negb (im_version res =? c_CurrentProtocolVersion) then fail pre out_req_id (unsupported_version (im_version res))
          else match parse_remote_peer (im_params res) (lc_remote c) with
               | inl err => fail pre out_req_id err
               | inr pi => mkRes (Some pi) None (pre ++ [Register true pi])
               end
      end
  end.

(* Channel.Connect after a successful dial of [lc_remote c]: the handshake, then the
   connection is also listed under the dialled host:port when the peer announced another *)
Definition connect (c : hcfg) (stream : list Z) (e : ending) : hs_result :=
  let r := outbound c stream e in
  match hr_conn r with
  | Some pi => if negb (bytes_eqb (lc_remote c) (pi_hostport pi))
               then mkRes (hr_conn r) (hr_err r) (hr_eff r ++ [AddToPeer (lc_remote c)])
               else r
  | None => r
  end.

(* setInitDeadline: the context deadline, or 5 s from now *)
Definition init_deadline (ctx_deadline : option Z) (now_ns : Z) : Z :=
  match ctx_deadline with Some d => d | None => now_ns + 5 * 1000000000 end.

(* ---------------- the channel's books over a history of handshakes ---------------- *)
(* One entry of ch.mutable.conns / of a peer's connection lists per registration.  The
   channel is assumed to stay in state ChannelClient/ChannelListening and the new
   connection active (otherwise connectionActive closes it again: property C07/C16). *)
Record chan := mkChan {
  ch_conns : list (bool * peerinfo);        (* (outbound?, remote peer) *)
  ch_peerconns : list (list Z * bool);      (* (peer host:port, outbound?) one per listed connection *)
  ch_closed : Z                             (* sockets closed by failed handshakes *)
}.
Definition chan0 : chan := mkChan [] [] 0.

Definition apply_effect (ch : chan) (dirout : bool) (e : effect) : chan :=
  match e with
  | Send _ _ => ch
  | CloseSock => mkChan (ch_conns ch) (ch_peerconns ch) (ch_closed ch + 1)
  | Register o pi => mkChan (ch_conns ch ++ [(o, pi)]) (ch_peerconns ch ++ [(pi_hostport pi, o)]) (ch_closed ch)
  | AddToPeer hp => mkChan (ch_conns ch) (ch_peerconns ch ++ [(hp, dirout)]) (ch_closed ch)
  end.

Record attempt := mkAtt { at_out : bool; at_cfg : hcfg; at_stream : list Z; at_end : ending }.

Definition handshake (a : attempt) : hs_result :=
  if at_out a then connect (at_cfg a) (at_stream a) (at_end a)
  else inbound (at_cfg a) (at_stream a) (at_end a).

Definition chan_step (ch : chan) (a : attempt) : chan :=
  fold_left (fun c e => apply_effect c (at_out a) e) (hr_eff (handshake a)) ch.

Definition run_channel (l : list attempt) : chan := fold_left chan_step l chan0.
