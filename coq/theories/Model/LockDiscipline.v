(* Property C04, clause (c): the hand-written side of the lock-discipline obligation.
   [lk_required_fields] = the mutex-protected state of the concurrency core that the table
   Gen/GenLockSites.lock_sites (regenerated from the Go source on every run) must cover;
   [lk_exceptions] = the explicit list of sites that may access such a field without the lock,
   each with its justification.  An exception names the field, the function, the access kind and
   the exact call paths of the row, so that it stops matching when the function gains a caller.
   No proofs here. *)
From Coq Require Import ZArith List Bool String Ascii.
From Verif Require Import Spec.LockSpec.
Import ListNotations.
Local Open Scope Z_scope.

Definition lk_s2z (s : string) : list Z := map (fun a => Z.of_nat (nat_of_ascii a)) (list_ascii_of_string s).

Definition lk_required_fields : list (list Z) := map lk_s2z [
  "messageExchangeSet.exchanges"; "messageExchangeSet.expiredExchanges"; "messageExchangeSet.shutdown";
  "Connection.state";
  "relayItems.items"; "relayItems.tombs";
  "PeerList.peersByHostPort"; "PeerList.peerHeap"; "PeerList.scoreCalculator";
  "RootPeerList.peersByHostPort";
  "Peer.inboundConnections"; "Peer.outboundConnections";
  "Channel.mutable.state"; "Channel.mutable.peerInfo"; "Channel.mutable.l"; "Channel.mutable.idleSweep";
  "Channel.mutable.conns";
  "subChannelMap.subchannels"
]%string.

Definition lk_ex (field fn : string) (a : lk_acc) (callers : list string) : lk_exception :=
  (lk_s2z field, lk_s2z fn, a, map lk_s2z callers).

Definition lk_exceptions : list lk_exception := [
  (* constructor, before publication: NewChannel fills ch.mutable before the channel is handed to
     anybody (registerNewChannel / RelayHost.SetChannel / the caller come later) *)
  lk_ex "Channel.mutable.peerInfo" "NewChannel" LkWrite [];
  lk_ex "Channel.mutable.state" "NewChannel" LkWrite [];
  lk_ex "Channel.mutable.conns" "NewChannel" LkWrite [];
  (* constructor: the member is written last, after the channel is in the introspection registry and
     known to the RelayHost; its only reader is Channel.Close (under the write lock), which the
     caller of NewChannel cannot reach before NewChannel returns, and the sweeper goroutine started
     by startIdleSweep never reads it.  (A RelayHost closing the channel from inside SetChannel's
     own goroutines would race with this write: outside normal API use, noted.) *)
  lk_ex "Channel.mutable.idleSweep" "NewChannel" LkWrite [];
  (* constructor helper: called only by NewChannel (the row's call paths are part of the exception) *)
  lk_ex "Channel.mutable.peerInfo" "Channel.createCommonStats" LkRead ["NewChannel"];
  (* write-once before the reader exists: mutable.l is set in Channel.Serve (under the write lock)
     before `go ch.serve()` and never written again; the go statement orders the write before every
     read of the accept loop *)
  lk_ex "Channel.mutable.l" "Channel.serve" LkRead ["go Channel.Serve"];
  (* address only: connectionsFor returns &p.inboundConnections / &p.outboundConnections without
     touching the slice; the dereferences (the append through the returned pointer in Peer.addConnection) are rows
     of their own and hold the write lock *)
  lk_ex "Peer.inboundConnections" "Peer.connectionsFor" LkWrite ["Peer.addConnection<Channel.addConnectionToPeer"];
  lk_ex "Peer.outboundConnections" "Peer.connectionsFor" LkWrite ["Peer.addConnection<Channel.addConnectionToPeer"]
]%string.

(* names used by the non-vacuity example of Props/C04.v *)
Definition lkn_exchanges : list Z := lk_s2z "messageExchangeSet.exchanges".
Definition lkn_handleCancel : list Z := lk_s2z "messageExchangeSet.handleCancel".
Definition lkn_deleteExchange : list Z := lk_s2z "messageExchangeSet.deleteExchange".
