(* Hand model of the close state machine of a tchannel Channel (channel.go), as an
   interleaving system.  The connections are the environment: a connection's state can move
   forward at any moment (label LConnMove; this covers Connection.close, checkExchanges and
   connection failures, proved monotone in the connection model), and after a connection
   changed state the thread that changed it calls Channel.connectionCloseStateChange.

   Go code modelled:
     Channel.Close                       PCl1 (the mutable.Lock region: REPAIRED code, the state is only
                                         raised), PCl2 (c.close() on the snapshot of connections;
                                         [chan.Close.afterUnlock] is at its start), PCl3 (onClosed)
     Channel.connectionCloseStateChange  PCb1/PCb2 (removeClosedConn: read the connection state; Lock, delete),
                                         PCb3 (chState := ch.State()), PCb4/PCb4b (getMinConnectionState under
                                         the read lock), PCb5 (Lock; REPAIRED re-check: apply the update when it
                                         raises the state), PCb6 (onClosed -> close(ch.closed))
     Channel.connectionActive/addConnection   PAd1 (the Lock region), PAd2 (c.close() when not added)
     Channel.Connect state test          PConn
     Channel.Serve                       PSrv (ONE Lock region, held by defer to the end: the test of
                                         mutable.l, mutable.l = tnet.Wrap(l) -- assigned BEFORE the state
                                         test, so a refused Serve still leaves the listener set --, the
                                         state test `state != ChannelClient`, state = ChannelListening)
     Channel.ListenAndServe              PLs1 (the RLock region: the test of mutable.l; net.Listen is
                                         assumed to succeed), then Serve (PSrv)

   getMinConnectionState reads the connections one after the other (each under that
   connection's read lock): the scan is modelled by its start (PCb4, remembering the minimum
   at that moment) and its end (PCb4b), whose result is ANY value between the remembered
   minimum and the current minimum -- an over-approximation of every order of the reads
   (connection states only grow).  The peer-list bookkeeping of the callback is not modelled. *)
From Coq Require Import ZArith List Bool.
From Verif Require Import Base.Wrap Base.Wire Gen.GenConsts Model.CloseKernel.
Import ListNotations.
Local Open Scope Z_scope.

Definition hClient : Z := c_ChannelClient.
Definition hListening : Z := c_ChannelListening.
Definition hSC : Z := c_ChannelStartClose.
Definition hIC : Z := c_ChannelInboundClosed.
Definition hCl : Z := c_ChannelClosed.
Definition kA : Z := c_connectionActive.
Definition kSC : Z := c_connectionStartClose.
Definition kIC : Z := c_connectionInboundClosed.
Definition kCl : Z := c_connectionClosed.

Record cshared := mkC {
  chst : Z;               (* ch.mutable.state *)
  conns : list nat;       (* keys of ch.mutable.conns (connection = index into cstates) *)
  cstates : list Z;       (* environment: the state of every connection created so far *)
  g_closed : Z;           (* ghost: number of close(ch.closed) executed *)
  g_owed : list nat;      (* ghost: connections that changed state and whose callback has not started yet *)
  lis : bool              (* ch.mutable.l != nil *)
}.

Definition set_chst s v := mkC v (conns s) (cstates s) (g_closed s) (g_owed s) (lis s).
Definition set_conns s v := mkC (chst s) v (cstates s) (g_closed s) (g_owed s) (lis s).
Definition set_closed s v := mkC (chst s) (conns s) (cstates s) v (g_owed s) (lis s).
Definition set_cstate s (c : nat) (v : Z) := mkC (chst s) (conns s) (upd (cstates s) c v) (g_closed s) (g_owed s ++ [c]) (lis s).
Definition set_lis s (v : bool) := mkC (chst s) (conns s) (cstates s) (g_closed s) (g_owed s) v.
Definition set_owed s v := mkC (chst s) (conns s) (cstates s) (g_closed s) v (lis s).
Definition add_cstate s (v : Z) := mkC (chst s) (conns s) (cstates s ++ [v]) (g_closed s) (g_owed s) (lis s).

Definition cstate (s : cshared) (c : nat) : Z := nth c (cstates s) kCl.
Definition remn (c : nat) (l : list nat) : list nat := filter (fun x => negb (Nat.eqb x c)) l.

(* getMinConnectionState over the tracked connections *)
Definition minstate (s : cshared) : Z := fold_right (fun c m => Z.min (cstate s c) m) kCl (conns s).

(* c.close() seen from the channel: an Active connection moves to StartClose (and owes a callback) *)
Definition conn_close (s : cshared) (c : nat) : cshared :=
  if cstate s c =? kA then set_cstate s c kSC else s.

Definition oCloseDone : Z := 1.   Definition oCloseNoop : Z := 2.
Definition oCbDone : Z := 3.      Definition oAdded : Z := 4.  Definition oNotAdded : Z := 5.
Definition oConnOk : Z := 6.      Definition oConnErr : Z := 7.
Definition oSrvOk : Z := 8.       (* Serve returned nil: the channel is listening *)
Definition oSrvAlready : Z := 9.  (* errAlreadyListening *)
Definition oSrvInvalid : Z := 10. (* errInvalidStateForOp *)

Inductive cpc :=
| CDone (o : Z)
| PCl1
| PCl2 (snapshot : list nat) (channelClosed : bool)
| PCl3
| PCb1 (c : nat) | PCb2 (c : nat) | PCb3 (c : nat)
| PCb4 (c : nat) (chState : Z)
| PCb4b (c : nat) (chState : Z) (lo : Z)
| PCb5 (c : nat) (chState : Z) (updateTo : Z)
| PCb6
| PAd1 (c : nat) | PAd2 (c : nat)
| PConn
| PSrv | PLs1.

Definition update_to (minState chState : Z) : Z :=
  if kCl <=? minState then hCl
  else if (kIC <=? minState) && (chState =? hSC) then hIC
  else 0.

Definition ctstep (s : cshared) (p : cpc) (arg : Z) : option (cshared * cpc) :=
  match p with
  | CDone _ => None
  | PCl1 =>
      if chst s =? hCl then Some (s, PCl2 [] false)   (* the early return leaves only the locked closure *)
      else
        let s1 := if chst s <? hSC then set_chst s hSC else s in
        match conns s with
        | [] => Some (set_chst s1 hCl, PCl2 [] true)
        | _ => Some (s1, PCl2 (conns s) false)
        end
  | PCl2 [] cc => Some (s, if cc then PCl3 else CDone oCloseDone)
  | PCl2 snap cc =>                 (* "for _, c := range connections": any order, chosen by the label *)
      let c := Z.to_nat arg in
      if existsb (Nat.eqb c) snap then Some (conn_close s c, PCl2 (remn c snap) cc) else None
  | PCl3 => Some (set_closed s (g_closed s + 1), CDone oCloseDone)
  | PCb1 c => if cstate s c =? kCl then Some (s, PCb2 c) else Some (s, PCb3 c)
  | PCb2 c => Some (set_conns s (remn c (conns s)), PCb3 c)
  | PCb3 c =>
      if (chst s =? hSC) || (chst s =? hIC) then Some (s, PCb4 c (chst s)) else Some (s, CDone oCbDone)
  | PCb4 c chState => Some (s, PCb4b c chState (minstate s))
  | PCb4b c chState lo =>
      if (lo <=? arg) && (arg <=? minstate s) then
        let u := update_to arg chState in
        if 0 <? u then Some (s, PCb5 c chState u) else Some (s, CDone oCbDone)
      else None
  | PCb5 c _ u =>                  (* chState is dead here in the repaired code; the pinned variant (Model/ClosePinned.v) tests it *)
      if chst s <? u then Some (set_chst s u, if u =? hCl then PCb6 else CDone oCbDone)
      else Some (s, CDone oCbDone)
  | PCb6 => Some (set_closed s (g_closed s + 1), CDone oCbDone)
  | PAd1 c =>
      if negb (cstate s c =? kA) then Some (s, PAd2 c)
      else if (chst s =? hClient) || (chst s =? hListening) then Some (set_conns s (conns s ++ [c]), CDone oAdded)
      else Some (s, PAd2 c)
  | PAd2 c => Some (conn_close s c, CDone oNotAdded)
  | PConn =>
      if (chst s =? hClient) || (chst s =? hListening) then Some (s, CDone oConnOk) else Some (s, CDone oConnErr)
  | PSrv =>
      if lis s then Some (s, CDone oSrvAlready)
      else
        let s1 := set_lis s true in
        if negb (chst s =? hClient) then Some (s1, CDone oSrvInvalid)
        else Some (set_chst s1 hListening, CDone oSrvOk)
  | PLs1 => if lis s then Some (s, CDone oSrvAlready) else Some (s, PSrv)
  end.

Record csys := mkCS { csh : cshared; cthr : list cpc }.

Inductive clabel :=
| LListen                         (* a ListenAndServe that succeeds, as one step: Client, no listener -> Listening *)
| LNewConn                        (* a new connection becomes active: its connectionActive thread starts *)
| LConnMove (c : nat) (v : Z)     (* environment: connection c moves forward to state v *)
| LClose                          (* a thread calls Channel.Close *)
| LCallback (c : nat)             (* a thread enters connectionCloseStateChange(c) *)
| LConnect                        (* a thread calls Channel.Connect (state test only) *)
| LRunC (tid : nat) (arg : Z)
| LServe                          (* a thread calls Channel.Serve (at any moment, any number of times) *)
| LListenServe.                   (* a thread calls Channel.ListenAndServe *)

Definition cstep (s : csys) (l : clabel) : option csys :=
  let sh := csh s in
  match l with
  | LListen =>
      if (chst sh =? hClient) && negb (lis sh) then Some (mkCS (set_chst (set_lis sh true) hListening) (cthr s)) else None
  | LNewConn =>
      let c := length (cstates sh) in
      Some (mkCS (add_cstate sh kA) (cthr s ++ [PAd1 c]))
  | LConnMove c v =>
      if (Nat.ltb c (length (cstates sh))) && (cstate sh c <? v) && (v <=? kCl)
      then Some (mkCS (set_cstate sh c v) (cthr s)) else None
  | LClose => Some (mkCS sh (cthr s ++ [PCl1]))
  | LCallback c =>
      if Nat.ltb c (length (cstates sh))
      then Some (mkCS (set_owed sh (remn c (g_owed sh))) (cthr s ++ [PCb1 c]))
      else None
  | LConnect => Some (mkCS sh (cthr s ++ [PConn]))
  | LRunC tid arg =>
      match nth_error (cthr s) tid with
      | None => None
      | Some p =>
          match ctstep sh p arg with
          | None => None
          | Some (sh', p') => Some (mkCS sh' (upd (cthr s) tid p'))
          end
      end
  | LServe => Some (mkCS sh (cthr s ++ [PSrv]))
  | LListenServe => Some (mkCS sh (cthr s ++ [PLs1]))
  end.

Definition csh0 : cshared := mkC hClient [] [] 0 [] false.
Definition cinit : csys := mkCS csh0 [].

(* ---- harness entry point ------------------------------------------------------------
   case:  nops (op a b)*
     op 0 listen; 1 new connection; 2 connection a moves to state b; 3 Close; 4 callback for
     connection a; 5 Connect; 9 Serve (a new thread); 10 ListenAndServe (a new thread)
                                        -- output: nothing, or -1 when the label is not enabled
     op 6: run thread a until it is at a schedule point whose class bit is set in mask b, or done;
           the scan step takes the current minimum (the harness never interleaves inside the scan)
                                        -- output: the class it stopped at (0 done, -1 stuck)
     op 7: one step of thread a with label argument b (Close: the connection closed next)
                                        -- output: the class after the step (-1 not enabled)
     op 8: observation                  -- output: channel-state #tracked-connections closed-signals
   at the end: the outcome of every thread. *)
Definition cpc_class (p : cpc) : Z :=
  match p with
  | CDone _ => 0
  | PCl2 _ _ => 1      (* chan.Close.afterUnlock, and again before every c.close() of the loop *)
  | PCb1 _ => 2        (* chan.closeStateChange.enter *)
  | PCb4 _ _ => 3      (* chan.closeStateChange.afterRead *)
  | PCb5 _ _ _ => 4     (* chan.closeStateChange.afterMinState with an update to apply *)
  | PCb2 _ => 5        (* chan.removeClosedConn.beforeLock: the connection is Closed, its removal comes next *)
  | _ => 64
  end.

Fixpoint crun_to (fuel : nat) (s : csys) (tid : nat) (mask : Z) (first : bool) : csys * Z :=
  match nth_error (cthr s) tid with
  | None => (s, -1)
  | Some p =>
      let c := cpc_class p in
      if c =? 0 then (s, if first then -1 else 0)
      else if negb first && (c <? 64) && Z.testbit mask c then (s, c)
      else match fuel with
           | O => (s, -1)
           | S f => match cstep s (LRunC tid (minstate (csh s))) with
                    | None => (s, -1)
                    | Some s' => crun_to f s' tid mask false
                    end
           end
  end.

Fixpoint crun_ops (n : nat) (s : csys) (l : list Z) : list Z :=
  match n with
  | O => put_list (fun p => match p with CDone o => [o] | _ => [- cpc_class p] end) (cthr s)
  | S n' =>
      match l with
      | op :: a :: b :: r =>
          if op =? 6 then
            let '(s', code) := crun_to 200 s (Z.to_nat a) b true in
            code :: crun_ops n' s' r
          else if op =? 7 then
            match cstep s (LRunC (Z.to_nat a) b) with
            | Some s' => (match nth_error (cthr s') (Z.to_nat a) with Some p => cpc_class p | None => -1 end)
                         :: crun_ops n' s' r
            | None => -1 :: crun_ops n' s r
            end
          else if op =? 8 then
            [chst (csh s); zlen (conns (csh s)); g_closed (csh s)] ++ crun_ops n' s r
          else
            let lbl := if op =? 0 then LListen else if op =? 1 then LNewConn
                       else if op =? 2 then LConnMove (Z.to_nat a) b else if op =? 3 then LClose
                       else if op =? 4 then LCallback (Z.to_nat a) else if op =? 9 then LServe
                       else if op =? 10 then LListenServe else LConnect in
            match cstep s lbl with
            | Some s' => crun_ops n' s' r
            | None => -1 :: crun_ops n' s r
            end
      | _ => [-9]
      end
  end.

Definition run_chanclose (c : list Z) : list Z :=
  match c with
  | nops :: r => crun_ops (Z.to_nat nops) cinit r
  | _ => [-9]
  end.
