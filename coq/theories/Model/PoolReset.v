(* The RESET DISCIPLINE OF POOLED OBJECTS (property C03, clause "malformed input costs only
   that frame or connection": an object that goes back into a sync.Pool after a FAILED use --
   sticky error set, scratch bytes of another peer's message in it -- is handed to a later user
   who may serve any other connection of the process).

   The table Gen/GenPoolReset.pool_reset_table is extracted from the library source by go2v on
   every run (go2v/poolreset.go; row types in Spec/PoolSpec.v).  This file is the executable
   checker of the discipline over that table, plus the list of the reviewed exceptions.

   The discipline, per pool and per field f of the pooled struct:
     (D1) no function reads f before writing it (f is not live on entry of any user), or
     (D2) f is never assigned after construction and never written through an alias
          (a constant of the object: every user sees the value New gave it), or
     (D3) EVERY Get site of the pool assigns f -- or a prefix of its path, or the whole object,
          or calls Reset() on it -- unconditionally, directly after the Get, to a value that does
          not depend on the object's old state (a parameter of the Get function, a zero value,
          a fresh value), or
     (D4) the pool's New returns a zero object and EVERY Put site assigns f a zero value
          directly in front of the Put (then every pooled object has f = the value of a new one), or
     (D5) (pool, f) is a reviewed exception, pinned to the exact sets of functions that read /
          assign f today -- a new reader or writer of an excepted field voids the exception.
   A field of kind "sub" (a struct of the same package behind a constant pointer / by value) is
   represented by its own fields; a field of kind "ext" (a foreign struct: opaque state) cannot
   use (D2).

   No proofs in this file. *)
From Coq Require Import ZArith List Bool String Ascii.
From Verif Require Import Base.Wrap Spec.PoolSpec.
Import ListNotations.
Local Open Scope Z_scope.

Definition pr_s (s : string) : str := map (fun a => Z.of_nat (nat_of_ascii a)) (list_ascii_of_string s).

Definition pr_in (x : str) (l : list str) : bool := existsb (bytes_eqb x) l.
Fixpoint pr_strs_eqb (a b : list str) : bool :=
  match a, b with
  | [], [] => true
  | x :: a', y :: b' => bytes_eqb x y && pr_strs_eqb a' b'
  | _, _ => false
  end.
Fixpoint pr_prefix (p s : str) : bool :=
  match p, s with
  | [], _ => true
  | x :: p', y :: s' => (x =? y) && pr_prefix p' s'
  | _, [] => false
  end.

(* a reset of path rp covers the field fp: same path, the whole object, or a prefix "rp." *)
Definition pr_covers_path (rp fp : str) : bool :=
  bytes_eqb rp fp || bytes_eqb rp (pr_s "*") || pr_prefix (rp ++ pr_s ".") fp.

Definition pr_get_class_ok (c : str) : bool :=
  pr_in c [pr_s "param"; pr_s "zero"; pr_s "fresh"; pr_s "method:Reset"].
Definition pr_put_class_ok (c : str) : bool :=
  pr_in c [pr_s "zero"; pr_s "method:Reset"].

Definition pr_get_covers (fp : str) (g : pr_get) : bool :=
  existsb (fun r => pr_get_class_ok (rs_class r) && pr_covers_path (rs_path r) fp) (pg_resets g).
Definition pr_put_covers (fp : str) (p : pr_put) : bool :=
  existsb (fun r => pr_put_class_ok (rs_class r) && pr_covers_path (rs_path r) fp) (pp_resets p).

(* (D3) *)
Definition pr_reset_on_get (pl : pr_pool) (fp : str) : bool :=
  negb (match pl_gets pl with [] => true | _ => false end) && forallb (pr_get_covers fp) (pl_gets pl).
(* (D4) *)
Definition pr_reset_on_put (pl : pr_pool) (fp : str) : bool :=
  bytes_eqb (pl_new pl) (pr_s "zero") &&
  negb (match pl_puts pl with [] => true | _ => false end) && forallb (pr_put_covers fp) (pl_puts pl).

(* ---------------------------------------------------------------- reviewed exceptions (D5) *)
Record pr_exception := mkPrEx {
  ex_pool : str; ex_path : str;
  ex_live : list str;        (* the functions in which the field is live on entry, as reviewed *)
  ex_writers : list str;     (* the functions that assign it, as reviewed *)
  ex_uses : list (str * list str)   (* path "*" only: per Get function the statements that use the object, each with the conditions it is nested in *)
}.

Definition pr_exceptions : list pr_exception := [
  (* typed.Reader.buf [32]byte: scratch.  ReadUint16 / ReadString hand r.buf[:n] to io.ReadFull and
     look at it only when all n bytes were read (readN < n returns the zero value): every byte that
     is read was written by this very call.  PROVED for the model of the Reader in
     Proofs/PoolReaderP.v (the result does not depend on the pooled buf). *)
  mkPrEx (pr_s "typed.readerPool") (pr_s "buf")
    [pr_s "typed.Reader.ReadString"; pr_s "typed.Reader.ReadUint16"] [] [];
  (* typed.intBuffer [8]byte: scratch of Writer.WriteUint16: PutUint16 writes bytes 0..1, Write sends
     bytes 0..1.  PROVED for the model in Proofs/PoolReaderP.v (pw_uint16_clean). *)
  mkPrEx (pr_s "typed.intBufferPool") (pr_s "*") [pr_s "typed.Writer.WriteUint16"] []
    [(pr_s "typed.Writer.WriteUint16",
      [pr_s "binary.BigEndian.PutUint16(sizeBuf[:2], n)"; pr_s "_, err := w.writer.Write(sizeBuf[:2])"])];
  (* argreader._bufPool *[]byte (128 bytes): scratch of EnsureEmpty: r.Read fills a prefix, only that
     prefix ( *buf)[:n] is formatted into the error *)
  mkPrEx (pr_s "argreader._bufPool") (pr_s "*") [pr_s "argreader.EnsureEmpty"] []
    [(pr_s "argreader.EnsureEmpty",
      [pr_s "n, err := r.Read(*buf)";
       pr_s "[n > 0] return fmt.Errorf(""found unexpected bytes after %s, found (upto 128 bytes): %x"", stage, (*buf)[:n])"])];
  (* thrift.readWriterTransport.readBuf / writeBuf [1]byte: one-byte scratch of ReadByte (filled by
     t.Read before it is returned; with an error the stale byte is returned TOGETHER with the error
     and TBinaryProtocol drops it) / WriteByte (v[0] = b before t.Write(v)) *)
  mkPrEx (pr_s "thrift.thriftProtocolPool") (pr_s "transport.readBuf") [pr_s "thrift.readWriterTransport.ReadByte"] [] [];
  mkPrEx (pr_s "thrift.thriftProtocolPool") (pr_s "transport.writeBuf") [pr_s "thrift.readWriterTransport.WriteByte"] [] [];
  (* thrift.readWriterTransport.strBuf []byte: only its capacity is re-used: WriteString appends to
     strBuf[:0] and stores b[:0] back *)
  mkPrEx (pr_s "thrift.thriftProtocolPool") (pr_s "transport.strBuf")
    [pr_s "thrift.readWriterTransport.WriteString"] [pr_s "thrift.readWriterTransport.WriteString"] [];
  (* thrift.thriftProtocol.protocol *thrift.TBinaryProtocol (third-party, vendored): bound to the
     transport once in New; keeps no per-message state (trans / reader / writer constants, strict
     flags, a [64]byte scratch that readStringBody fills before reading) *)
  mkPrEx (pr_s "thrift.thriftProtocolPool") (pr_s "protocol")
    [pr_s "thrift.ReadStruct"; pr_s "thrift.Server.handle"; pr_s "thrift.WriteStruct"] [] [];
  (* relayTimer (relay_timer_pool.go): the object is (re)initialised by Start, not by Get: Start
     assigns active, stopped, items, id, isOriginator before the timer can fire or be stopped;
     Release panics unless active = false, so a pooled timer has active = false like a new one;
     the protocol Start -> (Stop | OnTimer) -> Release is the timer model of C09 (Model/RelayItems.v).
     timer *time.Timer: stopped at Release (inactive), re-armed by Start. *)
  mkPrEx (pr_s "tchannel.relayTimerPool.pool") (pr_s "pool.pool")
    [pr_s "tchannel.relayTimerPool.Get"; pr_s "tchannel.relayTimerPool.Put"] [] [];
  mkPrEx (pr_s "tchannel.relayTimerPool.pool") (pr_s "timer")
    [pr_s "tchannel.relayTimer.Start"; pr_s "tchannel.relayTimer.Stop"] [] [];
  mkPrEx (pr_s "tchannel.relayTimerPool.pool") (pr_s "active")
    [pr_s "tchannel.relayTimer.Release"; pr_s "tchannel.relayTimer.Start"]
    [pr_s "tchannel.relayTimer.Start"; pr_s "tchannel.relayTimer.markTimerInactive"] [];
  mkPrEx (pr_s "tchannel.relayTimerPool.pool") (pr_s "stopped")
    [pr_s "tchannel.relayTimer.Stop"] [pr_s "tchannel.relayTimer.Start"; pr_s "tchannel.relayTimer.Stop"] [];
  mkPrEx (pr_s "tchannel.relayTimerPool.pool") (pr_s "items")
    [pr_s "tchannel.relayTimer.OnTimer"] [pr_s "tchannel.relayTimer.Start"; pr_s "tchannel.relayTimer.markTimerInactive"] [];
  mkPrEx (pr_s "tchannel.relayTimerPool.pool") (pr_s "id")
    [pr_s "tchannel.relayTimer.OnTimer"] [pr_s "tchannel.relayTimer.Start"; pr_s "tchannel.relayTimer.markTimerInactive"] [];
  mkPrEx (pr_s "tchannel.relayTimerPool.pool") (pr_s "isOriginator")
    [pr_s "tchannel.relayTimer.OnTimer"] [pr_s "tchannel.relayTimer.Start"; pr_s "tchannel.relayTimer.markTimerInactive"] []
].

(* pools whose stale content is the subject of other models and is NOT claimed here:
   frames (syncFramePool): a pooled frame keeps the bytes of its previous message by design;
   Model/PeerInput.v quantifies over ARBITRARY stale bytes behind the declared payload, C06 covers
   the stale reserved byte of outbound headers, C01 / C12 the ownership of frames. *)
Definition pr_delegated : list str := [pr_s "tchannel.syncFramePool.pool"].

(* the pools this table must contain (an extraction that silently loses a pool is an error) *)
Definition pr_expected_pools : list str := [
  pr_s "argreader._bufPool"; pr_s "stats.bufPool"; pr_s "tchannel.checksumPools[]";
  pr_s "tchannel.relayTimerPool.pool"; pr_s "tchannel.requestStatePool"; pr_s "tchannel.syncFramePool.pool";
  pr_s "thrift.thriftProtocolPool"; pr_s "typed.intBufferPool"; pr_s "typed.readerPool"].

Definition pr_uses_eqb (a b : list (str * list str)) : bool :=
  pr_strs_eqb (map fst a) (map fst b) &&
  forallb (fun xy => pr_strs_eqb (snd (fst xy)) (snd (snd xy))) (combine a b).

Definition pr_exception_matches (pl : pr_pool) (f : pr_field) (e : pr_exception) : bool :=
  bytes_eqb (ex_pool e) (pl_key pl) && bytes_eqb (ex_path e) (pf_path f) &&
  pr_strs_eqb (ex_live e) (pf_live f) && pr_strs_eqb (ex_writers e) (pf_writers f) &&
  (if bytes_eqb (pf_path f) (pr_s "*")
   then pr_uses_eqb (ex_uses e) (map (fun g => (pg_fn g, pg_uses g)) (pl_gets pl))
   else true).

Definition pr_is_nil {A} (l : list A) : bool := match l with [] => true | _ => false end.

(* the discipline for one field *)
Definition pr_field_ok (pl : pr_pool) (f : pr_field) : bool :=
  pr_is_nil (pf_live f)                                                            (* D1 *)
  || (pr_is_nil (pf_writers f) &&
      (bytes_eqb (pf_kind f) (pr_s "sub")                                          (* represented by its fields *)
       || (negb (pf_alias f) && negb (bytes_eqb (pf_kind f) (pr_s "ext")))))        (* D2 *)
  || pr_reset_on_get pl (pf_path f)                                                (* D3 *)
  || pr_reset_on_put pl (pf_path f)                                                (* D4 *)
  || existsb (pr_exception_matches pl f) pr_exceptions.                             (* D5 *)

(* the fields of a pool that break the discipline *)
Definition pr_pool_failures (pl : pr_pool) : list (str * str) :=
  if pr_in (pl_key pl) pr_delegated then []
  else map (fun f => (pl_key pl, pf_path f)) (filter (fun f => negb (pr_field_ok pl f)) (pl_fields pl)).

Definition pr_failures (t : list pr_pool) : list (str * str) := flat_map pr_pool_failures t.

Definition pr_missing_pools (t : list pr_pool) : list str :=
  filter (fun k => negb (pr_in k (map pl_key t))) pr_expected_pools.

(* exceptions that no longer correspond to a row of the table (stale review) *)
Definition pr_stale_exceptions (t : list pr_pool) : list (str * str) :=
  map (fun e => (ex_pool e, ex_path e))
    (filter (fun e => negb (existsb (fun pl => existsb (fun f => pr_exception_matches pl f e) (pl_fields pl)) t)) pr_exceptions).

(* the reset lists of one Get / Put function, as (path, class) pairs *)
Definition pr_get_resets_of (t : list pr_pool) (pool fn : str) : list (list (str * str)) :=
  flat_map (fun pl => if bytes_eqb (pl_key pl) pool
                      then map (fun g => map (fun r => (rs_path r, rs_class r)) (pg_resets g))
                               (filter (fun g => bytes_eqb (pg_fn g) fn) (pl_gets pl))
                      else []) t.
Definition pr_put_resets_of (t : list pr_pool) (pool fn : str) : list (list (str * str)) :=
  flat_map (fun pl => if bytes_eqb (pl_key pl) pool
                      then map (fun p => map (fun r => (rs_path r, rs_class r)) (pp_resets p))
                               (filter (fun p => bytes_eqb (pp_fn p) fn) (pl_puts pl))
                      else []) t.
Definition pr_fields_of (t : list pr_pool) (pool : str) : list str :=
  flat_map (fun pl => if bytes_eqb (pl_key pl) pool then map pf_path (pl_fields pl) else []) t.

(* readable form of a list of (pool, field) pairs, for the failure messages of Proofs/PoolResetP.v *)
Definition pr_show (x : str) : string := string_of_list_ascii (map (fun z => ascii_of_nat (Z.to_nat z)) x).
Definition pr_show_pairs (l : list (str * str)) : list (string * string) := map (fun p => (pr_show (fst p), pr_show (snd p))) l.

(* names used by the ties of the concrete models (Proofs/PoolReaderP.v) *)
Definition pr_k_readerPool : str := pr_s "typed.readerPool".
Definition pr_k_NewReader : str := pr_s "typed.NewReader".
Definition pr_k_Release : str := pr_s "typed.Reader.Release".
