(* C17, the options path: ContextBuilder setters -> Build -> getRetryOptions -> RunWithRetry,
   and the attempt loop over error SHAPES (Base/GoErr.v).

   Hand model mirroring context_builder.go (SetRetryOptions, SetTimeoutPerAttempt, the
   retryOptions entry of Build) and retry.go (getRetryOptions); each function is proved EQUAL
   to the definition go2v regenerates from the source on every run (Gen/GenRetryOpts.v, tie
   lemmas in Proofs/RetryOptsP.v), and the classification of shapes used here (the generated
   getErrCode / CanRetry of Gen/GenRetry.v applied to the flat view [g_abs]) is proved equal to
   the shape-level isNetError / getErrCode / GetSystemErrorCode / CanRetry regenerated in
   Gen/GenRetryErr.v.  Hand-written without a generated counterpart: the sequencing of setter
   calls (a fold), NewContextBuilder leaving RetryOptions nil, getTChannelParams (the context
   lookup: has_params), and the loop of RunWithRetry (Model/Retry.v [attempts]).
   A *RetryOptions is seen by value (see Base/GoErr.v): the struct handed to SetRetryOptions
   is taken with its content at the time of the call, and the context is built after the
   last setter. *)
From Coq Require Import ZArith List Bool.
From Verif Require Import Base.Wrap Base.Wire Base.GoErr Gen.GenConsts Gen.GenRetry
  Spec.RetryOptsSpec Model.Retry.
Import ListNotations.
Local Open Scope Z_scope.

(* type RetryOptions struct { MaxAttempts int; RetryOn RetryOn; TimeoutPerAttempt time.Duration } *)
Record cb_opts := mk_cb_opts { co_max : Z; co_on : Z; co_tpa : Z }.
Definition cb_opts_zero : cb_opts := mk_cb_opts 0 0 0.
(* var defaultRetryOptions = &RetryOptions{MaxAttempts: 5} *)
Definition cb_opts_default : cb_opts := mk_cb_opts v_defaultRetryOptions_MaxAttempts 0 0.

(* All functions: None = the Go code panics (nil dereference). *)

(* func (cb *ContextBuilder) SetRetryOptions(retryOptions *RetryOptions): cb.RetryOptions = retryOptions *)
Definition m_set_retry_options (cb_ro : option cb_opts) (retryOptions : option cb_opts)
  : option (option cb_opts) := Some retryOptions.

(* func (cb *ContextBuilder) SetTimeoutPerAttempt(d):
     if cb.RetryOptions == nil { cb.RetryOptions = &RetryOptions{} }
     cb.RetryOptions.TimeoutPerAttempt = d *)
Definition m_set_timeout_per_attempt (cb_ro : option cb_opts) (d : Z) : option (option cb_opts) :=
  let cb_ro := if go_isnil cb_ro then Some cb_opts_zero else cb_ro in
  match cb_ro with
  | None => None
  | Some o => Some (Some (mk_cb_opts (co_max o) (co_on o) d))
  end.

(* Build: params := &tchannelCtxParams{ ..., retryOptions: cb.RetryOptions, ... } *)
Definition m_build_retry_options (cb_ro : option cb_opts) : option cb_opts := cb_ro.

(* func getRetryOptions(ctx):
     params := getTChannelParams(ctx); if params == nil { return defaultRetryOptions }
     opts := params.retryOptions;      if opts == nil { return defaultRetryOptions }
     if opts.MaxAttempts == 0 { opts.MaxAttempts = defaultRetryOptions.MaxAttempts }
     return opts *)
Definition m_get_retry_options (has_params : bool) (params_ro : option cb_opts) : option (option cb_opts) :=
  if negb has_params then Some (Some cb_opts_default)
  else let opts := params_ro in
  if go_isnil opts then Some (Some cb_opts_default)
  else match opts with
       | None => None
       | Some o =>
           if co_max o =? 0
           then Some (Some (mk_cb_opts (co_max cb_opts_default) (co_on o) (co_tpa o)))
           else Some opts
       end.

Definition cb_of (t : opts3) : cb_opts := let '(m, r, d) := t in mk_cb_opts m r d.
Definition triple_of (o : cb_opts) : opts3 := (co_max o, co_on o, co_tpa o).

(* one setter call on the builder's RetryOptions field *)
Definition op_apply (ro : option cb_opts) (op : cb_op) : option (option cb_opts) :=
  match op with
  | OpSetRetryOptions o => m_set_retry_options ro (option_map cb_of o)
  | OpSetTimeoutPerAttempt d => m_set_timeout_per_attempt ro d
  end.

Fixpoint cb_apply (ro : option cb_opts) (ops : list cb_op) : option (option cb_opts) :=
  match ops with
  | [] => Some ro
  | op :: rest => match op_apply ro op with
                  | None => None
                  | Some ro' => cb_apply ro' rest
                  end
  end.

(* NewContextBuilder(timeout): RetryOptions is nil.  Build hands the field to the context
   parameters; getRetryOptions reads it back; RunWithRetry dereferences the result
   (opts.MaxAttempts): a nil result is a panic. *)
Definition cb_effective (has_params : bool) (ops : list cb_op) : option cb_opts :=
  match cb_apply None ops with
  | None => None
  | Some ro =>
      match m_get_retry_options has_params (m_build_retry_options ro) with
      | Some (Some e) => Some e
      | _ => None
      end
  end.

(* the code the policy looks at / the policy decision for an error shape *)
Definition m_err_code (e : gerr) : Z := getErrCode (g_abs e).
Definition m_can_retry (r : Z) (e : gerr) : bool := CanRetry r (g_abs e).

(* attempts whose outcome is an error shape *)
Definition attempt_fn_s := Z -> list (list Z) -> gerr * list (list Z).
Definition abs_fn (fs : attempt_fn_s) : attempt_fn :=
  fun a sel => let '(e, added) := fs a sel in (g_abs e, added).

Definition run_with_retry_cb (has_params : bool) (ops : list cb_op) (fs : attempt_fn_s)
  : option (goerr * list attempt_obs) :=
  match cb_effective has_params ops with
  | None => None
  | Some e => Some (attempts (Z.to_nat (co_max e)) 0 (co_on e) (abs_fn fs) [] nil_err [])
  end.

(* ---- harness encoding ------------------------------------------------------------
   shape: nLayers {kind arg} baseKind baseArg
          layer kind 3 = SystemError with code arg around the rest, kind 1 = a plain error
          whose Unwrap() is the rest (arg ignored); base 0 = nil, base 2 = net.Error (arg = Timeout()) *)
Definition take_layer (l : list Z) : (Z * Z) * list Z :=
  match l with k :: a :: r => ((k, a), r) | _ => ((0, 0), []) end.
Definition wrap_layer (ka : Z * Z) (inner : gerr) : gerr :=
  if fst ka =? 3 then GSys (snd ka) inner else GPlain inner.
Definition take_shape (l : list Z) : gerr * list Z :=
  let '(layers, r) := take_list take_layer l in
  let '((bk, ba), r') := take_layer r in
  (fold_right wrap_layer (if bk =? 2 then GNet (bz ba) else GNil) layers, r').

Fixpoint layers_of (e : gerr) : list (Z * Z) :=
  match e with
  | GNil | GNet _ => []
  | GPlain i => (1, 0) :: layers_of i
  | GSys c i => (3, c) :: layers_of i
  end.
Fixpoint base_of (e : gerr) : Z * Z :=
  match e with
  | GNil => (0, 0)
  | GNet t => (2, zb t)
  | GPlain i | GSys _ i => base_of i
  end.
Definition put_shape (e : gerr) : list Z :=
  put_list (fun ka => [fst ka; snd ka]) (layers_of e) ++ [fst (base_of e); snd (base_of e)].

(* op: 0 0 = SetRetryOptions(nil); 0 1 m r d = SetRetryOptions(&{m r d}); 1 d = SetTimeoutPerAttempt(d) *)
Definition take_op (l : list Z) : cb_op * list Z :=
  match l with
  | 0 :: 0 :: r => (OpSetRetryOptions None, r)
  | 0 :: _ :: m :: ro :: d :: r => (OpSetRetryOptions (Some (m, ro, d)), r)
  | _ :: d :: r => (OpSetTimeoutPerAttempt d, r)
  | _ => (OpSetTimeoutPerAttempt 0, [])
  end.

Definition take_outcome_s (l : list Z) : (gerr * list (list Z)) * list Z :=
  let '(e, r) := take_shape l in
  let '(added, r') := take_list take_bytes r in ((e, added), r').

Definition scripted_s (outs : list (gerr * list (list Z))) : attempt_fn_s :=
  fun attempt _ => nth (Z.to_nat (attempt - 1)) outs (last outs (GNil, [])).

(* case: has_params nOps {op} nOutcomes {shape nAdded {bytes}}
   observable: -1 (panic) | maxAttempts retryOn timeoutPerAttempt err(nil sys code net) ncalls {attempt nSeen {bytes}} *)
Definition run_retrycb (c : list Z) : list Z :=
  match c with
  | hp :: r =>
      let '(ops, r1) := take_list take_op r in
      let '(outs, _) := take_list take_outcome_s r1 in
      match cb_effective (bz hp) ops, run_with_retry_cb (bz hp) ops (scripted_s outs) with
      | Some e, Some (err, log) =>
          [co_max e; co_on e; co_tpa e]
          ++ put_err err
          ++ put_list (fun a => ao_attempt a :: put_list put_bytes (canon_set (ao_seen a))) log
      | _, _ => [-1]
      end
  | _ => [-1]
  end.

(* getErrCode of a shape *)
Definition run_errcode (c : list Z) : list Z :=
  let '(e, _) := take_shape c in [m_err_code e].

(* CanRetry of a shape: policy shape -> 0/1 *)
Definition run_canretrys (c : list Z) : list Z :=
  match c with
  | r :: rest => let '(e, _) := take_shape rest in [zb (m_can_retry r e)]
  | _ => [-1]
  end.
