(* The two further places of the connection model as they were BEFORE the fix: commits of the
   second C07 strengthening (Model/ConnClose.v describes the repaired code):

     (d) connection.go handlePingReq:   if state := c.readState(); state != connectionActive { c.protocolError(...); return }
         repaired:                      if state := c.readState(); state == connectionClosed { c.protocolError(...); return }
     (e) inbound.go InboundCallResponse.SendSystemError:   response.doneSending(); ...; return response.conn.SendSystemError(...)
         repaired:                                         sendErr := response.conn.SendSystemError(...); response.doneSending(); ...

   (d) is a flag of the step function: every other program counter steps as in the repaired model.
   (e) needs no new step function: the pinned order is "the handler's exchange removal (a TFinIn
   thread: removeExchange, then checkExchanges) runs to completion, THEN SendSystemError" -- the
   refutation in Proofs/ClosePinned2P.v exhibits the reachable state after the removal, in which
   [send_err] queues nothing. *)
From Coq Require Import ZArith List Bool.
From Verif Require Import Base.Wrap Gen.GenConsts Model.CloseKernel Model.ConnClose.
Import ListNotations.
Local Open Scope Z_scope.

Definition tstep_p (ping_pinned : bool) (s : shared) (tid : nat) (p : pc) : option (shared * pc) :=
  match p with
  | PPing id =>
      if ping_pinned then
        (if st s =? sA then Some (s, PPong id) else Some (s, PProtoSend id))   (* pinned: any state but Active *)
      else tstep s tid p
  | _ => tstep s tid p
  end.

Definition step_p (ping_pinned : bool) (s : sys) (l : label) : option sys :=
  match l with
  | LSpawn _ => ConnClose.step s l
  | LRun tid =>
      match nth_error (thr s) tid with
      | None => None
      | Some p =>
          match tstep_p ping_pinned (sh s) tid p with
          | None => None
          | Some (sh', p') => Some (mkSys sh' (upd (thr s) tid p'))
          end
      end
  end.

(* schedules used by the witnesses: run thread [tid] [n] times *)
Definition runs (tid n : nat) : list label := repeat (LRun tid) n.

(* call 5 is dispatched (thread 0); Close (thread 1): StartClose, held by call 5; a ping req 9
   arrives (thread 2) and is processed to its end (6 steps on the pinned tree: protocolError;
   2 steps repaired: the ping res) *)
Definition ping_witness (nsteps : nat) : list label :=
  [LSpawn (TReader 5)] ++ runs 0 3 ++ [LSpawn TCloser] ++ runs 1 6 ++ [LSpawn (TPing 9)] ++ runs 2 nsteps.

(* call 5 is dispatched; Close; the handler's exchange removal and its checkExchanges (thread 2)
   run to completion: the connection is Closed *)
Definition err_removed_first : list label :=
  [LSpawn (TReader 5)] ++ runs 0 3 ++ [LSpawn TCloser] ++ runs 1 6 ++ [LSpawn (TFinIn 5)] ++ runs 2 11.

(* the repaired order on the same history: the handler answers with system error 3 (thread 2) *)
Definition err_sent_first : list label :=
  [LSpawn (TReader 5)] ++ runs 0 3 ++ [LSpawn TCloser] ++ runs 1 6 ++ [LSpawn (TFinInErr 5 3)] ++ runs 2 12.
