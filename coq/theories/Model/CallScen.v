(* Property C05 (b): the scenario sub-engines of engine "cut" (dialq, noanswer, cancel, relay)
   as paths of the time-abstract model (Model/CallPath.v run_path) over the wait sites of the
   table regenerated from the source (Gen/GenWaitSites.v), looked up BY FUNCTION NAME: if a
   site disappears from the table, or loses its deadline exit, the prediction changes and
   the correspondence run disagrees.  Times are milliseconds, relative to the start of the
   scenario.  No proofs here. *)
From Coq Require Import ZArith List Bool.
From Verif Require Import Base.Wrap Base.Bytes Base.Wire Gen.GenConsts Gen.GenWaitSites Spec.WaitSpec Model.CallPath.
Import ListNotations.
Local Open Scope Z_scope.

Definition site_named (name : list Z) : wsite :=
  match find (fun w => bytes_eqb (ws_fn w) name) wait_sites with
  | Some w => w
  | None => mkWsite name WOther []      (* not in the table: blocks for ever in the model *)
  end.

(* "Peer.lockNewConn", "Channel.Connect" (the dialer), "Channel.writeMessage", "Channel.readMessage",
   "reqResWriter.flushFragment", "messageExchange.recvPeerFrame" *)
Definition n_lock : list Z := [80; 101; 101; 114; 46; 108; 111; 99; 107; 78; 101; 119; 67; 111; 110; 110].
Definition n_dial : list Z := [67; 104; 97; 110; 110; 101; 108; 46; 67; 111; 110; 110; 101; 99; 116].
Definition n_hs_write : list Z := [67; 104; 97; 110; 110; 101; 108; 46; 119; 114; 105; 116; 101; 77; 101; 115; 115; 97; 103; 101].
Definition n_hs_read : list Z := [67; 104; 97; 110; 110; 101; 108; 46; 114; 101; 97; 100; 77; 101; 115; 115; 97; 103; 101].
Definition n_flush : list Z := [114; 101; 113; 82; 101; 115; 87; 114; 105; 116; 101; 114; 46; 102; 108; 117; 115; 104; 70; 114; 97; 103; 109; 101; 110; 116].
Definition n_recv : list Z := [109; 101; 115; 115; 97; 103; 101; 69; 120; 99; 104; 97; 110; 103; 101; 46; 114; 101; 99; 118; 80; 101; 101; 114; 70; 114; 97; 109; 101].

(* the awaited event is already there / arrives at [data] (None: never) *)
Definition w_ready (name : list Z) : pstep := mkStep (site_named name) (mkEv None None None) true.
Definition w_wait (name : list Z) (data : option Z) : pstep := mkStep (site_named name) (mkEv data None None) false.

(* did every wait of the path get its event (no later than the moment the goroutine left it)? *)
Definition never_served (s : pstep) : bool :=
  negb (p_ready s) && match ev_data (p_ev s) with None => true | Some _ => false end.

(* [failed?; time at which control is back, relative to [start]]; -1 = blocked for ever *)
Definition scen_result (dc dl : Z) (path : list pstep) (start : Z) : list Z :=
  match run_path dc dl path start with
  | None => [zb (existsb never_served path); -1]
  | Some t => [zb (existsb never_served path); t - start]
  end.

(* a caller up to the response of a peer that shakes hands and takes the request *)
Definition path_call (response : option Z) : list pstep :=
  [w_ready n_lock; w_ready n_dial; w_ready n_hs_write; w_ready n_hs_read; w_ready n_flush; w_wait n_recv response].

(* dialq: kind longD stagger shorts...   kind 0: the listener accepts and never answers the
   handshake; kind 1: the dialer hangs until its context ends.  The first caller holds the
   new-connection lock until it gives up at its deadline; the others arrive [stagger] later. *)
Definition path_first (kind : Z) : list pstep :=
  if kind =? 1 then [w_ready n_lock; w_wait n_dial None]
  else [w_ready n_lock; w_ready n_dial; w_ready n_hs_write; w_wait n_hs_read None].

Definition run_c05dialq (c : list Z) : list Z :=
  match c with
  | kind :: longD :: stagger :: shorts =>
      let first := scen_result longD longD (path_first kind) 0 in
      let released := match run_path longD longD (path_first kind) 0 with Some t => Some t | None => None end in
      first ++ flat_map (fun d =>
        scen_result (stagger + d) (stagger + d) (w_wait n_lock released :: tl (path_first kind)) stagger) shorts
  | _ => [-1]
  end.

(* noanswer: deadline *)
Definition run_c05noanswer (c : list Z) : list Z :=
  match c with
  | [d] => scen_result d d (path_call None) 0
  | _ => [-1]
  end.

(* cancel: deadline after answer.  The caller cancels [after] ms into the call (0: never).
   A peer that answers does so at once: the outcome is then a race between the response and
   the cancellation, and only "a valid outcome by the earlier of cancellation and deadline"
   is predicted (class 2). *)
Definition run_c05cancel (c : list Z) : list Z :=
  match c with
  | [d; after; answer] =>
      let dc := if after >? 0 then Z.min after d else d in
      if answer =? 0 then scen_result dc d (path_call None) 0 else [2; 0]
  | _ => [-1]
  end.

(* relayscen: hop dir off mode total.  A fault at byte offset off < total of either stream of
   either hop leaves the caller without a complete response: error, in time. *)
Definition run_c05relay (c : list Z) : list Z :=
  match c with
  | [hop; dir; off; mode; total] => [zb (off <? total); 1]
  | _ => [-1]
  end.
