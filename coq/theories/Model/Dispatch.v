(* Hand model (property C10, "one responder per request id") of WHO is handed an inbound call:

     server   inbound.go dispatchInbound (after readMethod) -> the internal handlers of the
              "tchannel" service, or the channel's root handler, which channel.go NewChannel
              chooses among
                channelHandler        (default: the sub-channel of the service name, whose
                                       default handler is a handlerMap: the registered method
                                       handler, or the "no handler" error frame)
                opts.Handler          (ChannelOptions.Handler)
                userHandlerWithSkip   (Handler + SkipHandlerMethods: the methods of the skip set
                                       go to channelHandler, every other method to opts.Handler)
     relay    relay.go handleCallReq: handleLocalCallReq (RelayLocalHandlers: a call to a service
              the relay channel serves itself is rejected with ONE error frame when its request
              is fragmented, else dispatched to the relay channel's own handlers, and is NOT
              relayed), then the admission of a call to be relayed: each refusing branch sends
              one error frame (or, for a rate-limit drop and a duplicate id, none) and returns;
              only the last branch adds the relay items (from then on Model/RelayItems.v answers).

   A responder is whatever may write frames for the request id towards the caller.  The model
   gives, per input, the LIST of responders in invocation order; Proofs/DispatchP.v proves that
   the traces regenerated from the Go source (Gen/GenDispatch.v) expand to exactly this list and
   that the list never has more than one element.

   No proofs here. *)
From Coq Require Import ZArith List Bool.
From Verif Require Import Model.RespWire.
Import ListNotations.
Local Open Scope Z_scope.

(* ---- server ------------------------------------------------------------------------------ *)

Inductive dp_root := DpChannel | DpUser | DpSkip.        (* the switch of NewChannel *)

(* channel.go NewChannel: Handler and SkipHandlerMethods select the root handler *)
Definition dp_root_of (has_skip has_handler : bool) : dp_root :=
  if has_handler then (if has_skip then DpSkip else DpUser) else DpChannel.
Definition dp_root_code (r : dp_root) : Z :=
  match r with DpChannel => 0 | DpUser => 1 | DpSkip => 2 end.

Inductive dp_leaf :=
| DpInternal      (* a handler of c.internalHandlers (service "tchannel") *)
| DpUserHandler   (* ChannelOptions.Handler *)
| DpMethod        (* the handler registered for the method on the sub-channel *)
| DpNoHandler.    (* handlerMap.Handle: SendSystemError(ErrCodeBadRequest "no handler for ...") *)

Record dp_env := {
  d_root : dp_root;
  d_is_tchannel : bool;     (* call.ServiceName() == "tchannel" *)
  d_has_internal : bool;    (* c.internalHandlers.find(method) != nil *)
  d_skipped : bool;         (* "service::method" is in SkipHandlerMethods *)
  d_registered : bool       (* the sub-channel's handlerMap has a handler for the method *)
}.

Definition dp_hmap (e : dp_env) : list dp_leaf :=
  if d_registered e then [DpMethod] else [DpNoHandler].

Definition dp_channel (e : dp_env) : list dp_leaf := dp_hmap e.

Definition dp_skip (e : dp_env) : list dp_leaf :=
  if d_skipped e then dp_channel e else [DpUserHandler].

Definition dp_root_handle (e : dp_env) : list dp_leaf :=
  match d_root e with
  | DpChannel => dp_channel e
  | DpUser => [DpUserHandler]
  | DpSkip => dp_skip e
  end.

Definition dp_leaves (e : dp_env) : list dp_leaf :=
  if d_is_tchannel e && d_has_internal e then [DpInternal] else dp_root_handle e.

(* The handler API calls of call [id] in a run of Model/RespWire.v, in order (the handler
   goroutine of a call is sequential: when dispatch hands the call to several responders, one
   after the other, their API calls follow each other in this list). *)
Definition dp_hlabel (id : Z) (l : label) : bool :=
  match l with
  | HResp i | HReadFail i _ | HArgWriter i _ | HFlush i _ | HFlushSel i _
  | HNewFrag i | HClose i _ | HDone i | HSysErr i _ | HSetAppErr i | HBlackhole i
  | HHelperWrite i _ _ => i =? id
  | _ => false
  end.

Definition dp_hlabels (id : Z) (ls : list label) : list label := filter (dp_hlabel id) ls.

(* ---- relay ------------------------------------------------------------------------------- *)

Inductive rl_resp :=
| RlErrFragmented   (* error frame: fragmented call to a local service *)
| RlLocal           (* handleFrameNoRelay: the relay channel's own dispatch answers *)
| RlErrStart        (* error frame: RelayHost.Start failed *)
| RlErrInactive     (* error frame: this / the selected connection is not active *)
| RlErrDest         (* error frame of getDestination: bad relay host / connection failed *)
| RlRelayed.        (* relay items added: the destination's response, the timeout or the failure path answers *)

Record rl_env := {
  r_is_local : bool;      (* the service is in RelayLocalHandlers *)
  r_fragmented : bool;    (* the call req frame has the more-fragments flag *)
  r_start_err : bool;     (* RelayHost.Start returned an error *)
  r_drop : bool;          (* ... a relay.RateLimitDropError *)
  r_is_protocol : bool;   (* ... with code ErrCodeProtocol (the connection is closed too) *)
  r_can_handle : bool;    (* r.canHandleNewCall() *)
  r_found : bool;         (* getDestination: the id already has an item (duplicate id) *)
  r_tomb : bool;
  r_dest_ok : bool;       (* call.Destination() found a peer *)
  r_conn_ok : bool;       (* peer.getConnectionRelay succeeded *)
  r_remote_can : bool;    (* remoteConn.relay.canHandleNewCall() *)
  r_appends : bool;       (* the frame carries arg2 appends (fragmentingSend) *)
  r_sent : bool           (* the destination's Receive accepted the frame *)
}.

Definition rl_responders (e : rl_env) : list rl_resp :=
  if r_is_local e then (if r_fragmented e then [RlErrFragmented] else [RlLocal])
  else if r_start_err e then (if r_drop e then [] else [RlErrStart])
  else if negb (r_can_handle e) then [RlErrInactive]
  else if r_found e then []                 (* duplicate id: no frame here (C03 / C04) *)
  else if negb (r_dest_ok e) then [RlErrDest]
  else if negb (r_conn_ok e) then [RlErrDest]
  else if negb (r_remote_can e) then [RlErrInactive]
  else [RlRelayed].
